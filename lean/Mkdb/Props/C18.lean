import Mkdb.Proofs.NoPanicExec
import Mkdb.Proofs.SpecRefineB
import Mkdb.Proofs.SessionInv9
import Mkdb.Proofs.TypedTables7
import Mkdb.Proofs.SessionSelect1
import Mkdb.Proofs.CatalogTables4
import Mkdb.Proofs.CatalogTables5
/-!
# C18 — no statement can crash the engine (SELECT evaluation)

Property theorems only (proofs in `Mkdb/Proofs/NoPanicExec.lean`).  Quantifier: every
database content whose rows have one value per column (any values: NULLs, any types), every
SELECT the parser can produce.  Termination is structural recursion on the row lists.
-/
namespace Mkdb.Exec
open Mkdb.Sql Mkdb.Exec.NoPanicP

/-- **C18.no_panic_partial**: on well-shaped tables, whatever the query (unknown, ambiguous or
duplicated columns, wrong-typed comparisons, AVG over non-integers, empty tables, NULLs …),
evaluation returns rows or an error value; the single remaining panic of the model is the
sort comparator meeting two non-NULL values of different types in one ORDER BY column.
Hypothesis `hq` (`ParsedShape`, decidable; spelled out in `C18_parsedShape_def`): the select list is not
empty, it is `*` alone or does not start with `*`, and no written LIMIT / OFFSET is negative.  Every
SELECT the parser returns has this shape (`C18_parsed_select_has_the_shape`); the exported function
`engine.EvaluateSelect` takes it for granted, and a hand-built statement without it panics, in the Go
code as in the model: `C18_empty_list_and_negative_bounds_counterexample`,
`C18_star_aggregate_counterexample`, `C18_star_group_by_counterexample`. -/
theorem C18_no_panic_partial {fetch : Bytes → Option Table} (hw : WellShaped fetch) (q : Select)
    (hq : ParsedShape q) (s : String)
    (h : evaluateSelect fetch q = .panic s) : s = "sortColumns: no comparison available" :=
  no_panic_except_sort_parsed_shape hw q hq s h

/-- the shape hypothesis, spelled out -/
theorem C18_parsedShape_def (q : Select) :
    ParsedShape q ↔ q.list ≠ [] ∧ (isStar q.list = true → q.list.length = 1) ∧
      ((!q.lim.offsetActive || decide (0 ≤ q.lim.offset)) &&
       (!q.lim.limitActive || decide (0 ≤ q.lim.limit))) = true := Iff.rfl

/-- in the terms of the earlier statement of the theorem: `*` alone, or a non-empty list that does not
start with `*`; and bounds that are not negative -/
theorem C18_parsedShape_iff (q : Select) :
    ParsedShape q ↔ ((∃ a, q.list = [⟨.star, a⟩]) ∨ (isStar q.list = false ∧ q.list ≠ [])) ∧
      Spec.boundsOK q.lim = true := by
  constructor
  · intro h
    refine ⟨?_, h.bounds⟩
    rcases h.star with e | e
    · exact .inl e
    · exact .inr ⟨e, h.ne_nil⟩
  · rintro ⟨⟨a, e⟩ | ⟨e, hne⟩, hb⟩
    · exact ParsedShape.of_star hb e
    · exact ParsedShape.of_nostar hne hb e

/-- non-vacuity: `SELECT * FROM t LIMIT 5 OFFSET 0` and `SELECT count(*) FROM t` have the shape -/
example : ParsedShape
      { list := [⟨.star, []⟩]
        from_ := some (.table ⟨[116], none⟩)
        lim := { limitActive := true, limit := 5, offsetActive := true } } ∧
    ParsedShape { list := [⟨.count none, []⟩], from_ := some (.table ⟨[116], none⟩) } := by decide

/-- **C18.sort_safe**: that remaining panic cannot occur when every ORDER BY column holds
values of one type or NULL — which is what typed storage (C08) delivers. -/
theorem C18_sort_safe (ob : List SortSpec) (hdr : List Field) (rows : List Row)
    (h : ∀ sp ∈ ob, ∀ i, findColumn sp.key hdr = .ok i →
      ∀ a ∈ rows, ∀ b ∈ rows, Comparable ((a[i]?).getD .null) ((b[i]?).getD .null))
    (s : String) : sortColumns ob hdr rows ≠ .panic s :=
  sort_safe_of_comparable ob hdr rows h s

/-- the shape hypothesis of `C18_no_panic_partial` is necessary (1): `SELECT *, count(*), 1 FROM t` - a
select list that starts with `*` and also holds an aggregate, which the parser never builds.  The rows
of a `*` list are not projected, and the grouping loop indexes them with the select-list position of
the COUNT - from the second row of a group on: on the one-column table with the rows 1, 2 (one group)
`Vals[1]` is past the end of the row, a panic; on ONE row the loop touches nothing and the answer is
that row, `[[1]]`.  Both as the Go code (`EvaluateSelect` on the hand-built statement: `index out of
range [1] with length 1`, resp. `[[1]]`). -/
theorem C18_star_aggregate_counterexample :
    evaluateSelect (fun _ => some ⟨[[105]], [[.int 1], [.int 2]]⟩) exStarAgg =
      .panic "aggregateRows: Vals[colIdx]" ∧
    evaluateSelect (fun _ => some ⟨[[105]], [[.int 1]]⟩) exStarAgg = .ok ([[.int 1]], [⟨[116], [105]⟩]) ∧
    ¬ ParsedShape exStarAgg :=
  ⟨star_aggregate_panics.1, star_aggregate_panics.2, by decide⟩

/-- likewise (2) for the grouping path without an aggregate (`SELECT a FROM t GROUP BY a` groups): a
select list that starts with `*` and goes on (which the parser never builds) with a GROUP BY on a
later column indexes the unprojected row with the select-list position of that column for the group
key - past the end of a one-column row, on the first row already (Go: `index out of range [1] with
length 1`).  With a list the parser can build the path is covered by `C18_no_panic_partial`: the
projected rows have one value per select-list element. -/
theorem C18_star_group_by_counterexample :
    evaluateSelect (fun _ => some ⟨[[105]], [[.int 1]]⟩)
      { list := [⟨.star, []⟩, ⟨.expr (.val (.col ⟨[], [105]⟩)), []⟩],
        from_ := some (.table ⟨[116], none⟩),
        groupBy := [⟨[], [105]⟩] } = .panic "aggregateRows: groupKey row.Vals[idx]" :=
  star_group_by_panics

/-- and (3): an empty select list is indexed at `[0]` (with or without FROM), an active negative LIMIT
or OFFSET is a slice out of range - on a table without rows already (Go: `index out of range [0] with
length 0`, `slice bounds out of range [:-1]`, `[-1:]`).  The parser returns no such statement. -/
theorem C18_empty_list_and_negative_bounds_counterexample :
    evaluateSelect (fun _ => some ⟨[[105]], []⟩) { list := [], from_ := some (.table ⟨[116], none⟩) } =
      .panic "projectColumns: selectList[0]" ∧
    evaluateSelect (fun _ => none) { list := [] } = .panic "projectColumns: selectList[0]" ∧
    evaluateSelect (fun _ => some ⟨[[105]], []⟩)
      { list := [⟨.star, []⟩], from_ := some (.table ⟨[116], none⟩),
        lim := { limitActive := true, limit := -1 } } = .panic "limit: rows[0:limit]" ∧
    evaluateSelect (fun _ => some ⟨[[105]], []⟩)
      { list := [⟨.star, []⟩], from_ := some (.table ⟨[116], none⟩),
        lim := { offsetActive := true, offset := -1 } } = .panic "offset: rows[offset:]" :=
  empty_list_and_negative_bounds_panic

end Mkdb.Exec

namespace Mkdb.Store
open Mkdb.Tree Mkdb.Page Mkdb.Tuple Mkdb.Generated

/-- **C18.dml_ddl_never_crash**: for every database state related to a plain database (`Rel`: the
catalog invariant, any number of tables of any size and depth), every CREATE TABLE / INSERT / UPDATE /
DELETE the parser can produce - unknown tables and columns, wrong types, NULLs, out-of-range integers,
oversized rows, WHERE clauses that cannot be evaluated, duplicate tables - the engine model returns
`.ok` or `.err`: never a panic, never an unmodelled path, never out of fuel (fuel exhaustion is how the
model would show a hang).  Side conditions: `StmtNames` - the statement does not address the two
catalog tables by name; `StmtRoomT` - literals that fit their Go types and the size room (64-level
fuel, offsets below 2^63) for INSERT and CREATE TABLE only. -/
theorem C18_dml_ddl_never_crash (db : Engine.DB) (order : List Nat) (pt sch : Levels)
    (tbls : List (Bytes × Levels)) (sdb : Spec.SDB) (h : Rel db pt sch tbls sdb) (st : Sql.Stmt)
    (hnames : StmtNames pt tbls st) (hroom : StmtRoomT db pt sch tbls st) :
    (∀ p, evalStmt db order st ≠ .panic p) ∧ (∀ w, evalStmt db order st ≠ .unmodelled w) ∧
      evalStmt db order st ≠ .fuel :=
  (evalStmt_total db order pt sch tbls sdb h st hnames hroom).not_crash

/-- and a refused statement leaves the log alone (`Total`) -/
theorem C18_dml_ddl_total (db : Engine.DB) (order : List Nat) (pt sch : Levels)
    (tbls : List (Bytes × Levels)) (sdb : Spec.SDB) (h : Rel db pt sch tbls sdb) (st : Sql.Stmt)
    (hnames : StmtNames pt tbls st) (hroom : StmtRoomT db pt sch tbls st) :
    Total db (evalStmt db order st) :=
  evalStmt_total db order pt sch tbls sdb h st hnames hroom

end Mkdb.Store

namespace Mkdb.Store
open Mkdb.Tree Mkdb.Page Mkdb.Tuple Mkdb.Generated

/-- **C18.every_statement_keeps_the_database_invariant** (what makes `C18_dml_ddl_never_crash` hold for the
NEXT statement too, whatever the outcome of this one).  `DbInv db sdb pt sch tbls` (Proofs/SessionInv3):
the store abstracts to the plain database `sdb` with the catalog trees `pt`, `sch`, `tbls`; `sys_schema`
has no stale rows; the cache is filed; every record of the log is applied and behind the two counters;
every clean page is in the data file.  For every CREATE TABLE / INSERT / UPDATE / DELETE the parser can
produce the engine model returns `.ok` or `.err` - never a panic, an unmodelled path, exhausted fuel -
and the database it returns satisfies `DbInv` again for SOME plain database: the plain model's result
if the statement is accepted, the same plain database if it is refused before a change, the plain
database with the applied prefix if a multi-row INSERT / UPDATE is refused at a later row (the known
finding of C14 - the relation survives it).  Side conditions, per statement: `StmtNames` (the two
catalog tables are not addressed by name), `StmtRoomT` (INSERT literals that fit their Go types and the
size room - 64-level fuel, offsets below 2^63 - for INSERT and CREATE TABLE), `StmtLits` (UPDATE SET
literals that fit their Go types). -/
theorem C18_every_statement_keeps_the_database_invariant (db : Engine.DB) (order : List Nat) (sdb : Spec.SDB)
    (pt sch : Levels) (tbls : List (Bytes × Levels)) (h : DbInv db sdb pt sch tbls) (st : Sql.Stmt)
    (hnames : StmtNames pt tbls st) (hroom : StmtRoomT db pt sch tbls st) (hlits : StmtLits st) :
    ∃ db', (evalStmt db order st = .ok () db' ∨ ∃ e, evalStmt db order st = .err e db') ∧
      ∃ sdb' pt' sch' tbls', DbInv db' sdb' pt' sch' tbls' :=
  evalStmt_keeps_inv db order sdb pt sch tbls h st hnames hroom hlits

/-- non-vacuity: the database `CREATE DATABASE` leaves satisfies the invariant, and `CREATE TABLE t (a INT)`
meets the side conditions on it -/
example : DbInv newDB [] ptNew schNew [] ∧ StmtNames ptNew [] (.createTable tname acols) ∧
    StmtRoomT newDB ptNew schNew [] (.createTable tname acols) ∧ StmtLits (.createTable tname acols) :=
  ⟨(ckpt_newDB.dbFlushed noStale_new).inv, fun h => absurd h tname_ne_sys.1,
    ⟨room_create_t.2.2.1, room_create_t.2.2.2.1, room_create_t.2.2.2.2.1, room_create_t.2.2.2.2.2.1,
      room_create_t.2.2.2.2.2.2⟩, trivial⟩

end Mkdb.Store

namespace Mkdb.Session
open Mkdb.Engine Mkdb.Store Mkdb.Sql

/-- **C18.session_statement_never_crashes** (the session states: no USE yet, a refused USE, a refused
CREATE DATABASE, a selected database).  `SessInv s` (Proofs/SessionInv6): every database of the session
satisfies `DbInv` for some plain database, every database other than the selected one is closed (flushed:
nothing dirty, header and every page in the data file), the selected name - if any - is a database of
the session, names are distinct.  From such a session EVERY statement - CREATE DATABASE, USE, SHOW
DATABASES, SELECT, CREATE TABLE, INSERT, UPDATE, DELETE; valid or not; with or without a selected
database; naming a database that exists or not - returns a result or an error value, never `Out.panic`
(which is how the model shows a crash: a selected database that is not in the list, a statement
evaluator that panics, runs an unmodelled path or out of fuel, a CREATE DATABASE or close that fails),
and leaves a session that satisfies the invariant again.  `StmtSide s st`: the side conditions of
`C18_every_statement_keeps_the_database_invariant` for the selected database (none for the statements
not routed to it, none when nothing is selected).
CHANGED: the session model now EVALUATES a SELECT (`Exec.evaluateSelect` on what `Fetch` returns from the
selected database, `Session.fetchOfDB`), so this theorem genuinely covers SELECT statements: that the
evaluation returns rows or an error value - never a panic, the sort comparator included - is proved from
`C18_select_on_stored_tables_never_panics` under the invariant `DbInv` of the selected database
(`select_sessAbs`, Proofs/SessionInv6).  For that `StmtSide` has, for a `.select q`, the two conditions
of that theorem (`SelectSide`): the select list has a shape the parser builds - the shape hypothesis of
`C18_no_panic_partial`, which `C18_parsed_select_has_the_shape` discharges for every parsed statement -
and the FROM clause names neither `sys_pages` nor `sys_schema` (`UserTables q`; not known to be needed:
the gap of the invariant named in `C18_stored_tables_are_typed`). -/
theorem C18_session_statement_never_crashes (s : Sess) (h : SessInv s) (st : Sql.Stmt) (hside : StmtSide s st) :
    (exec s st).2 ≠ Out.panic ∧ SessInv (exec s st).1 := by
  obtain ⟨w, hw⟩ := h
  obtain ⟨w', h1, h2, _⟩ := exec_sessAbs hw st hside
  exact ⟨h2, w', h1⟩

/-- **C18.session_never_crashes**: run ANY list of statements from the empty session (no database
exists, none is selected), going on after every error value.  If each statement meets the side
conditions in the state it is run in (`SessOK`), no step returns `Out.panic` - in particular not with no
database selected (`C17_no_database_selected`: the error `noDbSelected`), not after a refused USE
(`C17_use_missing`, `C17_invalid_name_refused`), not after a refused CREATE DATABASE
(`C17_create_existing`) - and the final session satisfies the invariant.  The SELECT statements of the
history are EVALUATED on the database selected at that point (CHANGED: they were a stub of the session
model); `SessOK` asks of each of them a select list of a parser-produced shape and a FROM clause over user
tables (`SelectSide`), and nothing else. -/
theorem C18_session_never_crashes (sts : List Sql.Stmt) (hok : SessOK {} sts) :
    (∀ o ∈ (runAll {} sts).2, o ≠ Out.panic) ∧ SessInv (runAll {} sts).1 := by
  obtain ⟨hfin, houts⟩ := runAll_sessAbs sts {} (fun _ => []) (sessAbs_empty _) hok
  exact ⟨houts, hfin⟩

/-- **C18.plain_histories_meet_the_side_conditions** (non-vacuity of `SessOK` beyond single examples):
every history of CREATE DATABASE, USE, SHOW DATABASES, SELECT, DELETE and UPDATE statements - the last
two on any table name other than `sys_pages` / `sys_schema`, UPDATE with SET literals a Go program can
hold; SELECT with a select list of a shape the parser builds and a FROM clause that names neither catalog
table (CHANGED: `Plain (.select q)` was `True` while the session model did not evaluate queries) - meets
the side conditions from EVERY session state.  So no such history, of any length, over any number of
databases, makes the session model crash - its SELECTs are evaluated, each on the database selected when
it runs. -/
theorem C18_plain_histories_never_crash (sts : List Sql.Stmt) (h : ∀ st ∈ sts, Plain st) :
    (∀ o ∈ (runAll {} sts).2, o ≠ Out.panic) ∧ SessInv (runAll {} sts).1 :=
  C18_session_never_crashes sts (sessOK_plain sts {} h)

/-- non-vacuity: a history with a statement before any USE (a SELECT), a USE of a missing database, CREATE
DATABASE twice, an invalid name, DELETE / UPDATE / SELECT of a table that does not exist -/
example : ∀ st ∈ [Stmt.select exJoinQuery, .delete tname none, .use [120], .createDatabase [100], .createDatabase [100],
    .createDatabase [97, 47, 98], .use [100], .use [120], .delete tname none,
    .update tname [([97], .lit (.int 7))] none, .select exGroupQuery, .showDatabases], Plain st := by
  intro st hst
  simp only [List.mem_cons, List.not_mem_nil, or_false] at hst
  rcases hst with rfl | rfl | rfl | rfl | rfl | rfl | rfl | rfl | rfl | rfl | rfl | rfl
  all_goals first
    | exact trivial
    | exact tname_ne_sys
    | exact ⟨exQueries_ok.1, exQueries_ok.2.1⟩
    | exact ⟨exQueries_ok.2.2.1, exQueries_ok.2.2.2⟩
    | refine ⟨tname_ne_sys, ?_⟩
      intro p hp l hl
      simp only [List.mem_singleton] at hp
      subst hp
      simp only [VExpr.lit.injEq] at hl
      subst hl
      exact ⟨by decide, by decide⟩

/-- non-vacuity with a table and rows: in the session whose selected database is the one
`CREATE DATABASE; CREATE TABLE t (a INT)` produces (computed by the model), the invariant holds and
`INSERT INTO t VALUES (5), (6)` meets the side conditions -/
example : SessInv sessT ∧ StmtSide sessT (.insert tname [] [[.int 5], [.int 6]]) :=
  ⟨⟨_, sessAbs_sessT⟩, stmtSide_sessT⟩

end Mkdb.Session

/-! ## SELECT on STORED tables: typed storage discharges the hypotheses of the SELECT theorems

`C18_no_panic_partial` asks for well-shaped tables and leaves one panic open (the sort comparator on a
column of mixed types); `C18_sort_safe` closes it for columns of one type.  This section shows that the
tables a SELECT reads from a database that statements produced ARE well shaped and typed, that every
output column of a SELECT over typed tables holds values of one type or NULL, and so that a SELECT on a
stored database never panics.  Proofs: `Mkdb/Proofs/TypedTables1.lean` … `TypedTables7.lean`.
`rowHas ks row` (TypedTables1): the row has exactly one value per entry of the list of kinds `ks`, each
NULL or of that kind (`Kind`: integer, string, boolean). -/

namespace Mkdb.Spec
open Mkdb.Exec.TypedP

/-- **C18.plain_database_stays_typed** (deliverable 1).  `Typed sdb` (Proofs/TypedTables4): the tables of
the plain in-memory database have distinct names, and every row of every table has exactly one value per
declared column, each NULL or of the column's kind (INT / BIGINT: an integer, VARCHAR: a string, BOOLEAN: a
boolean - `kindOf`, read off `Tuple.validate`).  The empty database is typed, and every statement the
plain model accepts keeps it typed: INSERT because `rowOf` lets a row through only if `Tuple.Encode`
accepts it for the table's columns, UPDATE because its per-row check is the same, DELETE because it only
removes rows, CREATE TABLE because the new table is empty and its name fresh; so the plain database of
every history (`specHist`: refused statements change nothing) is typed. -/
theorem C18_plain_database_stays_typed :
    Typed [] ∧
    (∀ (sdb sdb' : SDB) (st : Sql.Stmt), Typed sdb → specStmt sdb st = some sdb' → Typed sdb') ∧
    ∀ sts : List Sql.Stmt, Typed (Mkdb.Store.specHist [] sts) :=
  ⟨typed_empty, fun _ _ _ h hs => h.specStmt hs, fun sts => Mkdb.Store.typed_specHist sts [] typed_empty⟩

/-- the distinct table names are part of `Typed` because they are needed: with two tables of one name
(which CREATE TABLE never produces) the INSERT of the plain model checks the row against the first table
and appends it to both - here an integer lands in a VARCHAR column -/
theorem C18_typed_rows_need_distinct_names :
    TypedRows [⟨[116], [⟨"a", .int, 0⟩], []⟩, ⟨[116], [⟨"a", .varchar, 9⟩], []⟩] ∧
    specStmt [⟨[116], [⟨"a", .int, 0⟩], []⟩, ⟨[116], [⟨"a", .varchar, 9⟩], []⟩] (.insert [116] [] [[.int 1]]) =
      some [⟨[116], [⟨"a", .int, 0⟩], [⟨none, [.int 1]⟩]⟩, ⟨[116], [⟨"a", .varchar, 9⟩], [⟨none, [.int 1]⟩]⟩] ∧
    ¬ TypedRows [⟨[116], [⟨"a", .int, 0⟩], [⟨none, [.int 1]⟩]⟩, ⟨[116], [⟨"a", .varchar, 9⟩], [⟨none, [.int 1]⟩]⟩] :=
  typedRows_alone_is_not_invariant

/-- non-vacuity: the plain database after `CREATE TABLE t (a INT); INSERT INTO t VALUES (5), (6)` is typed,
by the theorem -/
example : Typed Mkdb.Store.sdbA1 :=
  (C18_plain_database_stays_typed.2.1 _ _ (.insert Mkdb.Store.tname [] [[.int 5], [.int 6]])
    (C18_plain_database_stays_typed.2.1 [] _ (.createTable Mkdb.Store.tname Mkdb.Store.acols)
      C18_plain_database_stays_typed.1 Mkdb.Store.spec_create_t) rfl)

end Mkdb.Spec

namespace Mkdb.Exec
open Mkdb.Sql Mkdb.Exec.NoPanicP Mkdb.Exec.TypedP

/-- **C18.select_output_columns_are_typed** (deliverable 3).  `KindedFetch fetch`: every table the
executor can read has a list of kinds, one per column, that every row meets (this contains `WellShaped`).
Then for every SELECT whose select list has a shape the parser builds - any FROM clause: inner, LEFT and
RIGHT joins, nested, with their NULL padding; any WHERE; any GROUP BY; any aggregates; ORDER BY, OFFSET,
LIMIT - the evaluation does not panic, and if it returns rows there is ONE list of kinds that every
returned row meets: each output column holds values of one kind or NULL.  The kind of an output column is
`itemKind` (Proofs/TypedTables2): a column keeps the kind of its source column (`projectItem_kind`), also
as a grouping column (`aggregateRows_kinded`: read from the first row of the group); COUNT and AVG give
integers, over an empty input too; a literal has its own kind; a comparison, AND, OR gives a boolean or an
error value (`evaluate_kind`).  No expression kind breaks this - no reachable sort panic was found. -/
theorem C18_select_output_columns_are_typed {fetch : Bytes → Option Table} (hk : KindedFetch fetch) (q : Select)
    (hq : Exec.NoPanicP.ParsedShape q) :
    (∀ s, evaluateSelect fetch q ≠ .panic s) ∧
    ∀ rows hdr, evaluateSelect fetch q = .ok (rows, hdr) → ∃ ks : List Kind, ∀ r ∈ rows, rowHas ks r = true :=
  ⟨evaluateSelect_no_panic hk q hq, fun _ _ e => (evaluateSelect_kinded hk q hq).of_ok e⟩

/-- the stage-by-stage form: the rows projection hands to aggregation and aggregation hands to ORDER BY are
kinded by `outKinds` - the kinds of the sources for `SELECT *`, the `itemKind`s of the select list
otherwise - which is what `C18_sort_safe` needs for every ORDER BY key, whatever position it resolves to -/
theorem C18_sorted_rows_are_comparable (q : Select) (fields : List Field) (ks : List Kind) (rows : List Row)
    (hq : Exec.NoPanicP.ParsedShape q)
    (hlen : ∀ r ∈ rows, r.length = fields.length) (hk : ∀ r ∈ rows, rowHas ks r = true)
    (out : List Row) (hdr : List Field) (h : SelectP.selectTail q fields rows = .ok (out, hdr)) :
    (∀ r ∈ out, rowHas (outKinds q.list fields ks) r = true) ∧
    ∀ a ∈ out, ∀ b ∈ out, ∀ i : Nat, Comparable ((a[i]?).getD .null) ((b[i]?).getD .null) := by
  have h1 := (selectTail_kinded q fields ks rows hq hlen hk).of_ok h
  exact ⟨h1, fun a ha b hb i => rowHas_comparable (h1 a ha) (h1 b hb) i⟩

/-- non-vacuity: `SELECT b, a … ORDER BY b` over the rows of a table with an integer column `a` and a
string column `b` (one NULL): the hypotheses hold and the tail of the evaluation returns the sorted rows -/
example : (∀ r ∈ Mkdb.Store.exKT.rows, r.length = [(⟨[116], [97]⟩ : Field), ⟨[116], [98]⟩].length) ∧
    (∀ r ∈ Mkdb.Store.exKT.rows, rowHas [.int, .str] r = true) ∧
    SelectP.selectTail
      { list := [⟨.expr (.val (.col ⟨[], [98]⟩)), []⟩, ⟨.expr (.val (.col ⟨[], [97]⟩)), []⟩],
        orderBy := [⟨⟨[], [98]⟩, false⟩] }
      [⟨[116], [97]⟩, ⟨[116], [98]⟩] Mkdb.Store.exKT.rows =
    .ok ([[.null, .int 2], [.str [120], .int 1], [.str [121], .int 3]], [⟨[116], [98]⟩, ⟨[116], [97]⟩]) :=
  ⟨by decide, by decide, rfl⟩

/-- non-vacuity: a table with an integer and a string column (with a NULL) is kinded; its LEFT JOIN with
itself, sorted on a column the padding fills with NULLs, evaluates to the four rows -/
example : KindedFetch Mkdb.Store.exKFetch ∧
    (Exec.NoPanicP.ParsedShape Mkdb.Store.exJoinQuery) ∧
    Mkdb.Store.selectGives (evaluateSelect Mkdb.Store.exKFetch Mkdb.Store.exJoinQuery)
      [[.int 1, .str [120], .int 3, .str [121]], [.int 2, .null, .int 3, .str [121]],
       [.int 1, .str [120], .int 2, .null], [.int 3, .str [121], .null, .null]]
      [⟨[120], [97]⟩, ⟨[120], [98]⟩, ⟨[121], [97]⟩, ⟨[121], [98]⟩] = true :=
  ⟨Mkdb.Store.exKFetch_kinded, Mkdb.Store.exQueries_ok.2.2.1, Mkdb.Store.exJoin_on_exKFetch⟩

/-- the hypothesis `KindedFetch` is needed: on a table whose one column holds an integer and a string
(which typed storage never produces) `SELECT * FROM t ORDER BY i` panics in the sort comparator -/
example : evaluateSelect (fun _ => some ⟨[[105]], [[.int 1], [.str [97]]]⟩)
    { list := [⟨.star, []⟩], from_ := some (.table ⟨[116], none⟩), orderBy := [⟨⟨[], [105]⟩, false⟩] } =
    .panic "sortColumns: no comparison available" := rfl

end Mkdb.Exec

namespace Mkdb.Store
open Mkdb.Tree Mkdb.Page Mkdb.Tuple Mkdb.Generated Mkdb.Exec Mkdb.Exec.TypedP Mkdb.Sql

/-- **C18.stored_tables_are_typed** (deliverable 2).  `fetchOf db` (Proofs/TypedTables5) is the `fetch`
function `evaluateSelect` is run with on a stored database: `RelationService.Fetch` (`Store.fetchTable`)
of the table, handed to the executor as `Engine.fetchForExec` hands it to UPDATE / DELETE (column names as
bytes, rows without row ids); an error value of `Fetch` is `none`, which the executor answers with an
error value.  For a database that satisfies the invariant `DbInv` (what every statement of a session
keeps): (1) `fetchOf db` is well shaped - for ANY database, invariant or not: every row `Fetch` returns is
one decoded tuple read in schema order (`fetchTable_rows`); (2) the plain database `sdb` it abstracts to
is `Typed` - this is a consequence of the invariant (every row is decoded with a schema of distinct column
names, `decodeTuple_kinds`), not an extra assumption; (3) for every table name other than `sys_pages` /
`sys_schema`, `Fetch` returns rows or an error value (`FetchTotal`: no panic, unmodelled path, exhausted
fuel), and what the SELECT then reads is the table of the plain database: its declared columns, exactly
its rows, every row kinded by the declared column types.  The two catalog tables are excluded from (3):
the invariant describes the `sys_schema` rows of the user tables only (see
`C18_select_on_any_table_never_panics` for a check that covers them). -/
theorem C18_stored_tables_are_typed (db : Engine.DB) (sdb : Spec.SDB) (pt sch : Levels)
    (tbls : List (Bytes × Levels)) (h : DbInv db sdb pt sch tbls) :
    NoPanicP.WellShaped (fetchOf db) ∧ Spec.Typed sdb ∧
    ∀ n, n ≠ sysPages → n ≠ sysSchema → FetchTotal db n ∧
      ∀ t, fetchOf db n = some t → ∃ tb, Spec.findTable sdb n = some tb ∧
        t.cols = tb.cols.map (fun fd => fd.name.toUTF8.toList) ∧ t.rows = tb.rows.map (·.vals) ∧
        ∀ r ∈ t.rows, rowHas (Spec.colKinds tb.cols) r = true :=
  ⟨fetchOf_wellShaped db, h.typed, fun n h1 h2 => stored_table_typed h.abs n h1 h2⟩

/-- well-shapedness needs no hypothesis at all: whatever the store, the rows `Fetch` returns have one
value per column of the schema it returns -/
theorem C18_fetched_tables_are_well_shaped (db : Engine.DB) : NoPanicP.WellShaped (fetchOf db) :=
  fetchOf_wellShaped db

/-- non-vacuity on the computed database `CREATE DATABASE; CREATE TABLE t (a INT)` leaves: the invariant
holds, and the SELECT reads the empty table with the column `a` for `t`, nothing for an unknown name -/
example : DbInv tableDB sdbA0 ptT schT [(tname, tT)] ∧
    (fetchOf tableDB tname).map (fun t => (t.cols, t.rows)) = some ([[97]], []) ∧
    (fetchOf tableDB [117]).isNone = true :=
  ⟨dbFlushed_tableDB.inv, fetchOf_tableDB.1, fetchOf_tableDB.2⟩

/-- **C18.select_on_stored_tables_never_panics** (deliverable 4).  For every database that satisfies the
invariant `DbInv` - the database `CREATE DATABASE` leaves does, and every CREATE TABLE / INSERT / UPDATE /
DELETE keeps it (`C18_every_statement_keeps_the_database_invariant`); `Typed sdb` follows from it
(`C18_stored_tables_are_typed`) - and every SELECT whose select list has a shape the parser builds (`hq`:
the hypothesis of `C18_no_panic_partial`; `C18_parsed_select_has_the_shape`) and whose FROM clause names
user tables (`UserTables q`: neither `sys_pages` nor `sys_schema`): `Fetch` of every table read returns
rows or an error value, `evaluateSelect (fetchOf db) q` is `.ok` or `.err` - NEVER `.panic`, the sort
comparator included -, and every column of the rows it returns holds values of one kind or NULL.
Termination: `evaluateSelect` is structural recursion on the row lists, `Fetch` runs on fuel that
`FetchTotal` shows is not exhausted.  `UserTables` is not known to be needed: it is the gap of the
invariant named in `C18_stored_tables_are_typed`. -/
theorem C18_select_on_stored_tables_never_panics (db : Engine.DB) (sdb : Spec.SDB) (pt sch : Levels)
    (tbls : List (Bytes × Levels)) (h : DbInv db sdb pt sch tbls) (q : Select)
    (hq : Exec.NoPanicP.ParsedShape q) (hn : UserTables q) :
    (∀ n ∈ selectNames q, FetchTotal db n) ∧ (∀ s, evaluateSelect (fetchOf db) q ≠ .panic s) ∧
    ∀ rows hdr, evaluateSelect (fetchOf db) q = .ok (rows, hdr) → ∃ ks : List Kind, ∀ r ∈ rows, rowHas ks r = true :=
  select_on_stored_never_panics h.abs q hq hn

/-- the same from the relation `Rel` of the refinement theorems (C01) -/
theorem C18_select_on_related_database_never_panics (db : Engine.DB) (sdb : Spec.SDB) (pt sch : Levels)
    (tbls : List (Bytes × Levels)) (h : Rel db pt sch tbls sdb) (q : Select)
    (hq : Exec.NoPanicP.ParsedShape q) (hn : UserTables q) :
    (∀ n ∈ selectNames q, FetchTotal db n) ∧ ∀ s, evaluateSelect (fetchOf db) q ≠ .panic s :=
  ⟨(select_on_stored_never_panics h.1 q hq hn).1, (select_on_stored_never_panics h.1 q hq hn).2.1⟩

/-- non-vacuity: the computed database is related to its plain database -/
example : Rel tableDB ptT schT [(tname, tT)] sdbA0 := rel_tableDB

/-- non-vacuity on the computed database: the hypotheses hold for `SELECT a, count(*) FROM t GROUP BY a
ORDER BY a` and for `SELECT * FROM t x LEFT JOIN t y ON x.a < y.a ORDER BY y.a DESC`, and both evaluate
(computed) to no rows under their headers -/
example : DbInv tableDB sdbA0 ptT schT [(tname, tT)] ∧
    (Exec.NoPanicP.ParsedShape exGroupQuery) ∧ UserTables exGroupQuery ∧
    (Exec.NoPanicP.ParsedShape exJoinQuery) ∧ UserTables exJoinQuery ∧
    selectGives (evaluateSelect (fetchOf tableDB) exGroupQuery) []
      [⟨tname, [97]⟩, ⟨[], "count(*)".toUTF8.toList⟩] = true ∧
    selectGives (evaluateSelect (fetchOf tableDB) exJoinQuery) [] [⟨[120], [97]⟩, ⟨[121], [97]⟩] = true :=
  ⟨dbFlushed_tableDB.inv, exQueries_ok.1, exQueries_ok.2.1, exQueries_ok.2.2.1, exQueries_ok.2.2.2,
    exQueries_on_tableDB.1, exQueries_on_tableDB.2⟩

/-- non-vacuity with rows: after `INSERT INTO t VALUES (5), (6)` on that database (accepted:
`C08_accepted_statement_is_read_back`) the theorem applies to the database the engine model returns -/
example : ∃ db', evalStmt tableDB [] (.insert tname [] [[.int 5], [.int 6]]) = .ok () db' ∧
    ∀ s, evaluateSelect (fetchOf db') exGroupQuery ≠ .panic s := by
  obtain ⟨db', pt', sch', tbls', e, hi'⟩ := dbFlushed_tableDB.inv.accepted [] _ room_insert56 sdbA1 rfl
  exact ⟨db', e, (C18_select_on_stored_tables_never_panics db' sdbA1 pt' sch' tbls' hi' exGroupQuery
    exQueries_ok.1 exQueries_ok.2.1).2.1⟩

/-- **C18.select_on_any_table_never_panics**: the two catalog tables included, on a database that passes
the Boolean check `catalogOK db` (`Fetch` of `sys_pages` and of `sys_schema` returns an error value or
rows under a schema of distinct column names; then those rows are typed too, `fetchTable_kinded`).  The
check is a hypothesis on the database, not proved to be kept by the statements. -/
theorem C18_select_on_any_table_never_panics (db : Engine.DB) (sdb : Spec.SDB) (pt sch : Levels)
    (tbls : List (Bytes × Levels)) (h : DbInv db sdb pt sch tbls) (hc : catalogOK db = true) (q : Select)
    (hq : Exec.NoPanicP.ParsedShape q) :
    (∀ n ∈ selectNames q, FetchTotal db n) ∧ ∀ s, evaluateSelect (fetchOf db) q ≠ .panic s :=
  select_any_table_never_panics h.abs hc q hq

/-- non-vacuity: the computed database passes the check, and `SELECT * FROM sys_schema ORDER BY field_type`
returns (computed) the seven rows of the catalog under four columns -/
example : DbInv tableDB sdbA0 ptT schT [(tname, tT)] ∧ catalogOK tableDB = true ∧
    (Exec.NoPanicP.ParsedShape exCatalogQuery) ∧
    (match evaluateSelect (fetchOf tableDB) exCatalogQuery with
      | .ok (rows, hdr) => rows.length == 7 && hdr.length == 4
      | _ => false) = true :=
  ⟨dbFlushed_tableDB.inv, catalogOK_tableDB.1, by decide, catalogOK_tableDB.2⟩

/-- **C18.parsed_select_has_the_shape**: the shape hypothesis of `C18_no_panic_partial` and of the theorems
above holds of every SELECT `Parser.Parse` returns (`C10_parsed_statements_are_wellformed`: the select
list is `*` alone or a non-empty list without `*`, and a negative LIMIT / OFFSET is refused with
`ErrNegativeLimit` / `ErrNegativeOffset`) -/
theorem C18_parsed_select_has_the_shape (ts : List Scan.Token) (q : Select) (h : parseTokens ts = .ok (.select q)) :
    Exec.NoPanicP.ParsedShape q :=
  parsed_select_shape h

/-- **C18.parsed_select_on_stored_tables_never_panics**: so for every token list the parser accepts as a
SELECT over user tables, on every database that satisfies the invariant, the evaluation returns rows or
an error value -/
theorem C18_parsed_select_on_stored_tables_never_panics (db : Engine.DB) (sdb : Spec.SDB) (pt sch : Levels)
    (tbls : List (Bytes × Levels)) (h : DbInv db sdb pt sch tbls) (ts : List Scan.Token) (q : Select)
    (hp : parseTokens ts = .ok (.select q)) (hn : UserTables q) (s : String) :
    evaluateSelect (fetchOf db) q ≠ .panic s :=
  (select_on_stored_never_panics h.abs q (parsed_select_shape hp) hn).2.1 s

/-- non-vacuity: the tokens of `SELECT * FROM t;` parse to a SELECT over the user table `t` -/
example : parseTokens [⟨t_SELECT, []⟩, ⟨t_ASTRSK, []⟩, ⟨t_FROM, []⟩, ⟨t_IDENT, [116]⟩, ⟨t_SEMICOLON, []⟩] =
      .ok (.select { list := [⟨.star, []⟩], from_ := some (.table ⟨[116], none⟩) }) ∧
    UserTables { list := [⟨.star, []⟩], from_ := some (.table ⟨[116], none⟩) } :=
  ⟨rfl, by decide +kernel⟩

/-- **C18.select_after_any_history_never_panics**: run any list of statements from the database
`CREATE DATABASE` leaves, each accepted by the plain model (with room) or refused before a change
(`HistOK`, the hypothesis of `from_create_database_history`); on the database reached, a SELECT of a
parser-produced shape over user tables never panics. -/
theorem C18_select_after_any_history_never_panics (sts : List Sql.Stmt) (hok : HistOK [] sts newDB []) :
    ∃ db', runHist [] newDB sts = some db' ∧ ∀ q : Select,
      (Exec.NoPanicP.ParsedShape q) → UserTables q →
      (∀ n ∈ selectNames q, FetchTotal db' n) ∧ ∀ s, evaluateSelect (fetchOf db') q ≠ .panic s :=
  history_select_never_panics sts hok

/-- non-vacuity: `histOK_create_t` (Proofs/BaseCase1) - the history `CREATE TABLE t (a INT)` -/
example : HistOK [] [.createTable tname acols] newDB [] := histOK_create_t

end Mkdb.Store

namespace Mkdb.Session
open Mkdb.Engine Mkdb.Store Mkdb.Sql Mkdb.Exec

/-- **C18.session_select_never_panics** (a SELECT evaluated on ANY database of the session reached, not
only on the selected one as `Session.exec` now does - `C18_session_never_crashes`,
`C18_session_select_is_answered_or_refused`).  Run ANY list of statements from the empty session, going on after every error value (`SessOK`: the side
conditions of `C18_session_never_crashes`).  In the session reached, on EVERY database of the session -
the selected one in particular - every SELECT of a parser-produced shape over user tables reads its
tables without a crash of `Fetch` and evaluates to rows or an error value: never a panic. -/
theorem C18_session_select_never_panics (sts : List Sql.Stmt) (hok : SessOK {} sts) :
    ∀ p ∈ (runAll {} sts).1.dbs, ∀ q : Select,
      (Exec.NoPanicP.ParsedShape q) → UserTables q →
      (∀ n ∈ selectNames q, FetchTotal p.2 n) ∧ ∀ x, evaluateSelect (fetchOf p.2) q ≠ .panic x :=
  session_select_never_panics sts hok

/-- non-vacuity: a history with a refused USE, two CREATE DATABASE, a USE and a SELECT meets `SessOK`; the
SELECT is evaluated (computed by the model) on the database `CREATE DATABASE` left, which has no table
`t`: the error value `tableNotExist` -/
example : SessOK {} [.use [120], .createDatabase [100], .createDatabase [101], .use [100], .select exGroupQuery] ∧
    (runAll {} [.use [120], .createDatabase [100], .createDatabase [101], .use [100], .select exGroupQuery]).2.map
      (Out.isErr "tableNotExist") = [false, false, false, false, true] :=
  ⟨sessOK_plain _ {} (by
    intro st hst
    simp only [List.mem_cons, List.not_mem_nil, or_false] at hst
    rcases hst with rfl | rfl | rfl | rfl | rfl
    all_goals first
      | exact trivial
      | exact ⟨exQueries_ok.1, exQueries_ok.2.1⟩), select_on_new_database_refused⟩

/-- non-vacuity with a real evaluation that is answered: from the session whose selected database holds the
table `t (a INT)` (`sessT`: it satisfies the invariant) the two SELECTs - GROUP BY with COUNT and ORDER BY, a
LEFT JOIN of `t` with itself sorted on the padded column - meet `SessOK`, read the pages of `t` and are
answered (computed by the model) -/
example : SessInv sessT ∧ SessOK sessT [.select exGroupQuery, .select exJoinQuery] ∧
    (runAll sessT [.select exGroupQuery, .select exJoinQuery]).2.map Out.isOk = [true, true] :=
  ⟨⟨_, sessAbs_sessT⟩, sessOK_plain _ _ (by
    intro st hst
    simp only [List.mem_cons, List.not_mem_nil, or_false] at hst
    rcases hst with rfl | rfl
    · exact ⟨exQueries_ok.1, exQueries_ok.2.1⟩
    · exact ⟨exQueries_ok.2.2.1, exQueries_ok.2.2.2⟩), sessT_selects_answered⟩

/-- the same from any session that satisfies the invariant -/
theorem C18_session_state_select_never_panics (s : Sess) (h : SessInv s) :
    ∀ p ∈ s.dbs, ∀ q : Select, (Exec.NoPanicP.ParsedShape q) → UserTables q →
      (∀ n ∈ selectNames q, FetchTotal p.2 n) ∧ ∀ x, evaluateSelect (fetchOf p.2) q ≠ .panic x :=
  sessInv_select_never_panics h

/-- non-vacuity: the session whose selected database is the computed `tableDB` satisfies the invariant and
holds that database -/
example : SessInv sessT ∧ ("d", tableDB) ∈ sessT.dbs := ⟨⟨_, sessAbs_sessT⟩, by simp [sessT]⟩

/-! ## the SELECT statement of a session, evaluated

`Session.exec s (.select q)` runs `evaluateSelect` on `Session.fetchOfDB db` of the selected database `db`
- by definition the `fetchOf db` of the theorems above (`C18_session_fetch_is_fetchOf`).  `fetchOfPlain sdb`
(Proofs/SessionSelect1) is the `fetch` function of a plain in-memory database: for each table its declared
column names and its rows - the one the judge of the session runs builds (`Mkdb/Driver/Sess.lean`). -/

/-- what the session's SELECT reads is the `fetchOf` of `C18_stored_tables_are_typed` (by definition) -/
theorem C18_session_fetch_is_fetchOf : fetchOfDB = fetchOf := rfl

/-- **C18.stored_database_reads_as_the_plain_database**: under the invariant, what a SELECT reads for a name
other than `sys_pages` / `sys_schema` is exactly the table of the plain database (`none` if it has none of
that name; `C17_contents_are_what_a_reader_sees`, `C18_stored_tables_are_typed`), so a SELECT over user
tables evaluates on the stored database to what it evaluates to on the plain one. -/
theorem C18_stored_database_reads_as_the_plain_database (db : Engine.DB) (sdb : Spec.SDB) (pt sch : Tree.Levels)
    (tbls : List (Bytes × Tree.Levels)) (h : DbInv db sdb pt sch tbls) :
    (∀ n, n ≠ sysPages → n ≠ sysSchema → fetchOf db n = fetchOfPlain sdb n) ∧
    ∀ q : Select, UserTables q → evaluateSelect (fetchOf db) q = evaluateSelect (fetchOfPlain sdb) q :=
  ⟨fun n h1 h2 => fetchOf_eq_plain h.abs n h1 h2, fun q hn => select_on_stored_eq_plain h.abs q hn⟩

/-- non-vacuity: the computed database `tableDB` and its plain database; `t` reads as the empty table with
the column `a` on both sides -/
example : DbInv tableDB sdbA0 ptT schT [(tname, tT)] ∧ UserTables exGroupQuery ∧
    (fetchOfPlain sdbA0 tname).map (fun t => (t.cols, t.rows)) = some ([[97]], []) :=
  ⟨dbFlushed_tableDB.inv, exQueries_ok.2.1, by decide +kernel⟩

open Mkdb.Exec.MeaningP Mkdb.Exec.SelectP in
/-- **C18.session_select_is_answered_or_refused**.  In a session that satisfies the invariant - it abstracts
to the plain databases `w` (`SessAbs s w`; `SessInv s` is `∃ w, SessAbs s w`) - with a database `n`
selected, for a SELECT whose select list has a shape the parser builds (`hq`; `C18_parsed_select_has_the_shape`)
and whose FROM clause names user tables (`hn`):
(1) the statement changes nothing;
(2) it is answered (`Out.ok`) or refused with an error value of the executor - never `Out.panic`;
(3) which of the two, and which error, is what `evaluateSelect` returns on the PLAIN database `w n`
(`selectOut`: `.ok _ ↦ Out.ok`, `.err e ↦ Out.err (stmtErr (.exec e))`);
(4) it is answered whenever the query has a reference meaning `want` on the plain database
(`Spec.meaning (fetchOfPlain (w n)) q`), its ORDER BY keys resolve against the judge's header and hold
comparable values on `want`: a well-typed query is not refused at the session level either
(`C05_meaningful_query_is_answered`, `C06_…`, `C07_join_…` composed with the invariant; `WellShaped` of C07
is discharged by `Typed (w n)`, a consequence of the invariant).  `hgrp` (only for a query with aggregates
or GROUP BY): `avgGroupsConstant` (the hypothesis of `C07_join_meaningful_query_is_answered`; it holds of
every query without AVG: `C07_avgGroupsConstant_of_noAvg`).
Not covered: with no database selected the statement is refused with `noDbSelected`
(`C17_no_database_selected`); that the key columns of a meaning over typed tables ARE comparable is not
derived here (`hcomp` stays a hypothesis), and a query with AVG over a group of unequal values is only
covered by (1)-(3). -/
theorem C18_session_select_is_answered_or_refused (s : Sess) (w : String → Spec.SDB) (h : SessAbs s w)
    (n : String) (hc : s.cur = some n) (q : Select)
    (hq : Exec.NoPanicP.ParsedShape q) (hn : UserTables q) :
    (exec s (.select q)).1 = s ∧
    ((exec s (.select q)).2 = Out.ok ∨ ∃ e, (exec s (.select q)).2 = Out.err (stmtErr (.exec e))) ∧
    (exec s (.select q)).2 = selectOut (evaluateSelect (fetchOfPlain (w n)) q) ∧
    ∀ (want : List Row) (keys : List (Nat × Bool)),
      Spec.meaning (fetchOfPlain (w n)) q = some want →
      Spec.sortKeys q (judgeHeader (fetchOfPlain (w n)) q) = some keys →
      (∀ a ∈ want, ∀ b ∈ want, KeyComparable keys a b) →
      (groups q = true → avgGroupsConstant (fetchOfPlain (w n)) q = true) →
      (exec s (.select q)).2 = Out.ok := by
  obtain ⟨he, hnp⟩ := session_select_outcome h hc q hn
  refine ⟨by rw [he], ?_, by rw [he], fun want keys hm hk hcomp hgrp => ?_⟩
  · rw [he]
    cases hr : evaluateSelect (fetchOfPlain (w n)) q with
    | ok r => exact .inl rfl
    | err e => exact .inr ⟨e, rfl⟩
    | panic x => exact absurd hr (hnp hq x)
  · rw [session_meaningful_select_answered h hc q hq hn hm hk hcomp hgrp]

open Mkdb.Exec.MeaningP Mkdb.Exec.SelectP in
/-- non-vacuity, with rows: `INSERT INTO t VALUES (5), (6)` in the session `sessT` is accepted and leaves a
session `s1` that abstracts to plain databases `w` with `d` selected and `w "d"` the plain model's result;
there `SELECT a, count(*) FROM t GROUP BY a ORDER BY a` has the reference meaning `(5, 1), (6, 1)`, its sort
key resolves, the keys are comparable, no AVG: every hypothesis of the theorem holds, so the session answers
the query -/
example : ∃ s1 w, exec sessT (.insert tname [] [[.int 5], [.int 6]]) = (s1, .ok) ∧ SessAbs s1 w ∧
    s1.cur = some "d" ∧ w "d" = sdbA1 ∧
    (Exec.NoPanicP.ParsedShape exGroupQuery) ∧ UserTables exGroupQuery ∧
    Spec.meaning (fetchOfPlain sdbA1) exGroupQuery = some [[.int 5, .int 1], [.int 6, .int 1]] ∧
    Spec.sortKeys exGroupQuery (judgeHeader (fetchOfPlain sdbA1) exGroupQuery) = some [(0, false)] ∧
    (∀ a ∈ [[Tuple.Val.int 5, .int 1], [.int 6, .int 1]], ∀ b ∈ [[Tuple.Val.int 5, .int 1], [.int 6, .int 1]],
      KeyComparable [(0, false)] a b) ∧
    isStar exGroupQuery.list = false ∧ avgGroupsConstant (fetchOfPlain sdbA1) exGroupQuery = true ∧
    exec s1 (.select exGroupQuery) = (s1, .ok) := by
  obtain ⟨s1, w, e, h1, hc, hw⟩ := sessT_after_insert
  obtain ⟨hm, hk, hcomp, hs, havg⟩ := exGroupQuery_meaning_sdbA1
  refine ⟨s1, w, e, h1, hc, hw, exQueries_ok.1, exQueries_ok.2.1, hm, hk, hcomp, hs, havg, ?_⟩
  have h4 := (C18_session_select_is_answered_or_refused s1 w h1 "d" hc exGroupQuery exQueries_ok.1
    exQueries_ok.2.1).2.2.2 _ _ (by rw [hw]; exact hm) (by rw [hw]; exact hk) hcomp
    (fun _ => by rw [hw]; exact havg)
  have h1' := (C18_session_select_is_answered_or_refused s1 w h1 "d" hc exGroupQuery exQueries_ok.1
    exQueries_ok.2.1).1
  exact Prod.ext h1' h4

/-- the other branch of (2): in `sessT` a SELECT from a table that does not exist is refused with the
executor's error value (computed by the model) -/
example : (exec sessT (.select { list := [⟨.star, []⟩], from_ := some (.table ⟨[117], none⟩) })).2.isErr
    "tableNotExist" = true := by decide +kernel

end Mkdb.Session

/-! ## SELECT on the two CATALOG tables: `UserTables` is gone

The theorems above exclude a SELECT whose FROM clause names `sys_pages` or `sys_schema` (`UserTables`): the
invariant `DbInv` does not say what `sys_schema` lists for the two catalog tables themselves, nor what the
page table's row about itself names.  `CatSelf pt sch` (Proofs/CatalogTables1) says it: the page table holds
the row `(sys_pages, leftmost leaf of the page table)`, and the columns `sys_schema` lists for `sys_pages`
and for `sys_schema` are `pageTableSchema` / `schemaTableSchema` - the rows `CREATE DATABASE` wrote
(`C01_catalog_describes_itself`).  It holds after `CREATE DATABASE`, every statement keeps it, so it holds
in every database of every reachable session, and with it no SELECT - over any tables - panics.
Proofs: `Mkdb/Proofs/CatalogTables1.lean` … `CatalogTables4.lean`. -/

namespace Mkdb.Store
open Mkdb.Tree Mkdb.Page Mkdb.Tuple Mkdb.Generated Mkdb.Exec Mkdb.Exec.TypedP Mkdb.Sql

/-- **C18.catalog_tables_are_read_as_stored**.  For a database that satisfies `DbInv` and whose catalog
describes itself (`CatSelf pt sch`), `RelationService.Fetch` of `sys_pages` and of `sys_schema` returns
`.ok` - no error value, no panic, no unmodelled path, no exhausted fuel: what a SELECT reads
(`fetchOf db`) is, for `sys_pages`, the columns `table_name`, `file_offset` and one row per live row of the
page table (`rowsOf`: every one decodes with `pageTableSchema`, a consequence of `Cat`); for `sys_schema`
the columns `table_name`, `field_name`, `field_type`, `field_length` and one row per live row of
`sys_schema` (every one decodes with `schemaTableSchema`).  For `sys_pages` the scan starts at the page
the page table's row about itself names: the leftmost LEAF of the page table (`firstLeafOff pt`), which is
its root only until the page table splits (`C18_select_on_a_split_page_table`) - the scan walks the
sibling chain from there and still sees every row (`scan_first`). -/
theorem C18_catalog_tables_are_read_as_stored (db : Engine.DB) (sdb : Spec.SDB) (pt sch : Levels)
    (tbls : List (Bytes × Levels)) (h : DbInv db sdb pt sch tbls) (hs : CatSelf pt sch) :
    fetchOf db sysPages = some ⟨pageTableSchema.map fun fd => fd.name.toUTF8.toList,
      (rowsOf pageTableSchema (live pt)).map (·.2)⟩ ∧
    fetchOf db sysSchema = some ⟨schemaTableSchema.map fun fd => fd.name.toUTF8.toList,
      (rowsOf schemaTableSchema (live sch)).map (·.2)⟩ ∧
    (rowsOf pageTableSchema (live pt)).length = (live pt).length ∧
    (rowsOf schemaTableSchema (live sch)).length = (live sch).length := by
  obtain ⟨_, habs, _⟩ := h.abs
  obtain ⟨h1, h2⟩ := fetchOf_catalog habs.cat hs
  refine ⟨h1, h2, ?_, ?_⟩
  · have := congrArg List.length (rowsOf_keys pageTableSchema (live pt)
      (fun c hc => ptEntry_decodes (habs.cat.dec c hc)))
    simpa using this
  · have := congrArg List.length (rowsOf_keys schemaTableSchema (live sch) (schemaOf_rows_decode hs.schS))
    simpa using this

/-- non-vacuity: the computed database `CREATE DATABASE; CREATE TABLE t (a INT)` satisfies both hypotheses;
its page table has three live rows, its `sys_schema` seven -/
example : DbInv tableDB sdbA0 ptT schT [(tname, tT)] ∧ CatSelf ptT schT ∧
    (live ptT).length = 3 ∧ (live schT).length = 7 :=
  ⟨dbFlushed_tableDB.inv, catSelf_tableDB, by decide +kernel, by decide +kernel⟩

/-- **C18.every_statement_keeps_the_catalog_self_description** (what makes the next theorem hold in every
reachable database).  The database `CREATE DATABASE` leaves satisfies `CatSelf` (with `DbInv`), and from a
database that satisfies `DbInv` and `CatSelf` every CREATE TABLE / INSERT / UPDATE / DELETE the parser can
produce (side conditions exactly those of `C18_every_statement_keeps_the_database_invariant`) returns `.ok`
or `.err` with a database that satisfies `DbInv` for some plain database and some catalog description, and
that description satisfies `CatSelf` again.  Why: statements do not address the catalog tables by name
(`StmtNames`), so the page table changes only by `insertPageTable` (CREATE TABLE: a new row at the end; if
that splits the leftmost leaf its left half keeps the offset - `firstLeafOff_insertAppend`) and by
re-pointings of the rows of OTHER names (`updatePageTable` of a user table or of `sys_schema`: same leaves,
same offsets); and `sys_schema` changes only by `insertSchemaRows` (CREATE TABLE: rows under the NEW
table's name - `createTable_cat_core`). -/
theorem C18_every_statement_keeps_the_catalog_self_description :
    (DbInv newDB [] ptNew schNew [] ∧ CatSelf ptNew schNew) ∧
    ∀ (db : Engine.DB) (order : List Nat) (sdb : Spec.SDB) (pt sch : Levels) (tbls : List (Bytes × Levels)),
      DbInv db sdb pt sch tbls → CatSelf pt sch → ∀ st : Sql.Stmt,
      StmtNames pt tbls st → StmtRoomT db pt sch tbls st → StmtLits st →
      ∃ db', (evalStmt db order st = .ok () db' ∨ ∃ e, evalStmt db order st = .err e db') ∧
        ∃ sdb' pt' sch' tbls', DbInv db' sdb' pt' sch' tbls' ∧ CatSelf pt' sch' :=
  ⟨⟨(ckpt_newDB.dbFlushed noStale_new).inv, catSelf_new⟩,
    fun db order sdb pt sch tbls h hs st hn hr hl => evalStmt_keeps_inv_self db order sdb pt sch tbls h hs st hn hr hl⟩

/-- non-vacuity of the step: `CREATE TABLE t (a INT)` on the new database meets the side conditions -/
example : StmtNames ptNew [] (.createTable tname acols) ∧
    StmtRoomT newDB ptNew schNew [] (.createTable tname acols) ∧ StmtLits (.createTable tname acols) :=
  ⟨fun h => absurd h tname_ne_sys.1,
    ⟨room_create_t.2.2.1, room_create_t.2.2.2.1, room_create_t.2.2.2.2.1, room_create_t.2.2.2.2.2.1,
      room_create_t.2.2.2.2.2.2⟩, trivial⟩

/-- **C18.select_on_catalog_tables_never_panics** - `C18_select_on_stored_tables_never_panics` WITHOUT
`UserTables`, and `C18_select_on_any_table_never_panics` with the unproved check `catalogOK db` replaced
by the invariant `CatSelf`.  For every database that satisfies `DbInv` and `CatSelf` (every database of
every reachable session does: `C18_session_never_crashes_any_table`) and every SELECT whose select list has
a shape the parser builds (`hq`; `C18_parsed_select_has_the_shape`) - ANY FROM clause: user tables,
`sys_pages`, `sys_schema`, unknown names, joins of them: `Fetch` of every table read returns rows or an
error value (`FetchTotal`: no panic, no unmodelled path, fuel not exhausted - `Fetch` of `sys_pages` scans
from the leftmost leaf of the page table), `evaluateSelect (fetchOf db) q` is `.ok` or `.err` - NEVER
`.panic`, the sort comparator included: the rows of the catalog tables are typed by `pageTableSchema` /
`schemaTableSchema`, whose column names are distinct -, and every column of the rows returned holds values
of one kind or NULL. -/
theorem C18_select_on_catalog_tables_never_panics (db : Engine.DB) (sdb : Spec.SDB) (pt sch : Levels)
    (tbls : List (Bytes × Levels)) (h : DbInv db sdb pt sch tbls) (hs : CatSelf pt sch) (q : Select)
    (hq : Exec.NoPanicP.ParsedShape q) :
    (∀ n ∈ selectNames q, FetchTotal db n) ∧ (∀ s, evaluateSelect (fetchOf db) q ≠ .panic s) ∧
    ∀ rows hdr, evaluateSelect (fetchOf db) q = .ok (rows, hdr) → ∃ ks : List Kind, ∀ r ∈ rows, rowHas ks r = true :=
  select_never_panics_self h.abs hs q hq

/-- non-vacuity (deliverable 4) on the computed database `tableDB`: the hypotheses hold; `SELECT * FROM
sys_schema ORDER BY field_type`, `SELECT * FROM sys_pages p JOIN sys_schema s ON p.table_name = s.table_name
ORDER BY s.field_name` and `SELECT * FROM sys_pages` have the parser shape, do NOT meet `UserTables`, and
evaluate (computed by the kernel) to 7 rows × 4 columns, 7 × 6, 3 × 2 -/
example : DbInv tableDB sdbA0 ptT schT [(tname, tT)] ∧ CatSelf ptT schT ∧
    (Exec.NoPanicP.ParsedShape exCatalogQuery) ∧
    (Exec.NoPanicP.ParsedShape exCatalogJoin) ∧
    (Exec.NoPanicP.ParsedShape exPagesQuery) ∧
    ¬ UserTables exCatalogQuery ∧ ¬ UserTables exCatalogJoin ∧ ¬ UserTables exPagesQuery ∧
    selectSize (evaluateSelect (fetchOf tableDB) exCatalogQuery) = some (7, 4) ∧
    selectSize (evaluateSelect (fetchOf tableDB) exCatalogJoin) = some (7, 6) ∧
    selectSize (evaluateSelect (fetchOf tableDB) exPagesQuery) = some (3, 2) :=
  ⟨dbFlushed_tableDB.inv, catSelf_tableDB, exCatalog_shapes.1, exCatalog_shapes.2.1, exCatalog_shapes.2.2.1,
    exCatalog_shapes.2.2.2.1, exCatalog_shapes.2.2.2.2.1, exCatalog_shapes.2.2.2.2.2,
    exCatalog_on_tableDB.1, exCatalog_on_tableDB.2.1, exCatalog_on_tableDB.2.2⟩

/-- **C18.select_on_a_split_page_table** (the case one might expect to fail: after the page table has
split, `SELECT * FROM sys_pages` reads the page table through its STALE self-row).  `db8` is the database
the model computes for `CREATE DATABASE; CREATE TABLE t1 (a INT); …; CREATE TABLE t8 (a INT)`: the header
locates the page table's root at page 53248, its row about itself still reads `(sys_pages, 4096)`
(`PtSelfFree4.db8_stale`; cf. `C02_side_conditions_hold_in_every_reachable_database`).  The catalog of `db8`
describes itself all the same (`SelfOK db8`: `CatSelf` under whatever catalog description the store has -
page 4096 is the leftmost leaf), so no SELECT of a parser-produced shape panics on it, and `SELECT * FROM
sys_pages` returns (computed by the kernel) all ten rows, the join with `sys_schema` its fourteen.  No
panic of a catalog SELECT was found in the model: the Go code's `Fetch("sys_pages")` starts `scanRight` at
the old root, which `split` keeps as the leftmost leaf. -/
theorem C18_select_on_a_split_page_table :
    db8.store.hdr.ptRoot = 53248 ∧ SelfOK db8 ∧
    (∀ sdb pt sch tbls, DbInv db8 sdb pt sch tbls → (sysPages, 4096) ∈ ptEntries pt → ∀ q : Select,
      (Exec.NoPanicP.ParsedShape q) → ∀ s, evaluateSelect (fetchOf db8) q ≠ .panic s) ∧
    selectSize (evaluateSelect (fetchOf db8) exPagesQuery) = some (10, 2) ∧
    selectSize (evaluateSelect (fetchOf db8) exCatalogJoin) = some (14, 6) :=
  ⟨db8_ptRoot, selfOK_db8,
    fun _ _ _ _ hi _ q hq => (select_never_panics_self hi.abs (selfOK_db8.catSelf hi) q hq).2.1,
    exPages_on_db8.1, exPages_on_db8.2⟩

/-- non-vacuity of the quantified part: `db8` satisfies `DbInv` for a catalog description whose page table
holds the stale row -/
example : ∃ sdb pt sch tbls, DbInv db8 sdb pt sch tbls ∧ (sysPages, 4096) ∈ ptEntries pt ∧ rootOff pt = 53248 := by
  obtain ⟨sch8, pt8, tbls8, _, _, hg⟩ := eight_tables
  exact ⟨sdb8, pt8, sch8, tbls8, (hg.ck.dbFlushed hg.ns).inv, (db8_stale hg).1, (db8_stale hg).2.1⟩

/-- **C18.parsed_select_on_any_table_never_panics**: for every token list the parser accepts as a SELECT -
over whatever tables - on every database that satisfies `DbInv` and `CatSelf`, the evaluation returns rows
or an error value (`C18_parsed_select_on_stored_tables_never_panics` without `UserTables`). -/
theorem C18_parsed_select_on_any_table_never_panics (db : Engine.DB) (sdb : Spec.SDB) (pt sch : Levels)
    (tbls : List (Bytes × Levels)) (h : DbInv db sdb pt sch tbls) (hs : CatSelf pt sch) (ts : List Scan.Token)
    (q : Select) (hp : parseTokens ts = .ok (.select q)) (s : String) :
    evaluateSelect (fetchOf db) q ≠ .panic s :=
  (select_never_panics_self h.abs hs q (parsed_select_shape hp)).2.1 s

/-- non-vacuity: the tokens of `SELECT * FROM sys_pages;` parse to a SELECT whose FROM clause names the page
table (the bytes of `sys_pages`: `sysPages_eq`) -/
example : parseTokens [⟨t_SELECT, []⟩, ⟨t_ASTRSK, []⟩, ⟨t_FROM, []⟩,
      ⟨t_IDENT, [115, 121, 115, 95, 112, 97, 103, 101, 115]⟩, ⟨t_SEMICOLON, []⟩] =
      .ok (.select { list := [⟨.star, []⟩], from_ := some (.table ⟨[115, 121, 115, 95, 112, 97, 103, 101, 115], none⟩) }) ∧
    sysPages = [115, 121, 115, 95, 112, 97, 103, 101, 115] :=
  ⟨rfl, sysPages_eq⟩

/-- **C18.select_after_any_history_never_panics_any_table** - `C18_select_after_any_history_never_panics`
with `UserTables` GONE: run any list of statements from the database `CREATE DATABASE` leaves, each accepted
by the plain model (with room) or refused before a change (`HistOK`); the run keeps `CatSelf`
(`runHist_self`), and on the database reached a SELECT of a parser-produced shape over ANY tables never
panics. -/
theorem C18_select_after_any_history_never_panics_any_table (sts : List Sql.Stmt) (hok : HistOK [] sts newDB []) :
    ∃ db', runHist [] newDB sts = some db' ∧ ∀ q : Select,
      (Exec.NoPanicP.ParsedShape q) →
      (∀ n ∈ selectNames q, FetchTotal db' n) ∧ ∀ s, evaluateSelect (fetchOf db') q ≠ .panic s :=
  history_select_never_panics_any sts hok

/-- non-vacuity: `histOK_create_t` (Proofs/BaseCase1) - the history `CREATE TABLE t (a INT)` -/
example : HistOK [] [.createTable tname acols] newDB [] := histOK_create_t

end Mkdb.Store

namespace Mkdb.Session
open Mkdb.Engine Mkdb.Store Mkdb.Sql Mkdb.Exec

/-- **C18.session_statement_never_crashes_any_table** - `C18_session_statement_never_crashes` with
`UserTables` GONE.  `SessInvAny s` (Proofs/CatalogTables3) is `SessInv s` together with `SessSelf s`: every
database of the session has a catalog that describes itself (`SelfOK`: `CatSelf` under whatever catalog
description its store has).  From such a session EVERY statement - CREATE DATABASE, USE, SHOW DATABASES,
SELECT, CREATE TABLE, INSERT, UPDATE, DELETE; valid or not; with or without a selected database - returns a
result or an error value, never `Out.panic`, and leaves a session that satisfies `SessInvAny` again.
`StmtSideAny s st` is `StmtSide s st` with the condition of a `.select q` reduced to the parser shape
(`SelectShape`: the select list is `*` alone or has no leading `*` - discharged for every parsed statement by
`C18_parsed_select_has_the_shape`); its FROM clause may name `sys_pages`, `sys_schema`, user tables, unknown
names.  The conditions of the other statements are unchanged (`StmtNames`: INSERT / UPDATE / DELETE / CREATE
TABLE do not address the two catalog tables by name; `StmtRoomT`; `StmtLits`). -/
theorem C18_session_statement_never_crashes_any_table (s : Sess) (h : SessInvAny s) (st : Sql.Stmt)
    (hside : StmtSideAny s st) : (exec s st).2 ≠ Out.panic ∧ SessInvAny (exec s st).1 := by
  obtain ⟨⟨w, hw⟩, hs⟩ := h
  obtain ⟨w', h1, hs1, h2, _⟩ := exec_sessAbs_any hw hs st hside
  exact ⟨h2, ⟨w', h1⟩, hs1⟩

/-- non-vacuity: the session whose selected database is the computed `tableDB` satisfies `SessInvAny`, and
the join of `sys_pages` with `sys_schema` meets `StmtSideAny` in it -/
example : SessInvAny sessT ∧ StmtSideAny sessT (.select exCatalogJoin) :=
  ⟨sessInvAny_sessT, stmtSideAny_plain _ _ exCatalog_shapes.2.1⟩

/-- **C18.session_never_crashes_any_table** - `C18_session_never_crashes` with `UserTables` GONE: run ANY
list of statements from the empty session, going on after every error value.  If each statement meets the
side conditions in the state it is run in (`SessOKAny`: for a SELECT only the parser shape), no step returns
`Out.panic` and the final session satisfies `SessInvAny` - so `CatSelf` holds in every database of every
session reachable this way.  Every history that meets `SessOK` meets `SessOKAny` (`SessOK.any`). -/
theorem C18_session_never_crashes_any_table (sts : List Sql.Stmt) (hok : SessOKAny {} sts) :
    (∀ o ∈ (runAll {} sts).2, o ≠ Out.panic) ∧ SessInvAny (runAll {} sts).1 := by
  obtain ⟨hfin, hsfin, houts⟩ := runAll_sessAbs_any sts {} (fun _ => []) (sessAbs_empty _) sessSelf_empty hok
  exact ⟨houts, hfin, hsfin⟩

/-- **C18.plain_histories_never_crash_any_table** - `C18_plain_histories_never_crash` with `UserTables`
GONE (`PlainAny`: as `Plain`, a SELECT needs only a select list of a shape the parser builds): every
history of CREATE DATABASE, USE, SHOW DATABASES, SELECT over ANY tables, DELETE and UPDATE (on names other
than the catalog tables) meets the side conditions from every session state, so none makes the session
model crash. -/
theorem C18_plain_histories_never_crash_any_table (sts : List Sql.Stmt) (h : ∀ st ∈ sts, PlainAny st) :
    (∀ o ∈ (runAll {} sts).2, o ≠ Out.panic) ∧ SessInvAny (runAll {} sts).1 :=
  C18_session_never_crashes_any_table sts (sessOKAny_plain sts {} h)

/-- non-vacuity: CREATE DATABASE, USE, then the three catalog queries are `PlainAny`, and the session model
answers all five statements (computed by the kernel) -/
example : (∀ st ∈ [Stmt.createDatabase [100], .use [100], .select exCatalogQuery, .select exCatalogJoin,
      .select exPagesQuery], PlainAny st) ∧
    (runAll {} [.createDatabase [100], .use [100], .select exCatalogQuery, .select exCatalogJoin,
      .select exPagesQuery]).2.map Out.isOk = [true, true, true, true, true] := by
  refine ⟨?_, catalog_history_answered⟩
  intro st hst
  simp only [List.mem_cons, List.not_mem_nil, or_false] at hst
  rcases hst with rfl | rfl | rfl | rfl | rfl
  · exact trivial
  · exact trivial
  · exact exCatalog_shapes.1
  · exact exCatalog_shapes.2.1
  · exact exCatalog_shapes.2.2.1

/-- **C18.session_select_never_panics_any_table** - `C18_session_select_never_panics` with `UserTables`
GONE: in the session any list of statements leaves, on EVERY database of the session, every SELECT of a
parser-produced shape over any tables reads its tables without a crash of `Fetch` and evaluates to rows or
an error value. -/
theorem C18_session_select_never_panics_any_table (sts : List Sql.Stmt) (hok : SessOKAny {} sts) :
    ∀ p ∈ (runAll {} sts).1.dbs, ∀ q : Select, (Exec.NoPanicP.ParsedShape q) →
      (∀ n ∈ selectNames q, FetchTotal p.2 n) ∧ ∀ x, evaluateSelect (fetchOf p.2) q ≠ .panic x :=
  sessInvAny_select_never_panics (C18_session_never_crashes_any_table sts hok).2

/-- the same from any session that satisfies `SessInvAny` -/
theorem C18_session_state_select_never_panics_any_table (s : Sess) (h : SessInvAny s) :
    ∀ p ∈ s.dbs, ∀ q : Select, (Exec.NoPanicP.ParsedShape q) →
      (∀ n ∈ selectNames q, FetchTotal p.2 n) ∧ ∀ x, evaluateSelect (fetchOf p.2) q ≠ .panic x :=
  sessInvAny_select_never_panics h

/-- non-vacuity: `sessT` satisfies `SessInvAny` and holds the computed `tableDB` -/
example : SessInvAny sessT ∧ ("d", tableDB) ∈ sessT.dbs := ⟨sessInvAny_sessT, by simp [sessT]⟩

/-- **C18.session_select_any_table_is_answered_or_refused** - parts (1) and (2) of
`C18_session_select_is_answered_or_refused` with `UserTables` GONE: in a session that satisfies
`SessInvAny`, with a database selected, a SELECT of a parser-produced shape over ANY tables changes nothing
and is answered (`Out.ok`) or refused with an error value of the executor - never `Out.panic`.  Parts (3)
and (4) of that theorem compare with the evaluation on the PLAIN database, which has no catalog tables
(there `sys_pages` is an unknown table): they stay as they are, for user tables. -/
theorem C18_session_select_any_table_is_answered_or_refused (s : Sess) (h : SessInvAny s) (n : String)
    (hc : s.cur = some n) (q : Select) (hq : Exec.NoPanicP.ParsedShape q) :
    (exec s (.select q)).1 = s ∧
    ((exec s (.select q)).2 = Out.ok ∨ ∃ e, (exec s (.select q)).2 = Out.err (stmtErr (.exec e))) := by
  obtain ⟨⟨w, hw⟩, hs⟩ := h
  refine ⟨exec_select_fst s q, ?_⟩
  cases hg : getDB s n with
  | none =>
    have := hw.cur n hc
    rw [hg] at this
    cases this
  | some db =>
    obtain ⟨pt, sch, tbls, hi, _⟩ := hw.dbs (n, db) (getDB_mem hg)
    have hnp := (select_never_panics_self hi.abs ((hs _ (getDB_mem hg)).catSelf hi) q hq).2.1
    rw [exec_select_cur hc hg]
    cases he : evaluateSelect (fetchOf db) q with
    | ok r => exact .inl rfl
    | err e => exact .inr ⟨e, rfl⟩
    | panic x => exact absurd he (hnp x)

/-- non-vacuity: in `sessT` (database `d` selected) the three catalog queries are answered (computed by the
kernel) -/
example : SessInvAny sessT ∧ sessT.cur = some "d" ∧
    (runAll sessT [.select exCatalogQuery, .select exCatalogJoin, .select exPagesQuery]).2.map Out.isOk =
      [true, true, true] :=
  ⟨sessInvAny_sessT, rfl, sessT_catalog_selects_answered⟩

end Mkdb.Session
