import Mkdb.Proofs.NoPanicExec
import Mkdb.Proofs.SpecRefineB
import Mkdb.Proofs.SessionInv9
/-!
# C18 — no statement can crash the engine (SELECT evaluation)

Property theorems only (proofs in `Mkdb/Proofs/NoPanicExec.lean`).  Quantifier: every
database content whose rows have one value per column (any values: NULLs, any types), every
SELECT the parser can produce.  Termination is structural recursion on the row lists.
-/
namespace Mkdb.Exec
open Mkdb.Sql Mkdb.Exec.NoPanicP

/-- **C18.no_panic_partial**: on well-shaped tables, whatever the query (unknown, ambiguous or
duplicated columns, wrong-typed comparisons, AVG over non-integers, empty tables, NULLs …),
evaluation returns rows or an error value; the single remaining panic of the model is the
sort comparator meeting two non-NULL values of different types in one ORDER BY column. -/
theorem C18_no_panic_partial {fetch : Bytes → Option Table} (hw : WellShaped fetch) (q : Select)
    (hq : (∃ a, q.list = [⟨.star, a⟩]) ∨ isStar q.list = false) (s : String)
    (h : evaluateSelect fetch q = .panic s) : s = "sortColumns: no comparison available" :=
  no_panic_except_sort_parsed_shape hw q hq s h

/-- **C18.sort_safe**: that remaining panic cannot occur when every ORDER BY column holds
values of one type or NULL — which is what typed storage (C08) delivers. -/
theorem C18_sort_safe (ob : List SortSpec) (hdr : List Field) (rows : List Row)
    (h : ∀ sp ∈ ob, ∀ i, findColumn sp.key hdr = .ok i →
      ∀ a ∈ rows, ∀ b ∈ rows, Comparable ((a[i]?).getD .null) ((b[i]?).getD .null))
    (s : String) : sortColumns ob hdr rows ≠ .panic s :=
  sort_safe_of_comparable ob hdr rows h s

/-- the shape hypothesis of `C18_no_panic_partial` is necessary: a select list that starts with
`*` and also holds an aggregate (which the parser never builds) would index past the row -/
theorem C18_star_aggregate_counterexample :
    evaluateSelect (fun _ => some ⟨[[105]], [[.int 1]]⟩)
      { list := [⟨.star, []⟩, ⟨.count none, []⟩, ⟨.expr (.val (.lit (.int 1))), []⟩],
        from_ := some (.table ⟨[116], none⟩) } = .panic "aggregateRows: Vals[colIdx]" :=
  star_aggregate_panics

/-- likewise for the grouping path without an aggregate (`SELECT a FROM t GROUP BY a` groups): a
select list that starts with `*` and goes on (which the parser never builds) with a GROUP BY on a
later column would index past the row.  With a list the parser can build the path is covered by
`C18_no_panic_partial`: the projected rows have one value per select-list element. -/
theorem C18_star_group_by_counterexample :
    evaluateSelect (fun _ => some ⟨[[105]], [[.int 1]]⟩)
      { list := [⟨.star, []⟩, ⟨.expr (.val (.col ⟨[], [105]⟩)), []⟩],
        from_ := some (.table ⟨[116], none⟩),
        groupBy := [⟨[], [105]⟩] } = .panic "aggregateRows: Vals[colIdx]" :=
  star_group_by_panics

end Mkdb.Exec

namespace Mkdb.Store
open Mkdb.Tree Mkdb.Page Mkdb.Tuple Mkdb.Generated

/-- **C18.dml_ddl_never_crash**: for every database state related to a plain database (`Rel`: the
catalog invariant, any number of tables of any size and depth), every CREATE TABLE / INSERT / UPDATE /
DELETE the parser can produce - unknown tables and columns, wrong types, NULLs, out-of-range integers,
oversized rows, WHERE clauses that cannot be evaluated, duplicate tables - the engine model returns
`.ok` or `.err`: never a panic, never an unmodelled path, never out of fuel (fuel exhaustion is how the
model would show a hang).  Side conditions: `StmtNames` - the statement does not address the two
catalog tables by name; `StmtRoomT` - literals that fit their Go types and the size room (64-level
fuel, offsets below 2^63) for INSERT and CREATE TABLE only. -/
theorem C18_dml_ddl_never_crash (db : Engine.DB) (order : List Nat) (pt sch : Levels)
    (tbls : List (Bytes × Levels)) (sdb : Spec.SDB) (h : Rel db pt sch tbls sdb) (st : Sql.Stmt)
    (hnames : StmtNames pt tbls st) (hroom : StmtRoomT db pt sch tbls st) :
    (∀ p, evalStmt db order st ≠ .panic p) ∧ (∀ w, evalStmt db order st ≠ .unmodelled w) ∧
      evalStmt db order st ≠ .fuel :=
  (evalStmt_total db order pt sch tbls sdb h st hnames hroom).not_crash

/-- and a refused statement leaves the log alone (`Total`) -/
theorem C18_dml_ddl_total (db : Engine.DB) (order : List Nat) (pt sch : Levels)
    (tbls : List (Bytes × Levels)) (sdb : Spec.SDB) (h : Rel db pt sch tbls sdb) (st : Sql.Stmt)
    (hnames : StmtNames pt tbls st) (hroom : StmtRoomT db pt sch tbls st) :
    Total db (evalStmt db order st) :=
  evalStmt_total db order pt sch tbls sdb h st hnames hroom

end Mkdb.Store

namespace Mkdb.Store
open Mkdb.Tree Mkdb.Page Mkdb.Tuple Mkdb.Generated

/-- **C18.every_statement_keeps_the_database_invariant** (what makes `C18_dml_ddl_never_crash` hold for the
NEXT statement too, whatever the outcome of this one).  `DbInv db sdb pt sch tbls` (Proofs/SessionInv3):
the store abstracts to the plain database `sdb` with the catalog trees `pt`, `sch`, `tbls`; `sys_schema`
has no stale rows; the cache is filed; every record of the log is applied and behind the two counters;
every clean page is in the data file.  For every CREATE TABLE / INSERT / UPDATE / DELETE the parser can
produce the engine model returns `.ok` or `.err` - never a panic, an unmodelled path, exhausted fuel -
and the database it returns satisfies `DbInv` again for SOME plain database: the plain model's result
if the statement is accepted, the same plain database if it is refused before a change, the plain
database with the applied prefix if a multi-row INSERT / UPDATE is refused at a later row (the known
finding of C14 - the relation survives it).  Side conditions, per statement: `StmtNames` (the two
catalog tables are not addressed by name), `StmtRoomT` (INSERT literals that fit their Go types and the
size room - 64-level fuel, offsets below 2^63 - for INSERT and CREATE TABLE), `StmtLits` (UPDATE SET
literals that fit their Go types). -/
theorem C18_every_statement_keeps_the_database_invariant (db : Engine.DB) (order : List Nat) (sdb : Spec.SDB)
    (pt sch : Levels) (tbls : List (Bytes × Levels)) (h : DbInv db sdb pt sch tbls) (st : Sql.Stmt)
    (hnames : StmtNames pt tbls st) (hroom : StmtRoomT db pt sch tbls st) (hlits : StmtLits st) :
    ∃ db', (evalStmt db order st = .ok () db' ∨ ∃ e, evalStmt db order st = .err e db') ∧
      ∃ sdb' pt' sch' tbls', DbInv db' sdb' pt' sch' tbls' :=
  evalStmt_keeps_inv db order sdb pt sch tbls h st hnames hroom hlits

/-- non-vacuity: the database `CREATE DATABASE` leaves satisfies the invariant, and `CREATE TABLE t (a INT)`
meets the side conditions on it -/
example : DbInv newDB [] ptNew schNew [] ∧ StmtNames ptNew [] (.createTable tname acols) ∧
    StmtRoomT newDB ptNew schNew [] (.createTable tname acols) ∧ StmtLits (.createTable tname acols) :=
  ⟨(ckpt_newDB.dbFlushed noStale_new).inv, fun h => absurd h tname_ne_sys.1,
    ⟨room_create_t.2.2.1, room_create_t.2.2.2.1, room_create_t.2.2.2.2.1, room_create_t.2.2.2.2.2.1,
      room_create_t.2.2.2.2.2.2⟩, trivial⟩

end Mkdb.Store

namespace Mkdb.Session
open Mkdb.Engine Mkdb.Store Mkdb.Sql

/-- **C18.session_statement_never_crashes** (the session states: no USE yet, a refused USE, a refused
CREATE DATABASE, a selected database).  `SessInv s` (Proofs/SessionInv6): every database of the session
satisfies `DbInv` for some plain database, every database other than the selected one is closed (flushed:
nothing dirty, header and every page in the data file), the selected name - if any - is a database of
the session, names are distinct.  From such a session EVERY statement - CREATE DATABASE, USE, SHOW
DATABASES, SELECT, CREATE TABLE, INSERT, UPDATE, DELETE; valid or not; with or without a selected
database; naming a database that exists or not - returns a result or an error value, never `Out.panic`
(which is how the model shows a crash: a selected database that is not in the list, a statement
evaluator that panics, runs an unmodelled path or out of fuel, a CREATE DATABASE or close that fails),
and leaves a session that satisfies the invariant again.  `StmtSide s st`: the side conditions of
`C18_every_statement_keeps_the_database_invariant` for the selected database (none for the statements
not routed to it, none when nothing is selected).  The SELECT evaluator itself is
`C18_no_panic_partial` / `C18_sort_safe` (the session model does not evaluate queries). -/
theorem C18_session_statement_never_crashes (s : Sess) (h : SessInv s) (st : Sql.Stmt) (hside : StmtSide s st) :
    (exec s st).2 ≠ Out.panic ∧ SessInv (exec s st).1 := by
  obtain ⟨w, hw⟩ := h
  obtain ⟨w', h1, h2, _⟩ := exec_sessAbs hw st hside
  exact ⟨h2, w', h1⟩

/-- **C18.session_never_crashes**: run ANY list of statements from the empty session (no database
exists, none is selected), going on after every error value.  If each statement meets the side
conditions in the state it is run in (`SessOK`), no step returns `Out.panic` - in particular not with no
database selected (`C17_no_database_selected`: the error `noDbSelected`), not after a refused USE
(`C17_use_missing`, `C17_invalid_name_refused`), not after a refused CREATE DATABASE
(`C17_create_existing`) - and the final session satisfies the invariant. -/
theorem C18_session_never_crashes (sts : List Sql.Stmt) (hok : SessOK {} sts) :
    (∀ o ∈ (runAll {} sts).2, o ≠ Out.panic) ∧ SessInv (runAll {} sts).1 := by
  obtain ⟨hfin, houts⟩ := runAll_sessAbs sts {} (fun _ => []) (sessAbs_empty _) hok
  exact ⟨houts, hfin⟩

/-- **C18.plain_histories_meet_the_side_conditions** (non-vacuity of `SessOK` beyond single examples):
every history of CREATE DATABASE, USE, SHOW DATABASES, SELECT, DELETE and UPDATE statements - the last
two on any table name other than `sys_pages` / `sys_schema`, UPDATE with SET literals a Go program can
hold - meets the side conditions from EVERY session state.  So no such history, of any length, over any
number of databases, makes the session model crash. -/
theorem C18_plain_histories_never_crash (sts : List Sql.Stmt) (h : ∀ st ∈ sts, Plain st) :
    (∀ o ∈ (runAll {} sts).2, o ≠ Out.panic) ∧ SessInv (runAll {} sts).1 :=
  C18_session_never_crashes sts (sessOK_plain sts {} h)

/-- non-vacuity: a history with a statement before any USE, a USE of a missing database, CREATE DATABASE
twice, an invalid name, DELETE / UPDATE of a table that does not exist -/
example : ∀ st ∈ [Stmt.delete tname none, .use [120], .createDatabase [100], .createDatabase [100],
    .createDatabase [97, 47, 98], .use [100], .use [120], .delete tname none,
    .update tname [([97], .lit (.int 7))] none, .showDatabases], Plain st := by
  intro st hst
  simp only [List.mem_cons, List.not_mem_nil, or_false] at hst
  rcases hst with rfl | rfl | rfl | rfl | rfl | rfl | rfl | rfl | rfl | rfl
  all_goals first
    | exact trivial
    | exact tname_ne_sys
    | refine ⟨tname_ne_sys, ?_⟩
      intro p hp l hl
      simp only [List.mem_singleton] at hp
      subst hp
      simp only [VExpr.lit.injEq] at hl
      subst hl
      exact ⟨by decide, by decide⟩

/-- non-vacuity with a table and rows: in the session whose selected database is the one
`CREATE DATABASE; CREATE TABLE t (a INT)` produces (computed by the model), the invariant holds and
`INSERT INTO t VALUES (5), (6)` meets the side conditions -/
example : SessInv sessT ∧ StmtSide sessT (.insert tname [] [[.int 5], [.int 6]]) :=
  ⟨⟨_, sessAbs_sessT⟩, stmtSide_sessT⟩

end Mkdb.Session
