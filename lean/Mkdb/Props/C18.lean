import Mkdb.Proofs.NoPanicExec
import Mkdb.Proofs.SpecRefineB
/-!
# C18 — no statement can crash the engine (SELECT evaluation)

Property theorems only (proofs in `Mkdb/Proofs/NoPanicExec.lean`).  Quantifier: every
database content whose rows have one value per column (any values: NULLs, any types), every
SELECT the parser can produce.  Termination is structural recursion on the row lists.
-/
namespace Mkdb.Exec
open Mkdb.Sql Mkdb.Exec.NoPanicP

/-- **C18.no_panic_partial**: on well-shaped tables, whatever the query (unknown, ambiguous or
duplicated columns, wrong-typed comparisons, AVG over non-integers, empty tables, NULLs …),
evaluation returns rows or an error value; the single remaining panic of the model is the
sort comparator meeting two non-NULL values of different types in one ORDER BY column. -/
theorem C18_no_panic_partial {fetch : Bytes → Option Table} (hw : WellShaped fetch) (q : Select)
    (hq : (∃ a, q.list = [⟨.star, a⟩]) ∨ isStar q.list = false) (s : String)
    (h : evaluateSelect fetch q = .panic s) : s = "sortColumns: no comparison available" :=
  no_panic_except_sort_parsed_shape hw q hq s h

/-- **C18.sort_safe**: that remaining panic cannot occur when every ORDER BY column holds
values of one type or NULL — which is what typed storage (C08) delivers. -/
theorem C18_sort_safe (ob : List SortSpec) (hdr : List Field) (rows : List Row)
    (h : ∀ sp ∈ ob, ∀ i, findColumn sp.key hdr = .ok i →
      ∀ a ∈ rows, ∀ b ∈ rows, Comparable ((a[i]?).getD .null) ((b[i]?).getD .null))
    (s : String) : sortColumns ob hdr rows ≠ .panic s :=
  sort_safe_of_comparable ob hdr rows h s

/-- the shape hypothesis of `C18_no_panic_partial` is necessary: a select list that starts with
`*` and also holds an aggregate (which the parser never builds) would index past the row -/
theorem C18_star_aggregate_counterexample :
    evaluateSelect (fun _ => some ⟨[[105]], [[.int 1]]⟩)
      { list := [⟨.star, []⟩, ⟨.count none, []⟩, ⟨.expr (.val (.lit (.int 1))), []⟩],
        from_ := some (.table ⟨[116], none⟩) } = .panic "aggregateRows: Vals[colIdx]" :=
  star_aggregate_panics

/-- likewise for the grouping path without an aggregate (`SELECT a FROM t GROUP BY a` groups): a
select list that starts with `*` and goes on (which the parser never builds) with a GROUP BY on a
later column would index past the row.  With a list the parser can build the path is covered by
`C18_no_panic_partial`: the projected rows have one value per select-list element. -/
theorem C18_star_group_by_counterexample :
    evaluateSelect (fun _ => some ⟨[[105]], [[.int 1]]⟩)
      { list := [⟨.star, []⟩, ⟨.expr (.val (.col ⟨[], [105]⟩)), []⟩],
        from_ := some (.table ⟨[116], none⟩),
        groupBy := [⟨[], [105]⟩] } = .panic "aggregateRows: Vals[colIdx]" :=
  star_group_by_panics

end Mkdb.Exec

namespace Mkdb.Store
open Mkdb.Tree Mkdb.Page Mkdb.Tuple Mkdb.Generated

/-- **C18.dml_ddl_never_crash**: for every database state related to a plain database (`Rel`: the
catalog invariant, any number of tables of any size and depth), every CREATE TABLE / INSERT / UPDATE /
DELETE the parser can produce - unknown tables and columns, wrong types, NULLs, out-of-range integers,
oversized rows, WHERE clauses that cannot be evaluated, duplicate tables - the engine model returns
`.ok` or `.err`: never a panic, never an unmodelled path, never out of fuel (fuel exhaustion is how the
model would show a hang).  Side conditions: `StmtNames` - the statement does not address the two
catalog tables by name; `StmtRoomT` - literals that fit their Go types and the size room (64-level
fuel, offsets below 2^63) for INSERT and CREATE TABLE only. -/
theorem C18_dml_ddl_never_crash (db : Engine.DB) (order : List Nat) (pt sch : Levels)
    (tbls : List (Bytes × Levels)) (sdb : Spec.SDB) (h : Rel db pt sch tbls sdb) (st : Sql.Stmt)
    (hnames : StmtNames pt tbls st) (hroom : StmtRoomT db pt sch tbls st) :
    (∀ p, evalStmt db order st ≠ .panic p) ∧ (∀ w, evalStmt db order st ≠ .unmodelled w) ∧
      evalStmt db order st ≠ .fuel :=
  (evalStmt_total db order pt sch tbls sdb h st hnames hroom).not_crash

/-- and a refused statement leaves the log alone (`Total`) -/
theorem C18_dml_ddl_total (db : Engine.DB) (order : List Nat) (pt sch : Levels)
    (tbls : List (Bytes × Levels)) (sdb : Spec.SDB) (h : Rel db pt sch tbls sdb) (st : Sql.Stmt)
    (hnames : StmtNames pt tbls st) (hroom : StmtRoomT db pt sch tbls st) :
    Total db (evalStmt db order st) :=
  evalStmt_total db order pt sch tbls sdb h st hnames hroom

end Mkdb.Store
