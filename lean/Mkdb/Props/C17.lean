import Mkdb.Proofs.Session
/-!
# C17 — databases are isolated and survive any USE pattern

Property theorems only, about the session model `Mkdb.Session.exec` (engine/session.go
`Session.ExecQuery` over storage.CreateDB / OpenRelation / Close).  Quantifier: every session state
(any number of databases with any contents, any selection) and every statement; the history
statements follow by induction over the statement list.  What the model cannot exhibit - the
flush timer of a relation service that was never closed, file handles, the clock - is exercised
by the harness with the real timer (partial by nature for the schedule quantifier).
-/
namespace Mkdb.Session
open Mkdb.Engine Mkdb.Store Mkdb.Sql

/-- statements that are routed to the selected database -/
def routed : Stmt → Bool
  | .createDatabase _ | .use _ => false
  | _ => true

/-- **C17.frame**: a DDL/DML/SELECT/SHOW statement changes at most the selected database: the
selection, the set of databases and every other database's pages and log are exactly what they
were - whatever the statement does, succeeds or fails. -/
theorem C17_frame (s : Sess) (st : Stmt) (h : routed st = true) :
    (exec s st).1.cur = s.cur ∧ names (exec s st).1 = names s ∧
    ∀ m, s.cur ≠ some m → getDB (exec s st).1 m = getDB s m := by
  cases st with
  | createDatabase n => simp [routed] at h
  | use n => simp [routed] at h
  | showDatabases => exact ⟨rfl, rfl, fun _ _ => rfl⟩
  | createTable name cols => exact onCurrent_frame s _
  | insert t cols rows => exact onCurrent_frame s _
  | update t sets w => exact onCurrent_frame s _
  | delete t w => exact onCurrent_frame s _
  | select q =>
    simp only [exec]
    split <;> exact ⟨rfl, rfl, fun _ _ => rfl⟩

/-- **C17.no_database_selected**: without a selected database every routed statement other than
SHOW DATABASES is an error that changes nothing. -/
theorem C17_no_database_selected (s : Sess) (st : Stmt) (h : routed st = true) (hs : st ≠ .showDatabases)
    (hc : s.cur = none) : exec s st = (s, .err "noDbSelected") := by
  cases st with
  | createDatabase n => simp [routed] at h
  | use n => simp [routed] at h
  | showDatabases => exact absurd rfl hs
  | createTable name cols => simp [exec, onCurrent, hc]
  | insert t cols rows => simp [exec, onCurrent, hc]
  | update t sets w => simp [exec, onCurrent, hc]
  | delete t w => simp [exec, onCurrent, hc]
  | select q => simp [exec, hc]

/-- **C17.create_existing**: creating a database that exists (names compared in lower case) is an error
that changes nothing. -/
theorem C17_create_existing (s : Sess) (name : Bytes) (hv : validDbName name = true)
    (hne : name.isEmpty = false) (h : (getDB s (canon name)).isSome = true) :
    exec s (.createDatabase name) = (s, .err "dbExists") := by
  simp [exec, h, hv, hne]

/-- **C17.empty_name_refused**: the empty name is no database: CREATE DATABASE and USE refuse it and
change nothing. -/
theorem C17_empty_name_refused (s : Sess) :
    exec s (.createDatabase []) = (s, .err "noDbSelected") ∧ exec s (.use []) = (s, .err "noDbSelected") := by
  constructor <;> simp [exec, validDbName]

/-- **C17.invalid_name_refused**: a name that is not one plain directory name (`.`, `..`, a path
separator or NUL inside, more than 255 bytes) is refused by CREATE DATABASE and by USE with an error
that changes nothing, whatever exists - no database appears under a different name, nothing is opened
twice, nothing is written outside the data directory (the repaired defect: `CREATE DATABASE "a/b"`). -/
theorem C17_invalid_name_refused (s : Sess) (name : Bytes) (hv : validDbName name = false) :
    exec s (.createDatabase name) = (s, .err "invalidDbName") ∧
    exec s (.use name) = (s, .err "invalidDbName") := by
  simp [exec, hv]

/-- **C17.create_new**: a successful CREATE DATABASE adds exactly one database under the canonical name -
with an empty log - and leaves the selection and every existing database alone. -/
theorem C17_create_new (s s' : Sess) (name : Bytes) (h : exec s (.createDatabase name) = (s', .ok)) :
    getDB s (canon name) = none ∧ names s' = names s ++ [canon name] ∧ s'.cur = s.cur ∧
    (∃ db, getDB s' (canon name) = some db ∧ db.wal = []) ∧
    ∀ m, m ≠ canon name → getDB s' m = getDB s m := by
  have hv : validDbName name = true := by
    cases hv : validDbName name with
    | true => rfl
    | false => simp [exec, hv] at h
  have hne : name.isEmpty = false := by
    cases hne : name.isEmpty with
    | false => rfl
    | true => simp [exec, hv, hne] at h
  unfold exec at h
  simp only [hv, hne, Bool.not_true, Bool.false_eq_true, if_false] at h
  split at h
  · simp at h
  · rename_i hnone
    have hn : getDB s (canon name) = none := by
      cases hg : getDB s (canon name) with
      | none => rfl
      | some _ => simp [hg] at hnone
    split at h
    · rename_i st hcd
      simp only [Prod.mk.injEq, and_true] at h
      subst h
      refine ⟨hn, ?_, rfl, ⟨{ store := reopen st, wal := [] }, by rw [getDB_setDB]; simp, rfl⟩, ?_⟩
      · rw [names_setDB, hn]; rfl
      · intro m hm
        rw [getDB_setDB]
        have : (m == canon name) = false := by
          cases hb : (m == canon name) with
          | false => rfl
          | true => rw [beq_iff_eq] at hb; exact absurd hb hm
        simp [this]
    · simp at h

/-- **C17.use_missing**: selecting a database that does not exist is an error that changes nothing - in
particular the previously selected database stays selected and open. -/
theorem C17_use_missing (s : Sess) (name : Bytes) (hv : validDbName name = true)
    (hne : name.isEmpty = false) (h : getDB s (canon name) = none) :
    exec s (.use name) = (s, .err "dbNotExist") := by
  simp [exec, h, hv, hne]

/-- **C17.use_current**: re-selecting the selected database changes nothing at all. -/
theorem C17_use_current (s : Sess) (name : Bytes) (hv : validDbName name = true)
    (hne : name.isEmpty = false) (h : (getDB s (canon name)).isSome = true)
    (hc : s.cur = some (canon name)) : exec s (.use name) = (s, .ok) := by
  have hn : (getDB s (canon name)).isNone = false := by
    cases hg : getDB s (canon name) <;> simp_all
  cases s with
  | mk dbs cur =>
    simp only at hc
    subst hc
    simp [exec, hn, hv, hne]

/-- **C17.use_other**: selecting another existing database succeeds, selects it, keeps the set of
databases, and leaves every database other than the previously selected one (which is closed, i.e.
flushed) exactly as it was. -/
theorem C17_use_other (s : Sess) (name : Bytes) (hv : validDbName name = true)
    (hne : name.isEmpty = false) (h : (getDB s (canon name)).isSome = true) :
    (exec s (.use name)).2 = .ok ∧ (exec s (.use name)).1.cur = some (canon name) ∧
    names (exec s (.use name)).1 = names s ∧
    ∀ m, s.cur ≠ some m → getDB (exec s (.use name)).1 m = getDB s m := by
  have hn : (getDB s (canon name)).isNone = false := by
    cases hg : getDB s (canon name) <;> simp_all
  unfold exec
  simp only [hv, hne, Bool.not_true, hn, Bool.false_eq_true, if_false]
  refine ⟨by trivial, by trivial, ?_, ?_⟩
  · show names _ = names s
    split
    · rename_i c hc
      split
      · rfl
      · split
        · rename_i db hg
          split
          · show names (setDB s c _) = names s
            rw [names_setDB, hg]; rfl
          · rfl
        · rfl
    · rfl
  · intro m hm
    show getDB _ m = getDB s m
    split
    · rename_i c hc
      split
      · rfl
      · split
        · rename_i db hg
          split
          · show getDB (setDB s c _) m = getDB s m
            rw [getDB_setDB]
            have : (m == c) = false := by
              cases hb : (m == c) with
              | false => rfl
              | true => rw [beq_iff_eq] at hb; subst hb; exact absurd hc hm
            simp [this]
          · rfl
        · rfl
    · rfl

/-- a session history and its outputs -/
def runOuts (s : Sess) : List Stmt → Sess × List Out
  | [] => (s, [])
  | st :: rest =>
    let r := exec s st
    let rr := runOuts r.1 rest
    (rr.1, r.2 :: rr.2)

/-- the canonical names of the CREATE DATABASE statements that returned ok, in order -/
def created : List Stmt → List Out → List String
  | .createDatabase n :: sts, .ok :: outs => canon n :: created sts outs
  | _ :: sts, _ :: outs => created sts outs
  | _, _ => []

/-- non-vacuity: `a/b`, `..` are refused, `plain` is a name -/
example : validDbName [97, 47, 98] = false ∧ validDbName [46, 46] = false ∧ validDbName [112, 108, 97, 105, 110] = true := by
  decide

theorem exec_create_fst (s : Sess) (n : Bytes) (h : (exec s (.createDatabase n)).2 ≠ .ok) :
    (exec s (.createDatabase n)).1 = s := by
  cases hv : validDbName n with
  | false => simp [exec, hv]
  | true =>
    cases hne : n.isEmpty with
    | true => simp [exec, hv, hne]
    | false =>
      unfold exec at h ⊢
      simp only [hv, hne, Bool.not_true, Bool.false_eq_true, if_false] at h ⊢
      split
      · rfl
      · split
        · rename_i hx _ _ _ hy
          simp [hx, hy] at h
        · rfl

theorem names_exec (s : Sess) (st : Stmt) :
    names (exec s st).1 = names s ++ created [st] [(exec s st).2] := by
  cases st with
  | createDatabase n =>
    cases ho : (exec s (.createDatabase n)).2 with
    | ok =>
      have h : exec s (.createDatabase n) = ((exec s (.createDatabase n)).1, .ok) := by rw [← ho]
      have := (C17_create_new s _ n h).2.1
      simpa [created] using this
    | err k =>
      have : (exec s (.createDatabase n)).1 = s := exec_create_fst s n (by rw [ho]; simp)
      simp [this, created]
    | panic =>
      have : (exec s (.createDatabase n)).1 = s := exec_create_fst s n (by rw [ho]; simp)
      simp [this, created]
    | rows l =>
      have : (exec s (.createDatabase n)).1 = s := exec_create_fst s n (by rw [ho]; simp)
      simp [this, created]
  | use n =>
    cases hv : validDbName n with
    | false => rw [(C17_invalid_name_refused s n hv).2]; simp [created]
    | true =>
      cases hne : n.isEmpty with
      | true => simp [exec, hv, hne, created]
      | false =>
        by_cases h : (getDB s (canon n)).isSome = true
        · have := (C17_use_other s n hv hne h).2.2.1
          cases ho : (exec s (.use n)).2 <;> simp [this, created]
        · have hn : getDB s (canon n) = none := by
            cases hg : getDB s (canon n) <;> simp_all
          rw [C17_use_missing s n hv hne hn]; simp [created]
  | showDatabases => simp [exec, created]
  | createTable name cols =>
    have := (C17_frame s (.createTable name cols) rfl).2.1
    cases ho : (exec s (.createTable name cols)).2 <;> simp [this, created]
  | insert t cols rows =>
    have := (C17_frame s (.insert t cols rows) rfl).2.1
    cases ho : (exec s (.insert t cols rows)).2 <;> simp [this, created]
  | update t sets w =>
    have := (C17_frame s (.update t sets w) rfl).2.1
    cases ho : (exec s (.update t sets w)).2 <;> simp [this, created]
  | delete t w =>
    have := (C17_frame s (.delete t w) rfl).2.1
    cases ho : (exec s (.delete t w)).2 <;> simp [this, created]
  | select q =>
    have := (C17_frame s (.select q) rfl).2.1
    cases ho : (exec s (.select q)).2 <;> simp [this, created]

theorem created_cons (st : Stmt) (o : Out) (sts : List Stmt) (outs : List Out) :
    created (st :: sts) (o :: outs) = created [st] [o] ++ created sts outs := by
  cases st <;> cases o <;> simp [created]

/-- **C17.names_are_the_created_ones**: after any history the databases of the session are exactly
those whose CREATE DATABASE returned ok, in creation order. -/
theorem C17_names_are_the_created_ones (s : Sess) (sts : List Stmt) :
    names (runOuts s sts).1 = names s ++ created sts (runOuts s sts).2 := by
  induction sts generalizing s with
  | nil => simp [runOuts, created]
  | cons st rest ih =>
    simp only [runOuts]
    rw [ih, names_exec, created_cons st (exec s st).2 rest, List.append_assoc]

theorem insertSortedStr_perm (k : String) (l : List String) : (insertSortedStr k l).Perm (k :: l) := by
  induction l with
  | nil => exact List.Perm.refl _
  | cons x xs ih =>
    simp only [insertSortedStr]
    split
    · exact List.Perm.refl _
    · exact (List.Perm.cons x ih).trans (List.Perm.swap k x xs)

theorem sortedNames_perm_aux (l : List (String × DB)) (acc : List String) :
    (l.foldl (fun acc p => insertSortedStr p.1 acc) acc).Perm (acc ++ l.map (·.1)) := by
  induction l generalizing acc with
  | nil => simp
  | cons p rest ih =>
    simp only [List.foldl_cons, List.map_cons]
    refine (ih _).trans ?_
    refine ((insertSortedStr_perm p.1 acc).append_right _).trans ?_
    simpa using (List.perm_middle (a := p.1) (l₁ := acc) (l₂ := rest.map (·.1))).symm

/-- **C17.show_lists_exactly_the_databases**: SHOW DATABASES changes nothing and returns a permutation
of the session's database names - none missing, none invented, none twice. -/
theorem C17_show (s : Sess) :
    exec s .showDatabases = (s, .rows (sortedNames s)) ∧ (sortedNames s).Perm (names s) := by
  refine ⟨rfl, ?_⟩
  have := sortedNames_perm_aux s.dbs []
  simpa [sortedNames, names] using this

/-- non-vacuity: a session with two databases, one selected; the hypotheses of the theorems above are met -/
example : let s : Sess := { dbs := [("a", {}), ("b", {})], cur := some "a" }
    (getDB s "b").isSome = true ∧ s.cur ≠ some "b" ∧ routed (.delete [] none) = true := by
  refine ⟨by decide, by decide, rfl⟩

end Mkdb.Session
