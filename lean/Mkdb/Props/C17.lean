import Mkdb.Proofs.Session
import Mkdb.Proofs.SessionInv9
import Mkdb.Proofs.DbNames1
import Mkdb.Proofs.SessionCrash3
import Mkdb.Proofs.SessionCrash6
import Mkdb.Proofs.SessionCrash10
/-!
# C17 — databases are isolated and survive any USE pattern

Property theorems only, about the session model `Mkdb.Session.exec` (engine/session.go
`Session.ExecQuery` over storage.CreateDB / OpenRelation / Close).  Quantifier: every session state
(any number of databases with any contents, any selection) and every statement; the history
statements follow by induction over the statement list.  What the model cannot exhibit - the
flush timer of a relation service that was never closed, file handles, the clock - is exercised
by the harness with the real timer (partial by nature for the schedule quantifier).
-/
namespace Mkdb.Session
open Mkdb.Engine Mkdb.Sql
open Mkdb.Store hiding Stmt   -- (`Store.Stmt`, a row statement of the replay proofs, is not meant here)

/-- statements that are routed to the selected database -/
def routed : Stmt → Bool
  | .createDatabase _ | .use _ => false
  | _ => true

/-- **C17.frame**: a DDL/DML/SELECT/SHOW statement changes at most the selected database: the
selection, the set of databases and every other database's pages and log are exactly what they
were - whatever the statement does, succeeds or fails.  (A SELECT is evaluated on the selected database -
the session model no longer has a stub there - and changes NOTHING, the selected database included,
whatever it returns: `exec_select_fst`.) -/
theorem C17_frame (s : Sess) (st : Stmt) (h : routed st = true) :
    (exec s st).1.cur = s.cur ∧ names (exec s st).1 = names s ∧
    ∀ m, s.cur ≠ some m → getDB (exec s st).1 m = getDB s m := by
  cases st with
  | createDatabase n => simp [routed] at h
  | use n => simp [routed] at h
  | showDatabases => exact ⟨rfl, rfl, fun _ _ => rfl⟩
  | createTable name cols => exact onCurrent_frame s _
  | insert t cols rows => exact onCurrent_frame s _
  | update t sets w => exact onCurrent_frame s _
  | delete t w => exact onCurrent_frame s _
  | select q =>
    -- (the session model now evaluates the query: whatever the outcome, the session is the same)
    rw [exec_select_fst]
    exact ⟨rfl, rfl, fun _ _ => rfl⟩

/-- **C17.no_database_selected**: without a selected database every routed statement other than
SHOW DATABASES is an error that changes nothing. -/
theorem C17_no_database_selected (s : Sess) (st : Stmt) (h : routed st = true) (hs : st ≠ .showDatabases)
    (hc : s.cur = none) : exec s st = (s, .err "noDbSelected") := by
  cases st with
  | createDatabase n => simp [routed] at h
  | use n => simp [routed] at h
  | showDatabases => exact absurd rfl hs
  | createTable name cols => simp [exec, onCurrent, hc]
  | insert t cols rows => simp [exec, onCurrent, hc]
  | update t sets w => simp [exec, onCurrent, hc]
  | delete t w => simp [exec, onCurrent, hc]
  | select q => simp [exec, hc]

/-- **C17.create_existing**: creating a database that exists (names compared in lower case: `canon`,
the model of Go's Unicode-aware `strings.ToLower`) is an error that changes nothing. -/
theorem C17_create_existing (s : Sess) (name : Bytes) (hv : validDbName name = true)
    (hne : name.isEmpty = false) (h : (getDB s (canon name)).isSome = true) :
    exec s (.createDatabase name) = (s, .err "dbExists") := by
  simp [exec, h, hv, hne]

/-- **C17.empty_name_refused**: the empty name is no database: CREATE DATABASE and USE refuse it and
change nothing. -/
theorem C17_empty_name_refused (s : Sess) :
    exec s (.createDatabase []) = (s, .err "noDbSelected") ∧ exec s (.use []) = (s, .err "noDbSelected") := by
  have hv : validDbName [] = true := by decide
  constructor <;> simp [exec, hv]

/-- **C17.invalid_name_refused**: a name whose lower-cased form (`canonBytes`: what Go's `checkDBName`
checks, `strings.ToLower` of the name) is not one plain directory name (`.`, `..`, a path
separator or NUL inside, more than 255 bytes) is refused by CREATE DATABASE and by USE with an error
that changes nothing, whatever exists - no database appears under a different name, nothing is opened
twice, nothing is written outside the data directory (the repaired defect: `CREATE DATABASE "a/b"`). -/
theorem C17_invalid_name_refused (s : Sess) (name : Bytes) (hv : validDbName name = false) :
    exec s (.createDatabase name) = (s, .err "invalidDbName") ∧
    exec s (.use name) = (s, .err "invalidDbName") := by
  simp [exec, hv]

/-- **C17.create_new**: a successful CREATE DATABASE adds exactly one database under the canonical name -
with an empty log - and leaves the selection and every existing database alone. -/
theorem C17_create_new (s s' : Sess) (name : Bytes) (h : exec s (.createDatabase name) = (s', .ok)) :
    getDB s (canon name) = none ∧ names s' = names s ++ [canon name] ∧ s'.cur = s.cur ∧
    (∃ db, getDB s' (canon name) = some db ∧ db.wal = []) ∧
    ∀ m, m ≠ canon name → getDB s' m = getDB s m := by
  have hv : validDbName name = true := by
    cases hv : validDbName name with
    | true => rfl
    | false => simp [exec, hv] at h
  have hne : name.isEmpty = false := by
    cases hne : name.isEmpty with
    | false => rfl
    | true => simp [exec, hv, hne] at h
  unfold exec at h
  simp only [hv, hne, Bool.not_true, Bool.false_eq_true, if_false] at h
  split at h
  · simp at h
  · rename_i hnone
    have hn : getDB s (canon name) = none := by
      cases hg : getDB s (canon name) with
      | none => rfl
      | some _ => simp [hg] at hnone
    split at h
    · rename_i st hcd
      simp only [Prod.mk.injEq, and_true] at h
      subst h
      refine ⟨hn, ?_, rfl, ⟨{ store := reopen st, wal := [] }, by rw [getDB_setDB]; simp, rfl⟩, ?_⟩
      · rw [names_setDB, hn]; rfl
      · intro m hm
        rw [getDB_setDB]
        have : (m == canon name) = false := by
          cases hb : (m == canon name) with
          | false => rfl
          | true => rw [beq_iff_eq] at hb; exact absurd hb hm
        simp [this]
    · simp at h

/-- **C17.use_missing**: selecting a database that does not exist is an error that changes nothing - in
particular the previously selected database stays selected and open. -/
theorem C17_use_missing (s : Sess) (name : Bytes) (hv : validDbName name = true)
    (hne : name.isEmpty = false) (h : getDB s (canon name) = none) :
    exec s (.use name) = (s, .err "dbNotExist") := by
  simp [exec, h, hv, hne]

/-- **C17.use_current**: re-selecting the selected database changes nothing at all. -/
theorem C17_use_current (s : Sess) (name : Bytes) (hv : validDbName name = true)
    (hne : name.isEmpty = false) (h : (getDB s (canon name)).isSome = true)
    (hc : s.cur = some (canon name)) : exec s (.use name) = (s, .ok) := by
  have hn : (getDB s (canon name)).isNone = false := by
    cases hg : getDB s (canon name) <;> simp_all
  cases s with
  | mk dbs cur =>
    simp only at hc
    subst hc
    simp [exec, hn, hv, hne]

/-- **C17.use_other**: selecting another existing database succeeds, selects it, keeps the set of
databases, and leaves every database other than the previously selected one (which is closed, i.e.
flushed) exactly as it was. -/
theorem C17_use_other (s : Sess) (name : Bytes) (hv : validDbName name = true)
    (hne : name.isEmpty = false) (h : (getDB s (canon name)).isSome = true) :
    (exec s (.use name)).2 = .ok ∧ (exec s (.use name)).1.cur = some (canon name) ∧
    names (exec s (.use name)).1 = names s ∧
    ∀ m, s.cur ≠ some m → getDB (exec s (.use name)).1 m = getDB s m := by
  have hn : (getDB s (canon name)).isNone = false := by
    cases hg : getDB s (canon name) <;> simp_all
  unfold exec
  simp only [hv, hne, Bool.not_true, hn, Bool.false_eq_true, if_false]
  refine ⟨by trivial, by trivial, ?_, ?_⟩
  · show names _ = names s
    split
    · rename_i c hc
      split
      · rfl
      · split
        · rename_i db hg
          split
          · show names (setDB s c _) = names s
            rw [names_setDB, hg]; rfl
          · rfl
        · rfl
    · rfl
  · intro m hm
    show getDB _ m = getDB s m
    split
    · rename_i c hc
      split
      · rfl
      · split
        · rename_i db hg
          split
          · show getDB (setDB s c _) m = getDB s m
            rw [getDB_setDB]
            have : (m == c) = false := by
              cases hb : (m == c) with
              | false => rfl
              | true => rw [beq_iff_eq] at hb; subst hb; exact absurd hc hm
            simp [this]
          · rfl
        · rfl
    · rfl

/-- a session history and its outputs -/
def runOuts (s : Sess) : List Stmt → Sess × List Out
  | [] => (s, [])
  | st :: rest =>
    let r := exec s st
    let rr := runOuts r.1 rest
    (rr.1, r.2 :: rr.2)

/-- the canonical names of the CREATE DATABASE statements that returned ok, in order -/
def created : List Stmt → List Out → List String
  | .createDatabase n :: sts, .ok :: outs => canon n :: created sts outs
  | _ :: sts, _ :: outs => created sts outs
  | _, _ => []

/-- non-vacuity: `a/b`, `..` are refused, `plain` is a name -/
example : validDbName [97, 47, 98] = false ∧ validDbName [46, 46] = false ∧ validDbName [112, 108, 97, 105, 110] = true := by
  decide +kernel

/-! ### database names: identity and validity are those of the lower-cased name

`canon` models Go's `strings.ToLower` (storage/file.go `checkDBName`, `makeDBDir`, `dbFilePath`,
engine/session.go): the bytes are read as UTF-8 the way Go reads them (every byte that is part of no
well-formed sequence is U+FFFD), every code point is mapped by `unicode.ToLower` - the table
`Mkdb/Generated/Lower.lean`, regenerated from the Go library by tools/extract -, and encoded again. -/

/-- **C17.lowering_is_the_generated_table**: the model's `unicode.ToLower` maps every code point the
generated table lists to the listed image, moves no code point the table does not list, and every
image is a fixed point (lowering twice is lowering once).  The table itself - that it is what the Go
library computes - is trusted to the extractor. -/
theorem C17_lowering_is_the_generated_table :
    (∀ p ∈ Mkdb.Generated.lowerPairsList, lowerRune p.1 = p.2) ∧
    (∀ r, lowerRune r ≠ r → (r, lowerRune r) ∈ Mkdb.Generated.lowerPairsList) ∧
    (∀ r, lowerRune (lowerRune r) = lowerRune r) :=
  ⟨lowerRune_listed, lowerRune_moved, lowerRune_idem⟩

/-- **C17.canonical_name_is_its_own_canonical_name**: the bytes of the canonical name - the directory
name, what SHOW DATABASES lists - are `canonBytes`, and naming a database by them names the same
database: `canon` is idempotent on its own output.  (Go's decoder reads back what the UTF-8 encoder
writes, and no image of `unicode.ToLower` is itself moved.) -/
theorem C17_canonical_name_is_its_own_canonical_name (name : Bytes) :
    (canon name).toUTF8.toList = canonBytes name ∧ canon (canon name).toUTF8.toList = canon name ∧
    validDbName (canon name).toUTF8.toList = validDbName name :=
  ⟨toUTF8_canon name, canon_idem name, validDbName_of_canon_eq (canon_idem name)⟩

/-- **C17.same_lowering_same_database**: two spellings with the same lower-cased form are the same
database name for CREATE DATABASE and USE - same outcome, same resulting session, in every session
state: both valid or both not, both empty or both not, the same database found or missing. -/
theorem C17_same_lowering_same_database (s : Sess) (a b : Bytes) (h : canon a = canon b) :
    exec s (.createDatabase a) = exec s (.createDatabase b) ∧ exec s (.use a) = exec s (.use b) := by
  have hv := validDbName_of_canon_eq h
  have he := isEmpty_of_canon_eq h
  constructor <;> simp only [exec, h, hv, he]

/-- **C17.ascii_upper_case_is_the_same_database**: a name and its ASCII-upper-cased spelling (the
letters a-z replaced by A-Z, every other byte - valid UTF-8 or not - kept) are the same database. -/
theorem C17_ascii_upper_case_is_the_same_database (s : Sess) (name : Bytes) :
    canon (name.map up8) = canon name ∧
    exec s (.createDatabase (name.map up8)) = exec s (.createDatabase name) ∧
    exec s (.use (name.map up8)) = exec s (.use name) :=
  ⟨canon_map_up8 name, C17_same_lowering_same_database s _ _ (canon_map_up8 name)⟩

/-- **C17.ascii_names_fold_bytewise**: on a pure-ASCII name the lower-cased form is the byte-wise
folding of A-Z to a-z (the byte-wise path of `strings.ToLower`; what the model was before it
followed Unicode): such a name is valid exactly if the folded bytes are one plain directory name. -/
theorem C17_ascii_names_fold_bytewise (name : Bytes) (h : ∀ c ∈ name, c.toNat < 128) :
    canonBytes name = name.map low8 :=
  canonBytes_ascii name h

/-- examples (kernel-evaluated; the sess harness runs the same names against the code): `É` and `é`
are one database; the Kelvin sign lowers to `k`, `İ` to `i`; σ and ς, s and ſ stay apart; 127 × `Ⱥ` is
254 bytes but 381 lowered: refused; 100 × the Kelvin sign is 300 bytes but 100 lowered: accepted, the
database `kkk…k`; the byte FF alone is the database U+FFFD (EF BF BD), as FE is; after distinct
prefixes it gives distinct databases; the overlong form C0 AF of `/` is no `/` but two U+FFFD; an
encoded surrogate is three U+FFFD -/
example :
    canonBytes [0xC3, 0x89] = [0xC3, 0xA9] ∧ canonBytes [0xC3, 0xA9] = [0xC3, 0xA9] ∧
    canonBytes [0xE2, 0x84, 0xAA] = [107] ∧ canonBytes [0xC4, 0xB0] = [105] ∧
    canonBytes [0xCF, 0x83] ≠ canonBytes [0xCF, 0x82] ∧ canonBytes [115] ≠ canonBytes [0xC5, 0xBF] ∧
    validDbName ((List.replicate 127 [0xC8, 0xBA]).flatten) = false ∧
    validDbName ((List.replicate 85 [0xC8, 0xBA]).flatten) = true ∧
    validDbName ((List.replicate 100 [0xE2, 0x84, 0xAA]).flatten) = true ∧
    canonBytes ((List.replicate 100 [0xE2, 0x84, 0xAA]).flatten) = List.replicate 100 107 ∧
    canonBytes [0xFF] = [0xEF, 0xBF, 0xBD] ∧ canonBytes [0xFE] = canonBytes [0xFF] ∧
    canonBytes [0xEF, 0xBF, 0xBD] = canonBytes [0xFF] ∧
    canonBytes [97, 0xFF] ≠ canonBytes [98, 0xFF] ∧ canonBytes [65, 0xFE] = canonBytes [97, 0xFF] ∧
    canonBytes [0xC0, 0xAF] = [0xEF, 0xBF, 0xBD, 0xEF, 0xBF, 0xBD] ∧ validDbName [0xC0, 0xAF] = true ∧
    canonBytes [0xED, 0xA0, 0x80] = canonBytes [0xFF, 0xFF, 0xFF] ∧
    validDbName (List.replicate 85 0xFF) = true ∧ validDbName (List.replicate 86 0xFF) = false := by
  decide +kernel

theorem exec_create_fst (s : Sess) (n : Bytes) (h : (exec s (.createDatabase n)).2 ≠ .ok) :
    (exec s (.createDatabase n)).1 = s := by
  cases hv : validDbName n with
  | false => simp [exec, hv]
  | true =>
    cases hne : n.isEmpty with
    | true => simp [exec, hv, hne]
    | false =>
      unfold exec at h ⊢
      simp only [hv, hne, Bool.not_true, Bool.false_eq_true, if_false] at h ⊢
      split
      · rfl
      · split
        · rename_i hx _ _ _ hy
          simp [hx, hy] at h
        · rfl

theorem names_exec (s : Sess) (st : Stmt) :
    names (exec s st).1 = names s ++ created [st] [(exec s st).2] := by
  cases st with
  | createDatabase n =>
    cases ho : (exec s (.createDatabase n)).2 with
    | ok =>
      have h : exec s (.createDatabase n) = ((exec s (.createDatabase n)).1, .ok) := by rw [← ho]
      have := (C17_create_new s _ n h).2.1
      simpa [created] using this
    | err k =>
      have : (exec s (.createDatabase n)).1 = s := exec_create_fst s n (by rw [ho]; simp)
      simp [this, created]
    | panic =>
      have : (exec s (.createDatabase n)).1 = s := exec_create_fst s n (by rw [ho]; simp)
      simp [this, created]
    | rows l =>
      have : (exec s (.createDatabase n)).1 = s := exec_create_fst s n (by rw [ho]; simp)
      simp [this, created]
  | use n =>
    cases hv : validDbName n with
    | false => rw [(C17_invalid_name_refused s n hv).2]; simp [created]
    | true =>
      cases hne : n.isEmpty with
      | true => simp [exec, hv, hne, created]
      | false =>
        by_cases h : (getDB s (canon n)).isSome = true
        · have := (C17_use_other s n hv hne h).2.2.1
          cases ho : (exec s (.use n)).2 <;> simp [this, created]
        · have hn : getDB s (canon n) = none := by
            cases hg : getDB s (canon n) <;> simp_all
          rw [C17_use_missing s n hv hne hn]; simp [created]
  | showDatabases => simp [exec, created]
  | createTable name cols =>
    have := (C17_frame s (.createTable name cols) rfl).2.1
    cases ho : (exec s (.createTable name cols)).2 <;> simp [this, created]
  | insert t cols rows =>
    have := (C17_frame s (.insert t cols rows) rfl).2.1
    cases ho : (exec s (.insert t cols rows)).2 <;> simp [this, created]
  | update t sets w =>
    have := (C17_frame s (.update t sets w) rfl).2.1
    cases ho : (exec s (.update t sets w)).2 <;> simp [this, created]
  | delete t w =>
    have := (C17_frame s (.delete t w) rfl).2.1
    cases ho : (exec s (.delete t w)).2 <;> simp [this, created]
  | select q =>
    have := (C17_frame s (.select q) rfl).2.1
    cases ho : (exec s (.select q)).2 <;> simp [this, created]

theorem created_cons (st : Stmt) (o : Out) (sts : List Stmt) (outs : List Out) :
    created (st :: sts) (o :: outs) = created [st] [o] ++ created sts outs := by
  cases st <;> cases o <;> simp [created]

/-- **C17.names_are_the_created_ones**: after any history the databases of the session are exactly
those whose CREATE DATABASE returned ok, in creation order. -/
theorem C17_names_are_the_created_ones (s : Sess) (sts : List Stmt) :
    names (runOuts s sts).1 = names s ++ created sts (runOuts s sts).2 := by
  induction sts generalizing s with
  | nil => simp [runOuts, created]
  | cons st rest ih =>
    simp only [runOuts]
    rw [ih, names_exec, created_cons st (exec s st).2 rest, List.append_assoc]

theorem insertSortedStr_perm (k : String) (l : List String) : (insertSortedStr k l).Perm (k :: l) := by
  induction l with
  | nil => exact List.Perm.refl _
  | cons x xs ih =>
    simp only [insertSortedStr]
    split
    · exact List.Perm.refl _
    · exact (List.Perm.cons x ih).trans (List.Perm.swap k x xs)

theorem sortedNames_perm_aux (l : List (String × DB)) (acc : List String) :
    (l.foldl (fun acc p => insertSortedStr p.1 acc) acc).Perm (acc ++ l.map (·.1)) := by
  induction l generalizing acc with
  | nil => simp
  | cons p rest ih =>
    simp only [List.foldl_cons, List.map_cons]
    refine (ih _).trans ?_
    refine ((insertSortedStr_perm p.1 acc).append_right _).trans ?_
    simpa using (List.perm_middle (a := p.1) (l₁ := acc) (l₂ := rest.map (·.1))).symm

/-- **C17.show_lists_exactly_the_databases**: SHOW DATABASES changes nothing and returns a permutation
of the session's database names - none missing, none invented, none twice. -/
theorem C17_show (s : Sess) :
    exec s .showDatabases = (s, .rows (sortedNames s)) ∧ (sortedNames s).Perm (names s) := by
  refine ⟨rfl, ?_⟩
  have := sortedNames_perm_aux s.dbs []
  simpa [sortedNames, names] using this

/-- non-vacuity: a session with two databases, one selected; the hypotheses of the theorems above are met -/
example : let s : Sess := { dbs := [("a", {}), ("b", {})], cur := some "a" }
    (getDB s "b").isSome = true ∧ s.cur ≠ some "b" ∧ routed (.delete [] none) = true := by
  refine ⟨by decide, by decide, rfl⟩

/-! ### contents: the session abstracts to one plain database per name

`SessAbs s w` (Proofs/SessionInv6): `w name` is the plain in-memory database (`Spec.SDB`: tables, their
declared columns, their rows in order) that the database `name` of the session holds - every database
satisfies the invariant `DbInv` for it, every database other than the selected one is closed.  The
theorems below say what `exec` and `restart` do to `w`. -/

/-- `runOuts` is the history runner of the invariant theorems -/
theorem runOuts_eq_runAll (s : Sess) (sts : List Stmt) : runOuts s sts = runAll s sts := by
  induction sts generalizing s with
  | nil => rfl
  | cons st rest ih => simp only [runOuts, runAll, ih]

/-- **C17.contents_are_what_a_reader_sees**: in a session that abstracts to the plain databases `w`, what
`RelationService.Fetch` - the source of every SELECT - returns for a table of a database is the declared
columns and exactly the rows, value for value and in order, that the plain database `w name` holds for
it. -/
theorem C17_contents_are_what_a_reader_sees (s : Sess) (w : String → Spec.SDB) (h : SessAbs s w)
    (name : String) (db : DB) (hg : getDB s name = some db) (t : Bytes) (tb : Spec.STable)
    (hfind : Spec.findTable (w name) t = some tb) : Reads db t tb.cols (tb.rows.map (·.vals)) := by
  obtain ⟨pt, sch, tbls, hi, _⟩ := h.dbs (name, db) (getDB_mem hg)
  exact hi.reads hfind

/-- non-vacuity: the table `t` of the selected database of `sessT` -/
example : SessAbs sessT (fun _ => sdbA0) ∧ getDB sessT "d" = some tableDB ∧
    Spec.findTable sdbA0 tname = some ⟨tname, schemaA, []⟩ :=
  ⟨sessAbs_sessT, by simp [getDB, sessT], rfl⟩

/-- **C17.empty_session**: the session before any statement abstracts (to anything: it has no database). -/
theorem C17_empty_session (w : String → Spec.SDB) : SessAbs {} w := sessAbs_empty w

/-- **C17.use_changes_no_database**: USE - of another database, of the selected one, of a missing one,
with an invalid name - changes the contents of NO database: the session abstracts to the same plain
databases `w` afterwards (the database it leaves is flushed and re-opened: a closed database for the same
plain database), it does not crash, and the invariant holds again (so every database accepts statements
as before). -/
theorem C17_use_changes_no_database (s : Sess) (w : String → Spec.SDB) (h : SessAbs s w) (name : Bytes) :
    SessAbs (exec s (.use name)).1 w ∧ (exec s (.use name)).2 ≠ Out.panic :=
  use_sessAbs h name

/-- **C17.any_number_of_uses**: switching between databases with USE any number of times - back and
forth, re-selecting the current one, naming databases that do not exist - leaves every database's
contents as they were. -/
theorem C17_any_number_of_uses (s : Sess) (w : String → Spec.SDB) (h : SessAbs s w) (names : List Bytes) :
    SessAbs (runOuts s (names.map Stmt.use)).1 w := by
  induction names generalizing s with
  | nil => exact h
  | cons n rest ih =>
    simp only [List.map_cons, runOuts]
    exact ih _ (use_sessAbs h n).1

/-- **C17.create_database_adds_an_empty_database**: an accepted CREATE DATABASE adds a database whose
contents are EMPTY (no tables) under the canonical name and changes the contents of no other database;
a refused one (`C17_create_existing`, `C17_invalid_name_refused`, `C17_empty_name_refused`) changes no
contents at all; either way the invariant holds again. -/
theorem C17_create_database_adds_an_empty_database (s : Sess) (w : String → Spec.SDB) (h : SessAbs s w)
    (name : Bytes) :
    ∃ w', SessAbs (exec s (.createDatabase name)).1 w' ∧
      (∀ m, (getDB s m).isSome = true → w' m = w m) ∧
      ((exec s (.createDatabase name)).2 = Out.ok → w' (canon name) = [] ∧ ∀ m, m ≠ canon name → w' m = w m) ∧
      ((exec s (.createDatabase name)).2 ≠ Out.ok → w' = w) := by
  obtain ⟨w', h1, _, h3, h4⟩ := createDatabase_sessAbs h name
  by_cases hok : (exec s (.createDatabase name)).2 = Out.ok
  · refine ⟨w', h1, h3, fun _ => ?_, fun hne => absurd hok hne⟩
    rw [h4 hok]
    exact ⟨setW_same w _ _, fun m hm => setW_other w _ hm⟩
  · have hs : (exec s (.createDatabase name)).1 = s := exec_create_fst s name hok
    refine ⟨w, by rw [hs]; exact h, fun _ _ => rfl, fun h0 => absurd h0 hok, fun _ => rfl⟩

/-- **C17.statements_change_only_the_selected_database**: whatever a statement does - accepted, refused,
refused at a later row - the contents of every database other than the selected one are what they were
(each database holds only what was written while it was selected), and the invariant holds again.
`StmtSide`: the side conditions of the statement-level theorems for the selected database
(`C18_session_statement_never_crashes`; for a SELECT - now evaluated by the session model - a select list of
a shape the parser builds and a FROM clause over user tables: `SelectSide`). -/
theorem C17_statements_change_only_the_selected_database (s : Sess) (w : String → Spec.SDB) (h : SessAbs s w)
    (st : Stmt) (hside : StmtSide s st) :
    ∃ w', SessAbs (exec s st).1 w' ∧ ∀ m, s.cur ≠ some m → (getDB s m).isSome = true → w' m = w m := by
  obtain ⟨w', h1, _, h3⟩ := exec_sessAbs h st hside
  exact ⟨w', h1, h3⟩

/-- **C17.accepted_statement_changes_the_selected_database_as_the_plain_model_says**: a statement routed
to the selected database that the plain model accepts (`Spec.specStmt`; side conditions `StmtRoom`)
succeeds, and the selected database then holds exactly the plain model's result; every other database
holds what it held. -/
theorem C17_accepted_statement (s : Sess) (w : String → Spec.SDB) (h : SessAbs s w) (n : String)
    (hc : s.cur = some n) (db : DB) (hg : getDB s n = some db) (st : Stmt)
    (hk : (∃ t c, st = .createTable t c) ∨ (∃ t c r, st = .insert t c r) ∨ (∃ t a c, st = .update t a c) ∨
      (∃ t c, st = .delete t c))
    (hroom : ∀ pt sch tbls, DbInv db (w n) pt sch tbls → StmtRoom db pt sch tbls st)
    (sdb' : Spec.SDB) (hspec : Spec.specStmt (w n) st = some sdb') :
    (exec s st).2 = Out.ok ∧ SessAbs (exec s st).1 (setW w n sdb') := by
  obtain ⟨pt, sch, tbls, hi, _⟩ := h.dbs (n, db) (getDB_mem hg)
  obtain ⟨db', pt', sch', tbls', e, hi'⟩ := hi.accepted [] st (hroom pt sch tbls hi) sdb' hspec
  rw [exec_routed s st hk]
  unfold onCurrent
  simp only [hc, hg, e]
  exact ⟨trivial, h.setCur hc hi'⟩

/-- **C17.restart_preserves_every_database**: for a session that satisfies the invariant, `restart` -
close (flush) the selected database, run start-up recovery on every database, re-open the files -
succeeds: NO recovery fails.  Afterwards the session has the same database names, nothing selected, and
abstracts to THE SAME plain databases `w`: every database holds the same tables with the same rows
(`C17_contents_are_what_a_reader_sees`), and the invariant holds again - every database is closed - so
the `exec` theorems apply again: after a USE each database accepts new rows as before
(`C17_accepted_statement`, `C18_session_statement_never_crashes`).  (A crash WITHOUT the close is C02:
`C02_rounds_no_recovery_fails`; its side conditions `PtSelf` / `FreshM` hold in every database reached
from CREATE DATABASE, `C02_side_conditions_hold_in_every_reachable_database`.) -/
theorem C17_restart_preserves_every_database (s : Sess) (w : String → Spec.SDB) (h : SessAbs s w) :
    ∃ s', restart s = some s' ∧ SessAbs s' w ∧ names s' = names s ∧ s'.cur = none := by
  obtain ⟨s', e, h1, h2, h3, _⟩ := restart_sessAbs h
  exact ⟨s', e, h1, h2, h3⟩

/-- **C17.restart_after_any_history**: from the empty session, after ANY history of statements that meets
the side conditions, restart succeeds and preserves the contents of every database, and the session goes
on without a crash. -/
theorem C17_restart_after_any_history (sts : List Stmt) (hok : SessOK {} sts) :
    ∃ w s', SessAbs (runOuts {} sts).1 w ∧ restart (runOuts {} sts).1 = some s' ∧ SessAbs s' w ∧
      names s' = names (runOuts {} sts).1 ∧
      ∀ st, StmtSide s' st → (exec s' st).2 ≠ Out.panic ∧ SessInv (exec s' st).1 := by
  rw [runOuts_eq_runAll]
  obtain ⟨⟨w, hw⟩, _⟩ := runAll_sessAbs sts {} (fun _ => []) (sessAbs_empty _) hok
  obtain ⟨s', e, h1, h2, _⟩ := restart_sessAbs hw
  refine ⟨w, s', hw, e, h1, h2, fun st hside => ?_⟩
  obtain ⟨w', k1, k2, _⟩ := exec_sessAbs h1 st hside
  exact ⟨k2, w', k1⟩

/-- non-vacuity of `SessOK`: every history of CREATE DATABASE / USE / SHOW DATABASES / SELECT / DELETE /
UPDATE statements meets it (`sessOK_plain`, `C18_plain_histories_never_crash`; a SELECT - here `SELECT * FROM
t`, evaluated on the selected database - with a select list of a parser-produced shape over user tables) -/
example : SessOK {} [.createDatabase [100], .use [100], .delete tname none,
    .select { list := [⟨.star, []⟩], from_ := some (.table ⟨tname, none⟩) }, .use [120], .showDatabases] :=
  sessOK_plain _ _ (fun st hst => by
    simp only [List.mem_cons, List.not_mem_nil, or_false] at hst
    rcases hst with rfl | rfl | rfl | rfl | rfl | rfl
    all_goals first | exact trivial | exact tname_ne_sys | exact ⟨by decide, by decide +kernel⟩)

/-- non-vacuity: the session whose selected database is the one `CREATE DATABASE; CREATE TABLE t (a INT)`
produces abstracts to the plain database with the empty table `t (a INT)`; `INSERT INTO t VALUES (5),
(6)` is accepted there with room, so `C17_accepted_statement` and `C17_restart_preserves_every_database`
apply to it and to the session after it -/
example : SessAbs sessT (fun _ => sdbA0) ∧ sessT.cur = some "d" ∧ getDB sessT "d" = some tableDB ∧
    (∀ pt sch tbls, DbInv tableDB sdbA0 pt sch tbls →
      StmtRoom tableDB pt sch tbls (.insert tname [] [[.int 5], [.int 6]])) ∧
    Spec.specStmt sdbA0 (.insert tname [] [[.int 5], [.int 6]]) = some sdbA1 := by
  refine ⟨sessAbs_sessT, rfl, by simp [getDB, sessT], ?_, rfl⟩
  intro pt sch tbls hi
  obtain ⟨rfl, rfl, htr⟩ := dbInv_tableDB_unique hi
  refine ⟨room_insert56.1, fun tr schema hm hs => ?_⟩
  have := htr tr hm
  subst this
  exact room_insert56.2 tT schema (List.mem_singleton.mpr rfl) hs

/-! ### crashes: the process dies between two statements

`crashRestart` (Model/Session.lean): the cache of the selected database is dropped WITHOUT a flush, then
start-up recovery of every database.  The invariant `SessAbs` is too weak for it (it speaks of the cache of
the selected database, not of its log: `C17_crash_loses_rows_of_a_refused_insert`); the crash invariant
`SessCrash s w` (Proofs/SessionCrash1) adds: every database is reached from a checkpointed one (`Ckpt`, C02)
by row statements the plain model accepts. -/

/-- **C17.crash_restart_keeps_every_database**: for a session that satisfies the crash invariant for the
plain databases `w`, `crashRestart` - the process dies between two statements, no page of the selected
database is flushed, start-up recovery of every database - succeeds: NO recovery fails.  Afterwards the
session has the same names, nothing selected, satisfies the crash invariant (hence `SessAbs`) again and
abstracts to THE SAME plain databases `w`: every database holds the same tables with the same rows
(`C17_contents_are_what_a_reader_sees`), the acknowledged statements of the selected database included.
Hypothesis `SessCrash` (instead of `SessAbs`, which `C17_restart_preserves_every_database` needs): it
excludes sessions whose selected database holds rows that no log record holds - those a statement refused
at a later row left behind; there the statement is false (`C17_crash_loses_rows_of_a_refused_insert`). -/
theorem C17_crash_restart_keeps_every_database (s : Sess) (w : String → Spec.SDB) (h : SessCrash s w) :
    ∃ s', crashRestart s = some s' ∧ SessCrash s' w ∧ SessAbs s' w ∧ names s' = names s ∧ s'.cur = none := by
  obtain ⟨s', e, h1, h2, h3, _⟩ := crashRestart_sessCrash h
  exact ⟨s', e, h1, h1.abs, h2, h3⟩

/-- non-vacuity: the session after CREATE DATABASE d; USE d; CREATE TABLE t (a INT), with `d` selected -/
example : SessCrash sessT (fun _ => sdbA0) ∧ sessT.cur = some "d" := ⟨sessCrash_sessT, rfl⟩

/-- **C17.crash_invariant**: the crash invariant implies the session invariant, holds in the empty
session, and is kept by USE, by CREATE DATABASE (accepted or refused), by every statement that leaves the
session as it is (SELECT, SHOW DATABASES, anything while no database is selected), and by `restart`.
(Accepted INSERT / UPDATE / DELETE: `C17_accepted_statement_keeps_the_crash_invariant`.) -/
theorem C17_crash_invariant (s : Sess) (w : String → Spec.SDB) (h : SessCrash s w) :
    SessInv s ∧ SessCrash {} w ∧ (∀ name, SessCrash (exec s (.use name)).1 w) ∧
    (∀ name, ∃ w', SessCrash (exec s (.createDatabase name)).1 w') ∧
    (∀ st, (exec s st).1 = s → SessCrash (exec s st).1 w) ∧
    (∃ s', restart s = some s' ∧ SessCrash s' w ∧ names s' = names s ∧ s'.cur = none) := by
  refine ⟨h.inv, sessCrash_empty w, use_sessCrash h, fun name => ?_, fun st hs => same_sessCrash h st hs, ?_⟩
  · obtain ⟨w', h1, _⟩ := createDatabase_sessCrash h name
    exact ⟨w', h1⟩
  · obtain ⟨s', e, h1, h2, h3, _⟩ := restart_sessCrash h
    exact ⟨s', e, h1, h2, h3⟩

/-- **C17.accepted_statement_keeps_the_crash_invariant**: `C17_accepted_statement` for the crash invariant:
an INSERT / UPDATE / DELETE that the plain model accepts (with room) succeeds, the selected database then
holds the plain model's result - in its cache AND, after a crash, from its log.  And an accepted CREATE TABLE
on a selected database that is checkpointed (`CkptNS`: right after USE or after another CREATE TABLE).
NOT covered: CREATE TABLE after row statements with no flush between them; refused statements. -/
theorem C17_accepted_statement_keeps_the_crash_invariant (s : Sess) (w : String → Spec.SDB) (h : SessCrash s w)
    (n : String) (hc : s.cur = some n) (db : DB) (hg : getDB s n = some db) (st : Stmt)
    (hk : ((∃ t c r, st = .insert t c r) ∨ (∃ t a c, st = .update t a c) ∨ (∃ t c, st = .delete t c)) ∨
      (CkptNS db (w n) ∧ ∃ t c, st = .createTable t c))
    (hroom : ∀ pt sch tbls, DbInv db (w n) pt sch tbls → StmtRoom db pt sch tbls st)
    (sdb' : Spec.SDB) (hspec : Spec.specStmt (w n) st = some sdb') :
    (exec s st).2 = Out.ok ∧ SessCrash (exec s st).1 (setW w n sdb') := by
  rcases hk with hk | ⟨hck, t, c, rfl⟩
  · exact accepted_sessCrash h n hc db hg st hk hroom sdb' hspec
  · obtain ⟨h1, h2, _⟩ := createTable_sessCrash h n hc db hg hck t c hroom sdb' hspec
    exact ⟨h1, h2⟩

/-- non-vacuity: `INSERT INTO t VALUES (5), (6)` on `sessT` -/
example : SessCrash sessT (fun _ => sdbA0) ∧ getDB sessT "d" = some tableDB ∧
    (∀ pt sch tbls, DbInv tableDB sdbA0 pt sch tbls →
      StmtRoom tableDB pt sch tbls (.insert tname [] [[.int 5], [.int 6]])) ∧
    Spec.specStmt sdbA0 (.insert tname [] [[.int 5], [.int 6]]) = some sdbA1 := by
  refine ⟨sessCrash_sessT, by simp [getDB, sessT], ?_, rfl⟩
  intro pt sch tbls hi
  obtain ⟨rfl, rfl, htr⟩ := dbInv_tableDB_unique hi
  refine ⟨room_insert56.1, fun tr schema hm hs => ?_⟩
  have := htr tr hm
  subst this
  exact room_insert56.2 tT schema (List.mem_singleton.mpr rfl) hs

/-- **C17.histories_with_crashes_partial**: every session reached from the empty session by a history
`CrashHist` - CREATE DATABASE (accepted or refused), USE, statements that leave the session as it is,
accepted INSERT / UPDATE / DELETE, accepted CREATE TABLE on a checkpointed selected database, `restart`,
`crashRestart`, in any order and number - satisfies the crash invariant for the plain databases `w` of the
acknowledged statements: what a reader sees of every database is `w` (`C17_contents_are_what_a_reader_sees`),
and a crash or a restart at this point succeeds (no recovery fails), keeps the names and leads to such a
session for the same `w`.  PARTIAL: the histories exclude statements refused by the selected database (a
refusal at a later row leaves unlogged rows: the statement is then false,
`C17_crash_loses_rows_of_a_refused_insert`; a refusal before any change is harmless but not proved) and a
CREATE TABLE issued after row statements with no USE / CREATE TABLE / restart between them (no storage-level
theorem for a CREATE TABLE on a database with dirty pages). -/
theorem C17_histories_with_crashes_partial (s : Sess) (w : String → Spec.SDB) (h : CrashHist s w) :
    SessCrash s w ∧ SessAbs s w ∧
    (∃ s', crashRestart s = some s' ∧ CrashHist s' w ∧ names s' = names s ∧ s'.cur = none) ∧
    (∃ s', restart s = some s' ∧ CrashHist s' w ∧ names s' = names s ∧ s'.cur = none) :=
  ⟨crashHist_sessCrash h, (crashHist_sessCrash h).abs, (crashHist_recovers h).1, (crashHist_recovers h).2⟩

/-- non-vacuity: the empty history, crashed twice with a restart between -/
example : ∃ s, CrashHist s (fun _ => []) :=
  ⟨_, .crash (.restart (.crash .empty (s' := {}) rfl) (s' := {}) rfl) (s' := {}) rfl⟩

/-- **C17.crash_example** (computed): CREATE DATABASE d; USE d; CREATE TABLE t (a INT); INSERT INTO t VALUES
(5) - all accepted; crash with no page flushed since CREATE TABLE; recovery succeeds; USE d; a reader of `t`
sees the row `(5)`. -/
theorem C17_crash_example :
    allOk (runAll {} crashHistory).2 = true ∧
    ((crashRestart (runAll {} crashHistory).1).map fun s' => rowsOf (exec s' (.use [100])).1 "d")
      = some (some [[.int 5]]) := crash_example

/-- **C17.crash_loses_rows_of_a_refused_insert** (computed; why `SessAbs` is not enough for a crash).
CREATE DATABASE d; USE d; CREATE TABLE t (a INT); INSERT INTO t VALUES (5), ('x') - refused at the second
row, nothing logged, but the first row stays in the cache (C14): a reader sees `(5)`; `restart` (which
flushes) keeps it; `crashRestart` loses it.  Then UPDATE t SET a = 7 WHERE a = 5 is ACCEPTED and logged, a
reader sees `(7)`; after a crash recovery succeeds and `t` is empty: the acknowledged UPDATE is lost with
the row it changed. -/
theorem C17_crash_loses_rows_of_a_refused_insert :
    rowsOf (runAll {} ghostHistory).1 "d" = some [[.int 5]] ∧
    (restart (runAll {} ghostHistory).1).map (rowsOf · "d") = some (some [[.int 5]]) ∧
    (crashRestart (runAll {} ghostHistory).1).map (rowsOf · "d") = some (some []) ∧
    allOk [(exec (runAll {} ghostHistory).1 ghostUpdate).2] = true ∧
    rowsOf (exec (runAll {} ghostHistory).1 ghostUpdate).1 "d" = some [[.int 7]] ∧
    (crashRestart (exec (runAll {} ghostHistory).1 ghostUpdate).1).map (rowsOf · "d") = some (some []) :=
  crash_loses_unlogged_rows


/-! ### crashes: the databases that are not selected are checkpointed; histories as lists of operations

`SessCrash' s w` (Proofs/SessionCrash4): `SessCrash s w`, and every database that is NOT selected is
checkpointed (`CkptNS`).  With it a CREATE TABLE right after USE needs no extra hypothesis. -/

/-- **C17.crash_invariant_with_closed_databases**: the stronger crash invariant `SessCrash'` implies
`SessCrash`, holds in the empty session, is kept by USE, CREATE DATABASE (for the plain databases `cdW`: a
new empty one if the statement was accepted), every statement that leaves the session as it is, and by
`restart` and `crashRestart` - neither fails, and after either EVERY database is checkpointed for the same
plain database (nothing is selected then).  (Accepted INSERT / UPDATE / DELETE / CREATE TABLE:
`accepted_sessCrash'`, `createTable_sessCrash'`, used in `C17_histories_with_crashes`.) -/
theorem C17_crash_invariant_with_closed_databases (s : Sess) (w : String → Spec.SDB) (h : SessCrash' s w) :
    SessCrash s w ∧ SessCrash' {} w ∧ (∀ name, SessCrash' (exec s (.use name)).1 w) ∧
    (∀ name, SessCrash' (exec s (.createDatabase name)).1 (cdW s w name)) ∧
    (∀ st, (exec s st).1 = s → SessCrash' (exec s st).1 w) ∧
    (∃ s', restart s = some s' ∧ SessCrash' s' w ∧ names s' = names s ∧ s'.cur = none ∧
      ∀ p ∈ s'.dbs, CkptNS p.2 (w p.1)) ∧
    (∃ s', crashRestart s = some s' ∧ SessCrash' s' w ∧ names s' = names s ∧ s'.cur = none ∧
      ∀ p ∈ s'.dbs, CkptNS p.2 (w p.1)) :=
  ⟨h.base, sessCrash'_empty w, use_sessCrash' h, createDatabase_sessCrash' h,
    fun st hs => same_sessCrash' h st hs, restart_sessCrash' h.base, crashRestart_sessCrash' h.base⟩

/-- non-vacuity: the session after CREATE DATABASE d -/
example : SessCrash' sess1 (setW (fun _ => []) (canon [100]) []) := createTable_after_use_example.1

/-- **C17.use_leaves_both_databases_checkpointed**: after an ACCEPTED USE in a session that satisfies
`SessCrash'`: the invariant holds again for the same plain databases; the named database is selected; every
OTHER database is checkpointed (`CkptNS`) - in particular the one selected before, which USE flushed and
re-opened (`DbCrash.flush`); and the newly selected database is checkpointed too, unless it was the
selected one already (then USE changes nothing and it may hold row statements not yet flushed). -/
theorem C17_use_leaves_both_databases_checkpointed (s : Sess) (w : String → Spec.SDB) (h : SessCrash' s w)
    (name : Bytes) (hok : (exec s (.use name)).2 = Out.ok) :
    SessCrash' (exec s (.use name)).1 w ∧ (exec s (.use name)).1.cur = some (canon name) ∧
    (∀ p ∈ (exec s (.use name)).1.dbs, p.1 ≠ canon name → CkptNS p.2 (w p.1)) ∧
    (∀ c db, s.cur = some c → c ≠ canon name → getDB (exec s (.use name)).1 c = some db → CkptNS db (w c)) ∧
    ∃ db, getDB (exec s (.use name)).1 (canon name) = some db ∧
      (s.cur ≠ some (canon name) → CkptNS db (w (canon name))) := by
  obtain ⟨h1, h2, h3⟩ := use_ckpt h name hok
  exact ⟨use_sessCrash' h name, h1, h2, fun c db _ hne hg => h2 (c, db) (getDB_mem hg) hne, h3⟩

/-- non-vacuity: USE d in the session after CREATE DATABASE d is accepted -/
example : SessCrash' sess1 (setW (fun _ => []) (canon [100]) []) ∧ (exec sess1 (.use [100])).2 = Out.ok :=
  ⟨createTable_after_use_example.1, createTable_after_use_example.2.1⟩

/-- **C17.create_table_after_use_keeps_the_crash_invariant**: a CREATE TABLE that the plain model accepts
(with room), issued right after an accepted USE of a database that was not the selected one - in particular
after `restart` or a crash, when nothing is selected - is accepted, keeps `SessCrash'` for the plain model's
result, and leaves the selected database checkpointed (so another CREATE TABLE may follow).  NO hypothesis
that the selected database is checkpointed: `SessCrash'` gives it (`C17_use_leaves_both_databases_checkpointed`).
`db` is the database USE selected. -/
theorem C17_create_table_after_use_keeps_the_crash_invariant (s : Sess) (w : String → Spec.SDB)
    (h : SessCrash' s w) (name : Bytes) (hok : (exec s (.use name)).2 = Out.ok) (hsel : s.cur ≠ some (canon name))
    (db : DB) (hg : getDB (exec s (.use name)).1 (canon name) = some db) (t : Bytes) (cols : List ColDef)
    (hroom : ∀ pt sch tbls, DbInv db (w (canon name)) pt sch tbls → StmtRoom db pt sch tbls (.createTable t cols))
    (sdb' : Spec.SDB) (hspec : Spec.specStmt (w (canon name)) (.createTable t cols) = some sdb') :
    (exec (exec s (.use name)).1 (.createTable t cols)).2 = Out.ok ∧
    SessCrash' (exec (exec s (.use name)).1 (.createTable t cols)).1 (setW w (canon name) sdb') ∧
    ∃ db', getDB (exec (exec s (.use name)).1 (.createTable t cols)).1 (canon name) = some db' ∧
      CkptNS db' sdb' :=
  createTable_after_use h name hok hsel db hg t cols hroom sdb' hspec

/-- non-vacuity: CREATE DATABASE d; then USE d; CREATE TABLE t (a INT) -/
example : SessCrash' sess1 (setW (fun _ => []) (canon [100]) []) ∧ (exec sess1 (.use [100])).2 = Out.ok ∧
    sess1.cur ≠ some (canon [100]) ∧ getDB (exec sess1 (.use [100])).1 (canon [100]) = some newDB ∧
    (∀ pt sch tbls, DbInv newDB (setW (fun _ => []) (canon [100]) [] (canon [100])) pt sch tbls →
      StmtRoom newDB pt sch tbls (.createTable tname acols)) ∧
    Spec.specStmt (setW (fun _ => []) (canon [100]) [] (canon [100])) (.createTable tname acols) =
      some [⟨tname, [⟨"a", .int, 0⟩], []⟩] := createTable_after_use_example

/-- **C17.histories_with_crashes_from**: the list form of `C17_histories_with_crashes_partial`, from any
session.  `runOps` runs a list of operations - statements, `restart`, crash (`crashRestart`) - and is `none`
if a recovery fails.  From a session that satisfies `CInv s w clean` (`SessCrash' s w`, and if the flag
`clean` is set every database is checkpointed), for every list that meets `OkOps`: the run is `some s'` - NO
recovery in it fails - and `s'` satisfies `SessCrash'` (hence `SessCrash`, `SessAbs`) for the plain
databases `worldOps s w ops`: those the plain model `Spec.specStmt` computes, statement by statement, on
the selected database (CREATE DATABASE adds an empty one when accepted; restarts and crashes change none).
`OkOps` asks NOTHING of CREATE DATABASE, USE, SHOW DATABASES, SELECT, `restart`, crash; of CREATE TABLE /
INSERT / UPDATE / DELETE: either the statement leaves the session as it is and the plain model refuses it
too, or the plain model accepts it with room (`StmtRoom`), a CREATE TABLE only while the flag is set:
the flag is set by an accepted USE of another database, an accepted CREATE TABLE, a restart, a crash, and
cleared by an accepted row statement.  EXCLUDED: statements the selected database refuses after changing
its cache (a refusal at a later row: the statement is then false, `C17_crash_loses_rows_of_a_refused_insert`;
a refusal that only advances counters: not proved), CREATE TABLE after row statements with no USE of another
database / restart / crash between them. -/
theorem C17_histories_with_crashes_from (s : Sess) (w : String → Spec.SDB) (clean : Bool) (ops : List SOp)
    (h : CInv s w clean) (hok : OkOps s w clean ops) :
    ∃ s', runOps s ops = some s' ∧ SessCrash' s' (worldOps s w ops) ∧ SessAbs s' (worldOps s w ops) ∧
      (cleanOps s w clean ops = true → ∀ p ∈ s'.dbs, CkptNS p.2 (worldOps s w ops p.1)) := by
  obtain ⟨s', e, h'⟩ := runOps_cinv ops s w clean h hok
  exact ⟨s', e, h'.inv, h'.inv.base.abs, h'.ck⟩

/-- non-vacuity: from `sessT` (CREATE DATABASE d; USE d; CREATE TABLE t (a INT)): INSERT INTO t VALUES (5),
(6) - accepted with room -; crash; USE d; restart -/
example : CInv sessT (fun _ => sdbA0) false ∧ OkOps sessT (fun _ => sdbA0) false
    [.stmt (.insert tname [] [[.int 5], [.int 6]]), .crash, .stmt (.use [100]), .restart] := okOps_sessT_example

/-- **C17.histories_with_crashes**: from the EMPTY session, for every list of operations - statements,
`restart`, crash - that meets the side conditions `OkOps` (see `C17_histories_with_crashes_from`: none for
CREATE DATABASE, USE, SHOW DATABASES, SELECT, restart, crash; a CREATE TABLE / INSERT / UPDATE / DELETE is
accepted by the plain model of the selected database with room, a CREATE TABLE only right after USE of
another database / restart / crash / another CREATE TABLE, or it leaves the session as it is and is refused
by the plain model too): `runOps {} ops` is `some s'` - no recovery fails, however many crashes and restarts
the list holds -, and `s'` satisfies the crash invariant `SessCrash'` (so `SessCrash`, `SessAbs`: what a
reader sees of every database, `C17_contents_are_what_a_reader_sees`) for the plain databases
`worldOps {} (fun _ => []) ops` of the acknowledged statements; one more crash or restart succeeds too and
preserves them. -/
theorem C17_histories_with_crashes (ops : List SOp) (hok : OkOps {} (fun _ => []) true ops) :
    ∃ s', runOps {} ops = some s' ∧ SessCrash' s' (worldOps {} (fun _ => []) ops) ∧
      SessAbs s' (worldOps {} (fun _ => []) ops) ∧
      (∃ s'', crashRestart s' = some s'' ∧ SessCrash' s'' (worldOps {} (fun _ => []) ops) ∧ names s'' = names s') ∧
      (∃ s'', restart s' = some s'' ∧ SessCrash' s'' (worldOps {} (fun _ => []) ops) ∧ names s'' = names s') := by
  obtain ⟨s', e, h'⟩ := runOps_cinv ops {} _ true (cinv_empty _ _) hok
  obtain ⟨s1, e1, k1, n1, _⟩ := crashRestart_sessCrash' h'.inv.base
  obtain ⟨s2, e2, k2, n2, _⟩ := restart_sessCrash' h'.inv.base
  exact ⟨s', e, h'.inv, h'.inv.base.abs, ⟨s1, e1, k1, n1⟩, ⟨s2, e2, k2, n2⟩⟩

/-- non-vacuity: CREATE DATABASE d; USE d; CREATE TABLE t (a INT) - accepted with room, the flag is set by
the USE -; crash; USE d; restart -/
example : OkOps {} (fun _ => []) true
    [.stmt (.createDatabase [100]), .stmt (.use [100]), .stmt (.createTable tname acols), .crash,
     .stmt (.use [100]), .restart] := okOps_example

/-- **C17.crash_operations_example** (computed): CREATE DATABASE d; CREATE DATABASE e; USE d; CREATE TABLE t
(a INT); INSERT INTO t VALUES (5); crash; USE e; CREATE TABLE t (a INT); restart; USE d; INSERT INTO t VALUES
(6); crash - every statement is accepted, no recovery fails; afterwards nothing is selected, a reader of
`d.t` sees `(5), (6)` and `e.t` is empty. -/
theorem C17_crash_operations_example :
    (outsOps {} crashOps).map allOk = some true ∧
    (runOps {} crashOps).map (fun s' => (s'.cur, rowsOf (exec s' (.use [100])).1 "d",
        rowsOf (exec s' (.use [101])).1 "e")) = some (none, some [[.int 5], [.int 6]], some []) :=
  crashOps_example


/-! ### crashes: statements the selected database refuses

A row statement or CREATE TABLE that the selected database refuses BEFORE it changes anything still reads
pages, and `fetch` files every page it reads in the cache: the session after it is not the session before it
(the `unchanged` alternative of `OkRouted` does not apply), and the selected database is no longer literally
"reached from a checkpoint by accepted row statements" (`DbCrash`).  `SessCrashL s w` (Proofs/SessionCrash8)
is `SessCrash'` with `DbCrashL` (Proofs/SessionCrash7) in the place of `DbCrash`: reached from the store of a
checkpoint by a LIVE RUN - accepted row operations and steps in which only the cache grows (`Same`: every page
and the whole header read as before) -, the log is the checkpoint's log followed by the records of the run,
the data file is the checkpoint's.  That is all the crash theorems of C02 use of a run of statements. -/

/-- **C17.crash_invariant_up_to_the_cache**: the crash invariant `SessCrash'` implies `SessCrashL`; and from a
session that satisfies `SessCrashL` - e.g. after any number of refused statements - BOTH `crashRestart` (the
process dies, no page of the selected database is flushed) and `restart` succeed: no recovery fails, the names
are kept, nothing is selected, every database is checkpointed for THE SAME plain database `w`, and the session
satisfies `SessCrash'` (hence `SessCrash`, `SessAbs`) again. -/
theorem C17_crash_invariant_up_to_the_cache (s : Sess) (w : String → Spec.SDB) :
    (SessCrash' s w → SessCrashL s w) ∧
    (SessCrashL s w → SessAbs s w ∧
      (∃ s', crashRestart s = some s' ∧ SessCrash' s' w ∧ names s' = names s ∧ s'.cur = none ∧
        ∀ p ∈ s'.dbs, CkptNS p.2 (w p.1)) ∧
      (∃ s', restart s = some s' ∧ SessCrash' s' w ∧ names s' = names s ∧ s'.cur = none ∧
        ∀ p ∈ s'.dbs, CkptNS p.2 (w p.1))) :=
  ⟨fun h => h.toL, fun h => ⟨h.abs, crashRestart_sessCrashL h, restart_sessCrashL h⟩⟩

/-- non-vacuity: the session `sessT` (CREATE DATABASE d; USE d; CREATE TABLE t (a INT), `d` selected) -/
example : SessCrashL sessT (fun _ => sdbA0) := okOps2_sessT_example.1.inv

/-- **C17.refused_statement_keeps_the_crash_invariant**: a CREATE TABLE / INSERT / UPDATE / DELETE that the
selected database refuses before it changes anything, for one of the reasons `StmtRefusalC` lists - CREATE
TABLE of an existing table or of a catalog name, with a column name used twice or a VARCHAR length beyond 32
bits; INSERT into an unknown table, with a column list naming an unknown column or one column twice, or whose
FIRST row has the wrong number of values or a value its column does not accept (type, integer range); UPDATE
with a column source, of an unknown table, with an unknown or repeated SET column, a WHERE that cannot be
evaluated, or a first selected row that cannot be rewritten; DELETE of an unknown table or with a WHERE that
cannot be evaluated - returns an error, is refused by the plain model too, and KEEPS the crash invariant
`SessCrashL` for THE SAME plain databases `w`: a crash right after it (or after any number of them) loses
nothing (`C17_crash_invariant_up_to_the_cache`).  If the selected database was checkpointed it still is (so a
CREATE TABLE may follow).  `hbad` is asked for whatever catalog description the database has (`DbInv`; only
the refusal "CREATE TABLE sys_pages" looks at it).  NOT covered: an INSERT whose first row is TOO LARGE - it is
refused inside `btInsert`, after the row-id and LSN counters moved (`C17_oversized_first_row_example`) - and a
refusal at a later row (`C17_crash_loses_rows_of_a_refused_insert`: there the statement is false). -/
theorem C17_refused_statement_keeps_the_crash_invariant (s : Sess) (w : String → Spec.SDB) (h : SessCrashL s w)
    (n : String) (hc : s.cur = some n) (db : DB) (hg : getDB s n = some db) (st : Stmt)
    (hbad : ∀ pt sch tbls, DbInv db (w n) pt sch tbls → StmtRefusalC (w n) pt st) :
    Spec.specStmt (w n) st = none ∧ (∃ k, (exec s st).2 = Out.err k) ∧ SessCrashL (exec s st).1 w ∧
    ∃ db', getDB (exec s st).1 n = some db' ∧ (CkptNS db (w n) → CkptNS db' (w n)) :=
  refused_sessCrashL h n hc db hg st hbad

/-- non-vacuity: INSERT INTO u VALUES (1) - no table `u` - and INSERT INTO t VALUES ('x') - `a` is an INT - on
`sessT` -/
example : SessCrashL sessT (fun _ => sdbA0) ∧ sessT.cur = some "d" ∧ getDB sessT "d" = some tableDB ∧
    (∀ pt, StmtRefusalC sdbA0 pt insUnknown) ∧ (∀ pt, StmtRefusalC sdbA0 pt insBadValue) :=
  ⟨okOps2_sessT_example.1.inv, rfl, by simp [getDB, sessT], refusalC_insUnknown, refusalC_insBadValue⟩

/-- **C17.histories_with_crashes_and_refused_statements**: `C17_histories_with_crashes` with statements the
selected database refuses.  From the EMPTY session, for every list of operations - statements, `restart`,
crash - that meets the side conditions `OkOps2`: `runOps {} ops` is `some s'` - NO recovery fails, however
many crashes and restarts the list holds -, and `s'` satisfies the crash invariant `SessCrashL` (so `SessAbs`:
what a reader sees of every database, `C17_contents_are_what_a_reader_sees`) for the plain databases
`worldOps {} (fun _ => []) ops` of the acknowledged statements - a refused statement changes none -; one more
crash or restart succeeds too and preserves them (then `SessCrash'` holds again).  `OkOps2` asks NOTHING of
CREATE DATABASE, USE, SHOW DATABASES, SELECT, `restart`, crash; a CREATE TABLE / INSERT / UPDATE / DELETE is
(1) accepted by the plain model of the selected database with room (`StmtRoom`), a CREATE TABLE only right
after USE of another database / restart / crash / another CREATE TABLE, or (2) leaves the session as it is and
is refused by the plain model (no database selected), or (3) is refused by the selected database for one of
the reasons `StmtRefusalC` lists (`C17_refused_statement_keeps_the_crash_invariant`).  Every list that meets
`OkOps` meets `OkOps2` (`OkOps.toOkOps2`).  EXCLUDED: an INSERT whose first row is too large (refused after
the counters moved: not proved, and not false in the computed `C17_oversized_first_row_example`), statements
refused at a later row (false: `C17_crash_loses_rows_of_a_refused_insert`), CREATE TABLE after row statements
with no USE of another database / restart / crash between them. -/
theorem C17_histories_with_crashes_and_refused_statements (ops : List SOp)
    (hok : OkOps2 {} (fun _ => []) true ops) :
    ∃ s', runOps {} ops = some s' ∧ SessCrashL s' (worldOps {} (fun _ => []) ops) ∧
      SessAbs s' (worldOps {} (fun _ => []) ops) ∧
      (cleanOps {} (fun _ => []) true ops = true → ∀ p ∈ s'.dbs, CkptNS p.2 (worldOps {} (fun _ => []) ops p.1)) ∧
      (∃ s'', crashRestart s' = some s'' ∧ SessCrash' s'' (worldOps {} (fun _ => []) ops) ∧ names s'' = names s') ∧
      (∃ s'', restart s' = some s'' ∧ SessCrash' s'' (worldOps {} (fun _ => []) ops) ∧ names s'' = names s') := by
  obtain ⟨s', e, h'⟩ := runOps_cinvL ops {} _ true (cinvL_empty _ _) hok
  obtain ⟨s1, e1, k1, n1, _⟩ := crashRestart_sessCrashL h'.inv
  obtain ⟨s2, e2, k2, n2, _⟩ := restart_sessCrashL h'.inv
  exact ⟨s', e, h'.inv, h'.inv.abs, h'.ck, ⟨s1, e1, k1, n1⟩, ⟨s2, e2, k2, n2⟩⟩

/-- non-vacuity: CREATE DATABASE d; USE d; INSERT INTO u VALUES (1) - refused by the selected database, which
has no table; its cache has grown -; crash; USE d; restart -/
example : OkOps2 {} (fun _ => []) true
    [.stmt (.createDatabase [100]), .stmt (.use [100]), .stmt insUnknown, .crash, .stmt (.use [100]), .restart] :=
  okOps2_example

/-- **C17.histories_with_crashes_and_refused_statements_from**: the same from any session that satisfies
`CInvL s w clean` (`SessCrashL s w`, and if the flag is set every database is checkpointed; `CInv` implies
it). -/
theorem C17_histories_with_crashes_and_refused_statements_from (s : Sess) (w : String → Spec.SDB) (clean : Bool)
    (ops : List SOp) (h : CInvL s w clean) (hok : OkOps2 s w clean ops) :
    ∃ s', runOps s ops = some s' ∧ SessCrashL s' (worldOps s w ops) ∧ SessAbs s' (worldOps s w ops) ∧
      (cleanOps s w clean ops = true → ∀ p ∈ s'.dbs, CkptNS p.2 (worldOps s w ops p.1)) := by
  obtain ⟨s', e, h'⟩ := runOps_cinvL ops s w clean h hok
  exact ⟨s', e, h'.inv, h'.inv.abs, h'.ck⟩

/-- non-vacuity: from `sessT`: INSERT INTO u VALUES (1) - no such table -; INSERT INTO t VALUES ('x') - wrong
type, issued on the database the first refusal left -; crash; USE d; restart -/
example : CInvL sessT (fun _ => sdbA0) false ∧ OkOps2 sessT (fun _ => sdbA0) false
    [.stmt insUnknown, .stmt insBadValue, .crash, .stmt (.use [100]), .restart] := okOps2_sessT_example

/-- **C17.refused_statements_example** (computed): CREATE DATABASE d; USE d; CREATE TABLE t (a INT); INSERT INTO
u VALUES (1) - refused: no table `u` -; INSERT INTO t VALUES ('x') - refused: `'x'` is not an INT -; INSERT
INTO t VALUES (5) - accepted -; crash with no page flushed since CREATE TABLE.  Outcomes 0 = accepted, 1 =
refused.  Recovery succeeds; nothing is selected; a reader of `d.t` sees the row `(5)`. -/
theorem C17_refused_statements_example :
    (outsOps {} refusedOps).map (·.map outCode) = some [0, 0, 0, 1, 1, 0] ∧
    (runOps {} refusedOps).map (fun s' => (s'.cur, rowsOf (exec s' (.use [100])).1 "d")) =
      some (none, some [[.int 5]]) := refusedOps_example

/-- **C17.oversized_first_row_example** (computed; the refusal the theorems above leave out): CREATE DATABASE d;
USE d; CREATE TABLE t (b VARCHAR(5000)); INSERT INTO t VALUES ('xx…x') with 1100 bytes - refused with
`rowTooLarge` INSIDE the tree insert, after the counters moved -; INSERT INTO t VALUES ('x') - accepted.
Before the crash: row-id counter 12, LSN counter 12, the header in the data file says 10 and 10, the log holds
one record with LSN 11 and row id 12 (LSN 10 and row id 11 went to the refused row, which no log record
mentions).  After the crash: recovery succeeds, the counters are 12 and 12 again, a reader sees `('x')`.  The
crash theorems are not false here; they are not proved for this refusal. -/
theorem C17_oversized_first_row_example :
    (outsOps {} oversizedOps).map (·.map outCode) = some [0, 0, 0, 1, 0] ∧
    (runOps {} oversizedOps.dropLast).map (fun s' => (getDB s' "d").map fun db =>
        [db.store.hdr.lastKey, db.store.hdr.nextLSN, db.store.dhdr.lastKey, db.store.dhdr.nextLSN] ++
          db.wal.flatMap fun r => [r.lsn, r.cell]) = some (some [12, 12, 10, 10, 11, 12]) ∧
    (runOps {} oversizedOps).map (fun s' => ((getDB s' "d").map fun db =>
        (db.store.hdr.lastKey, db.store.hdr.nextLSN), rowsOf (exec s' (.use [100])).1 "d")) =
      some (some (12, 12), some [[.str [120]]]) := oversizedOps_example

end Mkdb.Session


namespace Mkdb.Session
open Mkdb.Engine Mkdb.Sql Mkdb.Tree
open Mkdb.Store hiding Stmt

/-! ### crashes: an INSERT refused for the SIZE of its first row (the counters move, nothing is logged)

An INSERT whose first row is too large for a page cell is refused INSIDE the tree insert (`btInsert`), after the
row-id counter and the LSN counter were advanced; no log record is written and no page changes.  `SessCrashL` does not hold after it (not proved here;
`live_run_applied`: a `LiveRunM` ends with the LSN counter where it started or one past a record it logged).  `SessCrashB s w`
(Proofs/SessionCrash9) is `SessCrashL` with `DbCrashB` in the place of `DbCrashL`: the live runs may be separated
by steps in which only the row-id / LSN counters go up.  Recovery does not need the counters of the dead process:
it raises the row-id counter to the key of every INSERT record and the LSN counter to every record's LSN. -/

/-- **C17.crash_invariant_up_to_the_counters**: `SessCrashL` (hence `SessCrash'`) implies `SessCrashB`; and from
a session that satisfies `SessCrashB` - e.g. after any number of refused statements, oversized rows included -
BOTH `crashRestart` (the process dies, nothing is flushed) and `restart` succeed: no recovery fails, the names are
kept, nothing is selected, every database is checkpointed for THE SAME plain database `w`, and the session
satisfies `SessCrash'` again. -/
theorem C17_crash_invariant_up_to_the_counters (s : Sess) (w : String → Spec.SDB) :
    (SessCrashL s w → SessCrashB s w) ∧
    (SessCrashB s w → SessAbs s w ∧
      (∃ s', crashRestart s = some s' ∧ SessCrash' s' w ∧ names s' = names s ∧ s'.cur = none ∧
        ∀ p ∈ s'.dbs, CkptNS p.2 (w p.1)) ∧
      (∃ s', restart s = some s' ∧ SessCrash' s' w ∧ names s' = names s ∧ s'.cur = none ∧
        ∀ p ∈ s'.dbs, CkptNS p.2 (w p.1))) :=
  ⟨fun h => h.toB, fun h => ⟨h.abs, crashRestart_sessCrashB h, restart_sessCrashB h⟩⟩

/-- **C17.oversized_first_row_keeps_the_crash_invariant**: an INSERT into an existing table whose FIRST row the
plain model has no row for (`FirstRowRefused`: wrong number of values, a value the column does not accept, or -
the case `C17_refused_statement_keeps_the_crash_invariant` leaves out - a row TOO LARGE for a page cell, refused
inside the tree insert after the row-id and LSN counters moved) returns an error, is refused by the plain model
too, and KEEPS the crash invariant `SessCrashB` for THE SAME plain databases `w`: a crash right after it (or
after any number of them) loses nothing (`C17_crash_invariant_up_to_the_counters`).  The log and the data file of
the selected database are as before.  NOT claimed: that a checkpointed selected database is still checkpointed
(it is not when the counters moved: the header in the data file is behind), so a CREATE TABLE may follow only
after USE of another database / restart / crash. -/
theorem C17_oversized_first_row_keeps_the_crash_invariant (s : Sess) (w : String → Spec.SDB) (h : SessCrashB s w)
    (n : String) (hc : s.cur = some n) (db : DB) (hg : getDB s n = some db) (st : Stmt)
    (hbad : FirstRowRefused (w n) st) :
    Spec.specStmt (w n) st = none ∧ (∃ k, (exec s st).2 = Out.err k) ∧ SessCrashB (exec s st).1 w ∧
    ∃ db', getDB (exec s st).1 n = some db' ∧ db'.wal = db.wal ∧ DiskSame db.store db'.store :=
  firstRowRefused_sessCrashB h n hc db hg st hbad

/-- **C17.refused_statement_keeps_the_crash_invariant_up_to_the_counters**: the statements of
`C17_refused_statement_keeps_the_crash_invariant` (`StmtRefusalC`) keep `SessCrashB` too. -/
theorem C17_refused_statement_keeps_the_crash_invariant_up_to_the_counters (s : Sess) (w : String → Spec.SDB)
    (h : SessCrashB s w) (n : String) (hc : s.cur = some n) (db : DB) (hg : getDB s n = some db) (st : Stmt)
    (hbad : ∀ pt sch tbls, DbInv db (w n) pt sch tbls → StmtRefusalC (w n) pt st) :
    Spec.specStmt (w n) st = none ∧ (∃ k, (exec s st).2 = Out.err k) ∧ SessCrashB (exec s st).1 w ∧
    ∃ db', getDB (exec s st).1 n = some db' ∧ (CkptNS db (w n) → CkptNS db' (w n)) :=
  refused_sessCrashB h n hc db hg st hbad

/-- **C17.histories_with_crashes_and_oversized_rows**: `C17_histories_with_crashes_and_refused_statements` with
INSERTs refused at their first row FOR ANY REASON, the size of the row included, anywhere in the history.  From
the EMPTY session, for every list of operations - statements, `restart`, crash - that meets `OkOps3`:
`runOps {} ops` is `some s'` - NO recovery fails -, `s'` satisfies `SessCrashB` (so `SessAbs`) for the plain
databases `worldOps {} (fun _ => []) ops` of the acknowledged statements - a refused statement changes none -, and
one more crash or restart succeeds too and preserves them (then `SessCrash'` holds again).  `OkOps3` asks of a
statement EITHER what `OkOps2` asks, OR that it is an INSERT into an existing table of the selected database whose
first row the plain model has no row for (`FirstRowRefused`); after such an INSERT the flag that allows CREATE
TABLE is cleared.  Every list that meets `OkOps2` meets `OkOps3` (`OkOps2.toOkOps3`).  EXCLUDED as before:
statements refused at a later row (false: `C17_crash_loses_rows_of_a_refused_insert`), CREATE TABLE after row
statements with no USE of another database / restart / crash between them. -/
theorem C17_histories_with_crashes_and_oversized_rows (ops : List SOp)
    (hok : OkOps3 {} (fun _ => []) true ops) :
    ∃ s', runOps {} ops = some s' ∧ SessCrashB s' (worldOps {} (fun _ => []) ops) ∧
      SessAbs s' (worldOps {} (fun _ => []) ops) ∧
      (∃ s'', crashRestart s' = some s'' ∧ SessCrash' s'' (worldOps {} (fun _ => []) ops) ∧ names s'' = names s') ∧
      (∃ s'', restart s' = some s'' ∧ SessCrash' s'' (worldOps {} (fun _ => []) ops) ∧ names s'' = names s') := by
  obtain ⟨s', e, h'⟩ := runOps_cinvB ops {} _ true (cinvB_empty _ _) hok
  obtain ⟨s1, e1, k1, n1, _⟩ := crashRestart_sessCrashB h'
  obtain ⟨s2, e2, k2, n2, _⟩ := restart_sessCrashB h'
  exact ⟨s', e, h', h'.abs, ⟨s1, e1, k1, n1⟩, ⟨s2, e2, k2, n2⟩⟩

/-- **C17.histories_with_crashes_and_oversized_rows_from**: the same from any session that satisfies
`CInvB s w clean` (`SessCrashB s w`, and if the flag is set every database is checkpointed; `CInvL` implies it,
`CInvL.toB`). -/
theorem C17_histories_with_crashes_and_oversized_rows_from (s : Sess) (w : String → Spec.SDB) (clean : Bool)
    (ops : List SOp) (h : CInvB s w clean) (hok : OkOps3 s w clean ops) :
    ∃ s', runOps s ops = some s' ∧ SessCrashB s' (worldOps s w ops) ∧ SessAbs s' (worldOps s w ops) := by
  obtain ⟨s', e, h'⟩ := runOps_cinvB ops s w clean h hok
  exact ⟨s', e, h', h'.abs⟩

/-- non-vacuity (the statements of `oversizedOps` / `C17_oversized_first_row_example`): on the plain database with
the one empty table `t (b VARCHAR(5000))`, INSERT INTO t VALUES ('xx…x') with 1100 bytes is `FirstRowRefused`
(the row encodes, and is too large), and it is NOT one of the refusals `rowRefusedEarly` covers -/
example : FirstRowRefused [⟨tname, [⟨"b", .varchar, 5000⟩], []⟩] (.insert tname [] [[.str (List.replicate 1100 120)]]) ∧
    rowRefusedEarly [⟨"b", .varchar, 5000⟩] [] [Mkdb.Tuple.Val.str (List.replicate 1100 120)] = false :=
  firstRowRefused_oversized_example

/-- non-vacuity of `OkOps3` with an oversized row: CREATE DATABASE d; USE d; CREATE TABLE t (b VARCHAR(5000));
INSERT INTO t VALUES ('xx…x') with 1100 bytes - refused for its size, the counters moved -; INSERT INTO t VALUES
('yy…y') with 1100 bytes - refused again, on the database the first refusal left -; crash; USE d; restart -/
example : OkOps3 {} (fun _ => []) true oversizedOps3 := okOps3_example

end Mkdb.Session



namespace Mkdb.Session
open Mkdb.Engine Mkdb.Sql Mkdb.Tree
open Mkdb.Store hiding Stmt

/-! ### crashes: CREATE TABLE anywhere - also after row statements that are logged and not flushed

`CreateTable` (storage/relation.go: lockExclusive; createTable; flushPagesLocked) writes no log record; it adds
rows to the two catalog tables and then flushes ALL dirty pages and the header.  So it ends in a checkpoint
whatever was dirty before it.  The records of the earlier row statements stay in the log; after the flush every
one of them is applied on the pages in the data file (the catalog trees only grew, the LSN counter only went up),
so a recovery after a crash finds nothing to redo.  The theorems below drop the side condition "CREATE TABLE only
while no row statement is unflushed on the selected database" of the history theorems above (the flag `clean` of
`OkOps` / `OkOps2` / `OkOps3`). -/

/-- **C17.create_table_anywhere_keeps_the_crash_invariant**: a CREATE TABLE that the plain model of the selected
database accepts (with room, `StmtRoom`) is accepted, keeps the crash invariant `SessCrashB` for the plain
model's result, writes no log record, and leaves the selected database CHECKPOINTED - with NO hypothesis about
what the selected database holds unflushed: any number of accepted INSERT / UPDATE / DELETE statements, refused
statements and oversized rows (everything `SessCrashB` allows) may have come since the last flush.  A crash
right after it loses nothing (`C17_crash_invariant_up_to_the_counters`): the rows logged before the CREATE TABLE
and the new table are there. -/
theorem C17_create_table_anywhere_keeps_the_crash_invariant (s : Sess) (w : String → Spec.SDB)
    (h : SessCrashB s w) (n : String) (hc : s.cur = some n) (db : DB) (hg : getDB s n = some db)
    (t : Bytes) (cols : List ColDef)
    (hroom : ∀ pt sch tbls, DbInv db (w n) pt sch tbls → StmtRoom db pt sch tbls (.createTable t cols))
    (sdb' : Spec.SDB) (hspec : Spec.specStmt (w n) (.createTable t cols) = some sdb') :
    (exec s (.createTable t cols)).2 = Out.ok ∧ SessCrashB (exec s (.createTable t cols)).1 (setW w n sdb') ∧
      ∃ db', getDB (exec s (.createTable t cols)).1 n = some db' ∧ db'.wal = db.wal ∧ CkptNS db' sdb' :=
  createTable_anywhere_sessCrashB h n hc db hg t cols hroom sdb' hspec

/-- **C17.histories_with_crashes_create_table_anywhere_from**: from any session that satisfies `SessCrashB s w`,
for every list of operations - statements, `restart`, crash - that meets `OkOps4`: `runOps s ops` is `some s'` -
NO recovery fails - and `s'` satisfies `SessCrashB` (so `SessAbs`) for the plain databases `worldOps s w ops`.
`OkOps4` is `OkOps3` WITHOUT the flag: it asks NOTHING of CREATE DATABASE, USE, SHOW DATABASES, SELECT, `restart`,
crash; a CREATE TABLE / INSERT / UPDATE / DELETE is (1) accepted by the plain model of the selected database with
room (`StmtRoom`) - a CREATE TABLE too, WHEREVER it comes -, or (2) leaves the session as it is and is refused by
the plain model (no database selected), or (3) is refused by the selected database for one of the reasons
`StmtRefusalC` lists, or (4) is an INSERT refused at its first row (`FirstRowRefused`, the size of the row
included).  Every list that meets `OkOps3`, whatever the flag, meets `OkOps4` (`OkOps3.toOkOps4`).  EXCLUDED as
before: statements refused at a later row (false: `C17_crash_loses_rows_of_a_refused_insert`). -/
theorem C17_histories_with_crashes_create_table_anywhere_from (s : Sess) (w : String → Spec.SDB)
    (ops : List SOp) (h : SessCrashB s w) (hok : OkOps4 s w ops) :
    ∃ s', runOps s ops = some s' ∧ SessCrashB s' (worldOps s w ops) ∧ SessAbs s' (worldOps s w ops) := by
  obtain ⟨s', e, h'⟩ := runOps_sessCrashB ops s w h hok
  exact ⟨s', e, h', h'.abs⟩

/-- **C17.histories_with_crashes_create_table_anywhere**: the same from the EMPTY session; one more crash or
restart succeeds too and preserves the plain databases of the acknowledged statements (then `SessCrash'` holds
again). -/
theorem C17_histories_with_crashes_create_table_anywhere (ops : List SOp)
    (hok : OkOps4 {} (fun _ => []) ops) :
    ∃ s', runOps {} ops = some s' ∧ SessCrashB s' (worldOps {} (fun _ => []) ops) ∧
      SessAbs s' (worldOps {} (fun _ => []) ops) ∧
      (∃ s'', crashRestart s' = some s'' ∧ SessCrash' s'' (worldOps {} (fun _ => []) ops) ∧ names s'' = names s') ∧
      (∃ s'', restart s' = some s'' ∧ SessCrash' s'' (worldOps {} (fun _ => []) ops) ∧ names s'' = names s') := by
  obtain ⟨s', e, h'⟩ := runOps_sessCrashB ops {} _ (cinvB_empty _ true).inv hok
  obtain ⟨s1, e1, k1, n1, _⟩ := crashRestart_sessCrashB h'
  obtain ⟨s2, e2, k2, n2, _⟩ := restart_sessCrashB h'
  exact ⟨s', e, h', h'.abs, ⟨s1, e1, k1, n1⟩, ⟨s2, e2, k2, n2⟩⟩

/-- the lists of `C17_histories_with_crashes_and_oversized_rows` are covered: `OkOps3`, whatever the flag, implies
`OkOps4`; e.g. the list `oversizedOps3` -/
example : OkOps4 {} (fun _ => []) oversizedOps3 := OkOps3.toOkOps4 _ _ _ _ okOps3_example

/-- **C17.create_table_after_unflushed_insert_example** (computed): CREATE DATABASE d; USE d; CREATE TABLE t
(a INT); INSERT INTO t VALUES (5); CREATE TABLE u (a INT) - issued while the INSERT is logged and not flushed -;
crash.  Outcomes 0 = accepted: all five statements are accepted.  Before the crash the log of `d` holds ONE record
(the INSERT's; neither CREATE TABLE logged anything) and the header in the data file equals the header in memory
(CREATE TABLE u flushed).  Recovery succeeds; nothing is selected; after USE d a reader sees the row `(5)` in `t`,
and `u` is there and empty. -/
theorem C17_create_table_after_unflushed_insert_example :
    (outsOps {} createAnywhereOps).map (·.map outCode) = some [0, 0, 0, 0, 0] ∧
    (runOps {} createAnywhereOps.dropLast).map (fun s' => (getDB s' "d").map fun db =>
        (db.wal.length, decide (db.store.dhdr = db.store.hdr))) = some (some (1, true)) ∧
    (runOps {} createAnywhereOps).map (fun s' => (s'.cur, rowsOfT (exec s' (.use [100])).1 "d" tname,
        rowsOfT (exec s' (.use [100])).1 "d" uname)) = some (none, some [[.int 5]], some []) :=
  createAnywhereOps_example

end Mkdb.Session
