import Mkdb.Model.Session
namespace Mkdb.Session
end Mkdb.Session
