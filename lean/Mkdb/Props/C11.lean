import Mkdb.Proofs.Tree
import Mkdb.Proofs.Forest
import Mkdb.Proofs.RefineScan
import Mkdb.Proofs.RefineInsert
/-!
# C11 — the on-disk B+ tree keeps its shape invariants

Property theorems only, about the levels model `Mkdb.Tree` of storage/btree.go `insertKey` /
`insertLeaf` / `insertInternal` / `btreeNode.split`, `updateCell`, the tombstone flag and `findCell`.
The invariant `Inv` (Mkdb/Spec/TreeInv.lean) is the C11 statement clause by clause: capacity,
strictly ascending keys within and across leaves, separators = lowest key of the right subtree
(so every subtree's keys lie inside its parent's bounds), all leaves at one depth and one parent
per node (`LinkOK`), no page twice (`OffsOK`), the doubly linked leaf chain = the leaves in tree
order (`ChainOK`).  Quantifier: every history of inserts with ascending keys, value changes and
deletions, of any length - any number of leaf splits, internal splits at any depth and root
growths; no bound.  Flushes and reloads do not change the logical pages (C12: the page codec
round-trips; C16: the cache is transparent), so they are not operations of this model.

The levels model is tied to the code through the heap model `Mkdb.Store` (compared page for page
with the implementation): every insert the heap model performs is cross-checked against
`insertAppend` on the tree read out of the heap (`Store.ghostAgrees`).
-/
namespace Mkdb.Tree
open Mkdb.Page Mkdb.Generated

/-- a tree operation as the engine and log replay issue them -/
inductive TOp where
  | ins (key lsn : Nat) (v : Bytes)
  | upd (key lsn : Nat) (v : Bytes)
  | del (key lsn : Nat)

/-- one operation on a tree and the allocation frontier; a refused insert changes nothing -/
def applyOp (s : Levels × Nat) : TOp → Levels × Nat
  | .ins k lsn v => match insertAppend s.1 k lsn v s.2 with
    | .ok r => r
    | .error _ => s
  | .upd k lsn v => (setVal s.1 k lsn v, s.2)
  | .del k lsn => (setDeleted s.1 k lsn, s.2)

def runOps (s : Levels × Nat) (ops : List TOp) : Levels × Nat := ops.foldl applyOp s

/-- **C11.created_well_formed**: the one-leaf tree CREATE TABLE / CREATE DATABASE start from is well formed. -/
theorem C11_created_well_formed (off nf : Nat) (h : off < nf) : Inv (emptyTree off) nf := emptyTree_inv off nf h

/-- **C11.insert_preserves**: an insert - with whatever leaf split, separator propagation, internal
splits and root growth it causes - takes a well-formed tree to a well-formed tree. -/
theorem C11_insert_preserves (t t' : Levels) (k lsn nf nf' : Nat) (v : Bytes) (hinv : Inv t nf)
    (h : insertAppend t k lsn v nf = .ok (t', nf')) : Inv t' nf' := insertAppend_inv t t' k lsn nf nf' v hinv h

theorem applyOp_inv (s : Levels × Nat) (op : TOp) (h : Inv s.1 s.2) : Inv (applyOp s op).1 (applyOp s op).2 := by
  cases op with
  | ins k lsn v =>
    simp only [applyOp]
    split
    · rename_i r hr
      exact insertAppend_inv s.1 r.1 k lsn s.2 r.2 v h hr
    · exact h
  | upd k lsn v => exact setVal_inv s.1 k lsn s.2 v h
  | del k lsn => exact setDeleted_inv s.1 k lsn s.2 h

/-- **C11.every_history**: after any history of insertions, value changes and deletions, starting from
a freshly created table, the tree is well formed. -/
theorem C11_every_history (off nf : Nat) (h : off < nf) (ops : List TOp) :
    Inv (runOps (emptyTree off, nf) ops).1 (runOps (emptyTree off, nf) ops).2 := by
  have : ∀ (s : Levels × Nat), Inv s.1 s.2 → Inv (runOps s ops).1 (runOps s ops).2 := by
    induction ops with
    | nil => intro s hs; exact hs
    | cons op rest ih => intro s hs; exact ih _ (applyOp_inv s op hs)
  exact this _ (emptyTree_inv off nf h)

/-- **C11.lookup_finds_every_key**: in a well-formed tree every stored key - live or tombstoned - is
found by point lookup from the root (`findCell`'s routing over the separators). -/
theorem C11_lookup_finds_every_key (t : Levels) (nf : Nat) (hinv : Inv t nf) (c : LeafCell) (hc : c ∈ cells t) :
    lookup t c.key = some c := lookup_finds t nf hinv c hc

/-- …hence after every history -/
theorem C11_lookup_after_history (off nf : Nat) (h : off < nf) (ops : List TOp) (c : LeafCell)
    (hc : c ∈ cells (runOps (emptyTree off, nf) ops).1) :
    lookup (runOps (emptyTree off, nf) ops).1 c.key = some c :=
  lookup_finds _ _ (C11_every_history off nf h ops) c hc

/-- **C11.heap_roundtrip**: the levels representation loses nothing with respect to the page heap: reading
a well-formed tree back from its own pages (`ofHeap`, the function the cross-check with the heap model
uses) returns the tree itself. -/
theorem C11_heap_roundtrip (t : Levels) (nf : Nat) (h : Inv t nf) (extra : Nat) :
    ofHeap (heapOf t) (t.inner.length + 2 + extra) (rootOff t) = some t := ofHeap_flatten_fuel t nf h extra

/-- **C11.pages_come_from_the_frontier**: an insert reuses the tree's own pages and otherwise only takes
pages from the allocation frontier, so trees sharing a file never overlap. -/
theorem C11_pages_come_from_the_frontier (t t' : Levels) (k lsn nf nf' : Nat) (v : Bytes)
    (h : insertAppend t k lsn v nf = .ok (t', nf')) : ∀ o ∈ offs t', o ∈ offs t ∨ (nf ≤ o ∧ o < nf') :=
  insertAppend_offs_new t t' k lsn nf nf' v h

/-- non-vacuity: 20 inserts from the empty tree force three leaf splits and a root; the result has
4 leaves under one internal node -/
example : ((runOps (emptyTree 4096, 8192) ((List.range' 1 20).map fun k => .ins k 0 [])).1.leaves.length,
    (runOps (emptyTree 4096, 8192) ((List.range' 1 20).map fun k => .ins k 0 [])).1.inner.length) = (4, 1) := by
  decide

end Mkdb.Tree

namespace Mkdb.Refine
open Mkdb.Store Mkdb.Tree Mkdb.Page

/-- **C11.heap_lookup_finds_every_key**: on the heap model, `findLeaf` (the routing of `findCell`,
`MarkDeleted` and log replay) from the root of a well-formed tree held by the page heap reaches, for
every stored key, the leaf that holds it, and the key search in that leaf finds the cell. -/
theorem C11_heap_lookup_finds_every_key (s : Store) (t : Levels) (nf : Nat) (hH : Holds s t) (hI : Inv t nf)
    (hF : Filed s) (hdepth : t.inner.length + 1 ≤ treeFuel) (c : LeafCell) (hc : c ∈ cells t) :
    ∃ s' l, findLeaf treeFuel (rootOff t) c.key s = .ok l s' ∧ (∃ d, (l, d) ∈ t.leaves) ∧
      c ∈ l.cells ∧ l.cells.find? (fun x => x.key == c.key) = some c ∧ Holds s' t :=
  findLeaf_finds s t nf hH hI hF hdepth c hc

end Mkdb.Refine

namespace Mkdb.Store
open Mkdb.Tree Mkdb.Page

/-- **C11.heap_insert_is_levels_insert** (the refinement that carries C01/C11 from the levels model to
the heap model, for every store, every tree depth up to the fuel bound and every insert):
whenever the page heap holds a well-formed tree `t` and the levels insert succeeds with `t'`, the
heap insert - `insertLeaf` / `insertInternal` with their leaf splits, separator propagation,
internal splits and root growth on pages addressed by offset - returns the root of `t'`, leaves the
heap holding `t'`, which is well formed again, advances the allocation frontier exactly as the
levels model says, and leaves every other tree in the file as it was. -/
theorem C11_heap_insert_is_levels_insert (s : Store) (t : Levels) (key lsn : Nat) (value : Bytes)
    (hH : Holds s t) (hI : Inv t s.hdr.nextFree) (hdepth : t.inner.length ≤ treeFuel)
    (t' : Levels) (nf' : Nat) (h : insertAppend t key lsn value s.hdr.nextFree = .ok (t', nf')) :
    ∃ s', insertKeyHeap ⟨rootOff t⟩ key lsn value s = .ok ⟨rootOff t'⟩ s' ∧
      Holds s' t' ∧ Inv t' s'.hdr.nextFree ∧ s'.hdr.nextFree = nf' ∧ s.hdr.nextFree ≤ s'.hdr.nextFree ∧
      ∀ u, Holds s u → (∀ o ∈ offs u, o < s.hdr.nextFree ∧ o ∉ offs t) → Holds s' u :=
  insertKeyHeap_refines_forest s t key lsn value hH hI hdepth t' nf' h

/-- **C11.heap_insert_refusals**: a duplicate key or an oversized row is refused by the heap insert
exactly when the levels insert refuses it, and nothing the engine can see changes. -/
theorem C11_heap_insert_refusals (s : Store) (t : Levels) (key lsn : Nat) (value : Bytes)
    (hH : Holds s t) (hI : Inv t s.hdr.nextFree) (hdepth : t.inner.length ≤ treeFuel) :
    (insertAppend t key lsn value s.hdr.nextFree = .error .keyExists →
      ∃ s', insertKeyHeap ⟨rootOff t⟩ key lsn value s = .err .keyExists s' ∧ Holds s' t ∧ ∀ off, view s' off = view s off) ∧
    (insertAppend t key lsn value s.hdr.nextFree = .error .rowTooLarge →
      ∃ s', insertKeyHeap ⟨rootOff t⟩ key lsn value s = .err .rowTooLarge s' ∧ Holds s' t ∧ ∀ off, view s' off = view s off) := by
  refine ⟨fun h => ?_, fun h => ?_⟩
  · obtain ⟨s', e, hh, _, hv⟩ := insertKeyHeap_refines_keyExists s t key lsn value hH hI hdepth h
    exact ⟨s', e, hh, hv⟩
  · obtain ⟨s', e, hh, _, hv⟩ := insertKeyHeap_refines_rowTooLarge s t key lsn value hH hI hdepth h
    exact ⟨s', e, hh, hv⟩

/-- **C11.cross_check_never_fires**: the run-time comparison of the two models inside `insertKey`
(`ghostAgrees`) is provably true on well-formed trees: it is a redundancy, kept as a test of the
proof's hypotheses on the states the implementation actually reaches. -/
theorem C11_cross_check_never_fires (s : Store) (t : Levels) (key lsn : Nat) (value : Bytes)
    (hH : Holds s t) (hI : Inv t s.hdr.nextFree) (hdepth : t.inner.length + 2 ≤ treeFuel)
    (hres : (∃ r, insertAppend t key lsn value s.hdr.nextFree = .ok r) ∨
      insertAppend t key lsn value s.hdr.nextFree = .error .keyExists ∨
      insertAppend t key lsn value s.hdr.nextFree = .error .rowTooLarge) :
    insertKey ⟨rootOff t⟩ key lsn value s = insertKeyHeap ⟨rootOff t⟩ key lsn value s :=
  insertKey_eq_insertKeyHeap s t key lsn value hH hI hdepth hres

end Mkdb.Store
