import Mkdb.Proofs.Tree
import Mkdb.Proofs.Forest
import Mkdb.Proofs.RefineScan
import Mkdb.Proofs.RefineInsert
import Mkdb.Proofs.FlushReload3
import Mkdb.Proofs.LeafChain
import Mkdb.Proofs.BSearch
import Mkdb.Proofs.BSearchInv
/-!
# C11 — the on-disk B+ tree keeps its shape invariants

Property theorems only, about the levels model `Mkdb.Tree` of storage/btree.go `insertKey` /
`insertLeaf` / `insertInternal` / `btreeNode.split`, `updateCell`, the tombstone flag and `findCell`.
The invariant `Inv` (Mkdb/Spec/TreeInv.lean) is the C11 statement clause by clause: capacity,
strictly ascending keys within and across leaves, separators = lowest key of the right subtree
(so every subtree's keys lie inside its parent's bounds), all leaves at one depth and one parent
per node (`LinkOK`), no page twice (`OffsOK`), the doubly linked leaf chain = the leaves in tree
order (`ChainOK`).  Quantifier: every history of inserts with ascending keys, value changes and
deletions, of any length - any number of leaf splits, internal splits at any depth and root
growths; no bound.  Flushes and reloads do not change the logical pages (C12: the page codec
round-trips; C16: the cache is transparent), so they are not operations of the levels model; on the
heap model they are: `C11_flush_and_reload_preserve_the_tree` and
`C11_every_history_with_flushes_and_reloads` (at the end of this file) put them into the quantifier.
The two leaf chains are walked explicitly in `C11_leaf_chains`.

The levels model is tied to the code through the heap model `Mkdb.Store` (compared page for page
with the implementation): every insert the heap model performs is cross-checked against
`insertAppend` on the tree read out of the heap (`Store.ghostAgrees`).
-/
namespace Mkdb.Tree
open Mkdb.Page Mkdb.Generated

/-- a tree operation as the engine and log replay issue them -/
inductive TOp where
  | ins (key lsn : Nat) (v : Bytes)
  | upd (key lsn : Nat) (v : Bytes)
  | del (key lsn : Nat)

/-- one operation on a tree and the allocation frontier; a refused insert changes nothing -/
def applyOp (s : Levels × Nat) : TOp → Levels × Nat
  | .ins k lsn v => match insertAppend s.1 k lsn v s.2 with
    | .ok r => r
    | .error _ => s
  | .upd k lsn v => (setVal s.1 k lsn v, s.2)
  | .del k lsn => (setDeleted s.1 k lsn, s.2)

def runOps (s : Levels × Nat) (ops : List TOp) : Levels × Nat := ops.foldl applyOp s

/-- **C11.created_well_formed**: the one-leaf tree CREATE TABLE / CREATE DATABASE start from is well formed. -/
theorem C11_created_well_formed (off nf : Nat) (h : off < nf) : Inv (emptyTree off) nf := emptyTree_inv off nf h

/-- **C11.insert_preserves**: an insert - with whatever leaf split, separator propagation, internal
splits and root growth it causes - takes a well-formed tree to a well-formed tree. -/
theorem C11_insert_preserves (t t' : Levels) (k lsn nf nf' : Nat) (v : Bytes) (hinv : Inv t nf)
    (h : insertAppend t k lsn v nf = .ok (t', nf')) : Inv t' nf' := insertAppend_inv t t' k lsn nf nf' v hinv h

theorem applyOp_inv (s : Levels × Nat) (op : TOp) (h : Inv s.1 s.2) : Inv (applyOp s op).1 (applyOp s op).2 := by
  cases op with
  | ins k lsn v =>
    simp only [applyOp]
    split
    · rename_i r hr
      exact insertAppend_inv s.1 r.1 k lsn s.2 r.2 v h hr
    · exact h
  | upd k lsn v => exact setVal_inv s.1 k lsn s.2 v h
  | del k lsn => exact setDeleted_inv s.1 k lsn s.2 h

/-- **C11.every_history**: after any history of insertions, value changes and deletions, starting from
a freshly created table, the tree is well formed. -/
theorem C11_every_history (off nf : Nat) (h : off < nf) (ops : List TOp) :
    Inv (runOps (emptyTree off, nf) ops).1 (runOps (emptyTree off, nf) ops).2 := by
  have : ∀ (s : Levels × Nat), Inv s.1 s.2 → Inv (runOps s ops).1 (runOps s ops).2 := by
    induction ops with
    | nil => intro s hs; exact hs
    | cons op rest ih => intro s hs; exact ih _ (applyOp_inv s op hs)
  exact this _ (emptyTree_inv off nf h)

/-- **C11.lookup_finds_every_key**: in a well-formed tree every stored key - live or tombstoned - is
found by point lookup from the root (`findCell`'s routing over the separators). -/
theorem C11_lookup_finds_every_key (t : Levels) (nf : Nat) (hinv : Inv t nf) (c : LeafCell) (hc : c ∈ cells t) :
    lookup t c.key = some c := lookup_finds t nf hinv c hc

/-- …hence after every history -/
theorem C11_lookup_after_history (off nf : Nat) (h : off < nf) (ops : List TOp) (c : LeafCell)
    (hc : c ∈ cells (runOps (emptyTree off, nf) ops).1) :
    lookup (runOps (emptyTree off, nf) ops).1 c.key = some c :=
  lookup_finds _ _ (C11_every_history off nf h ops) c hc

/-- **C11.heap_roundtrip**: the levels representation loses nothing with respect to the page heap: reading
a well-formed tree back from its own pages (`ofHeap`, the function the cross-check with the heap model
uses) returns the tree itself. -/
theorem C11_heap_roundtrip (t : Levels) (nf : Nat) (h : Inv t nf) (extra : Nat) :
    ofHeap (heapOf t) (t.inner.length + 2 + extra) (rootOff t) = some t := ofHeap_flatten_fuel t nf h extra

/-- **C11.pages_come_from_the_frontier**: an insert reuses the tree's own pages and otherwise only takes
pages from the allocation frontier, so trees sharing a file never overlap. -/
theorem C11_pages_come_from_the_frontier (t t' : Levels) (k lsn nf nf' : Nat) (v : Bytes)
    (h : insertAppend t k lsn v nf = .ok (t', nf')) : ∀ o ∈ offs t', o ∈ offs t ∨ (nf ≤ o ∧ o < nf') :=
  insertAppend_offs_new t t' k lsn nf nf' v h

/-- non-vacuity: 20 inserts from the empty tree force three leaf splits and a root; the result has
4 leaves under one internal node -/
example : ((runOps (emptyTree 4096, 8192) ((List.range' 1 20).map fun k => .ins k 0 [])).1.leaves.length,
    (runOps (emptyTree 4096, 8192) ((List.range' 1 20).map fun k => .ins k 0 [])).1.inner.length) = (4, 1) := by
  decide

end Mkdb.Tree

namespace Mkdb.Refine
open Mkdb.Store Mkdb.Tree Mkdb.Page

/-- **C11.heap_lookup_finds_every_key**: on the heap model, `findLeaf` (the routing of `findCell`,
`MarkDeleted` and log replay) from the root of a well-formed tree held by the page heap reaches, for
every stored key, the leaf that holds it, and the key search in that leaf finds the cell. -/
theorem C11_heap_lookup_finds_every_key (s : Store) (t : Levels) (nf : Nat) (hH : Holds s t) (hI : Inv t nf)
    (hF : Filed s) (hdepth : t.inner.length + 1 ≤ treeFuel) (c : LeafCell) (hc : c ∈ cells t) :
    ∃ s' l, findLeaf treeFuel (rootOff t) c.key s = .ok l s' ∧ (∃ d, (l, d) ∈ t.leaves) ∧
      c ∈ l.cells ∧ l.cells.find? (fun x => x.key == c.key) = some c ∧ Holds s' t :=
  findLeaf_finds s t nf hH hI hF hdepth c hc

end Mkdb.Refine

namespace Mkdb.Store
open Mkdb.Tree Mkdb.Page

/-- **C11.heap_insert_is_levels_insert** (the refinement that carries C01/C11 from the levels model to
the heap model, for every store, every tree depth up to the fuel bound and every insert):
whenever the page heap holds a well-formed tree `t` and the levels insert succeeds with `t'`, the
heap insert - `insertLeaf` / `insertInternal` with their leaf splits, separator propagation,
internal splits and root growth on pages addressed by offset - returns the root of `t'`, leaves the
heap holding `t'`, which is well formed again, advances the allocation frontier exactly as the
levels model says, and leaves every other tree in the file as it was.
The outcome is `.ok`: in particular none of the `.unmodelled` outcomes of `insertLeaf` is reached - not
the insertion inside a leaf, not the split of a leaf that is not the rightmost, and not the append to a
leaf that has a right sibling (the node object the code may have split before, where it computes a wrong
physical slot): `C11_append_never_meets_a_split_node` says this on its own. -/
theorem C11_heap_insert_is_levels_insert (s : Store) (t : Levels) (key lsn : Nat) (value : Bytes)
    (hH : Holds s t) (hI : Inv t s.hdr.nextFree) (hdepth : t.inner.length ≤ treeFuel)
    (t' : Levels) (nf' : Nat) (h : insertAppend t key lsn value s.hdr.nextFree = .ok (t', nf')) :
    ∃ s', insertKeyHeap ⟨rootOff t⟩ key lsn value s = .ok ⟨rootOff t'⟩ s' ∧
      Holds s' t' ∧ Inv t' s'.hdr.nextFree ∧ s'.hdr.nextFree = nf' ∧ s.hdr.nextFree ≤ s'.hdr.nextFree ∧
      ∀ u, Holds s u → (∀ o ∈ offs u, o < s.hdr.nextFree ∧ o ∉ offs t) → Holds s' u :=
  insertKeyHeap_refines_forest s t key lsn value hH hI hdepth t' nf' h

/-- **C11.append_to_a_split_leaf_is_unmodelled** (what the guard is): `btreeNode.split` leaves the moved
cells in the node object and `insertLeafCell` takes `len(leafCells)` as the physical slot, so an append
to a leaf object that was split and not reloaded writes an offset array like `0,1,2,3,9`.  The model has
no physical slots: for an append (key beyond every key of the leaf, value that fits) to a leaf that has
a right sibling - in every store, whatever the parent - it predicts nothing (`.unmodelled`). -/
theorem C11_append_to_a_split_leaf_is_unmodelled (s : Store) (parent : Option Nat) (cur : Leaf)
    (key lsn : Nat) (value : Bytes) (root : Nat) (hR : cur.hasR = true)
    (hpos : ∀ x ∈ keysOfLeaf cur, x < key) (hv : value.length ≤ Mkdb.Generated.c_maxValueSize) :
    insertLeaf parent cur key lsn value root s =
      .unmodelled "insertLeafCell: append to a leaf that was split (physical slot)" := by
  rw [insertLeaf_eq, findPos_beyond _ _ hpos]
  have hlen : (keysOfLeaf cur).length = cur.cells.length := by simp [keysOfLeaf]
  simp only [hlen, hR, bne_self_eq_false, Bool.false_eq_true, if_false, gt_iff_lt, Nat.not_lt.mpr hv, if_true]
  rfl

/-- **C11.append_never_meets_a_split_node**: in the situations C11 quantifies over - the heap holds a
well-formed tree `t`, the key is beyond every stored key (the levels insert succeeds) - the guard of
`C11_append_to_a_split_leaf_is_unmodelled` is never hit: the leaf the insert is routed to is the last leaf of
the tree, it has no right sibling (a node that was split has one, and is never the rightmost again: after a
split the rightmost node is the new one), and the heap insert does not end `.unmodelled`.  For internal nodes
the same follows: a separator is only appended to the ancestors of that leaf. -/
theorem C11_append_never_meets_a_split_node (s : Store) (t : Levels) (key lsn : Nat) (value : Bytes)
    (hH : Holds s t) (hI : Inv t s.hdr.nextFree) (hdepth : t.inner.length ≤ treeFuel)
    (t' : Levels) (nf' : Nat) (h : insertAppend t key lsn value s.hdr.nextFree = .ok (t', nf')) :
    (∀ lpre last d, t.leaves = lpre ++ [(last, d)] → last.hasR = false) ∧
    (∀ w, insertKeyHeap ⟨rootOff t⟩ key lsn value s ≠ .unmodelled w) := by
  refine ⟨fun lpre last d hpre => last_hasR_of_chain hI.chain hpre, fun w hw => ?_⟩
  obtain ⟨s', e, _⟩ := insertKeyHeap_refines s t key lsn value hH hI hdepth t' nf' h
  rw [e] at hw
  cases hw

/-- **C11.heap_insert_refusals**: a duplicate key or an oversized row is refused by the heap insert
exactly when the levels insert refuses it, and nothing the engine can see changes. -/
theorem C11_heap_insert_refusals (s : Store) (t : Levels) (key lsn : Nat) (value : Bytes)
    (hH : Holds s t) (hI : Inv t s.hdr.nextFree) (hdepth : t.inner.length ≤ treeFuel) :
    (insertAppend t key lsn value s.hdr.nextFree = .error .keyExists →
      ∃ s', insertKeyHeap ⟨rootOff t⟩ key lsn value s = .err .keyExists s' ∧ Holds s' t ∧ ∀ off, view s' off = view s off) ∧
    (insertAppend t key lsn value s.hdr.nextFree = .error .rowTooLarge →
      ∃ s', insertKeyHeap ⟨rootOff t⟩ key lsn value s = .err .rowTooLarge s' ∧ Holds s' t ∧ ∀ off, view s' off = view s off) := by
  refine ⟨fun h => ?_, fun h => ?_⟩
  · obtain ⟨s', e, hh, _, hv⟩ := insertKeyHeap_refines_keyExists s t key lsn value hH hI hdepth h
    exact ⟨s', e, hh, hv⟩
  · obtain ⟨s', e, hh, _, hv⟩ := insertKeyHeap_refines_rowTooLarge s t key lsn value hH hI hdepth h
    exact ⟨s', e, hh, hv⟩

/-- **C11.cross_check_never_fires**: the run-time comparison of the two models inside `insertKey`
(`ghostAgrees`) is provably true on well-formed trees: it is a redundancy, kept as a test of the
proof's hypotheses on the states the implementation actually reaches. -/
theorem C11_cross_check_never_fires (s : Store) (t : Levels) (key lsn : Nat) (value : Bytes)
    (hH : Holds s t) (hI : Inv t s.hdr.nextFree) (hdepth : t.inner.length + 2 ≤ treeFuel)
    (hres : (∃ r, insertAppend t key lsn value s.hdr.nextFree = .ok r) ∨
      insertAppend t key lsn value s.hdr.nextFree = .error .keyExists ∨
      insertAppend t key lsn value s.hdr.nextFree = .error .rowTooLarge) :
    insertKey ⟨rootOff t⟩ key lsn value s = insertKeyHeap ⟨rootOff t⟩ key lsn value s :=
  insertKey_eq_insertKeyHeap s t key lsn value hH hI hdepth hres

end Mkdb.Store

/-! ## The two leaf chains, walked -/

namespace Mkdb.Tree
open Mkdb.Page Mkdb.Generated

/-- **C11.leaf_chains**: in a well-formed tree, the left-to-right leaf chain - start at the first leaf,
follow `hasR` / `rSib`, read each sibling from the tree's own pages by offset (`walkRight`, the loop of
`scanRight`) - is exactly the list of leaves in tree order; the right-to-left chain - start at the last
leaf, follow `hasL` / `lSib` (`walkLeft`, the loop of `scanLeft`) - is exactly that list reversed; so each
chain is the exact reverse of the other.  Both walks end by themselves (the outermost leaves carry no
sibling flag): any fuel of at least the number of leaves gives the same result.  Hypotheses: `Inv t nf`
(which `C11_every_history` provides after every history); `first` / `last` are the first and last leaf
(a well-formed tree has at least one leaf). -/
theorem C11_leaf_chains (t : Levels) (nf : Nat) (hinv : Inv t nf) (first last : Leaf × Bool)
    (hfirst : t.leaves.head? = some first) (hlast : t.leaves.getLast? = some last) (extra : Nat) :
    walkRight (leafAt t) (t.leaves.length + extra) first.1 = t.leaves.map (·.1) ∧
    walkLeft (leafAt t) (t.leaves.length + extra) last.1 = (t.leaves.map (·.1)).reverse ∧
    walkLeft (leafAt t) (t.leaves.length + extra) last.1 =
      (walkRight (leafAt t) (t.leaves.length + extra) first.1).reverse := by
  have h1 := walkRight_leaves t nf hinv first hfirst extra
  have h2 := walkLeft_leaves t nf hinv last hlast extra
  exact ⟨h1, h2, by rw [h1, h2]⟩

/-- …hence after every history: the tree has a first and a last leaf, and the two walks from them give the
leaves in tree order and in reverse tree order. -/
theorem C11_leaf_chains_after_history (off nf : Nat) (h : off < nf) (ops : List TOp) :
    ∃ first last, (runOps (emptyTree off, nf) ops).1.leaves.head? = some first ∧
      (runOps (emptyTree off, nf) ops).1.leaves.getLast? = some last ∧
      walkRight (leafAt (runOps (emptyTree off, nf) ops).1) (runOps (emptyTree off, nf) ops).1.leaves.length first.1 =
        (runOps (emptyTree off, nf) ops).1.leaves.map (·.1) ∧
      walkLeft (leafAt (runOps (emptyTree off, nf) ops).1) (runOps (emptyTree off, nf) ops).1.leaves.length last.1 =
        ((runOps (emptyTree off, nf) ops).1.leaves.map (·.1)).reverse := by
  have hinv := C11_every_history off nf h ops
  generalize (runOps (emptyTree off, nf) ops).1 = t at hinv
  generalize (runOps (emptyTree off, nf) ops).2 = nf' at hinv
  have hne : t.leaves ≠ [] := by
    have := linked_below_ne t.inner _ hinv.link
    intro h0; rw [h0] at this; exact this rfl
  obtain ⟨first, hf⟩ : ∃ first, t.leaves.head? = some first := by
    cases hl : t.leaves with
    | nil => exact absurd hl hne
    | cons a _ => exact ⟨a, rfl⟩
  obtain ⟨last, hl⟩ : ∃ last, t.leaves.getLast? = some last :=
    ⟨t.leaves.getLast hne, List.getLast?_eq_some_getLast hne⟩
  obtain ⟨h1, h2, _⟩ := C11_leaf_chains t nf' hinv first last hf hl 0
  exact ⟨first, last, hf, hl, h1, h2⟩

/-- non-vacuity: after 20 inserts (four leaves under a root) the walk to the right from the first leaf
visits the four leaves at offsets 4096, 8192, 16384, 20480 and the walk to the left visits them backwards -/
example :
    let t := (runOps (emptyTree 4096, 8192) ((List.range' 1 20).map fun k => .ins k 0 [])).1
    (t.leaves.head?.map fun f => (walkRight (leafAt t) t.leaves.length f.1).map (·.off)) = some [4096, 8192, 16384, 20480] ∧
    (t.leaves.getLast?.map fun l => (walkLeft (leafAt t) t.leaves.length l.1).map (·.off)) = some [20480, 16384, 8192, 4096] := by
  decide

end Mkdb.Tree

/-! ## Flushes and reloads -/

namespace Mkdb.Store
open Mkdb.Tree Mkdb.Page

/-- **C11.flush_and_reload_preserve_the_tree**: if the page heap holds a well-formed tree `t`
(`Holds s t`, `Inv t nextFree`), then after `flushPages order` - *any* page write order - and after the
re-open that follows (`reopen`: the cache dropped, the header re-read, every page read from the data file
again), the heap still holds the same tree: page for page the same nodes at the same offsets, every dirty
bit cleared (`clean t`; `flatten (clean t)` is `flatten t` with `false` in every dirty bit).  So the tree
is still well formed at the same allocation frontier, has the same root and the same cells, and every
stored key is still found by point lookup from the root; every page of it is in the data file.
Hypotheses: `MemFiled s` (every cached page object sits under the offset it carries - every primitive of
the page store keeps that) and `SyncedT s t` (the pages of `t` the cache shows *clean* are in the data
file as shown - true of a tree whose pages are all dirty, kept by every tree operation, flush and
re-open: `HeapInv`).  A re-open *without* the flush is a crash and loses the dirty pages (see the examples
below); that is C02/C03, not this property. -/
theorem C11_flush_and_reload_preserve_the_tree (s : Store) (t : Levels) (order : List Nat)
    (hH : Holds s t) (hI : Inv t s.hdr.nextFree) (hmf : MemFiled s) (hsy : SyncedT s t) :
    ∃ s', flushPages order s = .ok () s' ∧
      Holds s' (clean t) ∧ s'.hdr = s.hdr ∧
      Holds (reopen s') (clean t) ∧ (reopen s').hdr = s.hdr ∧ OnDiskT (reopen s') (clean t) ∧
      flatten (clean t) = (flatten t).map (fun e => (e.1, e.2.1, false)) ∧
      Inv (clean t) (reopen s').hdr.nextFree ∧ rootOff (clean t) = rootOff t ∧ cells (clean t) = cells t ∧
      ∀ c ∈ cells t, lookup (clean t) c.key = some c := by
  obtain ⟨s', e, hH', hh, hdh, _, _, _, hod⟩ := flush_holds order s t hH hmf
  have hod' := hod hsy
  have hro : (reopen s').hdr = s.hdr := hdh
  have hI' : Inv (clean t) (reopen s').hdr.nextFree := by rw [hro]; exact clean_inv t _ hI
  refine ⟨s', e, hH', hh, ?_, hro, hod'.of_disk rfl, flatten_clean t, hI', rootOff_clean t, cells_clean t, ?_⟩
  · have := reopen_holds s' (clean t) hod'
    rw [clean_clean] at this
    exact this
  · intro c hc
    exact lookup_finds _ _ hI' c (by rw [cells_clean]; exact hc)

/-- **C11.reload_preserves_a_tree_on_disk**: re-opening a data file that has every page of a tree (`OnDiskT`: what a flush
leaves, `C11_flush_and_reload_preserve_the_tree`) gives a heap that holds the tree, all pages clean -
whatever the cache held. -/
theorem C11_reload_preserves_a_tree_on_disk (s : Store) (t : Levels) (hd : OnDiskT s t) :
    Holds (reopen s) (clean t) ∧ OnDiskT (reopen s) (clean t) ∧ MemFiled (reopen s) :=
  ⟨reopen_holds s t hd, hd.clean.of_disk rfl, reopen_memFiled s⟩

/-- non-vacuity of `C11_reload_preserves_a_tree_on_disk`: the store the history `opsF0` up to its last
flush ends in has every page of a three-leaf tree in the data file -/
example : ∃ s t, OnDiskT s t ∧ t.leaves.length = 3 := by
  obtain ⟨s1, _, _, _, h1, _⟩ := heapRunF_refines (opsF0.take 21) s0 (emptyTree 4096) s0_heapInv (by decide)
  obtain ⟨s2, _, _, _, _, hod, _⟩ := h1.flush []
  exact ⟨s2, _, hod, by decide⟩

/-- the hypothesis "flushed first" cannot be dropped: the store `s0` holds the one-leaf tree of a fresh
table in a dirty cached page; re-opened without a flush, the page is gone -/
example : Holds s0 (emptyTree 4096) ∧ view (reopen s0) 4096 = none := ⟨s0_holds, rfl⟩

/-- a store whose cache shows a *clean* page that differs from the data file (LSN 0 in the cache, LSN 7 in
the file); the page store never produces such a cache (a clean page object is a copy of the file) -/
def sStale : Store :=
  { hdr := { nextFree := 8192 }, dhdr := { nextFree := 8192 },
    mem := [(4096, ⟨.leaf ⟨4096, 0, false, false, 0, 0, []⟩, false⟩)],
    disk := [(4096, .leaf ⟨4096, 7, false, false, 0, 0, []⟩)] }

/-- the hypothesis `SyncedT` cannot be dropped either: the heap of `sStale` holds the clean one-leaf tree;
a flush writes nothing (nothing is dirty); the re-opened data file shows the other page -/
example : Holds sStale (clean (emptyTree 4096)) ∧
    ∃ s', flushPages [] sStale = .ok () s' ∧ ¬ Holds (reopen s') (clean (emptyTree 4096)) := by
  refine ⟨?_, _, rfl, ?_⟩
  · intro e he
    simp [flatten, clean, emptyTree] at he
    subst he
    rfl
  · intro h
    have := h (4096, .leaf ⟨4096, 0, false, false, 0, 0, []⟩, false) (by simp [flatten, clean, emptyTree])
    revert this
    decide

/-- **C11.every_history_with_flushes_and_reloads**: histories in which flushes (any page write order)
and reloads are interleaved with insertions, value changes and deletions (`FROp`, `heapRunF`: the
operations of `C01_heap_history` plus `flush order` and `reload` = `Store.reopen`).  Started in a store
whose heap holds a well-formed tree `t` (`HeapInv s t`: `Holds`, `Inv`, the cache filed, the clean pages
in the data file, the frontier saved when nothing is dirty - true of a freshly created table,
`HeapInv.of_all_dirty`), the heap run succeeds and returns the root of the tree `t'` of the levels run
`runF`, in which a flush and a reload only clear dirty bits; the final heap holds `t'`; `t'` satisfies the
whole shape invariant at the final allocation frontier; every stored key is found by point lookup from
the root, on the levels model and by `findLeaf` on the heap.  Hypotheses `RunOKF` (decidable, along the
levels run): `RunOK` of `C01_heap_history` for the tree operations (ascending insert keys, updated
values that fit a cell, no deletion of a tombstone, depth below the fuel bound 64) and a reload only at a
moment when no page of the tree is dirty (`clean t = t`) - a re-open with dirty pages is a crash. -/
theorem C11_every_history_with_flushes_and_reloads (ops : List FROp) (s : Store) (t : Levels)
    (h : HeapInv s t) (hok : RunOKF (t, s.hdr.nextFree) ops)
    (hdepth : (runF (t, s.hdr.nextFree) ops).1.inner.length + 1 ≤ treeFuel) :
    ∃ s' root', heapRunF (rootOff t) ops s = .ok root' s' ∧
      root' = rootOff (runF (t, s.hdr.nextFree) ops).1 ∧
      Holds s' (runF (t, s.hdr.nextFree) ops).1 ∧
      Inv (runF (t, s.hdr.nextFree) ops).1 s'.hdr.nextFree ∧
      HeapInv s' (runF (t, s.hdr.nextFree) ops).1 ∧
      (∀ c ∈ cells (runF (t, s.hdr.nextFree) ops).1, lookup (runF (t, s.hdr.nextFree) ops).1 c.key = some c) ∧
      (∀ c ∈ cells (runF (t, s.hdr.nextFree) ops).1, ∃ s'' l, findLeaf treeFuel root' c.key s' = .ok l s'' ∧
        l.cells.find? (fun x => x.key == c.key) = some c ∧ view s'' = view s') := by
  obtain ⟨s', root', e, hr, h', _⟩ := heapRunF_refines ops s t h hok
  refine ⟨s', root', e, hr, h'.holds, h'.inv, h', fun c hc => lookup_finds _ _ h'.inv c hc, ?_⟩
  intro c hc
  obtain ⟨s'', l, _, e2, _, hv, _, hfind⟩ := findLeaf_key s' _ _ h'.holds h'.inv hdepth c.key
  exact ⟨s'', l, by rw [hr]; exact e2, hfind c hc rfl, hv⟩

/-- …hence in every history of `C11_every_history_with_flushes_and_reloads` (ascending insert keys, value
changes, deletions, flushes in any write order, reloads) no operation is `.unmodelled`: no append ever goes
to a leaf that has a right sibling, i.e. to a node object that was split. -/
theorem C11_append_never_meets_a_split_node_in_a_history (ops : List FROp) (s : Store) (t : Levels)
    (h : HeapInv s t) (hok : RunOKF (t, s.hdr.nextFree) ops) :
    ∀ w, heapRunF (rootOff t) ops s ≠ .unmodelled w := by
  intro w hw
  obtain ⟨s', root', e, _⟩ := heapRunF_refines ops s t h hok
  rw [e] at hw
  cases hw

/-- **C11.flushes_and_reloads_change_nothing_logical**: the tree at the end of a history with flushes and
reloads (`runF`, the tree the heap holds by `C11_every_history_with_flushes_and_reloads`) is, up to dirty
bits, the tree at the end of the same history with the flushes and reloads left out (`stripF`, `runH`: the
histories of `C11_every_history` / `C01_heap_history`): the same nodes at the same offsets
(`clean … = clean …`), hence the same cells in scan order, the same root, the same allocation frontier.
No hypotheses. -/
theorem C11_flushes_and_reloads_change_nothing_logical (ops : List FROp) (st : Levels × Nat) :
    clean (runF st ops).1 = clean (runH st (stripF ops)).1 ∧
    (flatten (runF st ops).1).map (fun e => (e.1, e.2.1)) = (flatten (runH st (stripF ops)).1).map (fun e => (e.1, e.2.1)) ∧
    cells (runF st ops).1 = cells (runH st (stripF ops)).1 ∧
    rootOff (runF st ops).1 = rootOff (runH st (stripF ops)).1 ∧
    (runF st ops).2 = (runH st (stripF ops)).2 := by
  obtain ⟨h1, h2⟩ := runF_erase ops st st rfl rfl
  refine ⟨h1, ?_, ?_, ?_, h2⟩
  · have := congrArg (fun t => (flatten t).map (fun e => (e.1, e.2.1))) h1
    simp only [flatten_clean, List.map_map] at this
    exact this
  · rw [← cells_clean, h1, cells_clean]
  · rw [← rootOff_clean, h1, rootOff_clean]

/-- non-vacuity: in `opsF0` the flushes and reloads are really there (6 of 23 steps) and the tree they
leave differs from the tree of the stripped history in dirty bits only -/
example : opsF0.length = 23 ∧ (stripF opsF0).length = 17 ∧
    (runF (emptyTree 4096, 8192) opsF0).1 ≠ (runH (emptyTree 4096, 8192) (stripF opsF0)).1 ∧
    clean (runF (emptyTree 4096, 8192) opsF0).1 = clean (runH (emptyTree 4096, 8192) (stripF opsF0)).1 := by
  decide

/-- non-vacuity: the concrete history `opsF0` (12 inserts with a leaf split and a new root, a flush, an
update, a delete, a flush in another order, a reload, a refused insert, a reload, two inserts with a
second split, a flush, a reload) from the store `s0` of a fresh table meets every hypothesis -/
example : HeapInv s0 (emptyTree 4096) ∧ RunOKF (emptyTree 4096, s0.hdr.nextFree) opsF0 ∧
    (runF (emptyTree 4096, s0.hdr.nextFree) opsF0).1.inner.length + 1 ≤ treeFuel ∧
    (runF (emptyTree 4096, s0.hdr.nextFree) opsF0).1.leaves.length = 3 :=
  ⟨s0_heapInv, by decide, by decide, by decide⟩

/-- non-vacuity of `C11_flush_and_reload_preserve_the_tree`: the store the history `opsF0` minus its last
flush and reload ends in holds a tree with three leaves, two of them dirty, and meets the hypotheses -/
example : ∃ s t, Holds s t ∧ Inv t s.hdr.nextFree ∧ MemFiled s ∧ SyncedT s t ∧ t.leaves.length = 3 ∧
    clean t ≠ t := by
  obtain ⟨s', _, _, _, h', hn⟩ := heapRunF_refines (opsF0.take 21) s0 (emptyTree 4096) s0_heapInv (by decide)
  exact ⟨s', _, h'.holds, h'.inv, h'.filed, h'.synced, by decide, by decide⟩

end Mkdb.Store

/-!
## The search inside a page: `btreeNode.findCellOffsetByKey`

Every lookup, insert, value change and deletion finds its cell (and every descent its child) with the
binary search of `findCellOffsetByKey`.  The heap model states the search by its result (`Store.findPos`:
the number of keys below the key, and whether the key stands there); `Mkdb.BSearch.loop` is the loop as
written - `low`, `high`, `mid` as Go ints, `high = -1` on an empty node, an index outside the slot array
a panic.  Quantifier: every slot array of any length, every key; no bound.
-/
namespace Mkdb.BSearch

/-- on the strictly ascending slot arrays the shape invariant gives every page, the loop of
`findCellOffsetByKey` returns exactly the insertion point and hit flag the heap model (and through it
every C01 / C11 theorem) takes for granted -/
theorem C11_binary_search_is_the_insertion_point (keys : List Nat) (k : Nat)
    (hs : keys.Pairwise (· < ·)) :
    search keys k = .ret (Mkdb.Store.findPos keys k).1 (Mkdb.Store.findPos keys k).2 := by
  rw [← spec_eq_findPos]
  exact loop_spec keys k hs _ 0 _ rfl (by omega) (by omega) (by omega)
    (fun i _ h => by omega) (fun i hi h => by omega)

/-- ... so it reports a hit exactly for the keys the page holds, at the slot that holds them -/
theorem C11_binary_search_finds_exactly_the_stored_keys (keys : List Nat) (k : Nat)
    (hs : keys.Pairwise (· < ·)) :
    (∃ p, search keys k = .ret p true) ↔ k ∈ keys := by
  rw [C11_binary_search_is_the_insertion_point keys k hs]
  constructor
  · rintro ⟨p, h⟩
    injection h with _ hf
    have : keys[(Mkdb.Store.findPos keys k).1]? = some k := by
      simpa [Mkdb.Store.findPos] using hf
    exact List.mem_of_getElem? this
  · intro hk
    obtain ⟨j, hj, rfl⟩ := List.getElem_of_mem hk
    have hsorted := List.pairwise_iff_getElem.mp hs
    have hsp : spec keys keys[j] = (j, keys[j]? == some keys[j]) :=
      spec_of_bounds keys _ j (by omega) (fun i hi hij => hsorted i j hi hj hij) (fun _ => by omega)
    rw [← spec_eq_findPos, hsp]
    exact ⟨j, by simp [List.getElem?_eq_getElem hj]⟩

/-- and on a miss the position returned is where the key belongs: everything before it is smaller,
everything from it on is larger (what `insertLeafCell` / `insertInternalCell` and the descent rely on) -/
theorem C11_binary_search_miss_is_the_insertion_point (keys : List Nat) (k p : Nat)
    (hs : keys.Pairwise (· < ·)) (h : search keys k = .ret p false) :
    p ≤ keys.length ∧ (∀ i (hi : i < keys.length), i < p → keys[i] < k) ∧
      (∀ i (hi : i < keys.length), p ≤ i → k < keys[i]) := by
  rw [C11_binary_search_is_the_insertion_point keys k hs] at h
  injection h with hp hf
  have hsorted := List.pairwise_iff_getElem.mp hs
  simp only [Mkdb.Store.findPos] at hp hf
  obtain ⟨h1, h2, h3⟩ := takeWhile_length_spec (P := fun x => decide (x < k)) keys
  rw [hp] at h1 h2 h3
  have hle : p ≤ keys.length := h1
  have hbelow : ∀ i (hi : i < keys.length), i < p → keys[i] < k := by
    intro i hi hip; simpa using h2 i hi hip
  have hat : ∀ (hp' : p < keys.length), k < keys[p] := by
    intro hp'
    have h1 : ¬ keys[p] < k := by simpa using h3 hp'
    have h2 : keys[p] ≠ k := by
      intro he
      rw [hp, List.getElem?_eq_getElem hp', he] at hf
      simp at hf
    omega
  refine ⟨hle, hbelow, fun i hi hpi => ?_⟩
  by_cases hip : i = p
  · subst hip; exact hat hi
  · have := hsorted p i (by omega) hi (by omega)
    have := hat (by omega)
    omega

/-- on ANY slot array - ascending or not, with duplicate keys or not, empty or full - the loop ends,
never indexes outside the array (no panic), answers a position within `0 .. len`, and a reported hit is
a real one: a page whose keys were damaged cannot crash or hang the search (C18's concern, C11's code) -/
theorem C11_binary_search_never_leaves_the_slot_array (keys : List Nat) (k : Nat) :
    ∃ p f, search keys k = .ret p f ∧ p ≤ keys.length ∧ (f = true → keys[p]? = some k) :=
  loop_total keys k _ 0 _ rfl (by omega) (by omega) (by omega)

/-- non-vacuity: a 7-slot page; a hit in the middle, a miss between two keys, a miss beyond the end,
the empty page; and an array that is NOT ascending, on which the loop misses a key that is there
(the sortedness hypothesis of the first three theorems is needed) -/
example : search [2, 3, 5, 7, 11, 13, 17] 7 = .ret 3 true ∧ search [2, 3, 5, 7, 11, 13, 17] 8 = .ret 4 false ∧
    search [2, 3, 5, 7, 11, 13, 17] 99 = .ret 7 false ∧ search [] 1 = .ret 0 false ∧
    search [9, 1, 5] 9 = .ret 3 false := by
  refine ⟨?_, ?_, ?_, ?_, ?_⟩ <;> simp [search, loop]

end Mkdb.BSearch


/-!
## The search inside a page, on the pages the engine builds

`C11_binary_search_is_the_insertion_point` needs the slot array strictly ascending.  The shape invariant
gives that on every page: for leaves it is `KeysAsc`; for internal nodes the separators are (by `SepsOK`)
a sublist of the lowest keys of the level below, which bottom-up are a sublist of the leaf keys
(`LeavesNonempty` makes the lowest key of a leaf a real key).  Proofs: `Mkdb/Proofs/BSearchInv.lean`.
-/
namespace Mkdb.Tree
open Mkdb.Page Mkdb.Generated

/-- **C11.every_page_is_sorted**: in a well-formed tree the keys of every leaf and the separators of
every internal node of every level are strictly ascending - the hypothesis of the binary-search
theorems, from the shape invariant. -/
theorem C11_every_page_is_sorted (t : Levels) (nf : Nat) (hinv : Inv t nf) :
    (∀ l ∈ t.leaves, (l.1.cells.map (·.key)).Pairwise (· < ·)) ∧
    (∀ lvl ∈ t.inner, ∀ n ∈ lvl, (n.1.cells.map (·.key)).Pairwise (· < ·)) :=
  ⟨inv_leaf_sorted t nf hinv, inv_internal_sorted t nf hinv⟩

/-- **C11.every_page_is_searched_by_the_loop**: after any history of insertions, value changes and
deletions from a freshly created table (the trees of `C11_every_history`: any number of leaf splits,
internal splits and root growths), on every page of the tree - every leaf, every internal node of every
level - and for EVERY key `k`, stored or not, the loop of `findCellOffsetByKey` as written
(`BSearch.search` on the page's keys in slot order) returns exactly the position and hit flag the heap
model takes for granted (`Store.findPos (keysOfLeaf l) k` / `Store.findPos (keysOfInternal n) k`);
it reports a hit exactly when `k` is on the page; and it never indexes outside the slot array (no
panic).  So the sortedness hypothesis of `C11_binary_search_is_the_insertion_point` holds on every page
the engine can build. -/
theorem C11_every_page_is_searched_by_the_loop (off nf : Nat) (h : off < nf) (ops : List TOp) (k : Nat) :
    (∀ l ∈ (runOps (emptyTree off, nf) ops).1.leaves,
      BSearch.search (Store.keysOfLeaf l.1) k =
        .ret (Store.findPos (Store.keysOfLeaf l.1) k).1 (Store.findPos (Store.keysOfLeaf l.1) k).2 ∧
      ((∃ p, BSearch.search (Store.keysOfLeaf l.1) k = .ret p true) ↔ k ∈ Store.keysOfLeaf l.1) ∧
      BSearch.search (Store.keysOfLeaf l.1) k ≠ .panic) ∧
    (∀ lvl ∈ (runOps (emptyTree off, nf) ops).1.inner, ∀ n ∈ lvl,
      BSearch.search (Store.keysOfInternal n.1) k =
        .ret (Store.findPos (Store.keysOfInternal n.1) k).1 (Store.findPos (Store.keysOfInternal n.1) k).2 ∧
      ((∃ p, BSearch.search (Store.keysOfInternal n.1) k = .ret p true) ↔ k ∈ Store.keysOfInternal n.1) ∧
      BSearch.search (Store.keysOfInternal n.1) k ≠ .panic) :=
  inv_every_page_searched _ _ (C11_every_history off nf h ops) k

/-- non-vacuity: after 20 inserts the tree has four leaves with keys 1-4, 5-8, 9-12, 13-20 under a root
with the separators 5, 9, 13; on the root the loop sends key 11 to slot 2 (no hit) and finds the
separator 9 at slot 1; on the last leaf it finds key 17 at slot 4 and puts the absent key 99 at slot 8 -/
example :
    (runOps (emptyTree 4096, 8192) ((List.range' 1 20).map fun k => .ins k 0 [])).1.leaves.map
      (fun l => Store.keysOfLeaf l.1) = [[1, 2, 3, 4], [5, 6, 7, 8], [9, 10, 11, 12], [13, 14, 15, 16, 17, 18, 19, 20]] ∧
    (runOps (emptyTree 4096, 8192) ((List.range' 1 20).map fun k => .ins k 0 [])).1.inner.map
      (fun lvl => lvl.map fun n => Store.keysOfInternal n.1) = [[[5, 9, 13]]] ∧
    BSearch.search [5, 9, 13] 11 = .ret 2 false ∧ BSearch.search [5, 9, 13] 9 = .ret 1 true ∧
    BSearch.search [13, 14, 15, 16, 17, 18, 19, 20] 17 = .ret 4 true ∧
    BSearch.search [13, 14, 15, 16, 17, 18, 19, 20] 99 = .ret 8 false := by
  refine ⟨by decide, by decide, ?_, ?_, ?_, ?_⟩ <;> simp [BSearch.search, BSearch.loop]

end Mkdb.Tree

namespace Mkdb.Store
open Mkdb.Tree Mkdb.Page

/-- **C11.every_heap_page_is_searched_by_the_loop**: on the heap model.  If the store's page heap holds
a well-formed tree `t` (`HeapInv s t`), then every page object of that tree - every `(off, node, dirty)`
of the flattened heap - is what the store shows at its offset (`view s off`), and on its keys in slot
order (`nodeKeys`: `keysOfLeaf` of a leaf, `keysOfInternal` of an internal node) the loop of
`findCellOffsetByKey`, for EVERY key `k`, returns exactly `findPos`, reports a hit exactly when `k` is on
the page, and does not panic.  (Pages of the store that belong to no tree the hypothesis speaks of are
not covered: nothing is known about them.) -/
theorem C11_every_heap_page_is_searched_by_the_loop (s : Store) (t : Levels) (h : HeapInv s t) (k : Nat) :
    ∀ e ∈ flatten t, view s e.1 = some (e.2.1, e.2.2) ∧
      BSearch.search (nodeKeys e.2.1) k = .ret (findPos (nodeKeys e.2.1) k).1 (findPos (nodeKeys e.2.1) k).2 ∧
      ((∃ p, BSearch.search (nodeKeys e.2.1) k = .ret p true) ↔ k ∈ nodeKeys e.2.1) ∧
      BSearch.search (nodeKeys e.2.1) k ≠ .panic :=
  fun e he => ⟨h.holds e he, inv_every_flat_page_searched t _ h.inv k e he⟩

/-- ... hence at the end of every history of `C11_every_history_with_flushes_and_reloads` (ascending
insert keys, value changes, deletions, flushes in any write order, reloads): the heap run succeeds, and
every page of the tree it leaves in the store is searched by the loop exactly as `findPos` says, for
every key, without a panic. -/
theorem C11_every_heap_page_is_searched_by_the_loop_in_a_history (ops : List FROp) (s : Store) (t : Levels)
    (h : HeapInv s t) (hok : RunOKF (t, s.hdr.nextFree) ops) (k : Nat) :
    ∃ s' root', heapRunF (rootOff t) ops s = .ok root' s' ∧
      ∀ e ∈ flatten (runF (t, s.hdr.nextFree) ops).1, view s' e.1 = some (e.2.1, e.2.2) ∧
        BSearch.search (nodeKeys e.2.1) k = .ret (findPos (nodeKeys e.2.1) k).1 (findPos (nodeKeys e.2.1) k).2 ∧
        ((∃ p, BSearch.search (nodeKeys e.2.1) k = .ret p true) ↔ k ∈ nodeKeys e.2.1) ∧
        BSearch.search (nodeKeys e.2.1) k ≠ .panic := by
  obtain ⟨s', root', e, _, h', _⟩ := heapRunF_refines ops s t h hok
  exact ⟨s', root', e, C11_every_heap_page_is_searched_by_the_loop s' _ h' k⟩

/-- non-vacuity: the history `opsF0` from the store `s0` of a fresh table meets the hypotheses
(`s0_heapInv`, `RunOKF` by computation) and leaves four pages in the heap: the leaves at 4096, 8192, 16384
with keys 1-4, 5-8, 9-14 and the root at 12288 with the separators 5, 9; the loop on the root sends key 7
to slot 1 and on the last leaf finds key 13 at slot 4 -/
example : HeapInv s0 (emptyTree 4096) ∧ RunOKF (emptyTree 4096, s0.hdr.nextFree) opsF0 ∧
    (flatten (runF (emptyTree 4096, s0.hdr.nextFree) opsF0).1).map (fun e => (e.1, nodeKeys e.2.1)) =
      [(4096, [1, 2, 3, 4]), (8192, [5, 6, 7, 8]), (16384, [9, 10, 11, 12, 13, 14]), (12288, [5, 9])] ∧
    BSearch.search [5, 9] 7 = .ret 1 false ∧ BSearch.search [9, 10, 11, 12, 13, 14] 13 = .ret 4 true := by
  refine ⟨s0_heapInv, by decide, by decide, ?_, ?_⟩ <;> simp [BSearch.search, BSearch.loop]

end Mkdb.Store
