import Mkdb.Proofs.Join
import Mkdb.Proofs.TableNames
import Mkdb.Proofs.Meaning4
/-!
# C06 — JOIN results equal the relational definition

Property theorems only (proofs in `Mkdb/Proofs/Join.lean`, `Mkdb/Proofs/TableNames.lean`).  Quantifier: every table
content (empty sides, duplicate keys), every chain of INNER / LEFT / RIGHT joins, every ON
condition that evaluates to a boolean on every pair.
-/
namespace Mkdb.Exec
open Mkdb.Sql Mkdb.Exec.JoinP

/-- **C06.join**: for every left-deep chain of joins, whenever the relational definition
`Spec.fromRows` is defined (all ON evaluations are booleans) the nested-loop join returns
the same header and, as a multiset, exactly the same rows: the pairs satisfying the
condition plus — for LEFT (RIGHT) joins — each unmatched left (right) row once, padded
with NULLs. -/
theorem C06_join (fetch : Bytes → Option Table) (tr : TableRef) (rowsS : List Row) (fieldsS : List Field)
    (h : Spec.fromRows fetch tr = some (rowsS, fieldsS)) :
    ∃ rowsM fieldsM, nestedLoopJoin fetch tr = .ok (rowsM, fieldsM) ∧ fieldsM = fieldsS ∧ rowsM.Perm rowsS :=
  nestedLoopJoin_perm_fromRows fetch tr rowsS fieldsS h

/-- **C06.inner**: one INNER join is the list comprehension, in loop order. -/
theorem C06_inner (on : Cond) (fields : List Field) (L R : List Row) (truth : Row → Bool)
    (h : ∀ l ∈ L, ∀ r ∈ R, evaluate on fields (l ++ r) = .ok (.bool (truth (l ++ r)))) :
    joinOuter on fields L R (fun l r => l ++ r) none = .ok (L.flatMap fun l => (R.map fun r => l ++ r).filter truth) :=
  inner_join_eq on fields L R truth h

/-- **C06.left**: LEFT JOIN — every matching pair, and each left row without a match exactly
once, padded with `n` NULLs. -/
theorem C06_left (on : Cond) (fields : List Field) (L R : List Row) (truth : Row → Bool) (n : Nat)
    (h : ∀ l ∈ L, ∀ r ∈ R, evaluate on fields (l ++ r) = .ok (.bool (truth (l ++ r)))) :
    joinOuter on fields L R (fun l r => l ++ r) (some fun l => l ++ List.replicate n .null) =
      .ok (L.flatMap fun l => let ms := (R.map fun r => l ++ r).filter truth
                              if ms.isEmpty then [l ++ List.replicate n .null] else ms) :=
  left_join_eq on fields L R truth n h

/-- **C06.right**: RIGHT JOIN, symmetrically. -/
theorem C06_right (on : Cond) (fields : List Field) (L R : List Row) (truth : Row → Bool) (n : Nat)
    (h : ∀ l ∈ L, ∀ r ∈ R, evaluate on fields (l ++ r) = .ok (.bool (truth (l ++ r)))) :
    joinOuter on fields R L (fun r l => l ++ r) (some fun r => List.replicate n .null ++ r) =
      .ok (R.flatMap fun r => let ms := (L.map fun l => l ++ r).filter truth
                              if ms.isEmpty then [List.replicate n .null ++ r] else ms) :=
  right_join_eq on fields L R truth n h

/-- **C06.resolve (ambiguity)**: an unqualified name carried by two different columns of the
joined header is rejected as ambiguous, never resolved silently. -/
theorem C06_ambiguous (fields : List Field) (n : Bytes) (i j : Nat) (hij : i ≠ j)
    (hi : fields[i]?.map (·.column) = some n) (hj : fields[j]?.map (·.column) = some n) :
    lookupFieldIdx fields n = .err .fieldAmbiguous :=
  lookupFieldIdx_ambiguous fields n i j hij hi hj

/-- **C06.resolve (qualified)**: a qualified reference resolves to the first column carrying
exactly that table id and name. -/
theorem C06_qualified (fields : List Field) (tid n : Bytes) (i : Nat)
    (h : lookupColIdxByID fields tid n = .ok i) :
    fields[i]? = some ⟨tid, n⟩ ∧ ∀ k, k < i → fields[k]? ≠ some ⟨tid, n⟩ :=
  lookupColIdxByID_first fields tid n i h

/-- **C06.resolve (alias)**: a table's columns are addressable through its alias when it has
one and through its name otherwise (so one table joined to itself under two aliases gives
two disjoint sets of qualified names). -/
theorem C06_alias (fetch : Bytes → Option Table) (t : TableName) (rows : List Row) (fields : List Field)
    (h : fetchTable fetch t = .ok (rows, fields)) :
    ∃ tbl, fetch t.name = some tbl ∧ rows = tbl.rows ∧ fields = tbl.cols.map (fun c => ⟨t.alias.getD t.name, c⟩) ∧
      (∀ a, t.alias = some a → ∀ f ∈ fields, f.tableId = a) ∧ (t.alias = none → ∀ f ∈ fields, f.tableId = t.name) :=
  fetchTable_alias fetch t rows fields h

/-- **C06.padding_null_in_an_ordering_comparison**: a comparison `<`, `<=`, `>`, `>=` one operand of
which evaluates to NULL - in particular the NULL an outer join padded an unmatched row with - is
false, never an error: `t LEFT JOIN u ON … LEFT JOIN v ON u.k < v.k` keeps every unmatched row of
`t` instead of failing as soon as one exists (the repaired defect).  (`=` and `!=` compare NULL as a
value, as before.) -/
theorem C06_padding_null_in_an_ordering_comparison (p : Pred) (fields : List Field) (row : Row)
    (l r : Tuple.Val) (hl : evalPrimary p.lhs fields row = .ok l) (hr : evalPrimary p.rhs fields row = .ok r)
    (hop : p.op ≠ Generated.t_EQ ∧ p.op ≠ Generated.t_NEQ) (hnull : l = .null ∨ r = .null) :
    evalPred p fields row = .ok false := by
  unfold evalPred
  simp only [bind, hl, hr]
  have h1 : (p.op == Generated.t_EQ) = false := by simpa using hop.1
  have h2 : (p.op == Generated.t_NEQ) = false := by simpa using hop.2
  have h3 : (l == Tuple.Val.null || r == Tuple.Val.null) = true := by
    rcases hnull with rfl | rfl <;> simp
  simp [h1, h2, h3, pure]

/-- **C06.one_name_for_two_tables_refused**: a table id - the alias of a table if it has one, else
its name - is used once in a FROM clause.  `l JOIN r ON c` where some field gathered for `l` already
carries the table id of `r` (the id `fetchTable` gives every field of `r`, read off the first one;
`r` must have a column for that) is refused as ambiguous, whatever the condition and the join type,
instead of resolving every qualified reference silently to the left-most table (the repaired
defect); and the relational definition agrees: the clause has no meaning. -/
theorem C06_one_name_for_two_tables_refused (fetch : Bytes → Option Table) (l : TableRef) (jt : JoinType)
    (r : TableName) (on : Cond) :
    (∀ (lRows rRows : List Row) (lFields rFields : List Field),
      nestedLoopJoin fetch l = .ok (lRows, lFields) → fetchTable fetch r = .ok (rRows, rFields) →
      rFields ≠ [] → (∃ f ∈ lFields, f.tableId = r.alias.getD r.name) →
      nestedLoopJoin fetch (.join l jt r on) = .err .fieldAmbiguous) ∧
    (∀ (lRows rRows : List Row) (lFields rFields : List Field) (f0 : Field),
      nestedLoopJoin fetch l = .ok (lRows, lFields) → fetchTable fetch r = .ok (rRows, rFields) →
      rFields.head? = some f0 → (∃ f ∈ lFields, f.tableId = f0.tableId) →
      nestedLoopJoin fetch (.join l jt r on) = .err .fieldAmbiguous) ∧
    (∀ (L R : List Row) (lf rf : List Field),
      Spec.fromRows fetch l = some (L, lf) → Spec.fieldsOf fetch r = some (R, rf) →
      rf.any (fun g => lf.any (·.tableId == g.tableId)) = true →
      Spec.fromRows fetch (.join l jt r on) = none) :=
  ⟨fun lRows rRows lFields rFields hl hr hne hc =>
      nestedLoopJoin_one_name_for_two_tables fetch l jt r on lRows rRows lFields rFields hl hr hne hc,
   fun lRows rRows lFields rFields f0 hl hr h0 hc =>
      nestedLoopJoin_one_name_for_two_tables' fetch l jt r on lRows rRows lFields rFields f0 hl hr h0 hc,
   fun L R lf rf hL hR hc => fromRows_one_name_for_two_tables fetch l jt r on L R lf rf hL hR hc⟩

/-- **C06.table_ids_distinct**: whenever the relational definition of a FROM clause is defined,
(1) its header is the concatenation of the fields of its tables, left to right, and fields of two
different tables never share a table id, so that (2) a qualified reference `id.col` matches fields
of at most one table (tables counted by position: one table joined to itself counts twice); and
(3) the table ids of its tables (`tableIds`: alias, else name, left to right) are pairwise distinct
provided every table of the clause has at least one column (`AllHaveColumns`).  A table without
columns contributes no field to the header: the test, which looks at fields, cannot see it - and no
reference can name a column of it - so (3) needs the proviso while (1) and (2) do not. -/
theorem C06_table_ids_distinct (fetch : Bytes → Option Table) (tr : TableRef) (rows : List Row)
    (fields : List Field) (h : Spec.fromRows fetch tr = some (rows, fields)) :
    (fields = (tableBlocks fetch tr).flatten ∧
      (tableBlocks fetch tr).Pairwise fun b₁ b₂ => ∀ f ∈ b₁, ∀ g ∈ b₂, f.tableId ≠ g.tableId) ∧
    (∀ id : Bytes, ((tableBlocks fetch tr).filter fun b => b.any (·.tableId == id)).length ≤ 1) ∧
    ((∀ t ∈ tablesOf tr, ∀ tbl, fetch t.name = some tbl → tbl.cols ≠ []) → (tableIds tr).Nodup) :=
  ⟨⟨fromRows_fields_eq_blocks fetch tr rows fields h, fromRows_blocks_disjoint fetch tr rows fields h⟩,
   fun id => qualified_ref_at_most_one_table fetch tr rows fields h id,
   fun hcols => fromRows_tableIds_nodup fetch tr rows fields h hcols⟩

end Mkdb.Exec

/-! ## The executor against the reference meaning, for joins

`Spec.meaning` / `Spec.satisfies` are the pair the differential-testing judge evaluates on the output
of the real implementation (`Mkdb/Driver/Exec.lean`); see the same section of `Mkdb/Props/C05.lean`. -/
namespace Mkdb.Exec
open Mkdb.Sql Mkdb.Exec.JoinP Mkdb.Exec.SelectP Mkdb.Exec.MeaningP

/-- **C06.join_defined_iff**: the converse of `C06_join`, and the two together.  Whenever the
nested loops succeed on a left-deep chain of joins, the relational definition `Spec.fromRows` is
defined (no table id used twice, every ON evaluation on every pair a boolean), with the same header
and - as a multiset - the same rows; hence the executor's FROM clause succeeds exactly when the
relational definition is defined. -/
theorem C06_join_defined_iff (fetch : Bytes → Option Table) (tr : TableRef) :
    (∀ rowsM fields, nestedLoopJoin fetch tr = .ok (rowsM, fields) →
      ∃ rowsS, Spec.fromRows fetch tr = some (rowsS, fields) ∧ rowsM.Perm rowsS) ∧
    (∀ fields, (∃ rowsM, nestedLoopJoin fetch tr = .ok (rowsM, fields)) ↔
      (∃ rowsS, Spec.fromRows fetch tr = some (rowsS, fields))) :=
  ⟨fun rowsM fields h => fromRows_of_nestedLoopJoin fetch tr rowsM fields h,
   fun fields => nestedLoopJoin_ok_iff_fromRows fetch tr fields⟩

/-- **C06.result_is_the_reference_meaning**: whatever a SELECT over a chain of INNER / LEFT / RIGHT
joins (any left-deep `FROM` clause; no aggregates, no GROUP BY) answers is what the query means.  If
`evaluateSelect` answers `(rows, hdr)` then the query has a reference meaning `want` (the relational
join - matching pairs plus the padded unmatched rows of the outer side - filtered by WHERE,
projected by the select list), `hdr` is the header the judge computes, the ORDER BY keys resolve
against it to `keys` and are comparable on `want`, the answer is `cut (sortRows keys got)` for a
permutation `got` of `want` (the order in which the nested loops deliver the rows), and the judge's
test `Spec.satisfies q hdr want rows` accepts it: equal as multisets without ORDER BY (right length
and sub-multiset when OFFSET / LIMIT cut), and with ORDER BY sorted, with the key sequence of the
sorted meaning at those positions, and a sub-multiset of the meaning.
Hypothesis `hwhere` as in `C05_result_is_the_reference_meaning` (a WHERE clause that is a bare
integer or string literal is answered although ill-typed). -/
theorem C06_result_is_the_reference_meaning {fetch : Bytes → Option Table} {q : Select}
    {l : TableRef} {jt : JoinType} {r : TableName} {on : Cond} {rows : List Row} {hdr : List Field}
    (hfrom : q.from_ = some (.join l jt r on)) (hagg : hasAggr q.list = false)
    (hgb : q.groupBy = []) (hwhere : whereIsBoolean q = true)
    (h : evaluateSelect fetch q = .ok (rows, hdr)) :
    ∃ want got keys, Spec.meaning fetch q = some want ∧ hdr = judgeHeader fetch q ∧
      Spec.sortKeys q hdr = some keys ∧ got.Perm want ∧
      (∀ a ∈ want, ∀ b ∈ want, KeyComparable keys a b) ∧
      rows = cut q.lim (sortRows keys got) ∧
      Spec.satisfies q hdr want rows = true := by
  obtain ⟨want, got, keys, hm, hh, hk, hp, hcomp, rfl⟩ := from_any_result hfrom hagg hgb hwhere h
  exact ⟨want, got, keys, hm, (judgeHeader_of hh).symm, hk, hp, hcomp, rfl,
    satisfies_perm (comparedExactly_join hfrom) hk hp hcomp⟩

/-- **C06.meaningful_query_is_answered** (the converse): a SELECT over a chain of joins (no
aggregates, no GROUP BY) that has a reference meaning `want`, whose ORDER BY keys resolve against the
judge's header and are comparable on `want`, is not refused: the executor answers with that header
and `cut (sortRows keys got)` for a permutation `got` of `want`, and the judge's test accepts the
answer.  No hypothesis on WHERE, none on the shape of the stored rows.  `hlist`, `hlim` as in
`C05_meaningful_query_is_answered`: a select list that is not empty, no negative LIMIT / OFFSET
(every parsed statement; without them the executor panics: `C05_empty_list_and_negative_bounds_panic`). -/
theorem C06_meaningful_query_is_answered {fetch : Bytes → Option Table} {q : Select}
    {l : TableRef} {jt : JoinType} {r : TableName} {on : Cond}
    {want : List Row} {keys : List (Nat × Bool)}
    (hfrom : q.from_ = some (.join l jt r on)) (hagg : hasAggr q.list = false)
    (hgb : q.groupBy = []) (hlist : q.list ≠ []) (hlim : Spec.boundsOK q.lim = true)
    (hm : Spec.meaning fetch q = some want)
    (hk : Spec.sortKeys q (judgeHeader fetch q) = some keys)
    (hcomp : ∀ a ∈ want, ∀ b ∈ want, KeyComparable keys a b) :
    ∃ got, got.Perm want ∧
      evaluateSelect fetch q = .ok (cut q.lim (sortRows keys got), judgeHeader fetch q) ∧
      Spec.satisfies q (judgeHeader fetch q) want (cut q.lim (sortRows keys got)) = true := by
  obtain ⟨got, hp, he⟩ := from_any_answered hfrom hagg hgb hlist hlim hm hk hcomp
  exact ⟨got, hp, he, satisfies_perm (comparedExactly_join hfrom) hk hp hcomp⟩

/-- **C06.sorted_keys_of_permutations_agree**: why the judge may compare the key sequence of the
answer with that of the *stably sorted meaning* although the executor sorts the rows in another
order: two permutations of one list of rows whose key columns are comparable, sorted by the same
keys, show the same sequence of key values - ties may be ordered differently, nothing else. -/
theorem C06_sorted_keys_of_permutations_agree {keys : List (Nat × Bool)} {got want : List Row}
    (hp : got.Perm want) (hc : ∀ a ∈ want, ∀ b ∈ want, KeyComparable keys a b) :
    (sortRows keys got).map (Spec.keyProj keys) = (sortRows keys want).map (Spec.keyProj keys) :=
  sorted_keys_eq_of_perm hp hc

/-- `SELECT t.x, u.y FROM t RIGHT JOIN u ON t.id = u.id LEFT JOIN t w ON u.id = w.id
WHERE u.id >= 1 ORDER BY u.y DESC LIMIT 5 OFFSET 1` on the tables of `Mkdb/Proofs/Join.lean`
(duplicate join keys on both sides, an unmatched right row) -/
def exJoinQuery : Select :=
  { list := [⟨.expr (.val (.col ⟨Example.bt, Example.bx⟩)), []⟩,
             ⟨.expr (.val (.col ⟨Example.bu, Example.by_⟩)), []⟩]
    from_ := some Example.trX
    where_ := some (.pred ⟨.col ⟨Example.bu, Example.bid⟩, Generated.t_GTE, .lit (.int 1)⟩)
    orderBy := [⟨⟨Example.bu, Example.by_⟩, true⟩]
    lim := { limitActive := true, offsetActive := true, limit := 5, offset := 1 } }

def exJoinWant : List Row :=
  [[.str [97], .str [112]], [.str [97], .str [112]], [.str [97], .str [113]], [.str [97], .str [113]],
   [.str [98], .str [112]], [.str [98], .str [112]], [.str [98], .str [113]], [.str [98], .str [113]],
   [.null, .str [122]]]

-- non-vacuity: the query meets every hypothesis of the two theorems
example : exJoinQuery.from_ = some (.join
      (.join (.table ⟨Example.bt, none⟩) .right ⟨Example.bu, none⟩ Example.onC) .left
      ⟨Example.bt, some Example.bw⟩
      (.pred ⟨.col ⟨Example.bu, Example.bid⟩, Generated.t_EQ, .col ⟨Example.bw, Example.bid⟩⟩)) ∧
    hasAggr exJoinQuery.list = false ∧ exJoinQuery.groupBy = [] ∧
    whereIsBoolean exJoinQuery = true ∧ exJoinQuery.list ≠ [] ∧
    Spec.boundsOK exJoinQuery.lim = true := by decide
example : Spec.meaning Example.fetchX exJoinQuery = some exJoinWant := by decide
example : judgeHeader Example.fetchX exJoinQuery =
    [⟨Example.bt, Example.bx⟩, ⟨Example.bu, Example.by_⟩] := by decide
example : Spec.sortKeys exJoinQuery (judgeHeader Example.fetchX exJoinQuery) = some [(1, true)] := by
  decide
example : ∀ a ∈ exJoinWant, ∀ b ∈ exJoinWant, KeyComparable [(1, true)] a b := by decide
-- the executor's answer: the row with `z` skipped, then the four rows with `q`, then one with `p`
example : evaluateSelect Example.fetchX exJoinQuery = .ok (
    [[.str [97], .str [113]], [.str [97], .str [113]], [.str [98], .str [113]], [.str [98], .str [113]],
     [.str [97], .str [112]]], [⟨Example.bt, Example.bx⟩, ⟨Example.bu, Example.by_⟩]) := by decide
example : Spec.satisfies exJoinQuery [⟨Example.bt, Example.bx⟩, ⟨Example.bu, Example.by_⟩] exJoinWant
    [[.str [97], .str [113]], [.str [97], .str [113]], [.str [98], .str [113]], [.str [98], .str [113]],
     [.str [97], .str [112]]] = true := by decide

end Mkdb.Exec
