import Mkdb.Proofs.Page
import Mkdb.Proofs.EngineNodes3
import Mkdb.Proofs.Counters7
import Mkdb.Proofs.Header
/-!
# C12 — a page written to disk reads back as the same page

Property theorems only.  Quantifier: every leaf / internal node within capacity — any
number of cells up to the maximum, any value bytes up to `maxValueSize`, any flags, any
64-bit offsets and LSNs.  The constants are the ones regenerated from storage/page.go.
That the nodes the *engine* produces are within capacity and in range is
`C12_every_engine_node_roundtrips` (levels model, every history) and
`C12_every_heap_page_roundtrips_after_flushes_and_reloads` (page heap, histories with flushes and
reloads), at the end of this file.
-/
namespace Mkdb.Page
open Mkdb.Bin Mkdb.Generated

/-- **C12.fits**: the capacity constants derived from the page size leave room for the
header, the offset array and the maximum number of maximum-size cells (so `freeSize`
never underflows). -/
theorem C12_fits :
    c_leafNodeHeaderSize + c_maxLeafNodeCells * (c_offsetElemSize + c_leafNodeCellSize) ≤ c_pageSize ∧
    c_internalNodeHeaderSize + c_maxInternalNodeCells * (c_offsetElemSize + c_nodeCellSize) ≤ c_pageSize ∧
    c_leafNodeHeaderSize = 1 + 8 + 8 + 1 + 1 + 8 + 8 + 4 + 2 ∧
    c_internalNodeHeaderSize = 1 + 8 + 8 + 8 + 4 + 2 ∧
    c_leafNodeCellSize = 4 + 1 + 4 + c_maxValueSize ∧ c_nodeCellSize = 4 + 8 ∧ c_offsetElemSize = 2 ∧
    c_maxLeafNodeCells ≤ 2 ^ 16 ∧ c_maxInternalNodeCells ≤ 2 ^ 16 ∧
    c_LeafNode = 1 ∧ c_InternalNode = 0 := by decide

/-- **C12.leaf**: a well-formed leaf encodes to exactly one page and decodes — through the
first-byte dispatch of `fetch` — to the same leaf. -/
theorem C12_leaf (l : Leaf) (h : WFLeaf l) :
    ∃ page, encodeLeaf l = .ok page ∧ page.length = c_pageSize ∧ decodePage page = .ok (.leaf l) (List.range l.cells.length) := by
  obtain ⟨hoff, hlsn, hls, hrs, hn, hcells⟩ := h
  have hfit := C12_fits
  have hmax : c_maxLeafNodeCells = 9 := rfl
  have hps : c_pageSize = 4096 := rfl
  have hcs : c_leafNodeCellSize = 409 := rfl
  have hlen := leafHeader_length l
  have hfoot := leafFooter_length_le l.cells hcells
  have hfoot' : (l.cells.flatMap encLeafCell).length ≤ 9 * 409 := by
    calc _ ≤ l.cells.length * c_leafNodeCellSize := hfoot
      _ ≤ 9 * 409 := by rw [hcs]; exact Nat.mul_le_mul_right _ (by omega)
  -- the free gap is non-negative and fits 16 bits
  let freeN : Nat := 4096 - (leafHeader l).length - (l.cells.flatMap encLeafCell).length - 2
  have hfree : ((c_pageSize : Int) - (leafHeader l).length - (l.cells.flatMap encLeafCell).length - 2) = (freeN : Int) := by
    show _ = ((4096 - (leafHeader l).length - (l.cells.flatMap encLeafCell).length - 2 : Nat) : Int)
    rw [hps]; omega
  have hfree16 : freeN < 2 ^ 16 := by show 4096 - _ - _ - 2 < 2 ^ 16; omega
  have hmod : ((freeN : Int) % 65536).toNat = freeN := by omega
  refine ⟨leafHeader l ++ encU16 freeN ++ List.replicate freeN 0 ++ l.cells.flatMap encLeafCell, ?_, ?_, ?_⟩
  · simp only [encodeLeaf, finishPage, hfree, hmod]
    rw [if_pos]
    simp only [List.length_append, List.length_replicate, encU16, encLE_length, hps]
    show _ + 2 + (4096 - _ - _ - 2) + _ = 4096
    omega
  · simp only [List.length_append, List.length_replicate, encU16, encLE_length, hps]
    show _ + 2 + (4096 - _ - _ - 2) + _ = 4096
    omega
  · have hcount : l.cells.length < 2 ^ 32 := by omega
    have hcount16 : l.cells.length ≤ 2 ^ 16 := by omega
    have hfirst : ∀ rest : Bytes, decodePage (encU8 c_LeafNode ++ rest) = decodeLeaf (encU8 c_LeafNode ++ rest) := by
      intro rest; rfl
    simp only [leafHeader, List.append_assoc]
    rw [hfirst]
    simp only [decodeLeaf, decU8_enc _ _ (by decide : c_LeafNode < 2 ^ 8), ne_eq, not_true_eq_false,
      ↓reduceIte, decU64_enc _ _ hoff, decU64_enc _ _ hlsn, decBool_enc, decU64_enc _ _ hls,
      decU64_enc _ _ hrs, decU32_enc _ _ hcount, decOffsets_range _ hcount16,
      decU16_enc _ _ hfree16, skipN_replicate]
    have := decLeafCells_enc l.cells hcells []
    simp only [List.append_nil] at this
    simp only [this, place_range]

/-- **C12.internal**: likewise for internal nodes. -/
theorem C12_internal (n : Internal) (h : WFInternal n) :
    ∃ page, encodeInternal n = .ok page ∧ page.length = c_pageSize ∧
      decodePage page = .ok (.internal n) (List.range n.cells.length) := by
  obtain ⟨hoff, hlsn, hr, hn, hcells⟩ := h
  have hmax : c_maxInternalNodeCells = 290 := rfl
  have hps : c_pageSize = 4096 := rfl
  have hcs : c_nodeCellSize = 12 := rfl
  have hlen := internalHeader_length n
  have hfoot := internalFooter_length n.cells
  rw [hcs] at hfoot
  let freeN : Nat := 4096 - (internalHeader n).length - (n.cells.flatMap encICell).length - 2
  have hfree : ((c_pageSize : Int) - (internalHeader n).length - (n.cells.flatMap encICell).length - 2) = (freeN : Int) := by
    show _ = ((4096 - (internalHeader n).length - (n.cells.flatMap encICell).length - 2 : Nat) : Int)
    rw [hps]; omega
  have hfree16 : freeN < 2 ^ 16 := by show 4096 - _ - _ - 2 < 2 ^ 16; omega
  have hmod : ((freeN : Int) % 65536).toNat = freeN := by omega
  refine ⟨internalHeader n ++ encU16 freeN ++ List.replicate freeN 0 ++ n.cells.flatMap encICell, ?_, ?_, ?_⟩
  · simp only [encodeInternal, finishPage, hfree, hmod]
    rw [if_pos]
    simp only [List.length_append, List.length_replicate, encU16, encLE_length, hps]
    show _ + 2 + (4096 - _ - _ - 2) + _ = 4096
    omega
  · simp only [List.length_append, List.length_replicate, encU16, encLE_length, hps]
    show _ + 2 + (4096 - _ - _ - 2) + _ = 4096
    omega
  · have hcount : n.cells.length < 2 ^ 32 := by omega
    have hcount16 : n.cells.length ≤ 2 ^ 16 := by omega
    have hfirst : ∀ rest : Bytes, decodePage (encU8 c_InternalNode ++ rest) = decodeInternal (encU8 c_InternalNode ++ rest) := by
      intro rest; rfl
    simp only [internalHeader, List.append_assoc]
    rw [hfirst]
    simp only [decodeInternal, decU8_enc _ _ (by decide : c_InternalNode < 2 ^ 8), ne_eq, not_true_eq_false,
      ↓reduceIte, decU64_enc _ _ hoff, decU64_enc _ _ hlsn, decU64_enc _ _ hr,
      decU32_enc _ _ hcount, decOffsets_range _ hcount16,
      decU16_enc _ _ hfree16, skipN_replicate]
    have := decICells_enc n.cells hcells []
    simp only [List.append_nil] at this
    simp only [this, place_range]

/-- **C12.node**: every node within capacity serialises to exactly one page and
deserialises to identical logical content. -/
theorem C12_roundtrip (n : Node) (h : WF n) :
    ∃ page, encode n = .ok page ∧ page.length = c_pageSize ∧ ∃ offs, decodePage page = .ok n offs := by
  cases n with
  | leaf l => obtain ⟨p, h1, h2, h3⟩ := C12_leaf l h; exact ⟨p, h1, h2, _, h3⟩
  | internal i => obtain ⟨p, h1, h2, h3⟩ := C12_internal i h; exact ⟨p, h1, h2, _, h3⟩

/-- **C12.dispatch**: the first byte alone decides which decoder runs, and the two kinds
never collide: a page that decodes as a leaf never decodes as an internal node. -/
theorem C12_dispatch (page : Bytes) (l : Leaf) (i : Internal) (o1 o2 : List Nat) :
    ¬ (decodePage page = .ok (.leaf l) o1 ∧ decodeInternal page = .ok (.internal i) o2) := by
  rintro ⟨h1, h2⟩
  cases page with
  | nil => simp [decodePage] at h1
  | cons b rest =>
    simp only [decodePage] at h1
    by_cases hb : b.toNat = c_InternalNode
    · -- dispatched to decodeInternal, which never yields a leaf
      simp only [hb, ↓reduceIte] at h1
      rw [h2] at h1; cases h1
    · simp only [hb, ↓reduceIte] at h1
      -- decodeInternal requires the kind byte to be InternalNode
      simp only [decodeInternal, decU8, decLE] at h2
      simp [hb] at h2

/-! Non-vacuity: a full leaf with maximum-size values, tombstones and both sibling links is
well formed, and so is a full internal node. -/
example : WFLeaf ⟨8192, 2 ^ 63, true, true, 4096, 12288,
    (List.range 9).map fun i => ⟨i + 1, i % 2 == 0, List.replicate 400 0xff⟩⟩ := by
  refine ⟨by decide, by decide, by decide, by decide, by decide, ?_⟩
  intro c hc
  simp only [List.mem_map, List.mem_range] at hc
  obtain ⟨i, hi, rfl⟩ := hc
  exact ⟨by show i + 1 < 2 ^ 32; omega, by
    show (List.replicate 400 (0xff : UInt8)).length ≤ 400
    rw [List.length_replicate]; exact Nat.le_refl _⟩

example : WFInternal ⟨8192, 7, 4096, (List.range 290).map fun i => ⟨i + 1, 4096 * i⟩⟩ := by
  refine ⟨by decide, by decide, by decide, by simp [c_maxInternalNodeCells], ?_⟩
  intro c hc
  simp only [List.mem_map, List.mem_range] at hc
  obtain ⟨i, hi, rfl⟩ := hc
  exact ⟨by show i + 1 < 2 ^ 32; omega, by show 4096 * i < 2 ^ 64; omega⟩

/-! ## Every node the engine can produce -/

open Mkdb.Tree in
/-- **C12.well_formed_tree_roundtrips**: every page of a tree that satisfies the C11 shape invariant
(`Inv`: in particular no node over capacity) and whose fields are in the ranges of their Go types
(`FieldsOK (2^64) (2^64) (2^32)`: page offsets, sibling and child pointers and LSNs are `uint64`, row ids
and separator keys `uint32`, every cell value at most `maxValueSize` bytes) is well formed for the codec:
it encodes to exactly one page of `pageSize` bytes, which decodes to the same node. -/
theorem C12_well_formed_tree_roundtrips (t : Levels) (nf : Nat) (hinv : Inv t nf)
    (hf : FieldsOK (2 ^ 64) (2 ^ 64) (2 ^ 32) t) :
    ∀ e ∈ flatten t, WF e.2.1 ∧
      ∃ page, encode e.2.1 = .ok page ∧ page.length = c_pageSize ∧ ∃ offs, decodePage page = .ok e.2.1 offs :=
  fun e he => ⟨hf.wf hinv.cap e he, C12_roundtrip e.2.1 (hf.wf hinv.cap e he)⟩

open Mkdb.Tree in
/-- **C12.every_engine_node_roundtrips**: after any history of insertions, value changes and deletions
from a freshly created table (the histories of `C11_every_history`: any number of leaf splits, internal
splits at any depth, root growths), *every* page of the resulting tree - leaf or internal, with whatever
number of cells, value sizes, tombstones, sibling links and LSN the history gave it - satisfies `WF`,
hence serialises to exactly one page of `pageSize` bytes and deserialises to the identical node.
Hypotheses, all decidable: `OpInRange` for every operation - a row id is a `uint32`, an LSN a `uint64`
(the types of the Go fields), an *updated* value has at most `maxValueSize` bytes (`updateCell` refuses a
larger one before it touches the page; an *inserted* value needs no hypothesis, `insertAppend` refuses a
larger one itself: `rowTooLarge`) - and the allocation frontier at the end of the history is at most
`2^64` (the file offset is a `uint64`; the frontier never goes down, so this bounds every offset the
history handed out). -/
theorem C12_every_engine_node_roundtrips (off nf : Nat) (h : off < nf) (ops : List TOp)
    (hops : ∀ op ∈ ops, OpInRange op) (hnf : (runOps (emptyTree off, nf) ops).2 ≤ 2 ^ 64) :
    ∀ e ∈ flatten (runOps (emptyTree off, nf) ops).1, WF e.2.1 ∧
      ∃ page, encode e.2.1 = .ok page ∧ page.length = c_pageSize ∧ ∃ offs, decodePage page = .ok e.2.1 offs :=
  fun e he => ⟨runOps_wf off nf h ops hops hnf e he, C12_roundtrip e.2.1 (runOps_wf off nf h ops hops hnf e he)⟩

/-- a history with three leaf splits and a root: 20 inserts, one of them with a value of the maximum
size, an update to the maximum size, a deletion -/
def opsC12 : List Mkdb.Tree.TOp :=
  ((List.range' 1 20).map fun k => Mkdb.Tree.TOp.ins k (1000 + k) (List.replicate (if k = 7 then 400 else k) 0xff)) ++
  [.upd 3 2000 (List.replicate 400 1), .del 5 2001]

set_option maxRecDepth 8000 in
open Mkdb.Tree in
/-- non-vacuity: the history meets the hypotheses and ends with four leaves under one internal node -/
example : (∀ op ∈ opsC12, OpInRange op) ∧ (runOps (emptyTree 4096, 8192) opsC12).2 ≤ 2 ^ 64 ∧
    ((runOps (emptyTree 4096, 8192) opsC12).1.leaves.length, (runOps (emptyTree 4096, 8192) opsC12).1.inner.length) = (4, 1) := by
  decide

set_option maxRecDepth 8000 in
open Mkdb.Tree in
/-- non-vacuity of `C12_well_formed_tree_roundtrips`: the four-leaf tree the history `opsC12` ends with
satisfies both hypotheses -/
example : Inv (runOps (emptyTree 4096, 8192) opsC12).1 (runOps (emptyTree 4096, 8192) opsC12).2 ∧
    FieldsOK (2 ^ 64) (2 ^ 64) (2 ^ 32) (runOps (emptyTree 4096, 8192) opsC12).1 :=
  ⟨C11_every_history 4096 8192 (by decide) opsC12,
   runOps_fields opsC12 (emptyTree 4096, 8192) (by decide) (by decide)
     (emptyTree_fields _ _ _ 4096 (by decide) (by decide))⟩

open Mkdb.Tree Mkdb.Store in
/-- **C12.every_heap_page_roundtrips_after_flushes_and_reloads**: on the page heap, through histories
in which flushes (any page write order) and reloads are interleaved with the tree operations
(`C11_every_history_with_flushes_and_reloads`): every page the final heap shows for the tree - whether it
comes from the cache or, after a reload or an eviction, from the data file - is the page of the levels
model, and it serialises to exactly one page and deserialises to itself; so writing it out and reading
it back never changes what it means.  Hypotheses: those of the C11 theorem (`HeapInv`, `RunOKF`), the
starting tree's fields in range (`FieldsOK`; true of the empty tree of a new table), every tree operation
in range (`FROpInRange`: `uint32` row ids, `uint64` LSNs, updated values within `maxValueSize`), the final
allocation frontier at most `2^64`. -/
theorem C12_every_heap_page_roundtrips_after_flushes_and_reloads (ops : List FROp) (s : Store) (t : Levels)
    (h : HeapInv s t) (hf : FieldsOK (2 ^ 64) (2 ^ 64) (2 ^ 32) t) (hok : RunOKF (t, s.hdr.nextFree) ops)
    (hops : ∀ op ∈ ops, FROpInRange op) (hnf : (runF (t, s.hdr.nextFree) ops).2 ≤ 2 ^ 64) :
    ∃ s' root', heapRunF (rootOff t) ops s = .ok root' s' ∧
      ∀ e ∈ flatten (runF (t, s.hdr.nextFree) ops).1, view s' e.1 = some (e.2.1, e.2.2) ∧ WF e.2.1 ∧
        ∃ page, encode e.2.1 = .ok page ∧ page.length = c_pageSize ∧ ∃ offs, decodePage page = .ok e.2.1 offs := by
  obtain ⟨s', root', e, _, h', _⟩ := heapRunF_refines ops s t h hok
  refine ⟨s', root', e, fun x hx => ?_⟩
  have hwf := runF_wf t s.hdr.nextFree h.inv hf ops hops hnf x hx
  exact ⟨h'.holds x hx, hwf, C12_roundtrip x.2.1 hwf⟩

open Mkdb.Tree Mkdb.Store in
/-- non-vacuity: the history `opsF0` (two leaf splits, three flushes, three reloads) from the store `s0` of
a fresh table meets every hypothesis -/
example : HeapInv s0 (emptyTree 4096) ∧ FieldsOK (2 ^ 64) (2 ^ 64) (2 ^ 32) (emptyTree 4096) ∧
    RunOKF (emptyTree 4096, s0.hdr.nextFree) opsF0 ∧ (∀ op ∈ opsF0, FROpInRange op) ∧
    (runF (emptyTree 4096, s0.hdr.nextFree) opsF0).2 ≤ 2 ^ 64 :=
  ⟨s0_heapInv, emptyTree_fields _ _ _ 4096 (by decide) (by decide), by decide, by decide, by decide⟩

end Mkdb.Page

/-! ## the range hypotheses discharged by the length of the history (W16) -/

namespace Mkdb.Page
open Mkdb.Bin Mkdb.Generated

open Mkdb.Tree in
/-- **C12.engine_nodes_roundtrip_below_the_wrap**: `C12_every_engine_node_roundtrips` with its range
hypotheses (`OpInRange` for every operation, final allocation frontier `≤ 2^64`) replaced by the length of
the history.  The operations are stamped by counters (`Issued k l ops`: the `i`-th operation carries a row id
at most `k + i + 1` and an LSN below `l + 2 i + 2` - what `lastKey + 1` / `nextLSN` of the engine give when
the table was created at counters `k`, `l` and every operation consumes at most one row id and two LSNs; an
updated value passed `updateCell`'s size check).  If these counters do not wrap within the history
(`k + n < 2^32`, `l + 2 n ≤ 2^64`) and `nf + 34 pages × n ≤ 2^64` for the `n` operations, every page of the
resulting tree is well formed for the codec and round-trips.  The frontier needs no hypothesis of its own: a
history of `n < 2^32` operations builds a tree of at most 32 internal levels (`tree_depth_pow`: a well-formed
tree with `d` internal levels has at least `2^d` leaves), so each insert allocates at most 34 pages
(`runOps_frontier`).  For `n ≤ 10^9` operations on a table created right after CREATE DATABASE (`k = l = 10`,
`nf = 16384`) the three conditions hold with room to spare. -/
theorem C12_engine_nodes_roundtrip_below_the_wrap (off nf k l : Nat) (h : off < nf) (ops : List TOp)
    (hi : Issued k l ops) (hk : k + ops.length < 2 ^ 32) (hl : l + 2 * ops.length ≤ 2 ^ 64)
    (hf : nf + 139264 * ops.length ≤ 2 ^ 64) :
    ∀ e ∈ flatten (runOps (emptyTree off, nf) ops).1, WF e.2.1 ∧
      ∃ page, encode e.2.1 = .ok page ∧ page.length = c_pageSize ∧ ∃ offs, decodePage page = .ok e.2.1 offs :=
  fun e he => ⟨runOps_wf_issued off nf k l h ops hi hk hl hf e he,
    C12_roundtrip e.2.1 (runOps_wf_issued off nf k l h ops hi hk hl hf e he)⟩

set_option maxRecDepth 8000 in
open Mkdb.Tree in
/-- non-vacuity: the history `opsC12` (20 inserts with row ids 1 … 20 and LSNs 1001 … 1020, an update at LSN
2000, a deletion at LSN 2001) is issued by counters starting at row id 0 and LSN 2000 -/
example : Issued 0 2000 opsC12 ∧ 0 + opsC12.length < 2 ^ 32 ∧ 2000 + 2 * opsC12.length ≤ 2 ^ 64 ∧
    8192 + 139264 * opsC12.length ≤ 2 ^ 64 := by decide

end Mkdb.Page

/-!
## The file header (the 28 bytes in front of the first page)

`fileStore.save` / `fileStore.open` (storage/page.go): the row-id counter, the catalog root, the allocation
frontier and the LSN counter, little-endian, `uint32` + 3 x `uint64`.  Every restart, every recovery and
every flush goes through these bytes.  Quantifier: every header, every file content; no bound.
-/
namespace Mkdb.Header
open Mkdb.Store

/-- a header whose fields fit their widths is written as exactly 28 bytes and read back as the same
header, whatever follows it in the file (the pages) -/
theorem C12_header_roundtrip (h : Header) (hf : Fits h) (rest : Bytes) :
    (encode h).length = 28 ∧ decode (encode h ++ rest) = some h := by
  refine ⟨encode_length h, ?_⟩
  rw [decode_encode_wrap, wrap_of_fits h hf]

/-- without the width hypothesis: what comes back is the header with every counter wrapped to its field
width - `save` stores `lastKey` in 32 bits and the others in 64 whatever their value (the counter bounds
of `C02_counters_after_any_history` are what keeps the engine's headers inside `Fits`) -/
theorem C12_header_roundtrip_wraps (h : Header) (rest : Bytes) :
    decode (encode h ++ rest) = some (wrap h) :=
  decode_encode_wrap h rest

/-- `open` succeeds exactly on files of at least 28 bytes: a shorter file (an empty one, a header write
cut short) is an error - the database does not start - and never a header made up of what was there -/
theorem C12_header_read_iff_28_bytes (bs : Bytes) : (∃ h, decode bs = some h) ↔ 28 ≤ bs.length := by
  constructor
  · rintro ⟨h, hd⟩
    by_cases hl : bs.length < 28
    · rw [decode_none_of_short bs hl] at hd; cases hd
    · omega
  · exact decode_some_of_long bs

/-- non-vacuity: a header of a database with a few tables; the largest header the fields can hold; a
27-byte file is refused; a row-id counter beyond 32 bits does NOT come back (the hypothesis is needed) -/
example : Fits ⟨17, 4096, 53248, 2041⟩ ∧ Fits ⟨2 ^ 32 - 1, 2 ^ 64 - 1, 2 ^ 64 - 4096, 2 ^ 64 - 1⟩ ∧
    decode (encode ⟨17, 4096, 53248, 2041⟩) = some ⟨17, 4096, 53248, 2041⟩ ∧
    decode ((encode ⟨17, 4096, 53248, 2041⟩).take 27) = none ∧
    decode (encode ⟨2 ^ 32 + 5, 4096, 8192, 1⟩) = some ⟨5, 4096, 8192, 1⟩ := by
  refine ⟨by decide, by decide, by decide, by decide, by decide⟩

end Mkdb.Header
