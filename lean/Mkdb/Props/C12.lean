import Mkdb.Proofs.Page
/-!
# C12 — a page written to disk reads back as the same page

Property theorems only.  Quantifier: every leaf / internal node within capacity — any
number of cells up to the maximum, any value bytes up to `maxValueSize`, any flags, any
64-bit offsets and LSNs.  The constants are the ones regenerated from storage/page.go.
-/
namespace Mkdb.Page
open Mkdb.Bin Mkdb.Generated

/-- **C12.fits**: the capacity constants derived from the page size leave room for the
header, the offset array and the maximum number of maximum-size cells (so `freeSize`
never underflows). -/
theorem C12_fits :
    c_leafNodeHeaderSize + c_maxLeafNodeCells * (c_offsetElemSize + c_leafNodeCellSize) ≤ c_pageSize ∧
    c_internalNodeHeaderSize + c_maxInternalNodeCells * (c_offsetElemSize + c_nodeCellSize) ≤ c_pageSize ∧
    c_leafNodeHeaderSize = 1 + 8 + 8 + 1 + 1 + 8 + 8 + 4 + 2 ∧
    c_internalNodeHeaderSize = 1 + 8 + 8 + 8 + 4 + 2 ∧
    c_leafNodeCellSize = 4 + 1 + 4 + c_maxValueSize ∧ c_nodeCellSize = 4 + 8 ∧ c_offsetElemSize = 2 ∧
    c_maxLeafNodeCells ≤ 2 ^ 16 ∧ c_maxInternalNodeCells ≤ 2 ^ 16 ∧
    c_LeafNode = 1 ∧ c_InternalNode = 0 := by decide

/-- **C12.leaf**: a well-formed leaf encodes to exactly one page and decodes — through the
first-byte dispatch of `fetch` — to the same leaf. -/
theorem C12_leaf (l : Leaf) (h : WFLeaf l) :
    ∃ page, encodeLeaf l = .ok page ∧ page.length = c_pageSize ∧ decodePage page = .ok (.leaf l) (List.range l.cells.length) := by
  obtain ⟨hoff, hlsn, hls, hrs, hn, hcells⟩ := h
  have hfit := C12_fits
  have hmax : c_maxLeafNodeCells = 9 := rfl
  have hps : c_pageSize = 4096 := rfl
  have hcs : c_leafNodeCellSize = 409 := rfl
  have hlen := leafHeader_length l
  have hfoot := leafFooter_length_le l.cells hcells
  have hfoot' : (l.cells.flatMap encLeafCell).length ≤ 9 * 409 := by
    calc _ ≤ l.cells.length * c_leafNodeCellSize := hfoot
      _ ≤ 9 * 409 := by rw [hcs]; exact Nat.mul_le_mul_right _ (by omega)
  -- the free gap is non-negative and fits 16 bits
  let freeN : Nat := 4096 - (leafHeader l).length - (l.cells.flatMap encLeafCell).length - 2
  have hfree : ((c_pageSize : Int) - (leafHeader l).length - (l.cells.flatMap encLeafCell).length - 2) = (freeN : Int) := by
    show _ = ((4096 - (leafHeader l).length - (l.cells.flatMap encLeafCell).length - 2 : Nat) : Int)
    rw [hps]; omega
  have hfree16 : freeN < 2 ^ 16 := by show 4096 - _ - _ - 2 < 2 ^ 16; omega
  have hmod : ((freeN : Int) % 65536).toNat = freeN := by omega
  refine ⟨leafHeader l ++ encU16 freeN ++ List.replicate freeN 0 ++ l.cells.flatMap encLeafCell, ?_, ?_, ?_⟩
  · simp only [encodeLeaf, finishPage, hfree, hmod]
    rw [if_pos]
    simp only [List.length_append, List.length_replicate, encU16, encLE_length, hps]
    show _ + 2 + (4096 - _ - _ - 2) + _ = 4096
    omega
  · simp only [List.length_append, List.length_replicate, encU16, encLE_length, hps]
    show _ + 2 + (4096 - _ - _ - 2) + _ = 4096
    omega
  · have hcount : l.cells.length < 2 ^ 32 := by omega
    have hcount16 : l.cells.length ≤ 2 ^ 16 := by omega
    have hfirst : ∀ rest : Bytes, decodePage (encU8 c_LeafNode ++ rest) = decodeLeaf (encU8 c_LeafNode ++ rest) := by
      intro rest; rfl
    simp only [leafHeader, List.append_assoc]
    rw [hfirst]
    simp only [decodeLeaf, decU8_enc _ _ (by decide : c_LeafNode < 2 ^ 8), ne_eq, not_true_eq_false,
      ↓reduceIte, decU64_enc _ _ hoff, decU64_enc _ _ hlsn, decBool_enc, decU64_enc _ _ hls,
      decU64_enc _ _ hrs, decU32_enc _ _ hcount, decOffsets_range _ hcount16,
      decU16_enc _ _ hfree16, skipN_replicate]
    have := decLeafCells_enc l.cells hcells []
    simp only [List.append_nil] at this
    simp only [this, place_range]

/-- **C12.internal**: likewise for internal nodes. -/
theorem C12_internal (n : Internal) (h : WFInternal n) :
    ∃ page, encodeInternal n = .ok page ∧ page.length = c_pageSize ∧
      decodePage page = .ok (.internal n) (List.range n.cells.length) := by
  obtain ⟨hoff, hlsn, hr, hn, hcells⟩ := h
  have hmax : c_maxInternalNodeCells = 290 := rfl
  have hps : c_pageSize = 4096 := rfl
  have hcs : c_nodeCellSize = 12 := rfl
  have hlen := internalHeader_length n
  have hfoot := internalFooter_length n.cells
  rw [hcs] at hfoot
  let freeN : Nat := 4096 - (internalHeader n).length - (n.cells.flatMap encICell).length - 2
  have hfree : ((c_pageSize : Int) - (internalHeader n).length - (n.cells.flatMap encICell).length - 2) = (freeN : Int) := by
    show _ = ((4096 - (internalHeader n).length - (n.cells.flatMap encICell).length - 2 : Nat) : Int)
    rw [hps]; omega
  have hfree16 : freeN < 2 ^ 16 := by show 4096 - _ - _ - 2 < 2 ^ 16; omega
  have hmod : ((freeN : Int) % 65536).toNat = freeN := by omega
  refine ⟨internalHeader n ++ encU16 freeN ++ List.replicate freeN 0 ++ n.cells.flatMap encICell, ?_, ?_, ?_⟩
  · simp only [encodeInternal, finishPage, hfree, hmod]
    rw [if_pos]
    simp only [List.length_append, List.length_replicate, encU16, encLE_length, hps]
    show _ + 2 + (4096 - _ - _ - 2) + _ = 4096
    omega
  · simp only [List.length_append, List.length_replicate, encU16, encLE_length, hps]
    show _ + 2 + (4096 - _ - _ - 2) + _ = 4096
    omega
  · have hcount : n.cells.length < 2 ^ 32 := by omega
    have hcount16 : n.cells.length ≤ 2 ^ 16 := by omega
    have hfirst : ∀ rest : Bytes, decodePage (encU8 c_InternalNode ++ rest) = decodeInternal (encU8 c_InternalNode ++ rest) := by
      intro rest; rfl
    simp only [internalHeader, List.append_assoc]
    rw [hfirst]
    simp only [decodeInternal, decU8_enc _ _ (by decide : c_InternalNode < 2 ^ 8), ne_eq, not_true_eq_false,
      ↓reduceIte, decU64_enc _ _ hoff, decU64_enc _ _ hlsn, decU64_enc _ _ hr,
      decU32_enc _ _ hcount, decOffsets_range _ hcount16,
      decU16_enc _ _ hfree16, skipN_replicate]
    have := decICells_enc n.cells hcells []
    simp only [List.append_nil] at this
    simp only [this, place_range]

/-- **C12.node**: every node within capacity serialises to exactly one page and
deserialises to identical logical content. -/
theorem C12_roundtrip (n : Node) (h : WF n) :
    ∃ page, encode n = .ok page ∧ page.length = c_pageSize ∧ ∃ offs, decodePage page = .ok n offs := by
  cases n with
  | leaf l => obtain ⟨p, h1, h2, h3⟩ := C12_leaf l h; exact ⟨p, h1, h2, _, h3⟩
  | internal i => obtain ⟨p, h1, h2, h3⟩ := C12_internal i h; exact ⟨p, h1, h2, _, h3⟩

/-- **C12.dispatch**: the first byte alone decides which decoder runs, and the two kinds
never collide: a page that decodes as a leaf never decodes as an internal node. -/
theorem C12_dispatch (page : Bytes) (l : Leaf) (i : Internal) (o1 o2 : List Nat) :
    ¬ (decodePage page = .ok (.leaf l) o1 ∧ decodeInternal page = .ok (.internal i) o2) := by
  rintro ⟨h1, h2⟩
  cases page with
  | nil => simp [decodePage] at h1
  | cons b rest =>
    simp only [decodePage] at h1
    by_cases hb : b.toNat = c_InternalNode
    · -- dispatched to decodeInternal, which never yields a leaf
      simp only [hb, ↓reduceIte] at h1
      rw [h2] at h1; cases h1
    · simp only [hb, ↓reduceIte] at h1
      -- decodeInternal requires the kind byte to be InternalNode
      simp only [decodeInternal, decU8, decLE] at h2
      simp [hb] at h2

/-! Non-vacuity: a full leaf with maximum-size values, tombstones and both sibling links is
well formed, and so is a full internal node. -/
example : WFLeaf ⟨8192, 2 ^ 63, true, true, 4096, 12288,
    (List.range 9).map fun i => ⟨i + 1, i % 2 == 0, List.replicate 400 0xff⟩⟩ := by
  refine ⟨by decide, by decide, by decide, by decide, by decide, ?_⟩
  intro c hc
  simp only [List.mem_map, List.mem_range] at hc
  obtain ⟨i, hi, rfl⟩ := hc
  exact ⟨by show i + 1 < 2 ^ 32; omega, by
    show (List.replicate 400 (0xff : UInt8)).length ≤ 400
    rw [List.length_replicate]; exact Nat.le_refl _⟩

example : WFInternal ⟨8192, 7, 4096, (List.range 290).map fun i => ⟨i + 1, 4096 * i⟩⟩ := by
  refine ⟨by decide, by decide, by decide, by simp [c_maxInternalNodeCells], ?_⟩
  intro c hc
  simp only [List.mem_map, List.mem_range] at hc
  obtain ⟨i, hi, rfl⟩ := hc
  exact ⟨by show i + 1 < 2 ^ 32; omega, by show 4096 * i < 2 ^ 64; omega⟩

end Mkdb.Page
