import Mkdb.Proofs.PageCache
import Mkdb.Proofs.Evict7
import Mkdb.Proofs.FlushOrder2
import Mkdb.Proofs.FlushOrder3
import Mkdb.Proofs.FlushOrder4
import Mkdb.Proofs.FlushOrderLRU
/-!
# C16 — query results do not depend on the page-cache size

Property theorems only, about the page-cache model `Mkdb.PageCache` (storage/page.go
`fileStore.fetch` / `markDirty` / `flushPages` over the LRU of storage/lru.go).  Quantifier:
every capacity (both sides arbitrary, from 0 up), every initial cache content satisfying the
invariant, every sequence of page reads, page changes and flushes that neither side refuses.
The workload is expressed in page operations; that the engine's statements are such sequences is
the heap model `Mkdb.Store`, whose every page access goes through `fetch`.  What the model cannot
exhibit: Go pointer aliasing - a page object that is evicted while a caller still holds the
pointer and changes it afterwards.  That is what the capacity sweep of the check looks for on the
real code (partial).
-/
namespace Mkdb.PageCache
variable {α : Type}

/-- **C16.capacity_independent**: two caches of any two capacities started on the same logical
contents return the same page contents for every read of every workload that neither refuses, and
end with the same logical contents. -/
theorem C16_capacity_independent (s1 s2 : St α) (ops : List (Op α)) (h1 : Inv s1) (h2 : Inv s2)
    (hv : ∀ k, view s1 k = view s2 k) (s1' s2' : St α) (o1 o2 : List (Option α))
    (r1 : run s1 ops = some (s1', o1)) (r2 : run s2 ops = some (s2', o2)) :
    o1 = o2 ∧ ∀ k, view s1' k = view s2' k :=
  cap_independent s1 s2 ops h1 h2 hv s1' s2' o1 o2 r1 r2

/-- **C16.equals_cacheless**: a cache of any capacity behaves like no cache at all (one current
content per page), and keeps its invariant: an evicted page equals its disk image. -/
theorem C16_equals_cacheless (s : St α) (ops : List (Op α)) (h : Inv s) (s' : St α) (outs : List (Option α))
    (hr : run s ops = some (s', outs)) :
    Inv s' ∧ outs = (refRun (view s) ops).2 ∧ ∀ k, view s' k = (refRun (view s) ops).1 k :=
  run_sim s ops h s' outs hr

/-- **C16.refusal_only_when_full_of_dirty**: the only way the bounded cache differs - by refusing - is
a miss on a cache that is full of dirty pages: the precondition "dirty pages are flushed before
they fill the cache" is exact. -/
theorem C16_refusal_only_when_full_of_dirty (s : St α) (k : Nat) :
    fetch s k = none ↔ (find? s.items k = none ∧ s.items.length = s.cap ∧ ∀ e ∈ s.items, e.dirty = true) :=
  fetch_none_iff s k

/-- **C16.flush_makes_durable**: after a flush the data file holds the logical contents, so a restart
(which drops the cache) reads the same pages whatever the capacity was. -/
theorem C16_flush_makes_durable (s : St α) (h : Inv s) : ∀ k, (flush s).disk k = view s k := flush_disk s h

/-- **C16.policy_is_the_lru_model**: the recency and eviction behaviour of this model is that of the
LRU model of C15 (which is compared with storage/lru.go on every run): eviction, insertion of a
missing page, and a hit project to `LRU.evict`, `LRU.Cache.set` and `LRU.Cache.get`. -/
theorem C16_policy_is_the_lru_model (s : St α) (k : Nat) :
    (fetch s k).map (fun r => proj r.1.items) =
      (match LRU.Cache.get ⟨s.cap, proj s.items⟩ k with
       | (c', some _) => some c'.items
       | (_, none) =>
         let r := LRU.Cache.set ⟨s.cap, proj s.items⟩ k k false
         if r.2 then some r.1.items else none) := proj_fetch s k

/-- non-vacuity: a capacity-2 cache on which an 8-operation workload over 4 pages runs with evictions,
and the same workload with capacity 5 -/
example : Inv Example.s0 ∧ (run Example.s0 Example.w).isSome = true ∧
    (run { Example.s0 with cap := 5 } Example.w).isSome = true := by
  refine ⟨Example.s0_inv, by decide, by decide⟩

end Mkdb.PageCache

/-!
## C16 on the heap model: evicting clean pages changes nothing the engine can see

The theorems above are about the abstract cache model.  The engine model runs on the page heap
`Mkdb.Store`, whose cache is unbounded: nothing is ever evicted in it.  `evict s offs` (Proofs/Evict1) is
the eviction step of the real cache on the heap model - the cache loses the pages at the offsets `offs`
that the engine sees clean, for ANY list of offsets (which pages go is the LRU policy of C15; every
choice is covered); a page the engine sees dirty is never dropped.  The theorems below say that this
step is invisible: to the page heap, to the database invariant of the statement-level theorems (C01,
C08, C14, C17, C18), to the outcome of every statement, to every reader, and along whole histories of
statements, flushes and evictions.

Two routes, with different reach:
* through the plain model (`C16_statement_outcomes_do_not_depend_on_evictions`, `C16_histories_with_evictions`):
  ANY evictions; outcomes as accepted / refused; side conditions of C01 / C14;
* directly on the heap (`C16_evicted_run_is_the_same_run`, `C16_histories_with_evictions_same_errors`): the
  run on the smaller cache is step for step the run on the larger one - the same error values, also for
  a statement refused at a later row - for evictions of pages that are in the data file (every page of
  the catalog description is, `C16_catalog_pages_may_always_be_evicted`) and a cache with one entry per
  offset (a Go map).

Limit: the heap model has no capacity, so it cannot exhibit the refusal of a page load by a cache that
is full of dirty pages; `C16_refusal_only_when_full_of_dirty` (above, on the abstract model) says that
this is the only way a bounded cache differs, and the property's precondition excludes it.
-/
namespace Mkdb.Store
open Mkdb.Tree Mkdb.Page Mkdb.Tuple Mkdb.Generated

/-- **C16.eviction_is_invisible**: let the store hold a catalog (`Cat`: the trees `pt`, `sch`, `tbls`)
whose clean pages are in the data file (`Synced`, a clause of `DbInv`), and evict the clean pages at any
offsets.  Then (1) at the offset of every page of every tree the engine sees exactly what it saw: the
same page content and the same dirty bit (a dropped page is read back from the file, clean - which it
was); (2) headers and data file are untouched; (3) a page the engine sees dirty stays in the cache;
(4) at ANY offset - catalog page or not - the engine sees the same as before provided the page it saw
clean there is the data file's page (without this the eviction IS visible:
`Mkdb.Store.visible_without_the_file`); (5) where a page was dropped, the engine now sees the data
file's page. -/
theorem C16_eviction_is_invisible (s : Store) (pt sch : Levels) (tbls : List (Bytes × Levels))
    (hc : Cat s pt sch tbls) (hsy : Synced s pt sch tbls) (offs : List Nat) :
    (∀ x ∈ catTrees pt sch tbls, ∀ e ∈ flatten x,
      view (evict s offs) e.1 = view s e.1 ∧ view s e.1 = some (e.2.1, e.2.2)) ∧
    ((evict s offs).hdr = s.hdr ∧ (evict s offs).dhdr = s.dhdr ∧ (evict s offs).disk = s.disk) ∧
    (∀ o n, view s o = some (n, true) → assocGet (evict s offs).mem o = assocGet s.mem o) ∧
    (∀ o, (∀ n, view s o = some (n, false) → assocGet s.disk o = some n) → view (evict s offs) o = view s o) ∧
    (∀ o, view (evict s offs) o = view s o ∨
      (o ∈ offs ∧ (∃ n, view s o = some (n, false)) ∧
        view (evict s offs) o = (assocGet s.disk o).map fun n => (n, false))) := by
  refine ⟨fun x hx e he => ?_, ⟨rfl, rfl, rfl⟩, fun o n hv => evict_keeps_dirty hv, fun o h => evict_view_eq h,
    fun o => ?_⟩
  · have hh := (hc.tree x hx).1
    exact ⟨(hh.evict (hsy x hx) offs e he).trans (hh e he).symm, hh e he⟩
  · rw [view_evict]
    by_cases he : evictable s offs o = true
    · obtain ⟨h1, h2⟩ := evictable_view he
      exact .inr ⟨h1, h2, by simp [he]⟩
    · exact .inl (by simp [he])

/-- non-vacuity: the computed database after INSERT and flush holds its catalog with every clean page in
the data file, and evicting its three pages empties the cache -/
example : (∃ pt sch tbls, Cat dbF.store pt sch tbls ∧ Synced dbF.store pt sch tbls) ∧
    (evict dbF.store allPages).mem = [] ∧ dbF.store.mem.length = 3 := by
  obtain ⟨pt, sch, tbls, hi, _⟩ := dbInv_dbF
  obtain ⟨sdb0, habs, _⟩ := hi.abs
  exact ⟨⟨pt, sch, tbls, habs.cat, hi.synced⟩, evict_example.2.1, by decide +kernel⟩

/-- **C16.eviction_preserves_the_database_invariant**: the invariant of the statement-level theorems
(`DbInv`: abstraction to the plain database `sdb`, no stale schema rows, cache filed, log applied, clean
pages in the file) survives the eviction of ANY set of clean pages, with the SAME plain database, the
SAME catalog trees and the same log; so do its parts `Holds` (tree by tree), `Cat`, `AbsV` and the
relation `Rel` of C01 / C14, and "closed database" (`DbFlushed`).  Hence every theorem stated for a
database in `DbInv` applies after any eviction, and says the same. -/
theorem C16_eviction_preserves_the_database_invariant (db : Engine.DB) (sdb : Spec.SDB) (pt sch : Levels)
    (tbls : List (Bytes × Levels)) (h : DbInv db sdb pt sch tbls) (offs : List Nat) :
    DbInv (evictDB db offs) sdb pt sch tbls ∧ (evictDB db offs).wal = db.wal ∧
    (∀ x ∈ catTrees pt sch tbls, Holds (evict db.store offs) x) ∧
    Cat (evict db.store offs) pt sch tbls ∧ AbsV (evict db.store offs) pt sch tbls sdb ∧
    Rel (evictDB db offs) pt sch tbls sdb ∧
    (DbFlushed db sdb pt sch tbls → DbFlushed (evictDB db offs) sdb pt sch tbls) := by
  obtain ⟨sdb0, habs, hv⟩ := h.abs
  exact ⟨h.evict offs, rfl, fun x hx => ((habs.cat.tree x hx).1).evict (h.synced x hx) offs,
    habs.cat.evict h.synced offs, h.abs.evict h.synced offs, (h.evict offs).rel, fun hk => hk.evict offs⟩

/-- non-vacuity: `tableDB` (computed: CREATE DATABASE, CREATE TABLE t (a INT)) satisfies the invariant;
evicting its three pages empties its cache -/
example : DbInv tableDB sdbA0 ptT schT [(tname, tT)] ∧ (evictDB tableDB allPages).store.mem = [] :=
  ⟨dbFlushed_tableDB.inv, by decide +kernel⟩

/-- **C16.statement_outcomes_do_not_depend_on_evictions** (any evictions; through the plain model).  On a
database that satisfies the invariant for the plain database `sdb`, evict ANY clean pages before a
statement.  (1) If the plain model accepts the statement (with the room a Go program has, `StmtRoom`, as
in `C01_every_statement_refines_plain_model`), the engine model accepts it with and without the
eviction, and both results satisfy the invariant for the plain model's result `sdb'`.  (2) If the
statement is refused before a change (`StmtRefusal`, as in `C14_refused_statement_plain_model`), the
plain model refuses it and the engine model refuses it with and without the eviction, the log is
untouched and both results satisfy the invariant for the SAME plain database and the same trees.
(3) For every other outcome - a multi-row INSERT / UPDATE refused at a later row, the known finding of
C14 - under the side conditions of `C18_every_statement_keeps_the_database_invariant` the run after the
eviction still returns `.ok` or `.err` and keeps the invariant for some plain database; that it is the
same error and the same plain database as without the eviction is `C16_evicted_run_is_the_same_run`
(for evictions of pages that are in the data file).  Not said here: that the two error values of (2)
are equal - also in `C16_evicted_run_is_the_same_run`. -/
theorem C16_statement_outcomes_do_not_depend_on_evictions (db : Engine.DB) (order : List Nat) (sdb : Spec.SDB)
    (pt sch : Levels) (tbls : List (Bytes × Levels)) (h : DbInv db sdb pt sch tbls) (offs : List Nat)
    (st : Sql.Stmt) :
    (∀ sdb', StmtRoom db pt sch tbls st → Spec.specStmt sdb st = some sdb' →
      (∃ db1 pt1 sch1 tbls1, evalStmt db order st = .ok () db1 ∧ DbInv db1 sdb' pt1 sch1 tbls1) ∧
      (∃ db2 pt2 sch2 tbls2, evalStmt (evictDB db offs) order st = .ok () db2 ∧ DbInv db2 sdb' pt2 sch2 tbls2)) ∧
    (StmtRefusal sdb pt st →
      Spec.specStmt sdb st = none ∧
      (∃ e1 db1, evalStmt db order st = .err e1 db1 ∧ db1.wal = db.wal ∧ DbInv db1 sdb pt sch tbls) ∧
      (∃ e2 db2, evalStmt (evictDB db offs) order st = .err e2 db2 ∧ db2.wal = db.wal ∧ DbInv db2 sdb pt sch tbls)) ∧
    (StmtNames pt tbls st → StmtRoomT db pt sch tbls st → StmtLits st →
      ∃ db2, (evalStmt (evictDB db offs) order st = .ok () db2 ∨ ∃ e, evalStmt (evictDB db offs) order st = .err e db2) ∧
        ∃ sdb' pt' sch' tbls', DbInv db2 sdb' pt' sch' tbls') :=
  ⟨fun sdb' hroom hspec => accepted_evict h offs order st hroom sdb' hspec,
   fun hbad => refused_evict h offs order st hbad,
   fun hnames hroom hlits => evalStmt_keeps_inv (evictDB db offs) order sdb pt sch tbls (h.evict offs) st hnames
     (hroom.evict offs) hlits⟩

/-- non-vacuity: on `tableDB`, `INSERT INTO t VALUES (5), (6)` is accepted by the plain model with room, and
`CREATE TABLE t (b VARCHAR(10))` is a refusal before a change (the table exists) -/
example : DbInv tableDB sdbA0 ptT schT [(tname, tT)] ∧
    StmtRoom tableDB ptT schT [(tname, tT)] (.insert tname [] [[.int 5], [.int 6]]) ∧
    Spec.specStmt sdbA0 (.insert tname [] [[.int 5], [.int 6]]) = some sdbA1 ∧
    StmtRefusal sdbA0 ptT (.createTable tname bcols) :=
  ⟨dbFlushed_tableDB.inv, room_insert56, rfl, .create tname bcols (.exists_ rfl)⟩

/-- **C16.reader_sees_the_same_rows_after_evictions** (the reader's side, `C17_contents_are_what_a_reader_sees`
after an eviction): on a database that satisfies the invariant for `sdb`, after the eviction of ANY
clean pages `RelationService.Fetch` - the source of every SELECT - returns for every table of `sdb` its
declared columns and exactly its rows, value for value and in order: what it returns without the
eviction. -/
theorem C16_reader_sees_the_same_rows_after_evictions (db : Engine.DB) (sdb : Spec.SDB) (pt sch : Levels)
    (tbls : List (Bytes × Levels)) (h : DbInv db sdb pt sch tbls) (offs : List Nat) (t : Bytes)
    (tb : Spec.STable) (hfind : Spec.findTable sdb t = some tb) :
    Reads db t tb.cols (tb.rows.map (·.vals)) ∧ Reads (evictDB db offs) t tb.cols (tb.rows.map (·.vals)) :=
  reads_evict h offs hfind

/-- non-vacuity: the table `t` of the plain database of `tableDB` -/
example : DbInv tableDB sdbA0 ptT schT [(tname, tT)] ∧ Spec.findTable sdbA0 tname = some ⟨tname, schemaA, []⟩ :=
  ⟨dbFlushed_tableDB.inv, rfl⟩

/-- **C16.histories_with_evictions** (any evictions; through the plain model).  Take any history of
statements, flushes of the page cache (in any page write order) and evictions of ANY clean pages
(`CacheOp`), from a database that satisfies the invariant for `sdb`, and the same history with the
evictions left out.  Under the side conditions of `C01_every_history_refines_plain_model` along both
runs (`OpsOK`: an accepted statement has `StmtRoom`, a refused one is refused before a change; flushes
and evictions have none) neither run crashes; every statement has the same outcome class in both
(accepted / refused) - the plain model's verdict on the statements alone; both runs end in a database
that satisfies the invariant for the SAME plain database, the one the statements alone imply
(`specHist`); and a reader sees the same rows of every table in both.  Excluded by `OpsOK`, as in C01:
statements refused at a later row (covered by `C16_histories_with_evictions_same_errors`).  The heap
model has no capacity: a refusal for a cache full of dirty pages cannot occur in it
(`C16_refusal_only_when_full_of_dirty` is the statement about when the real cache refuses). -/
theorem C16_histories_with_evictions (order : List Nat) (ops : List CacheOp) (db : Engine.DB) (sdb : Spec.SDB)
    (pt sch : Levels) (tbls : List (Bytes × Levels)) (h : DbInv db sdb pt sch tbls)
    (hok : OpsOK order ops db sdb) (hok0 : OpsOK order (noEvict ops) db sdb) :
    ∃ db1 outs1 db2 outs2, runOps order db ops = some (db1, outs1) ∧
      runOps order db (noEvict ops) = some (db2, outs2) ∧
      outs1.map Option.isNone = outs2.map Option.isNone ∧
      outs1.map Option.isNone = specOuts sdb (stmtsOf ops) ∧
      (∃ pt1 sch1 tbls1, DbInv db1 (specHist sdb (stmtsOf ops)) pt1 sch1 tbls1) ∧
      (∃ pt2 sch2 tbls2, DbInv db2 (specHist sdb (stmtsOf ops)) pt2 sch2 tbls2) ∧
      ∀ t tb, Spec.findTable (specHist sdb (stmtsOf ops)) t = some tb →
        Reads db1 t tb.cols (tb.rows.map (·.vals)) ∧ Reads db2 t tb.cols (tb.rows.map (·.vals)) := by
  obtain ⟨db1, outs1, pt1, sch1, tbls1, hr1, hi1, ho1⟩ := runOps_refines order ops db sdb pt sch tbls h hok
  obtain ⟨db2, outs2, pt2, sch2, tbls2, hr2, hi2, ho2⟩ := runOps_refines order (noEvict ops) db sdb pt sch tbls h hok0
  rw [stmtsOf_noEvict] at hi2 ho2
  exact ⟨db1, outs1, db2, outs2, hr1, hr2, ho1.trans ho2.symm, ho1, ⟨pt1, sch1, tbls1, hi1⟩, ⟨pt2, sch2, tbls2, hi2⟩,
    fun t tb hf => ⟨hi1.reads hf, hi2.reads hf⟩⟩

/-- non-vacuity: every history whose statements are DELETEs on user-table names, with any WHERE clauses
and any flushes and evictions in between, meets `OpsOK` from every database - here one on `tableDB` -/
example : DbInv tableDB sdbA0 ptT schT [(tname, tT)] ∧
    OpsOK [] [.evict allPages, .stmt (.delete tname none), .flush [], .evict [12288], .stmt (.delete tname (some condB))]
      tableDB sdbA0 ∧
    OpsOK [] (noEvict [.evict allPages, .stmt (.delete tname none), .flush [], .evict [12288],
      .stmt (.delete tname (some condB))]) tableDB sdbA0 := by
  have hd : ∀ st ∈ [Sql.Stmt.delete tname none, .delete tname (some condB)],
      ∃ t w, st = .delete t w ∧ t ≠ sysPages ∧ t ≠ sysSchema := by
    intro st hst
    simp only [List.mem_cons, List.not_mem_nil, or_false] at hst
    rcases hst with rfl | rfl
    · exact ⟨tname, none, rfl, tname_ne_sys⟩
    · exact ⟨tname, some condB, rfl, tname_ne_sys⟩
  refine ⟨dbFlushed_tableDB.inv, ?_, ?_⟩
  · apply opsOK_deletes
    intro st hst
    exact hd st hst
  · apply opsOK_deletes
    intro st hst
    exact hd st hst

/-- **C16.catalog_pages_may_always_be_evicted**: under the database invariant every page of the catalog
description - the page table, `sys_schema`, every page of every table - is, where the engine sees it
clean, the data file's page: the hypothesis `EvictSafe` of the two theorems below holds for any offsets
among them (`catOffs`).  For other offsets `evictSafeB` computes it. -/
theorem C16_catalog_pages_may_always_be_evicted (db : Engine.DB) (sdb : Spec.SDB) (pt sch : Levels)
    (tbls : List (Bytes × Levels)) (h : DbInv db sdb pt sch tbls) (offs : List Nat)
    (hoffs : ∀ o ∈ offs, o ∈ catOffs pt sch tbls) : EvictSafe db.store offs :=
  h.evictSafe offs hoffs

/-- non-vacuity: the three pages of `tableDB` are its catalog pages -/
example : DbInv tableDB sdbA0 ptT schT [(tname, tT)] ∧ ∀ o ∈ allPages, o ∈ catOffs ptT schT [(tname, tT)] :=
  ⟨dbFlushed_tableDB.inv, by decide +kernel⟩

/-- **C16.evicted_run_is_the_same_run** (directly on the page heap, every outcome).  On a database that
satisfies the invariant, whose cache has one entry per offset (`MemNodup`: it is a Go map), evict any
pages that are in the data file (`EvictSafe`: any catalog pages, `C16_catalog_pages_may_always_be_evicted`).
Then EVERY CREATE TABLE / INSERT / UPDATE / DELETE the parser can produce (side conditions of
`C18_every_statement_keeps_the_database_invariant`: `StmtNames`, `StmtRoomT`, `StmtLits`) has the SAME
outcome with and without the eviction: accepted by both, or refused by both WITH THE SAME ERROR VALUE -
whether before a change or at a later row of a multi-row INSERT / UPDATE (the known finding of C14: the
applied prefix is the same on both sides).  The two resulting databases have the same log, the same
headers, the same data file and show the same page with the same dirty bit at every offset (`DbEq`),
and satisfy the invariant for the SAME plain database and the SAME catalog trees.  The proof is a
simulation of every program of the page store (`Sim`, Proofs/Evict3-6), not a detour through the plain
model. -/
theorem C16_evicted_run_is_the_same_run (db : Engine.DB) (order : List Nat) (sdb : Spec.SDB) (pt sch : Levels)
    (tbls : List (Bytes × Levels)) (h : DbInv db sdb pt sch tbls) (hn : MemNodup db.store) (offs : List Nat)
    (hs : EvictSafe db.store offs) (st : Sql.Stmt) (hnames : StmtNames pt tbls st)
    (hroom : StmtRoomT db pt sch tbls st) (hlits : StmtLits st) :
    ∃ db1 db2,
      ((evalStmt db order st = .ok () db1 ∧ evalStmt (evictDB db offs) order st = .ok () db2) ∨
        ∃ e, evalStmt db order st = .err e db1 ∧ evalStmt (evictDB db offs) order st = .err e db2) ∧
      DbEq db1 db2 ∧
      ∃ sdb' pt' sch' tbls', DbInv db1 sdb' pt' sch' tbls' ∧ DbInv db2 sdb' pt' sch' tbls' :=
  evalStmt_evict_exact h hn offs hs order st hnames hroom hlits

/-- non-vacuity: the computed database after INSERT and flush, the eviction of all its pages, and
`UPDATE t SET a = 7 WHERE a = 5` -/
example : (∃ pt sch tbls, DbInv dbF sdbA1 pt sch tbls ∧ StmtNames pt tbls stU ∧ StmtRoomT dbF pt sch tbls stU ∧
    StmtLits stU) ∧ MemNodup dbF.store ∧ EvictSafe dbF.store allPages :=
  ⟨dbInv_dbF, memNodup_dbF, evictSafe_dbF⟩

/-- **C16.histories_with_evictions_same_errors** (directly on the page heap; no side condition on the
statements).  Run any history of statements, flushes and evictions from a database whose cache is filed
under its own offsets with one entry per offset, every eviction dropping only pages that are in the data
file at that moment (`evictsSafeB`, computed along the run; under the invariant: any catalog pages).  If
that run completes (no panic, unmodelled path or exhausted fuel: C18), then the same statements and
flushes WITHOUT any eviction complete too, with the same outcome for every statement - `none` for
accepted, `some e` for refused with the error `e`, the SAME `e` - and the two final databases have the
same log, headers and data file and show the same page at every offset; in particular they satisfy the
database invariant for the same plain database.  As above, the heap model cannot exhibit a refusal for a
full cache. -/
theorem C16_histories_with_evictions_same_errors (order : List Nat) (ops : List CacheOp) (db : Engine.DB)
    (hf : MemFiled db.store) (hn : MemNodup db.store) (hsafe : evictsSafeB order ops db = true)
    (d2 : Engine.DB) (outs : List (Option Engine.StmtErr)) (hrun : runOps order db ops = some (d2, outs)) :
    ∃ d1, runOps order db (noEvict ops) = some (d1, outs) ∧ DbEq d1 d2 ∧
      ∀ sdb pt sch tbls, DbInv d1 sdb pt sch tbls ↔ DbInv d2 sdb pt sch tbls := by
  obtain ⟨d1, hr, hd⟩ := runOps_exact order ops db db (DbEq.refl hf hn) hsafe d2 outs hrun
  exact ⟨d1, hr, hd, fun _ _ _ _ => hd.dbInv⟩

/-- non-vacuity: a history on `tableDB` - INSERT, flush, eviction of all pages, UPDATE, eviction (the
dirty page stays), DELETE, flush, eviction, a refused CREATE TABLE: every eviction is safe and the run
completes with the outcomes accepted, accepted, accepted, refused -/
example : MemFiled tableDB.store ∧ MemNodup tableDB.store ∧ evictsSafeB [] opsExample tableDB = true ∧
    ((runOps [] tableDB opsExample).map fun r => r.2.map Option.isNone) = some [true, true, true, false] :=
  ⟨memFiled_tableDB, memNodup_tableDB, opsExample_ok.1, opsExample_ok.2⟩

/-- **C16.cache_has_one_entry_per_offset**: the hypothesis `MemNodup` of the two theorems above - the model's
cache, an association list, has one entry per offset, as the Go map it stands for - holds for the empty
cache of every freshly opened data file and is kept, together with `MemFiled`, by every statement
whatever its outcome, every flush and every eviction: it holds in every database a history reaches. -/
theorem C16_cache_has_one_entry_per_offset (order : List Nat) (ops : List CacheOp) (db : Engine.DB)
    (hf : MemFiled db.store) (hn : MemNodup db.store) (d : Engine.DB) (outs : List (Option Engine.StmtErr))
    (hrun : runOps order db ops = some (d, outs)) :
    MemNodup d.store ∧ MemFiled d.store ∧ ∀ s : Store, MemNodup (reopen s) :=
  ⟨(runOps_memNodup order ops db hf hn d outs hrun).1, (runOps_memNodup order ops db hf hn d outs hrun).2,
    memNodup_reopen⟩

/-- non-vacuity: the example history on `tableDB` completes -/
example : MemFiled tableDB.store ∧ MemNodup tableDB.store ∧ (runOps [] tableDB opsExample).isSome = true :=
  ⟨memFiled_tableDB, memNodup_tableDB, by decide +kernel⟩

/-- **C16.evictions_on_a_computed_database** (the model evaluated): on `tableDB` run
`INSERT INTO t VALUES (5), (6)` and flush; the three pages are cached and clean.  Evicting all of them
empties the cache; `Fetch` of `t` then returns the rows 11 and 12 with the values 5 and 6, as it does
from the full cache; `UPDATE t SET a = 7 WHERE a = 5` succeeds with and without the eviction and `Fetch`
returns 7 and 6 after both.  Before the flush the page of `t` is dirty and an eviction of all three
offsets leaves it in the cache. -/
theorem C16_evictions_on_a_computed_database :
    dbF.store.mem.map (·.1) = [4096, 12288, 8192] ∧ (evictDB dbF allPages).store.mem = [] ∧
    rowsOfDB dbF = some [(11, [.int 5]), (12, [.int 6])] ∧
    rowsOfDB (evictDB dbF allPages) = some [(11, [.int 5]), (12, [.int 6])] ∧
    rowsAfterU dbF = some [(11, [.int 7]), (12, [.int 6])] ∧
    rowsAfterU (evictDB dbF allPages) = some [(11, [.int 7]), (12, [.int 6])] ∧
    (evictDB dbI allPages).store.mem.map (·.1) = [12288] :=
  evict_example

end Mkdb.Store

/-!
## C16 with the flush as the code does it: a flush reorders the recency list

`fileStore.flushPagesLocked` (storage/page.go) ranges over the cache's Go map - an order that is arbitrary
and differs from run to run - and calls `update` for every dirty page; `update` ends in `setCache`, i.e.
`LRUCache.set` of a key that is resident, which is `MoveToFront` (storage/lru.go).  So a flush is not only
"write the dirty pages and mark them clean" (the `flush` of the theorems above, which keeps the recency
order): after it every page that was dirty is at the front of the recency list, in the order of that map
iteration, ahead of all pages that were clean.  Which page the NEXT miss evicts therefore depends on the
iteration order (`C16_flush_order_changes_the_next_victim`).  `flushOrd s order` is that flush with the
iteration order as a parameter (every `order` allowed; those that enumerate the dirty pages are the
behaviours of the code), `OpF` / `runF` are the histories with it.  The theorems below say that nothing
of this is visible in what is read: outputs and logical contents depend neither on the capacities nor on
the orders.  `C16_policy_is_the_lru_model` (above) describes the recency order BETWEEN flushes only - a
fetch is an `LRUCache.get` / `set`; the move at a flush is `C16_flush_moves_the_dirty_pages_to_the_front`.
-/
namespace Mkdb.PageCache
variable {α : Type}

/-- **C16.flush_order_is_invisible**: the flush of the code, whatever order its map iteration takes
(`o1`, `o2`: any two lists of keys), keeps the invariant and the capacity, leaves the logical contents
unchanged, writes the data file exactly as the order-keeping `flush` does, and leaves under every key the
same entry as `flush` does - the same pages resident, with the same contents, all clean.  The recency
lists after `flush`, after order `o1` and after order `o2` are permutations of each other: only the order
differs.  Hypothesis: the cache invariant (distinct keys, within capacity, clean pages equal their disk
image), which every history keeps. -/
theorem C16_flush_order_is_invisible (s : St α) (h : Inv s) (o1 o2 : List Nat) :
    Inv (flushOrd s o1) ∧ (flushOrd s o1).cap = s.cap ∧ (∀ k, view (flushOrd s o1) k = view s k) ∧
    (flushOrd s o1).disk = (flush s).disk ∧
    (∀ k, find? (flushOrd s o1).items k = find? (flush s).items k) ∧
    (∀ e ∈ (flushOrd s o1).items, e.dirty = false) ∧
    (flushOrd s o1).items.Perm (flush s).items ∧ (flushOrd s o1).items.Perm (flushOrd s o2).items :=
  ⟨flushOrd_inv s h o1, rfl, flushOrd_view s h o1, rfl, flushOrd_find? s h.1 o1, flushOrd_all_clean s h.1 o1,
    flushOrd_items_perm s h.1 o1, (flushOrd_items_perm s h.1 o1).trans (flushOrd_items_perm s h.1 o2).symm⟩

/-- non-vacuity: the capacity-2 cache with the two dirty pages 1 and 2, on which the orders `[1, 2]` and
`[2, 1]` give different recency lists (the page visited last in front; `flush` keeps the old order) -/
example : Inv ExampleF.d0 ∧
    ExampleF.ents (flushOrd ExampleF.d0 [1, 2]) = [(2, 21, false), (1, 11, false)] ∧
    ExampleF.ents (flushOrd ExampleF.d0 [2, 1]) = [(1, 11, false), (2, 21, false)] ∧
    ExampleF.ents (flush ExampleF.d0) = [(1, 11, false), (2, 21, false)] :=
  ⟨ExampleF.d0_inv, ExampleF.orders_differ⟩

/-- **C16.flush_moves_the_dirty_pages_to_the_front**: the recency list after the flush of the code is
`F ++ C`: `C` the pages that were clean, in their old relative order; `F`, in front of them, the pages that
were dirty - every one of them, once, now clean - in an order that depends on the iteration order.
Hypothesis: the cache invariant. -/
theorem C16_flush_moves_the_dirty_pages_to_the_front (s : St α) (h : Inv s) (order : List Nat) :
    ∃ F, (flushOrd s order).items = F ++ s.items.filter (fun e => !e.dirty) ∧
      F.Perm ((s.items.filter fun e => e.dirty).map clean) :=
  flushOrd_shape s h.1 order

/-- non-vacuity: the cache with the two dirty pages satisfies the invariant; the orders `[1, 2]`, `[2, 1]`
give `F` = 2, 1 and `F` = 1, 2 (example above) -/
example : Inv ExampleF.d0 := ExampleF.d0_inv

/-- **C16.flush_without_dirty_pages_keeps_the_order**: when no resident page is dirty the loop of
`flushPagesLocked` skips every page: the flush of the code is then the order-keeping `flush`, for every
iteration order (in particular `order = []`).  Hypothesis: no resident page is dirty - otherwise the two
differ in the order (example above). -/
theorem C16_flush_without_dirty_pages_keeps_the_order (s : St α) (hclean : ∀ e ∈ s.items, e.dirty = false)
    (order : List Nat) : flushOrd s order = flush s :=
  flushOrd_of_clean s hclean order

/-- non-vacuity: the cache `Example.s0` (page 1 resident and clean) -/
example : ∀ e ∈ Example.s0.items, e.dirty = false := by decide

/-- **C16.capacity_independent_with_reordering_flushes**: two caches of any two capacities, started on the
same logical contents, run the same operations - `ops1` and `ops2` are the same list of reads, changes
and flushes (`map OpF.toOp` forgets the iteration orders), but every flush of either run takes its own
iteration order.  If neither run refuses, every read returns the same page content in both and both end
with the same logical contents: neither the capacities nor the orders chosen at the flushes are visible.
Excluded: runs in which a side refuses (`ErrCacheFull`; when that happens is
`C16_refusal_with_reordering_flushes`). -/
theorem C16_capacity_independent_with_reordering_flushes (s1 s2 : St α) (ops1 ops2 : List (OpF α))
    (hops : ops1.map OpF.toOp = ops2.map OpF.toOp) (h1 : Inv s1) (h2 : Inv s2)
    (hv : ∀ k, view s1 k = view s2 k) (s1' s2' : St α) (o1 o2 : List (Option α))
    (r1 : runF s1 ops1 = some (s1', o1)) (r2 : runF s2 ops2 = some (s2', o2)) :
    o1 = o2 ∧ ∀ k, view s1' k = view s2' k :=
  capF_independent s1 s2 ops1 ops2 hops h1 h2 hv s1' s2' o1 o2 r1 r2

/-- non-vacuity: flush, read 3, read 1, read 2 on the capacity-2 cache with two dirty pages, the flush
taking the order `[1, 2]` in the one run and `[2, 1]` in the other, and the second run with capacity 3:
all complete -/
example : Inv ExampleF.d0 ∧ Inv { ExampleF.d0 with cap := 3 } ∧
    ExampleF.wA.map OpF.toOp = ExampleF.wB.map OpF.toOp ∧ (runF ExampleF.d0 ExampleF.wA).isSome = true ∧
    (runF { ExampleF.d0 with cap := 3 } ExampleF.wB).isSome = true :=
  ⟨ExampleF.d0_inv, ⟨ExampleF.d0_inv.1, by decide, ExampleF.d0_inv.2.2⟩, rfl, by decide, by decide⟩

/-- **C16.equals_cacheless_with_reordering_flushes**: a cache of any capacity whose flushes reorder the
recency list in any way behaves like no cache at all (`refRun` on the operations with the orders
forgotten), and keeps its invariant.  Excluded: a run that refuses. -/
theorem C16_equals_cacheless_with_reordering_flushes (s : St α) (ops : List (OpF α)) (h : Inv s) (s' : St α)
    (outs : List (Option α)) (hr : runF s ops = some (s', outs)) :
    Inv s' ∧ outs = (refRun (view s) (ops.map OpF.toOp)).2 ∧
      ∀ k, view s' k = (refRun (view s) (ops.map OpF.toOp)).1 k :=
  runF_sim s ops h s' outs hr

/-- non-vacuity: the history `ExampleF.wA` runs -/
example : Inv ExampleF.d0 ∧ (runF ExampleF.d0 ExampleF.wA).isSome = true := ⟨ExampleF.d0_inv, by decide⟩

/-- **C16.refusal_with_reordering_flushes**: in a history with the flushes of the code the only operation
that can refuse is still a read or a change of a page that is not resident while the cache is full of
dirty pages (`C16_refusal_only_when_full_of_dirty`); a flush never refuses, whatever its order.  That two
runs with the same capacity and start but different flush orders refuse at the same operations is
`C16_refusals_do_not_depend_on_the_flush_order` (which clean pages are resident depends on the earlier
orders through the evictions; the dirty pages, which decide a refusal, do not). -/
theorem C16_refusal_with_reordering_flushes (s : St α) (op : OpF α) :
    stepF s op = none ↔ ∃ k, (op = .fetch k ∨ ∃ f, op = .write k f) ∧
      find? s.items k = none ∧ s.items.length = s.cap ∧ ∀ e ∈ s.items, e.dirty = true :=
  stepF_none_iff s op

/-- **C16.flush_makes_durable_with_reordering_flushes**: after the flush of the code, in whatever order,
the data file holds the logical contents - those before the flush, which are those after it. -/
theorem C16_flush_makes_durable_with_reordering_flushes (s : St α) (h : Inv s) (order : List Nat) :
    ∀ k, (flushOrd s order).disk k = view s k ∧ (flushOrd s order).disk k = view (flushOrd s order) k :=
  fun k => ⟨flushOrd_disk_view s h order k, (flushOrd_disk_view s h order k).trans (flushOrd_view s h order k).symm⟩

/-- non-vacuity: after either order the file of the example cache holds 11 and 21 in pages 1 and 2 -/
example : Inv ExampleF.d0 ∧ (flushOrd ExampleF.d0 [2, 1]).disk 1 = 11 ∧ (flushOrd ExampleF.d0 [1, 2]).disk 2 = 21 :=
  ⟨ExampleF.d0_inv, by decide, by decide⟩

/-- **C16.flush_order_changes_the_next_victim** (the model evaluated; why the order matters at all): on the
capacity-2 cache holding the dirty pages 1 and 2, after the flush with iteration order `[1, 2]` the read
of page 3 evicts page 1, after the flush with order `[2, 1]` it evicts page 2 (both return 30; the victim
is `LRU.victim` of the projected list).  Continuing with reads of 1 and 2, page 1 is a miss in the one
run and a hit in the other, and both runs return `30, 11, 21`. -/
theorem C16_flush_order_changes_the_next_victim :
    ((fetch (flushOrd ExampleF.d0 [1, 2]) 3).map fun r => (ExampleF.ents r.1, r.2)) =
      some ([(3, 30, false), (2, 21, false)], 30) ∧
    ((fetch (flushOrd ExampleF.d0 [2, 1]) 3).map fun r => (ExampleF.ents r.1, r.2)) =
      some ([(3, 30, false), (1, 11, false)], 30) ∧
    (LRU.victim (proj (flushOrd ExampleF.d0 [1, 2]).items)).map (·.key) = some 1 ∧
    (LRU.victim (proj (flushOrd ExampleF.d0 [2, 1]).items)).map (·.key) = some 2 ∧
    ((runF ExampleF.d0 ExampleF.wA).map (·.2)) = some [none, some 30, some 11, some 21] ∧
    ((runF ExampleF.d0 ExampleF.wB).map (·.2)) = some [none, some 30, some 11, some 21] :=
  ⟨ExampleF.victims_differ.1, ExampleF.victims_differ.2.1, ExampleF.victims_differ.2.2.1,
    ExampleF.victims_differ.2.2.2, by decide, by decide⟩

/-- **C16.flush_loop_is_the_lru_model**: the loop of the flush - the turns at the keys of `order` -
projects to `LRU.touchAll` of the LRU model of C15, whose every turn is the identity or an
`LRUCache.set` of a resident key (`C15_flush_reordering_is_a_run_of_sets`).  Said of the loop over
`order`; `flushOrd` then completes an `order` that leaves dirty pages out (nothing to complete when
`order` names every dirty page, as the iteration of the code does). -/
theorem C16_flush_loop_is_the_lru_model (cap : Nat) (l : List (Ent α)) (order : List Nat) :
    proj (order.foldl visit l) = (LRU.touchAll ⟨cap, proj l⟩ order).items :=
  proj_foldl_visit cap l order

/-- **C16.flush_reaches_every_arrangement_and_no_other**: the model of the flush has exactly the
behaviours of the code's loop.  (1) For EVERY arrangement `F` of the pages that were dirty there is an
iteration order - the keys of `F`, last first, which names every dirty page - after which the recency
list is `F` followed by the clean pages: no order of the Go map iteration is left out.  (2) Every
`order`, also one that leaves dirty pages out or names other keys, gives the state of an `order'` that
names every dirty resident page, i.e. of an iteration of the code: letting `flushOrd` complete such
orders adds no behaviour.  Hypothesis: resident keys are distinct (a clause of `Inv`). -/
theorem C16_flush_reaches_every_arrangement_and_no_other (s : St α) (h : Inv s) :
    (∀ F : List (Ent α), F.Perm ((s.items.filter fun e => e.dirty).map clean) →
      (flushOrd s (F.map (·.key)).reverse).items = F ++ s.items.filter (fun e => !e.dirty) ∧
      ∀ e ∈ s.items, e.dirty = true → e.key ∈ (F.map (·.key)).reverse) ∧
    (∀ order, ∃ order', (∀ e ∈ s.items, e.dirty = true → e.key ∈ order') ∧ flushOrd s order = flushOrd s order') :=
  ⟨fun F hF => flushOrd_reaches s h.1 F hF, fun order => flushOrd_complete_order s h.1 order⟩

/-- non-vacuity: on the cache with the dirty pages 1 and 2 the arrangement "2 in front of 1" -/
example : Inv ExampleF.d0 ∧ ([⟨2, 21, false⟩, ⟨1, 11, false⟩] : List (Ent Nat)).Perm
    ((ExampleF.d0.items.filter fun e => e.dirty).map clean) :=
  ⟨ExampleF.d0_inv, List.Perm.swap _ _ _⟩

/-- **C16.refusals_do_not_depend_on_the_flush_order**: two runs from the same cache state `s` of the same
operations - `ops1` and `ops2` are the same list of reads, changes and flushes (`map OpF.toOp` forgets
the iteration orders), every flush of either run taking its own iteration order - refuse
(`ErrCacheFull`, `runF = none`) together or not at all; the same holds of every pair of prefixes of
equal length, so the two runs refuse at the same operation; and when neither refuses every read returns
the same content in both and both end with the same logical contents.  So the iteration order of the Go
map in `flushPagesLocked` changes which clean pages are resident later (the victims of the evictions,
`C16_flush_order_changes_the_next_victim`) but nothing a caller can see, errors included.  Hypothesis:
the cache invariant of the start state, which every history keeps.  Excluded: two runs with different
capacities (a smaller cache refuses earlier). -/
theorem C16_refusals_do_not_depend_on_the_flush_order (s : St α) (ops1 ops2 : List (OpF α))
    (hops : ops1.map OpF.toOp = ops2.map OpF.toOp) (h : Inv s) :
    (runF s ops1 = none ↔ runF s ops2 = none) ∧
    (∀ n, runF s (ops1.take n) = none ↔ runF s (ops2.take n) = none) ∧
    ∀ s1' s2' o1 o2, runF s ops1 = some (s1', o1) → runF s ops2 = some (s2', o2) →
      o1 = o2 ∧ ∀ k, view s1' k = view s2' k :=
  ⟨runF_none_iff_of_same_dirty s s ops1 ops2 hops h h rfl fun _ => Iff.rfl,
    fun n => runF_none_iff_of_same_dirty s s (ops1.take n) (ops2.take n)
      (by rw [map_take_toOp, map_take_toOp, hops]) h h rfl fun _ => Iff.rfl,
    fun s1' s2' o1 o2 r1 r2 => capF_independent s s ops1 ops2 hops h h (fun _ => rfl) s1' s2' o1 o2 r1 r2⟩

/-- non-vacuity: on the capacity-2 cache with the dirty pages 1 and 2: flush (order `[1, 2]` in the one
run, `[2, 1]` in the other), read 3 (page 1 is evicted in the one run, page 2 in the other), change 1,
change 2, change 4.  Both runs refuse, both at the fifth operation (the first four complete in both),
although their recency lists differ after the second. -/
example : Inv ExampleF.d0 ∧ ExampleF.xA.map OpF.toOp = ExampleF.xB.map OpF.toOp ∧
    (runF ExampleF.d0 ExampleF.xA).isNone = true ∧ (runF ExampleF.d0 ExampleF.xB).isNone = true ∧
    (runF ExampleF.d0 (ExampleF.xA.take 4)).isSome = true ∧
    (runF ExampleF.d0 (ExampleF.xB.take 4)).isSome = true ∧
    ExampleF.obsF (runF ExampleF.d0 (ExampleF.xA.take 2)) =
      some ([(3, 30, false), (2, 21, false)], [none, some 30]) ∧
    ExampleF.obsF (runF ExampleF.d0 (ExampleF.xB.take 2)) =
      some ([(3, 30, false), (1, 11, false)], [none, some 30]) :=
  ⟨ExampleF.d0_inv, rfl, ExampleF.refusals⟩

/-- non-vacuity of the last clause: the histories `wA`, `wB` of `C16_flush_order_changes_the_next_victim`
(two orders, two victims) both complete -/
example : Inv ExampleF.d0 ∧ ExampleF.wA.map OpF.toOp = ExampleF.wB.map OpF.toOp ∧
    (runF ExampleF.d0 ExampleF.wA).isSome = true ∧ (runF ExampleF.d0 ExampleF.wB).isSome = true :=
  ⟨ExampleF.d0_inv, rfl, by decide, by decide⟩

/-- **C16.refusals_depend_only_on_capacity_and_dirty_pages**: the reason, and the statement for two
different start states: two caches with the same capacity and the same set of dirty resident keys
(`DirtyKey s k`: page `k` is resident and dirty; the clean resident pages, the contents and the recency
orders may all differ) run the same operations with any flush orders: they refuse together, at every
prefix.  Hypotheses: the cache invariant of both. -/
theorem C16_refusals_depend_only_on_capacity_and_dirty_pages (s1 s2 : St α) (ops1 ops2 : List (OpF α))
    (hops : ops1.map OpF.toOp = ops2.map OpF.toOp) (h1 : Inv s1) (h2 : Inv s2) (hc : s1.cap = s2.cap)
    (hD : ∀ k, DirtyKey s1 k ↔ DirtyKey s2 k) :
    (runF s1 ops1 = none ↔ runF s2 ops2 = none) ∧
    ∀ n, runF s1 (ops1.take n) = none ↔ runF s2 (ops2.take n) = none :=
  ⟨runF_none_iff_of_same_dirty s1 s2 ops1 ops2 hops h1 h2 hc hD,
    fun n => runF_none_iff_of_same_dirty s1 s2 (ops1.take n) (ops2.take n)
      (by rw [map_take_toOp, map_take_toOp, hops]) h1 h2 hc hD⟩

/-- non-vacuity: the two caches after the first two operations of `xA` and `xB` (flush in two orders, read
3): capacity 2, nothing dirty in either, pages 3, 2 resident in the one and 3, 1 in the other -/
example : Inv ExampleF.tA ∧ Inv ExampleF.tB ∧ ExampleF.tA.cap = ExampleF.tB.cap ∧
    (∀ k, DirtyKey ExampleF.tA k ↔ DirtyKey ExampleF.tB k) ∧
    ExampleF.ents ExampleF.tA = [(3, 30, false), (2, 21, false)] ∧
    ExampleF.ents ExampleF.tB = [(3, 30, false), (1, 11, false)] :=
  ⟨ExampleF.tA_inv, ExampleF.tB_inv, rfl, ExampleF.tA_tB_dirty, rfl, rfl⟩

/-- **C16.dirty_pages_do_not_depend_on_the_flush_order**: after a history that does not refuse the
capacity is unchanged and the set of dirty resident keys is `drun` of the operations with the orders
forgotten, from the set at the start: a read keeps the set, a change of page `k` adds `k`, a flush (in any
order) empties it (`dstep`).  The evictions never enter: they remove clean pages only.  In particular two
runs of the same operations with different flush orders hold the same dirty pages at every moment.
Hypothesis: the cache invariant.  Excluded: a run that refuses. -/
theorem C16_dirty_pages_do_not_depend_on_the_flush_order (s : St α) (ops : List (OpF α)) (h : Inv s)
    (s' : St α) (outs : List (Option α)) (hr : runF s ops = some (s', outs)) :
    s'.cap = s.cap ∧ ∀ k, DirtyKey s' k ↔ drun (DirtyKey s) (ops.map OpF.toOp) k :=
  runF_dirtyKey s ops h s' outs hr

/-- non-vacuity: the first four operations of `xA` complete -/
example : Inv ExampleF.d0 ∧ (runF ExampleF.d0 (ExampleF.xA.take 4)).isSome = true :=
  ⟨ExampleF.d0_inv, ExampleF.refusals.2.2.1⟩

/-- **C16.refusal_is_decided_by_the_dirty_pages**: of two caches with the same capacity and the same dirty
resident keys, when the one is full of dirty pages and does not hold page `k` (the condition of
`C16_refusal_with_reordering_flushes`), so is and does the other - although "full" and "not resident"
speak of all resident pages: a cache full of dirty pages consists of its `cap` dirty pages, the other
cache holds the same `cap` dirty keys and, being within its capacity, nothing else.  Hypotheses: the
cache invariant of both (distinct keys, within capacity). -/
theorem C16_refusal_is_decided_by_the_dirty_pages (s1 s2 : St α) (h1 : Inv s1) (h2 : Inv s2)
    (hc : s1.cap = s2.cap) (hD : ∀ j, DirtyKey s1 j ↔ DirtyKey s2 j) (k : Nat)
    (hr : find? s1.items k = none ∧ s1.items.length = s1.cap ∧ ∀ e ∈ s1.items, e.dirty = true) :
    find? s2.items k = none ∧ s2.items.length = s2.cap ∧ ∀ e ∈ s2.items, e.dirty = true :=
  full_of_dirty_transfer h1 h2 hc hD hr

/-- non-vacuity: the cache `ExampleF.d0` (capacity 2, pages 1 and 2 dirty) and page 3, against itself -/
example : Inv ExampleF.d0 ∧ find? ExampleF.d0.items 3 = none ∧ ExampleF.d0.items.length = ExampleF.d0.cap ∧
    ∀ e ∈ ExampleF.d0.items, e.dirty = true :=
  ⟨ExampleF.d0_inv, by decide, by decide, by decide⟩

end Mkdb.PageCache
