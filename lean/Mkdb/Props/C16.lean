import Mkdb.Proofs.PageCache
/-!
# C16 — query results do not depend on the page-cache size

Property theorems only, about the page-cache model `Mkdb.PageCache` (storage/page.go
`fileStore.fetch` / `markDirty` / `flushPages` over the LRU of storage/lru.go).  Quantifier:
every capacity (both sides arbitrary, from 0 up), every initial cache content satisfying the
invariant, every sequence of page reads, page changes and flushes that neither side refuses.
The workload is expressed in page operations; that the engine's statements are such sequences is
the heap model `Mkdb.Store`, whose every page access goes through `fetch`.  What the model cannot
exhibit: Go pointer aliasing - a page object that is evicted while a caller still holds the
pointer and changes it afterwards.  That is what the capacity sweep of the check looks for on the
real code (partial).
-/
namespace Mkdb.PageCache
variable {α : Type}

/-- **C16.capacity_independent**: two caches of any two capacities started on the same logical
contents return the same page contents for every read of every workload that neither refuses, and
end with the same logical contents. -/
theorem C16_capacity_independent (s1 s2 : St α) (ops : List (Op α)) (h1 : Inv s1) (h2 : Inv s2)
    (hv : ∀ k, view s1 k = view s2 k) (s1' s2' : St α) (o1 o2 : List (Option α))
    (r1 : run s1 ops = some (s1', o1)) (r2 : run s2 ops = some (s2', o2)) :
    o1 = o2 ∧ ∀ k, view s1' k = view s2' k :=
  cap_independent s1 s2 ops h1 h2 hv s1' s2' o1 o2 r1 r2

/-- **C16.equals_cacheless**: a cache of any capacity behaves like no cache at all (one current
content per page), and keeps its invariant: an evicted page equals its disk image. -/
theorem C16_equals_cacheless (s : St α) (ops : List (Op α)) (h : Inv s) (s' : St α) (outs : List (Option α))
    (hr : run s ops = some (s', outs)) :
    Inv s' ∧ outs = (refRun (view s) ops).2 ∧ ∀ k, view s' k = (refRun (view s) ops).1 k :=
  run_sim s ops h s' outs hr

/-- **C16.refusal_only_when_full_of_dirty**: the only way the bounded cache differs - by refusing - is
a miss on a cache that is full of dirty pages: the precondition "dirty pages are flushed before
they fill the cache" is exact. -/
theorem C16_refusal_only_when_full_of_dirty (s : St α) (k : Nat) :
    fetch s k = none ↔ (find? s.items k = none ∧ s.items.length = s.cap ∧ ∀ e ∈ s.items, e.dirty = true) :=
  fetch_none_iff s k

/-- **C16.flush_makes_durable**: after a flush the data file holds the logical contents, so a restart
(which drops the cache) reads the same pages whatever the capacity was. -/
theorem C16_flush_makes_durable (s : St α) (h : Inv s) : ∀ k, (flush s).disk k = view s k := flush_disk s h

/-- **C16.policy_is_the_lru_model**: the recency and eviction behaviour of this model is that of the
LRU model of C15 (which is compared with storage/lru.go on every run): eviction, insertion of a
missing page, and a hit project to `LRU.evict`, `LRU.Cache.set` and `LRU.Cache.get`. -/
theorem C16_policy_is_the_lru_model (s : St α) (k : Nat) :
    (fetch s k).map (fun r => proj r.1.items) =
      (match LRU.Cache.get ⟨s.cap, proj s.items⟩ k with
       | (c', some _) => some c'.items
       | (_, none) =>
         let r := LRU.Cache.set ⟨s.cap, proj s.items⟩ k k false
         if r.2 then some r.1.items else none) := proj_fetch s k

/-- non-vacuity: a capacity-2 cache on which an 8-operation workload over 4 pages runs with evictions,
and the same workload with capacity 5 -/
example : Inv Example.s0 ∧ (run Example.s0 Example.w).isSome = true ∧
    (run { Example.s0 with cap := 5 } Example.w).isSome = true := by
  refine ⟨Example.s0_inv, by decide, by decide⟩

end Mkdb.PageCache
