import Mkdb.Proofs.Lock
import Mkdb.Proofs.LockSys
/-!
# C13 — the background flusher only ever sees statement boundaries

Property theorems only.  Quantifier: every schedule (any interleaving of the session
goroutine's steps with the flusher's steps, any number of statements and ticks).  What the
model cannot exhibit — the Go memory model, `sync.RWMutex`, the scheduler — is exercised by the
race-detector run of the check (partial by nature).
-/
namespace Mkdb.Lock
open Mkdb.Generated

/-- **C13.all_bracketed**: according to the facts extracted from the current source, every
statement evaluator takes the shared lock first and releases it last, the log append happens
inside that bracket, CREATE TABLE changes the catalog and flushes it as one section under the exclusive lock, `flushPages` holds the
exclusive lock for its whole body, and the data file is written nowhere else; at start-up the
flusher goroutine is started in one place only - as the last step of `fileStore.open`, after every
read of the header (a flush rewrites the header from the fields `open` fills; a tick before that
destroyed the database) - and no store other than the one `OpenRelation` returns is created with a
flusher (`CreateDB` changes pages under no lock and flushes explicitly). -/
theorem C13_all_bracketed :
    (∀ p ∈ lockBrackets, p.2 = true) ∧ lockCreateTableLocked = true ∧ lockFlushExclusive = true ∧
    lockTxnIsSharedLock = true ∧ lockPageWritesOnlyInFlush = true ∧ lockLogAppendInsideBracket = true ∧
    lockFlusherAfterHeaderRead = true ∧ lockFlusherOnlyAfterOpen = true := by
  decide

/-- **C13.exclusion**: in every state reachable under every schedule of bracketed statements and
timer ticks, the flusher holding the lock (writing pages or the header) and the session being
inside a statement (between its first step and the release after its log append) exclude each other. -/
theorem C13_exclusion (acts : List Act) (hb : AllBracketed acts) :
    ¬ (flusherActive (run {} acts) = true ∧ insideStatement (run {} acts) = true) := by
  have hinv : Inv (run {} acts) := run_inv {} acts ⟨rfl, rfl, fun h => by cases h⟩ hb
  obtain ⟨_, h2, h3⟩ := hinv
  rintro ⟨hf, hi⟩
  have hr := h3 hf
  -- inside a statement: every begin action was bracketed, so the reader count is 1
  have hbr : (run {} acts).bracketed = true := by
    -- `bracketed` is only ever set to `true` by a bracketed begin and starts as `true`
    have : ∀ (s : St) (l : List Act), s.bracketed = true → AllBracketed l → (run s l).bracketed = true := by
      intro s l
      induction l generalizing s with
      | nil => intro h _; exact h
      | cons a rest ih =>
        intro h hl
        exact ih _ (step_bracketed s a h (hl a List.mem_cons_self)) (fun x hx => hl x (List.mem_cons_of_mem _ hx))
    exact this {} acts rfl hb
  rw [hi, hbr] at h2
  simp at h2
  omega

/-- **C13.no_write_inside_statement**: a page or header write can only be taken when the session is
between statements. -/
theorem C13_no_write_inside_statement (acts : List Act) (hb : AllBracketed acts) (s' : St)
    (h : step (run {} acts) .flushWrite = some s') : insideStatement (run {} acts) = false := by
  have hex := C13_exclusion acts hb
  have hact : flusherActive (run {} acts) = true := by
    simp only [step] at h
    cases hf : (run {} acts).flush with
    | waiting => simp [hf] at h
    | holding k => simp [flusherActive, hf]
  cases hi : insideStatement (run {} acts) with
  | false => rfl
  | true => exact absurd ⟨hact, hi⟩ hex

/-- the hypothesis is necessary: with an unbracketed statement (CREATE TABLE before the repair) the
flusher can run in the middle of it -/
theorem C13_unbracketed_counterexample :
    flusherActive (run {} [.sessBegin false, .sessChange, .flushBegin, .flushWrite]) = true ∧
    insideStatement (run {} [.sessBegin false, .sessChange, .flushBegin, .flushWrite]) = true := by decide

example : AllBracketed [.sessBegin true, .sessChange, .flushBegin, .sessLog, .sessEnd, .flushBegin, .flushWrite, .flushEnd] := by
  intro a ha b hab; subst hab; simp at ha; exact ha

end Mkdb.Lock

namespace Mkdb.LockSys

/-- **C13.system_safe** (the three goroutines around one open database: the one that opens the store
and runs statements - DML, SELECT and CREATE TABLE -, the page flusher, and `Close` from the signal
handler).  If the synchronisation discipline holds (`Cfg.good`: every evaluator brackets its work in
the shared lock with the log append inside; CREATE TABLE changes the catalog and flushes it as one
exclusive section; `flushPages` is exclusive and the only writer of the data file; `Close` closes the
log only under the exclusive lock; the flusher is started after the header reads; a failed open stops
the flusher it started), then under EVERY schedule of every length none of the bad events happens: no
page or header write by another goroutine while a statement is between its lock and its release (in
particular between its first change and the end of its log append), none while CREATE TABLE is between
its change and the end of its own flush, no statement reaching its log append on a closed log, no flush
before the header was read, no flusher outliving a failed open, no page change while a flush walks the
cache.  What the model cannot exhibit - the Go memory model, `sync.RWMutex`, the scheduler, channel
semantics of `stopFlusher` - is exercised by the race-detector runs of the check. -/
theorem C13_system_safe (c : Cfg) (hc : c.good = true) (acts : List Act) : (run c {} acts).bad = none :=
  no_bad c hc acts

/-- **C13.source_discipline_good**: the discipline is what the extractor finds in the CURRENT source
(`Generated/Locks.lean` is regenerated on every run; a change that drops one of the facts makes this
`decide` fail). -/
theorem C13_source_discipline_good : sourceCfg.good = true := by decide

/-- hence the current source is safe under every schedule of the model -/
theorem C13_current_source_safe (acts : List Act) : (run sourceCfg {} acts).bad = none :=
  no_bad sourceCfg C13_source_discipline_good acts

/-- **C13.each_fact_is_needed**: every single fact of the discipline is necessary - with that one fact
false and all others true some schedule reaches a bad event.  These are the defects of the second
campaign and their relatives, as schedules: an unbracketed evaluator; the log append after the release
(`EvaluateUpdate`'s deferred append, seeded change C13 r2-patch2); CREATE TABLE as two sections (873910e);
a flush that does not take the lock; `Close` closing the log beside a running statement (62bfa73); the
flusher started before the header is read (34a4346); a failed open that leaves its flusher (1b978f2). -/
theorem C13_each_fact_is_needed :
    (run { goodCfg with bracketed := false } {} [.oNew, .oRead, .oOk, .sBegin, .fBegin, .sChange]).bad = some .changeDuringFlush ∧
    (run { goodCfg with logInside := false } {} [.oNew, .oRead, .oOk, .sBegin, .sChange, .sEnd, .fBegin, .fWrite]).bad = some .writeInsideStatement ∧
    (run { goodCfg with createLocked := false } {} [.oNew, .oRead, .oOk, .cBegin, .cChange, .cRelease, .fBegin, .fWrite]).bad = some .writeDuringCreate ∧
    (run { goodCfg with createLocked := false } {} [.oNew, .oRead, .oOk, .cBegin, .cChange, .cRelease, .kStop, .kLock, .kWrite]).bad = some .writeDuringCreate ∧
    (run { goodCfg with flushExclusive := false } {} [.oNew, .oRead, .oOk, .sBegin, .sChange, .fBegin, .fWrite]).bad = some .writeInsideStatement ∧
    (run { goodCfg with closeLogInsideLock := false } {} [.oNew, .oRead, .oOk, .sBegin, .sChange, .kStop, .kCloseLog, .sLog]).bad = some .appendOnClosedLog ∧
    (run { goodCfg with flusherAfterHeader := false } {} [.oNew, .fBegin, .fWrite]).bad = some .writeBeforeHeaderRead ∧
    (run { goodCfg with failedOpenStops := false } {} [.oNew, .oRead, .oFail]).bad = some .flusherLeftBehind := by
  decide

/-- non-vacuity: under the good discipline a whole life cycle is a schedule of the model in which every
action is enabled - open, an INSERT across a timer tick (the tick waits), a flush, CREATE TABLE with
its own flush, a statement that `Close` waits for, `Close` - and it ends closed with no bad event. -/
def lifeCycle : List Act :=
  [.oNew, .oRead, .oOk, .sBegin, .sChange, .fBegin, .sLog, .sEnd, .fBegin, .fWrite, .fWrite, .fEnd,
   .cBegin, .cChange, .cWrite, .cWrite, .cEnd, .sBegin, .sChange, .kStop, .kLock, .sLog, .sEnd, .kLock, .kCloseLog,
   .kWrite, .kEnd]

example :
    (run goodCfg {} lifeCycle).closer = .done ∧ (run goodCfg {} lifeCycle).bad = none ∧
    (run goodCfg {} lifeCycle).sess = .idle ∧ (run goodCfg {} lifeCycle).walOpen = false := by decide +kernel

end Mkdb.LockSys
