import Mkdb.Proofs.Lock
/-!
# C13 — the background flusher only ever sees statement boundaries

Property theorems only.  Quantifier: every schedule (any interleaving of the session
goroutine's steps with the flusher's steps, any number of statements and ticks).  What the
model cannot exhibit — the Go memory model, `sync.RWMutex`, the scheduler — is exercised by the
race-detector run of the check (partial by nature).
-/
namespace Mkdb.Lock
open Mkdb.Generated

/-- **C13.all_bracketed**: according to the facts extracted from the current source, every
statement evaluator takes the shared lock first and releases it last, the log append happens
inside that bracket, CREATE TABLE changes the catalog and flushes it as one section under the exclusive lock, `flushPages` holds the
exclusive lock for its whole body, and the data file is written nowhere else; at start-up the
flusher goroutine is started in one place only - as the last step of `fileStore.open`, after every
read of the header (a flush rewrites the header from the fields `open` fills; a tick before that
destroyed the database) - and no store other than the one `OpenRelation` returns is created with a
flusher (`CreateDB` changes pages under no lock and flushes explicitly). -/
theorem C13_all_bracketed :
    (∀ p ∈ lockBrackets, p.2 = true) ∧ lockCreateTableLocked = true ∧ lockFlushExclusive = true ∧
    lockTxnIsSharedLock = true ∧ lockPageWritesOnlyInFlush = true ∧ lockLogAppendInsideBracket = true ∧
    lockFlusherAfterHeaderRead = true ∧ lockFlusherOnlyAfterOpen = true := by
  decide

/-- **C13.exclusion**: in every state reachable under every schedule of bracketed statements and
timer ticks, the flusher holding the lock (writing pages or the header) and the session being
inside a statement (between its first step and the release after its log append) exclude each other. -/
theorem C13_exclusion (acts : List Act) (hb : AllBracketed acts) :
    ¬ (flusherActive (run {} acts) = true ∧ insideStatement (run {} acts) = true) := by
  have hinv : Inv (run {} acts) := run_inv {} acts ⟨rfl, rfl, fun h => by cases h⟩ hb
  obtain ⟨_, h2, h3⟩ := hinv
  rintro ⟨hf, hi⟩
  have hr := h3 hf
  -- inside a statement: every begin action was bracketed, so the reader count is 1
  have hbr : (run {} acts).bracketed = true := by
    -- `bracketed` is only ever set to `true` by a bracketed begin and starts as `true`
    have : ∀ (s : St) (l : List Act), s.bracketed = true → AllBracketed l → (run s l).bracketed = true := by
      intro s l
      induction l generalizing s with
      | nil => intro h _; exact h
      | cons a rest ih =>
        intro h hl
        exact ih _ (step_bracketed s a h (hl a List.mem_cons_self)) (fun x hx => hl x (List.mem_cons_of_mem _ hx))
    exact this {} acts rfl hb
  rw [hi, hbr] at h2
  simp at h2
  omega

/-- **C13.no_write_inside_statement**: a page or header write can only be taken when the session is
between statements. -/
theorem C13_no_write_inside_statement (acts : List Act) (hb : AllBracketed acts) (s' : St)
    (h : step (run {} acts) .flushWrite = some s') : insideStatement (run {} acts) = false := by
  have hex := C13_exclusion acts hb
  have hact : flusherActive (run {} acts) = true := by
    simp only [step] at h
    cases hf : (run {} acts).flush with
    | waiting => simp [hf] at h
    | holding k => simp [flusherActive, hf]
  cases hi : insideStatement (run {} acts) with
  | false => rfl
  | true => exact absurd ⟨hact, hi⟩ hex

/-- the hypothesis is necessary: with an unbracketed statement (CREATE TABLE before the repair) the
flusher can run in the middle of it -/
theorem C13_unbracketed_counterexample :
    flusherActive (run {} [.sessBegin false, .sessChange, .flushBegin, .flushWrite]) = true ∧
    insideStatement (run {} [.sessBegin false, .sessChange, .flushBegin, .flushWrite]) = true := by decide

example : AllBracketed [.sessBegin true, .sessChange, .flushBegin, .sessLog, .sessEnd, .flushBegin, .flushWrite, .flushEnd] := by
  intro a ha b hab; subst hab; simp at ha; exact ha

end Mkdb.Lock
