import Mkdb.Proofs.LRU
import Mkdb.Proofs.FlushOrderLRU
/-!
# C15 — the page cache is a correct LRU that never drops unsaved pages

Property theorems only (helper lemmas live in `Mkdb/Proofs/LRU.lean`).
Quantifier: every sequence of `set / get / flip-dirty` operations, every capacity,
every key set — no bound on length.
-/
namespace Mkdb.LRU

/-- **C15.bounded**: in every state reachable from the empty cache of any capacity the
cache holds at most `cap` entries and at most one entry per key. -/
theorem C15_bounded (cap : Nat) (ops : List Op) :
    (run (Cache.empty cap) ops).items.length ≤ cap ∧
    (keys (run (Cache.empty cap) ops).items).Nodup := by
  have h := run_inv (Cache.empty cap) ops ⟨Nat.zero_le _, List.nodup_nil⟩
  have hc : (run (Cache.empty cap) ops).cap = cap := run_cap _ _
  exact ⟨by simpa [hc] using h.1, h.2⟩

/-- **C15.lookup (store)**: a successful `set` makes exactly the stored page visible. -/
theorem C15_lookup_after_set (c : Cache) (k id : Nat) (d : Bool)
    (hok : (c.set k id d).2 = true) :
    find? (c.set k id d).1.items k = some ⟨k, id, d⟩ := by
  simp only [Cache.set] at hok ⊢
  cases hf : find? c.items k with
  | some _ => simp [find?]
  | none =>
    rw [hf] at hok
    by_cases hfull : c.items.length = c.cap
    · simp only [hfull, beq_self_eq_true, ↓reduceIte] at hok ⊢
      cases he : evict c.items with
      | none => simp [he] at hok
      | some _ => simp [find?]
    · have : (c.items.length == c.cap) = false := by simpa using hfull
      simp [this, find?]

/-- **C15.lookup (keep)**: after a successful `set k id`, however many other operations
follow (anything except another `set` of the same key), a lookup of `k` either
misses (it was evicted) or returns page `id` — never a different page. -/
theorem C15_lookup (c : Cache) (hc : Inv c) (k id : Nat) (d : Bool)
    (hok : (c.set k id d).2 = true) (ops : List Op)
    (hops : ∀ op ∈ ops, ∀ id' d', op ≠ .set k id' d') :
    (step (run (c.set k id d).1 ops) (.get k)).2 = .miss ∨
    ∃ d', (step (run (c.set k id d).1 ops) (.get k)).2 = .hit id d' := by
  have hstart : find? (c.set k id d).1.items k = none ∨
      (find? (c.set k id d).1.items k).map (·.id) = some id := by
    right; rw [C15_lookup_after_set c k id d hok]; rfl
  have hinv0 : Inv (c.set k id d).1 := step_inv c (.set k id d) hc
  generalize (c.set k id d).1 = c0 at hstart hinv0
  clear hok
  induction ops generalizing c0 with
  | nil =>
    simp only [run, List.foldl_nil, step, Cache.get]
    rcases hstart with h | h
    · left; simp [h]
    · cases hf : find? c0.items k with
      | none => left; rfl
      | some e =>
        right
        simp only [hf, Option.map_some, Option.some.injEq] at h
        exact ⟨e.dirty, by simp [h]⟩
  | cons op ops ih =>
    have hop := hops op List.mem_cons_self
    have hrest : ∀ op' ∈ ops, ∀ id' d', op' ≠ .set k id' d' :=
      fun op' h' => hops op' (List.mem_cons_of_mem _ h')
    show (step (run (step c0 op).1 ops) (.get k)).2 = .miss ∨ _
    apply ih hrest (step c0 op).1
    · rcases find?_step_other c0 k op hop hinv0.2 with h | h
      · left; exact h
      · rcases hstart with h0 | h0
        · left
          rw [h0] at h
          simpa using h
        · right; rw [h, h0]
    · exact step_inv c0 op hinv0

/-- **C15.evicts_lru_clean**: when a `set` of a new key into a full cache succeeds, exactly
one resident entry leaves; it is clean, and every entry colder than it is dirty (so it
is the least recently used among the clean ones).  All other entries keep their order. -/
theorem C15_evicts_lru_clean (c : Cache) (k id : Nat) (d : Bool)
    (hnew : find? c.items k = none) (hfull : c.items.length = c.cap)
    (hok : (c.set k id d).2 = true) :
    ∃ pre v post, c.items = pre ++ v :: post ∧
      (c.set k id d).1.items = ⟨k, id, d⟩ :: (pre ++ post) ∧
      v.dirty = false ∧ (∀ e ∈ post, e.dirty = true) ∧ victim c.items = some v := by
  simp only [Cache.set, hnew, hfull, beq_self_eq_true, ↓reduceIte] at hok ⊢
  cases he : evict c.items with
  | none => simp [he] at hok
  | some items' =>
    obtain ⟨pre, v, post, h1, h2, h3, h4⟩ := evict_some he
    refine ⟨pre, v, post, h1, by simp [h2], h3, h4, ?_⟩
    -- the victim function picks the same entry
    rw [h1]
    clear he h1 h2 hok hnew hfull
    induction pre with
    | nil =>
      have hp : victim post = none := victim_none_of_evict_none (evict_none_iff.mpr h4)
      simp [victim, hp, h3]
    | cons a t ih => simp [victim, ih]

/-- **C15.dirty_pinned**: no operation ever removes a dirty entry: after any step, every
entry that was dirty before is still resident (same key, same page), unless that very
step replaced it by a `set` of its own key. -/
theorem C15_dirty_pinned (c : Cache) (hc : Inv c) (op : Op) (e : Entry)
    (he : e ∈ c.items) (hd : e.dirty = true)
    (hop : ∀ id d, op ≠ .set e.key id d) :
    ∃ e' ∈ (step c op).1.items, e'.key = e.key ∧ e'.id = e.id := by
  cases op with
  | set k id d =>
    have hne : e.key ≠ k := by intro h; exact hop id d (by rw [h])
    have hkeep : e ∈ remove c.items k := by
      simp only [remove, List.mem_filter]; exact ⟨he, by simpa using hne⟩
    simp only [step, Cache.set]
    cases hf : find? c.items k with
    | some _ => exact ⟨e, List.mem_cons_of_mem _ hkeep, rfl, rfl⟩
    | none =>
      by_cases hfull : c.items.length = c.cap
      · simp only [hfull, beq_self_eq_true, ↓reduceIte]
        cases hev : evict c.items with
        | none => exact ⟨e, he, rfl, rfl⟩
        | some items' =>
          obtain ⟨pre, v, post, h1, h2, h3, _⟩ := evict_some hev
          refine ⟨e, List.mem_cons_of_mem _ ?_, rfl, rfl⟩
          rw [h2]
          rw [h1] at he
          rcases List.mem_append.mp he with h | h
          · exact List.mem_append_left _ h
          · rcases List.mem_cons.mp h with h | h
            · subst h; rw [hd] at h3; cases h3
            · exact List.mem_append_right _ h
      · have : (c.items.length == c.cap) = false := by simpa using hfull
        simp only [this, Bool.false_eq_true, ↓reduceIte]
        exact ⟨e, List.mem_cons_of_mem _ he, rfl, rfl⟩
  | get k =>
    simp only [step, Cache.get]
    cases hf : find? c.items k with
    | none => exact ⟨e, he, rfl, rfl⟩
    | some e0 =>
      by_cases hk : e.key = k
      · -- the looked-up entry itself moves to the front
        obtain ⟨_, h0⟩ := find?_some_mem hf
        obtain ⟨hm0, _⟩ := find?_some_mem hf
        have heq : e0 = e := eq_of_key_eq hc.2 hm0 he (by rw [h0, hk])
        exact ⟨e0, List.mem_cons_self, by rw [heq], by rw [heq]⟩
      · have hkeep : e ∈ remove c.items k := by
          simp only [remove, List.mem_filter]; exact ⟨he, by simpa using hk⟩
        exact ⟨e, List.mem_cons_of_mem _ hkeep, rfl, rfl⟩
  | flip k d =>
    simp only [step, Cache.flip]
    refine ⟨if e.key == k then { e with dirty := d } else e, ?_, ?_, ?_⟩
    · exact List.mem_map.mpr ⟨e, he, rfl⟩
    · split <;> rfl
    · split <;> rfl

/-- **C15.refuse_iff**: an insertion is refused exactly when the key is new, the cache is
full, and every resident page is dirty. -/
theorem C15_refuse_iff (c : Cache) (k id : Nat) (d : Bool) :
    (c.set k id d).2 = false ↔
      find? c.items k = none ∧ c.items.length = c.cap ∧ ∀ e ∈ c.items, e.dirty = true := by
  simp only [Cache.set]
  cases hf : find? c.items k with
  | some _ => simp
  | none =>
    by_cases hfull : c.items.length = c.cap
    · simp only [hfull, beq_self_eq_true, ↓reduceIte, true_and]
      cases he : evict c.items with
      | none => simpa using evict_none_iff.mp he
      | some items' =>
        simp only [Bool.true_eq_false, false_iff]
        intro hall
        have := evict_none_iff.mpr hall
        rw [he] at this; cases this
    · have : (c.items.length == c.cap) = false := by simpa using hfull
      simp [this, hfull]

/-- A refused insertion changes nothing. -/
theorem C15_refuse_unchanged (c : Cache) (k id : Nat) (d : Bool)
    (h : (c.set k id d).2 = false) : (c.set k id d).1 = c := by
  simp only [Cache.set] at h ⊢
  cases hf : find? c.items k with
  | some _ => simp [hf] at h
  | none =>
    rw [hf] at h
    by_cases hfull : c.items.length = c.cap
    · simp only [hfull, beq_self_eq_true, ↓reduceIte] at h ⊢
      cases he : evict c.items with
      | none => rfl
      | some _ => simp [he] at h
    · have : (c.items.length == c.cap) = false := by simpa using hfull
      simp [this] at h

/-! Non-vacuity: the hypotheses above are met by concrete reachable states. -/

example : (Cache.set { cap := 2, items := [⟨1, 10, true⟩, ⟨2, 20, false⟩] } 3 30 false).2 = true := by decide
example : find? ([⟨1, 10, true⟩, ⟨2, 20, false⟩] : List Entry) 3 = none := by decide
example : (Cache.set { cap := 2, items := [⟨1, 10, true⟩, ⟨2, 20, true⟩] } 3 30 false).2 = false := by decide
example : Inv { cap := 2, items := [⟨1, 10, true⟩, ⟨2, 20, false⟩] } := by
  refine ⟨by decide, by decide⟩

/-! ### a flush changes the recency order

`fileStore.flushPagesLocked` (storage/page.go) calls `update` for every dirty page in the order of a Go
map iteration; `update` ends in `LRUCache.set` of the page under its own key (`MoveToFront`), then the
page is marked clean.  `touchAll c order` (Proofs/FlushOrderLRU) is that loop with the iteration order as
a parameter.  It is not a new kind of step: every turn is the identity or a `set` of the model. -/

/-- **C15.flush_reordering_is_a_run_of_sets**: the recency change of a flush, in whatever order the map
iteration takes, is a run of `set k id false` operations of the model (one per dirty resident page met);
so a history with flushes in between is a history without, and every state reachable with flushes is
reachable without them: `C15_bounded`, `C15_dirty_pinned`, `C15_refuse_iff`, `C15_evicts_lru_clean` (which
hold in every state, or every reachable state) cover them - the next eviction after a flush still takes
the least recently used clean entry of the reordered list. -/
theorem C15_flush_reordering_is_a_run_of_sets (c : Cache) (ops : List Op) (order : List Nat) :
    ∃ ops', touchAll (run c ops) order = run c (ops ++ ops') ∧ ∀ op ∈ ops', ∃ k id, op = .set k id false := by
  obtain ⟨ops', h1, h2⟩ := touchAll_is_run (run c ops) order
  exact ⟨ops', by rw [h1, run_append], h2⟩

/-- **C15.bounded_after_flush**: after any operations from the empty cache and the recency change of a
flush in any order, the cache holds at most `cap` entries and one entry per key, and its capacity is
unchanged. -/
theorem C15_bounded_after_flush (cap : Nat) (ops : List Op) (order : List Nat) :
    (touchAll (run (Cache.empty cap) ops) order).items.length ≤ cap ∧
    (keys (touchAll (run (Cache.empty cap) ops) order).items).Nodup ∧
    (touchAll (run (Cache.empty cap) ops) order).cap = cap := by
  obtain ⟨ops', h1, _⟩ := C15_flush_reordering_is_a_run_of_sets (Cache.empty cap) ops order
  rw [h1]
  exact ⟨(C15_bounded cap (ops ++ ops')).1, (C15_bounded cap (ops ++ ops')).2, run_cap _ _⟩

/-- **C15.lookup_across_flush**: the recency change of a flush keeps, under every key, the page that was
filed there (resident stays resident with the same page, absent stays absent), and keeps the invariant
of `C15_lookup` / `C15_dirty_pinned`. -/
theorem C15_lookup_across_flush (c : Cache) (order : List Nat) (k : Nat) :
    (find? (touchAll c order).items k).map (·.id) = (find? c.items k).map (·.id) ∧
    (Inv c → Inv (touchAll c order)) :=
  ⟨find?_touchAll c order k, fun h => touchAll_inv c h order⟩

/-- **C15.flush_order_changes_the_victim** (the model evaluated): capacity 2, pages 1 and 2 dirty.  After
the flush meeting 1 then 2 the list is 2, 1 and the victim of the next insertion is page 1; meeting 2 then
1 it is 1, 2 and the victim is page 2.  Both are clean lists of the same two pages. -/
theorem C15_flush_order_changes_the_victim :
    (touchAll ⟨2, [⟨1, 10, true⟩, ⟨2, 20, true⟩]⟩ [1, 2]).items = [⟨2, 20, false⟩, ⟨1, 10, false⟩] ∧
    (touchAll ⟨2, [⟨1, 10, true⟩, ⟨2, 20, true⟩]⟩ [2, 1]).items = [⟨1, 10, false⟩, ⟨2, 20, false⟩] ∧
    victim (touchAll ⟨2, [⟨1, 10, true⟩, ⟨2, 20, true⟩]⟩ [1, 2]).items = some ⟨1, 10, false⟩ ∧
    victim (touchAll ⟨2, [⟨1, 10, true⟩, ⟨2, 20, true⟩]⟩ [2, 1]).items = some ⟨2, 20, false⟩ := by decide

end Mkdb.LRU
