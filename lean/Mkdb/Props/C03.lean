import Mkdb.Proofs.Wal
import Mkdb.Proofs.CrashPrefix
import Mkdb.Proofs.CrashBytes5
import Mkdb.Proofs.PtSelfFree5
import Mkdb.Proofs.Counters6
/-!
# C03 — a crash while a statement is being logged leaves a row-prefix state

Property theorems only.  Quantifier: every list of well-formed records (any number, any values), and
every cut position `n` of the log file - every byte position, not only the boundaries between the
writes `wal.flush` issues.  What is proved is the log-file half of the property: the reader never
sees a later record without the earlier ones, never half a record, never an error, and what is
appended after recovery is read back right behind the surviving prefix.  The storage half follows
(second part of this file, `Mkdb.Store`): after any history of acknowledged statements, a crash that
cuts the append of an INSERT / DELETE / UPDATE after ANY number `k` of its records recovers to a store
that abstracts to a plain-model database in which the statement's table holds one of the row-prefix
states `Spec.rowPrefixStates` lists - the very list the judge of the crash-image runs uses - and
every other table is untouched, with the row-id counter advanced by exactly the rows applied.
Scenario of these theorems: no page of the history reached the data file since `db0` (the append
of a statement's records happens before the flusher can run on its pages; flushes between earlier
statements are the subject of C02/C04).
Third part (`C03_*_byte_cut_*`, `C03_engine_records_well_formed`): the two halves composed through the
concrete bytes of the very records the engine logs - for EVERY byte position of the statement's append,
what `wal.read` (`Wal.readLog`) returns from the cut file is the acknowledged log plus the first `k`
records of the statement, the file it leaves is the file of exactly these records, and replaying them
gives a row-prefix state.  The only added hypotheses are that the three counters of the store the
statement leaves in memory are values of their Go types (`uint64`, `uint64`, `uint32`).
The side conditions `hself` (`PtSelf`: the row the page table holds about itself names a page of the page
table - also after the page table has split and that row is stale) and `hf` (`FreshM`: every page of every
user table is older than the LSN counter) of the storage theorems are invariants of every database a
history reaches from CREATE DATABASE (`C02_side_conditions_hold_in_every_reachable_database`); the
witness `C03_torn_insert_with_a_split_page_table` is a database with eight tables.
-/
namespace Mkdb.Wal

/-- **C03.roundtrip**: every log the writer produces is read back completely and is not flagged torn. -/
theorem C03_roundtrip (rs : List Rec) (h : ∀ r ∈ rs, r.wf) :
    readLog (encodeLog rs) = .ok rs (encodeLog rs).length false := readLog_encodeLog rs h

/-- **C03.cut_is_prefix**: reading the first `n` bytes of a log - a crash at any point of the append -
yields exactly the records whose frames lie completely inside those bytes: a prefix `rs.take k` of
what was written, with `k` maximal, no partial record and no error; the tail is flagged torn exactly
when the cut is inside a frame. -/
theorem C03_cut_is_prefix (rs : List Rec) (h : ∀ r ∈ rs, r.wf) (n : Nat) :
    ∃ k torn, k ≤ rs.length ∧
      readLog ((encodeLog rs).take n) = .ok (rs.take k) (encodeLog (rs.take k)).length torn ∧
      (encodeLog (rs.take k)).length ≤ n ∧
      (k < rs.length → n < (encodeLog (rs.take (k+1))).length) ∧
      (torn = true ↔ (encodeLog (rs.take k)).length < min n (encodeLog rs).length) :=
  readLog_take rs h n

/-- **C03.append_after_cut**: after the reader has cut the torn tail off, whatever later statements
append is read back right behind the surviving prefix - statements issued after the recovery are
not lost behind garbage. -/
theorem C03_append_after_cut (rs more : List Rec) (h : ∀ r ∈ rs, r.wf) (h' : ∀ r ∈ more, r.wf) (n : Nat) :
    ∃ k, k ≤ rs.length ∧
      readLog (afterRead ((encodeLog rs).take n) ++ encodeLog more) =
        .ok (rs.take k ++ more) (encodeLog (rs.take k ++ more)).length false :=
  append_after_cut rs more h h' n

/-- non-vacuity: a two-record log cut in the middle of its second record -/
example : (⟨1, 7, 3, 2, [0xAA, 0xBB]⟩ : Rec).wf ∧
    readLog ((encodeLog [⟨1, 7, 3, 2, [0xAA, 0xBB]⟩, ⟨2, 8, 4, 0, []⟩]).take 40) = .ok [⟨1, 7, 3, 2, [0xAA, 0xBB]⟩] 31 true := by
  refine ⟨by simp only [Rec.wf, List.length_cons, List.length_nil]; omega, by decide⟩

end Mkdb.Wal

namespace Mkdb.Store
open Mkdb.Engine Mkdb.Tree Mkdb.Page Mkdb.Tuple Mkdb.Generated

/-- **C03.insert_crash_leaves_row_prefix**: after a history of acknowledged statements (`SpecRun`), a
multi-row INSERT ran in memory and the crash cut the append of its records after `k` of them, for
ANY `k` (an INSERT that moves the root of its table logs two records for that row; a cut between them
is covered: the INSERT record alone re-points the catalog).  Recovery ends without error in a store
that abstracts to a plain database where the table holds its rows before the statement plus the
first `j` new rows - never a later row without an earlier one, never half a row - every other table
is as before, and the row-id counter is the one before the statement plus `j`. -/
theorem C03_insert_crash_leaves_row_prefix (sch : Levels) {db0 dbN : Engine.DB} {sdb0 sdbN : Spec.SDB}
    {stmts : List EStmt} (run : SpecRun sch db0 sdb0 stmts dbN sdbN) (hwal : db0.wal = [])
    (pt : Levels) (tbls : List (Bytes × Levels)) (hA : AbsV db0.store pt sch tbls sdb0)
    (hself : PtSelf pt) (hf : FreshM db0.store tbls)
    (table : Bytes) (cols : List Bytes) (lrows : List (List Sql.Lit))
    (hvalid : ∀ r ∈ lrows.map (fun r => r.map Spec.litVal), ∀ v ∈ r, ValidVal v) (sdbC : Spec.SDB)
    (hspec : Spec.specInsert sdbN table cols (lrows.map fun r => r.map Spec.litVal) = some sdbC)
    (hrunok : ∀ pt tbls t schema, AbsV dbN.store pt sch tbls sdbN → (table, t) ∈ tbls →
      schemaOf sch table = some schema →
      InsRunOK schema (cols.map Engine.bytesToName) t dbN.store.hdr.lastKey dbN.store.hdr.nextLSN
        dbN.store.hdr.nextFree (lrows.map fun r => r.map Spec.litVal))
    (n : Nat) (dbC : Engine.DB)
    (heval : Engine.evalInsert dbN table cols (lrows.map fun r => r.map Spec.litVal) = .ok n dbC) (k : Nat) :
    ∃ rK ptR tblsK sdbK stK j,
      replayAll (dbN.wal ++ (dbC.wal.drop dbN.wal.length).take k) db0.store = (rK, none, false) ∧
      AbsV rK ptR sch tblsK sdbK ∧
      Spec.findTable sdbK table = some stK ∧
      (table, stK.rows.map (·.vals)) ∈ Spec.rowPrefixStates sdbN (.insert table cols lrows) ∧
      (∀ n, n ≠ table → Spec.findTable sdbK n = Spec.findTable sdbN n) ∧
      j ≤ lrows.length ∧ rK.hdr.lastKey = dbN.store.hdr.lastKey + j :=
  insert_crash_rowPrefixState sch run hwal pt tbls hA hself hf table cols lrows hvalid sdbC hspec hrunok n dbC heval k

/-- **C03.delete_crash_leaves_row_prefix**: likewise for DELETE - the first `min k (selected rows)`
selected rows are gone, in the order the statement deleted them. -/
theorem C03_delete_crash_leaves_row_prefix (sch : Levels) {db0 dbN : Engine.DB} {sdb0 sdbN : Spec.SDB}
    {stmts : List EStmt} (run : SpecRun sch db0 sdb0 stmts dbN sdbN) (hwal : db0.wal = [])
    (pt : Levels) (tbls : List (Bytes × Levels)) (hA : AbsV db0.store pt sch tbls sdb0)
    (hself : PtSelf pt) (hf : FreshM db0.store tbls)
    (table : Bytes) (w : Option Sql.Cond) (sdbC : Spec.SDB)
    (hspec : Spec.specDelete sdbN table w = some sdbC)
    (n : Nat) (dbC : Engine.DB) (heval : Engine.evalDelete dbN table w = .ok n dbC) (k : Nat) :
    ∃ rK ptK tblsK sdbK stK,
      replayAll (dbN.wal ++ (dbC.wal.drop dbN.wal.length).take k) db0.store = (rK, none, false) ∧
      AbsV rK ptK sch tblsK sdbK ∧
      Spec.findTable sdbK table = some stK ∧
      (table, stK.rows.map (·.vals)) ∈ Spec.rowPrefixStates sdbN (.delete table w) ∧
      (∀ n, n ≠ table → Spec.findTable sdbK n = Spec.findTable sdbN n) ∧
      rK.hdr.lastKey = dbN.store.hdr.lastKey ∧ rK.hdr.nextFree = dbN.store.hdr.nextFree :=
  delete_crash_rowPrefixState sch run hwal pt tbls hA hself hf table w sdbC hspec n dbC heval k

/-- **C03.update_crash_leaves_row_prefix**: likewise for UPDATE - the first `min k (selected rows)`
selected rows are rewritten, the others are as before. -/
theorem C03_update_crash_leaves_row_prefix (sch : Levels) {db0 dbN : Engine.DB} {sdb0 sdbN : Spec.SDB}
    {stmts : List EStmt} (run : SpecRun sch db0 sdb0 stmts dbN sdbN) (hwal : db0.wal = [])
    (pt : Levels) (tbls : List (Bytes × Levels)) (hA : AbsV db0.store pt sch tbls sdb0)
    (hself : PtSelf pt) (hf : FreshM db0.store tbls)
    (table : Bytes) (sets : List (Bytes × Sql.VExpr)) (w : Option Sql.Cond)
    (hvalid : ∀ p ∈ sets, ∀ l, p.2 = .lit l → ValidVal (Engine.litToVal l)) (sdbC : Spec.SDB)
    (hspec : Spec.specUpdate sdbN table sets w = some sdbC)
    (dbC : Engine.DB) (heval : Engine.evalUpdate dbN table sets w = .ok () dbC) (k : Nat) :
    ∃ rK ptK tblsK sdbK stK,
      replayAll (dbN.wal ++ (dbC.wal.drop dbN.wal.length).take k) db0.store = (rK, none, false) ∧
      AbsV rK ptK sch tblsK sdbK ∧
      Spec.findTable sdbK table = some stK ∧
      (table, stK.rows.map (·.vals)) ∈ Spec.rowPrefixStates sdbN (.update table sets w) ∧
      (∀ n, n ≠ table → Spec.findTable sdbK n = Spec.findTable sdbN n) ∧
      rK.hdr.lastKey = dbN.store.hdr.lastKey ∧ rK.hdr.nextFree = dbN.store.hdr.nextFree :=
  update_crash_rowPrefixState sch run hwal pt tbls hA hself hf table sets w hvalid sdbC hspec dbC heval k

/-- **C03.log_cut_is_statement_prefix** (storage level, any mix of row operations over several
tables): replaying the first `k` records of what a live run logged reproduces the live state after a
prefix of the row operations, page for page on every table and `sys_schema`; the only cut that is not
a row boundary - between the two records of an insert that moved a root - yields the state AFTER that
row with one leaf of the page table carrying an older LSN stamp (`PtRestamp`). -/
theorem C03_log_cut_is_statement_prefix (sch : Levels) {s0 sN : Store} {tbls tblsN : List (Bytes × Levels)}
    {stmts : List RStmt} {logs : List WalRec} (run : LiveRunM sch s0 tbls stmts sN tblsN logs)
    (pt : Levels) (h : Cat s0 pt sch tbls) (hself : PtSelf pt) (hf : FreshM s0 tbls)
    (k : Nat) (hk : k ≤ logs.length) :
    ∃ j sK tblsK logsK ptK ptR rK,
      j ≤ stmts.length ∧
      LiveRunM sch s0 tbls (stmts.take j) sK tblsK logsK ∧
      replayAll (logs.take k) s0 = (rK, none, false) ∧
      Cat sK ptK sch tblsK ∧ Cat rK ptR sch tblsK ∧
      (∀ x ∈ sch :: tblsK.map (·.2), ∀ o ∈ offs x, view rK o = view sK o) ∧
      rK.hdr.nextFree = sK.hdr.nextFree ∧ rK.hdr.lastKey = sK.hdr.lastKey ∧
      rK.hdr.ptRoot = sK.hdr.ptRoot ∧ rK.hdr.nextLSN ≤ sK.hdr.nextLSN ∧
      ((logsK = logs.take k ∧ ptR = ptK ∧ ∀ o ∈ offs ptK, view rK o = view sK o) ∨
       (logsK = logs.take (k + 1) ∧ k + 1 ≤ logs.length ∧ PtRestamp ptR ptK ∧
         ∃ table cols vals, (stmts.take j).getLast? = some (.ins table cols vals))) :=
  replay_prefix sch run pt h hself hf k hk

/-- **C03.torn_insert_with_a_split_page_table** (witness in the region the hypothesis `PtSelf` excluded
until W10; every state is an output of the model).  `db8` is the database after `CREATE DATABASE` and
eight `CREATE TABLE tN (a INT)`: checkpointed, its page table has split and the row the page table holds
about itself is stale (`¬ PtSelfRoot`).  The append of the ten log records of `INSERT INTO t1 VALUES (1),
…, (9)` (`db9.wal`: nine INSERT records, then the UPDATE record of the catalog row, because the ninth
row moved the root of `t1`) is cut after ANY number `k` of records.  The surviving records replayed on
the store before the statement end without error in a store that abstracts to a plain database where
`t1` holds a row prefix `(1), …, (j)` - a state `Spec.rowPrefixStates` lists - every other table is
untouched and the row-id counter advanced by `j`.  For `k = 9` the INSERT record that moved the root has
survived without its catalog record: the replay itself re-points the catalog row of `t1`, found by its
old offset in a page table that also holds the stale row `(sys_pages, 4096)`. -/
theorem C03_torn_insert_with_a_split_page_table (k : Nat) : ∃ sch8 pt8 tbls8,
    Ckpt sch8 db8 sdb8 pt8 tbls8 ∧ ¬ PtSelfRoot pt8 ∧
    ∃ rK ptR tblsK sdbK stK j,
      replayAll (db9.wal.take k) db8.store = (rK, none, false) ∧
      AbsV rK ptR sch8 tblsK sdbK ∧
      Spec.findTable sdbK [116, 49] = some stK ∧
      (([116, 49] : Bytes), stK.rows.map (·.vals)) ∈ Spec.rowPrefixStates sdb8 (.insert [116, 49] [] lrows9) ∧
      (∀ n, n ≠ ([116, 49] : Bytes) → Spec.findTable sdbK n = Spec.findTable sdb8 n) ∧
      j ≤ 9 ∧ rK.hdr.lastKey = db8.store.hdr.lastKey + j :=
  split_page_table_torn_insert k

end Mkdb.Store

/-! ## the two halves composed: a cut at any byte of the statement's append -/

namespace Mkdb.Store
open Mkdb.Engine Mkdb.Tree Mkdb.Page Mkdb.Tuple Mkdb.Generated

/-- **C03.engine_records_well_formed**: after a history of acknowledged statements (`SpecRun`) from a
database with an empty log and one more accepted statement `e` (INSERT, DELETE or UPDATE, `step`), the
log is the log before the statement followed by the statement's records, and every record in it,
converted field by field to a record of the log file (`toRec`), fits the wire types of `WALEntry`
(`Wal.Rec.wf`: op < 256, lsn < 2^64, page < 2^64, cell < 2^32, value shorter than 2^32 - 25).
Hypotheses: the LSN counter, the allocation frontier and the row-id counter of the store the statement
leaves are values of their Go types (`_nextLSN uint64`, `nextFreeOffset uint64`, `lastKey uint32`) -
this excludes only a wrap-around of these counters, which the model (natural numbers) does not have.
Values need no hypothesis: they passed the size check (`maxValueSize` = 400). -/
theorem C03_engine_records_well_formed (sch : Levels) {db0 dbN dbC : Engine.DB} {sdb0 sdbN sdbC : Spec.SDB}
    {stmts : List EStmt} {e : EStmt}
    (run : SpecRun sch db0 sdb0 stmts dbN sdbN) (step : SpecRun sch dbN sdbN [e] dbC sdbC)
    (hwal : db0.wal = [])
    (pt : Levels) (tbls : List (Bytes × Levels)) (hA : AbsV db0.store pt sch tbls sdb0)
    (hlsn : dbC.store.hdr.nextLSN < 2 ^ 64) (hnf : dbC.store.hdr.nextFree < 2 ^ 64)
    (hlk : dbC.store.hdr.lastKey < 2 ^ 32) :
    dbC.wal = dbN.wal ++ dbC.wal.drop dbN.wal.length ∧ ∀ r ∈ dbC.wal, (toRec r).wf :=
  stmt_wal_wf sch run step hwal pt tbls hA (Nat.le_of_lt hlsn) (Nat.le_of_lt hnf) hlk

/-- **C03.insert_byte_cut_leaves_row_prefix**: hypotheses of `C03_insert_crash_leaves_row_prefix`, and
the three counters of the store the INSERT leaves in memory are values of their Go types.  `walFile l`
is the log file holding the records `l` (`Wal.encodeLog` of their `toRec`); the crash leaves of the
file `walFile dbC.wal` the bytes of the acknowledged log `walFile dbN.wal` and the first `cut` bytes of
what the statement appended - for EVERY `cut`, also inside a length prefix or a record body, or beyond
the end.  Then all records are well formed and there is a `k` (the one of `C03_cut_is_prefix`: the first
`k` frames of the statement lie inside the `cut` bytes, the next one does not) such that
* `wal.read` returns exactly the acknowledged records followed by the first `k` records of the
  statement, flagged torn exactly when the cut is inside a frame;
* the file the reader leaves after truncating the torn tail is exactly the file of these records, so
  that anything appended later (`more`: the records of statements issued after the recovery) is read
  back right behind them;
* replaying these records on the store the history started from gives a row-prefix state: the
  conclusion of `C03_insert_crash_leaves_row_prefix`, verbatim, for this `k`. -/
theorem C03_insert_byte_cut_leaves_row_prefix (sch : Levels) {db0 dbN : Engine.DB} {sdb0 sdbN : Spec.SDB}
    {stmts : List EStmt} (run : SpecRun sch db0 sdb0 stmts dbN sdbN) (hwal : db0.wal = [])
    (pt : Levels) (tbls : List (Bytes × Levels)) (hA : AbsV db0.store pt sch tbls sdb0)
    (hself : PtSelf pt) (hf : FreshM db0.store tbls)
    (table : Bytes) (cols : List Bytes) (lrows : List (List Sql.Lit))
    (hvalid : ∀ r ∈ lrows.map (fun r => r.map Spec.litVal), ∀ v ∈ r, ValidVal v) (sdbC : Spec.SDB)
    (hspec : Spec.specInsert sdbN table cols (lrows.map fun r => r.map Spec.litVal) = some sdbC)
    (hrunok : ∀ pt tbls t schema, AbsV dbN.store pt sch tbls sdbN → (table, t) ∈ tbls →
      schemaOf sch table = some schema →
      InsRunOK schema (cols.map Engine.bytesToName) t dbN.store.hdr.lastKey dbN.store.hdr.nextLSN
        dbN.store.hdr.nextFree (lrows.map fun r => r.map Spec.litVal))
    (n : Nat) (dbC : Engine.DB)
    (heval : Engine.evalInsert dbN table cols (lrows.map fun r => r.map Spec.litVal) = .ok n dbC)
    (hlsn : dbC.store.hdr.nextLSN < 2 ^ 64) (hnf : dbC.store.hdr.nextFree < 2 ^ 64)
    (hlk : dbC.store.hdr.lastKey < 2 ^ 32) (cut : Nat) :
    (∀ r ∈ dbC.wal, (toRec r).wf) ∧
    ∃ k torn,
      (k ≤ (dbC.wal.drop dbN.wal.length).length ∧
       Wal.readLog ((walFile dbC.wal).take ((walFile dbN.wal).length + cut))
         = .ok ((dbN.wal ++ (dbC.wal.drop dbN.wal.length).take k).map toRec)
             (walFile (dbN.wal ++ (dbC.wal.drop dbN.wal.length).take k)).length torn ∧
       (walFile ((dbC.wal.drop dbN.wal.length).take k)).length ≤ cut ∧
       (k < (dbC.wal.drop dbN.wal.length).length →
         cut < (walFile ((dbC.wal.drop dbN.wal.length).take (k+1))).length) ∧
       (torn = true ↔ (walFile ((dbC.wal.drop dbN.wal.length).take k)).length <
         min cut (walFile (dbC.wal.drop dbN.wal.length)).length) ∧
       Wal.afterRead ((walFile dbC.wal).take ((walFile dbN.wal).length + cut))
         = walFile (dbN.wal ++ (dbC.wal.drop dbN.wal.length).take k) ∧
       ∀ more : List Wal.Rec, (∀ r ∈ more, r.wf) →
         Wal.readLog (Wal.afterRead ((walFile dbC.wal).take ((walFile dbN.wal).length + cut)) ++
             Wal.encodeLog more)
           = .ok ((dbN.wal ++ (dbC.wal.drop dbN.wal.length).take k).map toRec ++ more)
               (Wal.encodeLog ((dbN.wal ++ (dbC.wal.drop dbN.wal.length).take k).map toRec ++ more)).length
               false) ∧
      ∃ rK ptR tblsK sdbK stK j,
        replayAll (dbN.wal ++ (dbC.wal.drop dbN.wal.length).take k) db0.store = (rK, none, false) ∧
        AbsV rK ptR sch tblsK sdbK ∧
        Spec.findTable sdbK table = some stK ∧
        (table, stK.rows.map (·.vals)) ∈ Spec.rowPrefixStates sdbN (.insert table cols lrows) ∧
        (∀ n, n ≠ table → Spec.findTable sdbK n = Spec.findTable sdbN n) ∧
        j ≤ lrows.length ∧ rK.hdr.lastKey = dbN.store.hdr.lastKey + j :=
  insert_byte_cut sch run hwal pt tbls hA hself hf table cols lrows hvalid sdbC hspec hrunok n dbC heval
    (Nat.le_of_lt hlsn) (Nat.le_of_lt hnf) hlk cut

/-- non-vacuity, on the database the model computes for `CREATE DATABASE; CREATE TABLE t (a INT)`
(`tableDB`): `INSERT INTO t VALUES (5), (6)` logs two records of 34 bytes; the file cut after 54 bytes
(16 bytes into the 30-byte body of the second record) is read as the first record, torn, and truncated
to it; replaying it gives the table with exactly the row `(5)` (`sdbA5`), row-id counter 11 -/
example : ∃ db1 rK ptR tblsK,
    Engine.evalInsert tableDB tname [] [[.int 5], [.int 6]] = .ok 2 db1 ∧
    db1.wal = [recT1, recT2] ∧ (walFile db1.wal).length = 68 ∧
    (∀ r ∈ db1.wal, (toRec r).wf) ∧
    ByteCut tableDB.wal db1.wal 54 1 true ∧
    Wal.readLog ((walFile db1.wal).take 54) = .ok [toRec recT1] 34 true ∧
    Wal.afterRead ((walFile db1.wal).take 54) = walFile [recT1] ∧
    replayAll [recT1] tableDB.store = (rK, none, false) ∧
    AbsV rK ptR schT tblsK sdbA5 ∧ rK.hdr.lastKey = 11 := byte_cut_example

/-- **C03.delete_byte_cut_leaves_row_prefix**: likewise for DELETE, with the hypotheses and the
conclusion of `C03_delete_crash_leaves_row_prefix`. -/
theorem C03_delete_byte_cut_leaves_row_prefix (sch : Levels) {db0 dbN : Engine.DB} {sdb0 sdbN : Spec.SDB}
    {stmts : List EStmt} (run : SpecRun sch db0 sdb0 stmts dbN sdbN) (hwal : db0.wal = [])
    (pt : Levels) (tbls : List (Bytes × Levels)) (hA : AbsV db0.store pt sch tbls sdb0)
    (hself : PtSelf pt) (hf : FreshM db0.store tbls)
    (table : Bytes) (w : Option Sql.Cond) (sdbC : Spec.SDB)
    (hspec : Spec.specDelete sdbN table w = some sdbC)
    (n : Nat) (dbC : Engine.DB) (heval : Engine.evalDelete dbN table w = .ok n dbC)
    (hlsn : dbC.store.hdr.nextLSN < 2 ^ 64) (hnf : dbC.store.hdr.nextFree < 2 ^ 64)
    (hlk : dbC.store.hdr.lastKey < 2 ^ 32) (cut : Nat) :
    (∀ r ∈ dbC.wal, (toRec r).wf) ∧
    ∃ k torn,
      (k ≤ (dbC.wal.drop dbN.wal.length).length ∧
       Wal.readLog ((walFile dbC.wal).take ((walFile dbN.wal).length + cut))
         = .ok ((dbN.wal ++ (dbC.wal.drop dbN.wal.length).take k).map toRec)
             (walFile (dbN.wal ++ (dbC.wal.drop dbN.wal.length).take k)).length torn ∧
       (walFile ((dbC.wal.drop dbN.wal.length).take k)).length ≤ cut ∧
       (k < (dbC.wal.drop dbN.wal.length).length →
         cut < (walFile ((dbC.wal.drop dbN.wal.length).take (k+1))).length) ∧
       (torn = true ↔ (walFile ((dbC.wal.drop dbN.wal.length).take k)).length <
         min cut (walFile (dbC.wal.drop dbN.wal.length)).length) ∧
       Wal.afterRead ((walFile dbC.wal).take ((walFile dbN.wal).length + cut))
         = walFile (dbN.wal ++ (dbC.wal.drop dbN.wal.length).take k) ∧
       ∀ more : List Wal.Rec, (∀ r ∈ more, r.wf) →
         Wal.readLog (Wal.afterRead ((walFile dbC.wal).take ((walFile dbN.wal).length + cut)) ++
             Wal.encodeLog more)
           = .ok ((dbN.wal ++ (dbC.wal.drop dbN.wal.length).take k).map toRec ++ more)
               (Wal.encodeLog ((dbN.wal ++ (dbC.wal.drop dbN.wal.length).take k).map toRec ++ more)).length
               false) ∧
      ∃ rK ptK tblsK sdbK stK,
        replayAll (dbN.wal ++ (dbC.wal.drop dbN.wal.length).take k) db0.store = (rK, none, false) ∧
        AbsV rK ptK sch tblsK sdbK ∧
        Spec.findTable sdbK table = some stK ∧
        (table, stK.rows.map (·.vals)) ∈ Spec.rowPrefixStates sdbN (.delete table w) ∧
        (∀ n, n ≠ table → Spec.findTable sdbK n = Spec.findTable sdbN n) ∧
        rK.hdr.lastKey = dbN.store.hdr.lastKey ∧ rK.hdr.nextFree = dbN.store.hdr.nextFree :=
  delete_byte_cut sch run hwal pt tbls hA hself hf table w sdbC hspec n dbC heval
    (Nat.le_of_lt hlsn) (Nat.le_of_lt hnf) hlk cut

/-- non-vacuity: on `tableDB`, after the acknowledged `INSERT INTO t VALUES (5), (6)` and
`UPDATE t SET a = 7 WHERE a = 5` (three records), `DELETE FROM t WHERE a = 6` appends one record of 29
bytes; position 40 behind the history is beyond the end: all four records are read, not torn -/
example : ∃ db2 db3,
    SpecRun schT tableDB sdbA0 [.insert tname [] [[.int 5], [.int 6]],
      .update tname [([97], .lit (.int 7))] (some (condEq 5))] db2 sdbA2 ∧
    Engine.evalDelete db2 tname (some (condEq 6)) = .ok 1 db3 ∧
    db2.wal = [recT1, recT2, recT3] ∧ db3.wal = [recT1, recT2, recT3, recT4] ∧
    (∀ r ∈ db3.wal, (toRec r).wf) ∧
    ByteCut db2.wal db3.wal 40 1 false ∧
    ∃ rK ptK tblsK sdbK stK,
      replayAll [recT1, recT2, recT3, recT4] tableDB.store = (rK, none, false) ∧
      AbsV rK ptK schT tblsK sdbK ∧
      Spec.findTable sdbK tname = some stK ∧
      (tname, stK.rows.map (·.vals)) ∈ Spec.rowPrefixStates sdbA2 (.delete tname (some (condEq 6))) :=
  delete_byte_cut_example

/-- **C03.update_byte_cut_leaves_row_prefix**: likewise for UPDATE, with the hypotheses and the
conclusion of `C03_update_crash_leaves_row_prefix`. -/
theorem C03_update_byte_cut_leaves_row_prefix (sch : Levels) {db0 dbN : Engine.DB} {sdb0 sdbN : Spec.SDB}
    {stmts : List EStmt} (run : SpecRun sch db0 sdb0 stmts dbN sdbN) (hwal : db0.wal = [])
    (pt : Levels) (tbls : List (Bytes × Levels)) (hA : AbsV db0.store pt sch tbls sdb0)
    (hself : PtSelf pt) (hf : FreshM db0.store tbls)
    (table : Bytes) (sets : List (Bytes × Sql.VExpr)) (w : Option Sql.Cond)
    (hvalid : ∀ p ∈ sets, ∀ l, p.2 = .lit l → ValidVal (Engine.litToVal l)) (sdbC : Spec.SDB)
    (hspec : Spec.specUpdate sdbN table sets w = some sdbC)
    (dbC : Engine.DB) (heval : Engine.evalUpdate dbN table sets w = .ok () dbC)
    (hlsn : dbC.store.hdr.nextLSN < 2 ^ 64) (hnf : dbC.store.hdr.nextFree < 2 ^ 64)
    (hlk : dbC.store.hdr.lastKey < 2 ^ 32) (cut : Nat) :
    (∀ r ∈ dbC.wal, (toRec r).wf) ∧
    ∃ k torn,
      (k ≤ (dbC.wal.drop dbN.wal.length).length ∧
       Wal.readLog ((walFile dbC.wal).take ((walFile dbN.wal).length + cut))
         = .ok ((dbN.wal ++ (dbC.wal.drop dbN.wal.length).take k).map toRec)
             (walFile (dbN.wal ++ (dbC.wal.drop dbN.wal.length).take k)).length torn ∧
       (walFile ((dbC.wal.drop dbN.wal.length).take k)).length ≤ cut ∧
       (k < (dbC.wal.drop dbN.wal.length).length →
         cut < (walFile ((dbC.wal.drop dbN.wal.length).take (k+1))).length) ∧
       (torn = true ↔ (walFile ((dbC.wal.drop dbN.wal.length).take k)).length <
         min cut (walFile (dbC.wal.drop dbN.wal.length)).length) ∧
       Wal.afterRead ((walFile dbC.wal).take ((walFile dbN.wal).length + cut))
         = walFile (dbN.wal ++ (dbC.wal.drop dbN.wal.length).take k) ∧
       ∀ more : List Wal.Rec, (∀ r ∈ more, r.wf) →
         Wal.readLog (Wal.afterRead ((walFile dbC.wal).take ((walFile dbN.wal).length + cut)) ++
             Wal.encodeLog more)
           = .ok ((dbN.wal ++ (dbC.wal.drop dbN.wal.length).take k).map toRec ++ more)
               (Wal.encodeLog ((dbN.wal ++ (dbC.wal.drop dbN.wal.length).take k).map toRec ++ more)).length
               false) ∧
      ∃ rK ptK tblsK sdbK stK,
        replayAll (dbN.wal ++ (dbC.wal.drop dbN.wal.length).take k) db0.store = (rK, none, false) ∧
        AbsV rK ptK sch tblsK sdbK ∧
        Spec.findTable sdbK table = some stK ∧
        (table, stK.rows.map (·.vals)) ∈ Spec.rowPrefixStates sdbN (.update table sets w) ∧
        (∀ n, n ≠ table → Spec.findTable sdbK n = Spec.findTable sdbN n) ∧
        rK.hdr.lastKey = dbN.store.hdr.lastKey ∧ rK.hdr.nextFree = dbN.store.hdr.nextFree :=
  update_byte_cut sch run hwal pt tbls hA hself hf table sets w hvalid sdbC hspec dbC heval
    (Nat.le_of_lt hlsn) (Nat.le_of_lt hnf) hlk cut

/-- non-vacuity: on `tableDB`, after the acknowledged `INSERT INTO t VALUES (5), (6)` (two records, 68
bytes), `UPDATE t SET a = 7 WHERE a = 5` appends one record of 34 bytes; the file cut 20 bytes into it
is read as the two records of the history, torn; replaying them gives a row-prefix state of the UPDATE
(no row rewritten), row-id counter 12 -/
example : ∃ db1 db2,
    SpecRun schT tableDB sdbA0 [.insert tname [] [[.int 5], [.int 6]]] db1 sdbA1 ∧
    Engine.evalUpdate db1 tname [([97], .lit (.int 7))] (some (condEq 5)) = .ok () db2 ∧
    db1.wal = [recT1, recT2] ∧ db2.wal = [recT1, recT2, recT3] ∧
    (∀ r ∈ db2.wal, (toRec r).wf) ∧
    ByteCut db1.wal db2.wal 20 0 true ∧
    ∃ rK ptK tblsK sdbK stK,
      replayAll [recT1, recT2] tableDB.store = (rK, none, false) ∧
      AbsV rK ptK schT tblsK sdbK ∧
      Spec.findTable sdbK tname = some stK ∧
      (tname, stK.rows.map (·.vals)) ∈
        Spec.rowPrefixStates sdbA1 (.update tname [([97], .lit (.int 7))] (some (condEq 5))) ∧
      rK.hdr.lastKey = 12 := update_byte_cut_example

/-- non-vacuity of `C03_engine_records_well_formed`: the history INSERT, then the UPDATE, on `tableDB` -/
example : ∃ db1 db2,
    SpecRun schT tableDB sdbA0 [.insert tname [] [[.int 5], [.int 6]]] db1 sdbA1 ∧
    SpecRun schT db1 sdbA1 [.update tname [([97], .lit (.int 7))] (some (condEq 5))] db2 sdbA2 ∧
    db2.store.hdr = ⟨12, 4096, 16384, 13⟩ ∧ db2.wal.map toRec = [toRec recT1, toRec recT2, toRec recT3] := by
  obtain ⟨db1, db2, _, run1, e2, _, _, _, hw2, hh2, _⟩ := historyT
  exact ⟨db1, db2, run1, .update _ _ _ validSet7 specA2 e2 (.nil db2 sdbA2), hh2, by rw [hw2]; rfl⟩

end Mkdb.Store

/-! ## the range hypotheses discharged by the length of the history (W16) -/

namespace Mkdb.Store
open Mkdb.Engine Mkdb.Tree Mkdb.Page Mkdb.Tuple Mkdb.Generated

/-- **C03.engine_records_well_formed_below_the_wrap**: `C03_engine_records_well_formed` with its three range
hypotheses (`nextLSN < 2^64`, `nextFree < 2^64`, `lastKey < 2^32` in the store the statement leaves) replaced
by a bound on the history: the database `db0` the acknowledged statements start from is reached from CREATE
DATABASE by ANY history `Hist newDB w db0` (statements accepted or refused, CREATE TABLEs, flushes, crashes
and recoveries; `C02_counters_after_any_history`), and the total work of that history plus the number of
records the acknowledged statements and the last one logged is at most `2^32 - 9` (`maxRows`; the bound
under which no counter has wrapped, `C02_counters_fit_their_go_types`).  Then every record of the log fits the
wire types of `WALEntry`. -/
theorem C03_engine_records_well_formed_below_the_wrap (sch : Levels) {db0 dbN dbC : Engine.DB}
    {sdb0 sdbN sdbC : Spec.SDB} {stmts : List EStmt} {e : EStmt} {w : Work} (hist : Hist newDB w db0)
    (run : SpecRun sch db0 sdb0 stmts dbN sdbN) (step : SpecRun sch dbN sdbN [e] dbC sdbC)
    (hwal : db0.wal = [])
    (pt : Levels) (tbls : List (Bytes × Levels)) (hA : AbsV db0.store pt sch tbls sdb0)
    (hN : w.total + dbC.wal.length ≤ 4294967287) :
    dbC.wal = dbN.wal ++ dbC.wal.drop dbN.wal.length ∧ ∀ r ∈ dbC.wal, (toRec r).wf := by
  obtain ⟨hlk, hlsn, hnf⟩ := hist_run_fit hist ((specRun_adv run).1.trans (specRun_adv step).1)
    (by rw [hwal]; exact hN)
  exact C03_engine_records_well_formed sch run step hwal pt tbls hA hlsn
    (Nat.lt_trans hnf (by decide)) hlk

/-- non-vacuity: `tableDB` is reached by the history `CREATE TABLE t (a INT)` (work 3: two catalog rows, one
table); the acknowledged INSERT of two rows and the UPDATE log three records -/
example : ∃ db1 db2,
    Hist newDB ⟨2, 1, 0, 0, 0⟩ tableDB ∧
    SpecRun schT tableDB sdbA0 [.insert tname [] [[.int 5], [.int 6]]] db1 sdbA1 ∧
    SpecRun schT db1 sdbA1 [.update tname [([97], .lit (.int 7))] (some (condEq 5))] db2 sdbA2 ∧
    (⟨2, 1, 0, 0, 0⟩ : Work).total + db2.wal.length ≤ 4294967287 := by
  obtain ⟨db1, db2, _, run1, e2, _, _, _, hw2, hh2, _⟩ := historyT
  exact ⟨db1, db2, hist_tableDB, run1, .update _ _ _ validSet7 specA2 e2 (.nil db2 sdbA2), by rw [hw2]; decide⟩

/-- **C03.insert_byte_cut_leaves_row_prefix_below_the_wrap**: `C03_insert_byte_cut_leaves_row_prefix` with
its three range hypotheses replaced by the bound on the history (as in
`C03_engine_records_well_formed_below_the_wrap`: `db0` reached from CREATE DATABASE by any history of work
`w`, and `w.total` plus the number of records in the log the INSERT leaves at most `2^32 - 9`).  The
conclusion is that of `C03_insert_byte_cut_leaves_row_prefix`, verbatim. -/
theorem C03_insert_byte_cut_leaves_row_prefix_below_the_wrap (sch : Levels) {db0 dbN : Engine.DB}
    {sdb0 sdbN : Spec.SDB} {stmts : List EStmt} {w : Work} (hist : Hist newDB w db0)
    (run : SpecRun sch db0 sdb0 stmts dbN sdbN) (hwal : db0.wal = [])
    (pt : Levels) (tbls : List (Bytes × Levels)) (hA : AbsV db0.store pt sch tbls sdb0)
    (hself : PtSelf pt) (hf : FreshM db0.store tbls)
    (table : Bytes) (cols : List Bytes) (lrows : List (List Sql.Lit))
    (hvalid : ∀ r ∈ lrows.map (fun r => r.map Spec.litVal), ∀ v ∈ r, ValidVal v) (sdbC : Spec.SDB)
    (hspec : Spec.specInsert sdbN table cols (lrows.map fun r => r.map Spec.litVal) = some sdbC)
    (hrunok : ∀ pt tbls t schema, AbsV dbN.store pt sch tbls sdbN → (table, t) ∈ tbls →
      schemaOf sch table = some schema →
      InsRunOK schema (cols.map Engine.bytesToName) t dbN.store.hdr.lastKey dbN.store.hdr.nextLSN
        dbN.store.hdr.nextFree (lrows.map fun r => r.map Spec.litVal))
    (n : Nat) (dbC : Engine.DB)
    (heval : Engine.evalInsert dbN table cols (lrows.map fun r => r.map Spec.litVal) = .ok n dbC)
    (hN : w.total + dbC.wal.length ≤ 4294967287) (cut : Nat) :
    (∀ r ∈ dbC.wal, (toRec r).wf) ∧
    ∃ k torn,
      (k ≤ (dbC.wal.drop dbN.wal.length).length ∧
       Wal.readLog ((walFile dbC.wal).take ((walFile dbN.wal).length + cut))
         = .ok ((dbN.wal ++ (dbC.wal.drop dbN.wal.length).take k).map toRec)
             (walFile (dbN.wal ++ (dbC.wal.drop dbN.wal.length).take k)).length torn ∧
       (walFile ((dbC.wal.drop dbN.wal.length).take k)).length ≤ cut ∧
       (k < (dbC.wal.drop dbN.wal.length).length →
         cut < (walFile ((dbC.wal.drop dbN.wal.length).take (k+1))).length) ∧
       (torn = true ↔ (walFile ((dbC.wal.drop dbN.wal.length).take k)).length <
         min cut (walFile (dbC.wal.drop dbN.wal.length)).length) ∧
       Wal.afterRead ((walFile dbC.wal).take ((walFile dbN.wal).length + cut))
         = walFile (dbN.wal ++ (dbC.wal.drop dbN.wal.length).take k) ∧
       ∀ more : List Wal.Rec, (∀ r ∈ more, r.wf) →
         Wal.readLog (Wal.afterRead ((walFile dbC.wal).take ((walFile dbN.wal).length + cut)) ++
             Wal.encodeLog more)
           = .ok ((dbN.wal ++ (dbC.wal.drop dbN.wal.length).take k).map toRec ++ more)
               (Wal.encodeLog ((dbN.wal ++ (dbC.wal.drop dbN.wal.length).take k).map toRec ++ more)).length
               false) ∧
      ∃ rK ptR tblsK sdbK stK j,
        replayAll (dbN.wal ++ (dbC.wal.drop dbN.wal.length).take k) db0.store = (rK, none, false) ∧
        AbsV rK ptR sch tblsK sdbK ∧
        Spec.findTable sdbK table = some stK ∧
        (table, stK.rows.map (·.vals)) ∈ Spec.rowPrefixStates sdbN (.insert table cols lrows) ∧
        (∀ n, n ≠ table → Spec.findTable sdbK n = Spec.findTable sdbN n) ∧
        j ≤ lrows.length ∧ rK.hdr.lastKey = dbN.store.hdr.lastKey + j := by
  obtain ⟨hlk, hlsn, hnf⟩ := hist_run_fit hist ((specRun_adv run).1.trans (evalInsert_runAdv heval))
    (by rw [hwal]; exact hN)
  exact C03_insert_byte_cut_leaves_row_prefix sch run hwal pt tbls hA hself hf table cols lrows hvalid sdbC hspec
    hrunok n dbC heval hlsn (Nat.lt_trans hnf (by decide)) hlk cut

/-- non-vacuity: the history `CREATE TABLE t (a INT)` to `tableDB` and `INSERT INTO t VALUES (5), (6)` on it
(the example of `C03_insert_byte_cut_leaves_row_prefix`): work 3, two records -/
example : ∃ db1, Hist newDB ⟨2, 1, 0, 0, 0⟩ tableDB ∧ tableDB.wal = [] ∧
    Engine.evalInsert tableDB tname [] [[.int 5], [.int 6]] = .ok 2 db1 ∧
    (⟨2, 1, 0, 0, 0⟩ : Work).total + db1.wal.length ≤ 4294967287 := by
  obtain ⟨db1, _, _, _, e1, hw, _⟩ := byte_cut_example
  exact ⟨db1, hist_tableDB, rfl, e1, by rw [hw]; decide⟩

end Mkdb.Store
