import Mkdb.Proofs.Wal
/-!
# C03 — a crash while a statement is being logged leaves a row-prefix state

Property theorems only.  Quantifier: every list of well-formed records (any number, any values), and
every cut position `n` of the log file - every byte position, not only the boundaries between the
writes `wal.flush` issues.  What is proved is the log-file half of the property: the reader never
sees a later record without the earlier ones, never half a record, never an error, and what is
appended after recovery is read back right behind the surviving prefix.  That each record is one
row operation applied in statement order, and that replaying a prefix of the records yields the
corresponding table state, is the concrete model `Mkdb.Engine.recover`, compared with the
implementation on crash images taken before every write and sync of the log (partial: no theorem).
-/
namespace Mkdb.Wal

/-- **C03.roundtrip**: every log the writer produces is read back completely and is not flagged torn. -/
theorem C03_roundtrip (rs : List Rec) (h : ∀ r ∈ rs, r.wf) :
    readLog (encodeLog rs) = .ok rs (encodeLog rs).length false := readLog_encodeLog rs h

/-- **C03.cut_is_prefix**: reading the first `n` bytes of a log - a crash at any point of the append -
yields exactly the records whose frames lie completely inside those bytes: a prefix `rs.take k` of
what was written, with `k` maximal, no partial record and no error; the tail is flagged torn exactly
when the cut is inside a frame. -/
theorem C03_cut_is_prefix (rs : List Rec) (h : ∀ r ∈ rs, r.wf) (n : Nat) :
    ∃ k torn, k ≤ rs.length ∧
      readLog ((encodeLog rs).take n) = .ok (rs.take k) (encodeLog (rs.take k)).length torn ∧
      (encodeLog (rs.take k)).length ≤ n ∧
      (k < rs.length → n < (encodeLog (rs.take (k+1))).length) ∧
      (torn = true ↔ (encodeLog (rs.take k)).length < min n (encodeLog rs).length) :=
  readLog_take rs h n

/-- **C03.append_after_cut**: after the reader has cut the torn tail off, whatever later statements
append is read back right behind the surviving prefix - statements issued after the recovery are
not lost behind garbage. -/
theorem C03_append_after_cut (rs more : List Rec) (h : ∀ r ∈ rs, r.wf) (h' : ∀ r ∈ more, r.wf) (n : Nat) :
    ∃ k, k ≤ rs.length ∧
      readLog (afterRead ((encodeLog rs).take n) ++ encodeLog more) =
        .ok (rs.take k ++ more) (encodeLog (rs.take k ++ more)).length false :=
  append_after_cut rs more h h' n

/-- non-vacuity: a two-record log cut in the middle of its second record -/
example : (⟨1, 7, 3, 2, [0xAA, 0xBB]⟩ : Rec).wf ∧
    readLog ((encodeLog [⟨1, 7, 3, 2, [0xAA, 0xBB]⟩, ⟨2, 8, 4, 0, []⟩]).take 40) = .ok [⟨1, 7, 3, 2, [0xAA, 0xBB]⟩] 31 true := by
  refine ⟨by simp only [Rec.wf, List.length_cons, List.length_nil]; omega, by decide⟩

end Mkdb.Wal
