import Mkdb.Proofs.Wal
import Mkdb.Proofs.CrashPrefix
/-!
# C03 — a crash while a statement is being logged leaves a row-prefix state

Property theorems only.  Quantifier: every list of well-formed records (any number, any values), and
every cut position `n` of the log file - every byte position, not only the boundaries between the
writes `wal.flush` issues.  What is proved is the log-file half of the property: the reader never
sees a later record without the earlier ones, never half a record, never an error, and what is
appended after recovery is read back right behind the surviving prefix.  The storage half follows
(second part of this file, `Mkdb.Store`): after any history of acknowledged statements, a crash that
cuts the append of an INSERT / DELETE / UPDATE after ANY number `k` of its records recovers to a store
that abstracts to a plain-model database in which the statement's table holds one of the row-prefix
states `Spec.rowPrefixStates` lists - the very list the judge of the crash-image runs uses - and
every other table is untouched, with the row-id counter advanced by exactly the rows applied.
Scenario of these theorems: no page of the history reached the data file since `db0` (the append
of a statement's records happens before the flusher can run on its pages; flushes between earlier
statements are the subject of C02/C04).
-/
namespace Mkdb.Wal

/-- **C03.roundtrip**: every log the writer produces is read back completely and is not flagged torn. -/
theorem C03_roundtrip (rs : List Rec) (h : ∀ r ∈ rs, r.wf) :
    readLog (encodeLog rs) = .ok rs (encodeLog rs).length false := readLog_encodeLog rs h

/-- **C03.cut_is_prefix**: reading the first `n` bytes of a log - a crash at any point of the append -
yields exactly the records whose frames lie completely inside those bytes: a prefix `rs.take k` of
what was written, with `k` maximal, no partial record and no error; the tail is flagged torn exactly
when the cut is inside a frame. -/
theorem C03_cut_is_prefix (rs : List Rec) (h : ∀ r ∈ rs, r.wf) (n : Nat) :
    ∃ k torn, k ≤ rs.length ∧
      readLog ((encodeLog rs).take n) = .ok (rs.take k) (encodeLog (rs.take k)).length torn ∧
      (encodeLog (rs.take k)).length ≤ n ∧
      (k < rs.length → n < (encodeLog (rs.take (k+1))).length) ∧
      (torn = true ↔ (encodeLog (rs.take k)).length < min n (encodeLog rs).length) :=
  readLog_take rs h n

/-- **C03.append_after_cut**: after the reader has cut the torn tail off, whatever later statements
append is read back right behind the surviving prefix - statements issued after the recovery are
not lost behind garbage. -/
theorem C03_append_after_cut (rs more : List Rec) (h : ∀ r ∈ rs, r.wf) (h' : ∀ r ∈ more, r.wf) (n : Nat) :
    ∃ k, k ≤ rs.length ∧
      readLog (afterRead ((encodeLog rs).take n) ++ encodeLog more) =
        .ok (rs.take k ++ more) (encodeLog (rs.take k ++ more)).length false :=
  append_after_cut rs more h h' n

/-- non-vacuity: a two-record log cut in the middle of its second record -/
example : (⟨1, 7, 3, 2, [0xAA, 0xBB]⟩ : Rec).wf ∧
    readLog ((encodeLog [⟨1, 7, 3, 2, [0xAA, 0xBB]⟩, ⟨2, 8, 4, 0, []⟩]).take 40) = .ok [⟨1, 7, 3, 2, [0xAA, 0xBB]⟩] 31 true := by
  refine ⟨by simp only [Rec.wf, List.length_cons, List.length_nil]; omega, by decide⟩

end Mkdb.Wal

namespace Mkdb.Store
open Mkdb.Engine Mkdb.Tree Mkdb.Page Mkdb.Tuple Mkdb.Generated

/-- **C03.insert_crash_leaves_row_prefix**: after a history of acknowledged statements (`SpecRun`), a
multi-row INSERT ran in memory and the crash cut the append of its records after `k` of them, for
ANY `k` (an INSERT that moves the root of its table logs two records for that row; a cut between them
is covered: the INSERT record alone re-points the catalog).  Recovery ends without error in a store
that abstracts to a plain database where the table holds its rows before the statement plus the
first `j` new rows - never a later row without an earlier one, never half a row - every other table
is as before, and the row-id counter is the one before the statement plus `j`. -/
theorem C03_insert_crash_leaves_row_prefix (sch : Levels) {db0 dbN : Engine.DB} {sdb0 sdbN : Spec.SDB}
    {stmts : List EStmt} (run : SpecRun sch db0 sdb0 stmts dbN sdbN) (hwal : db0.wal = [])
    (pt : Levels) (tbls : List (Bytes × Levels)) (hA : AbsV db0.store pt sch tbls sdb0)
    (hself : PtSelf pt) (hf : FreshM db0.store tbls)
    (table : Bytes) (cols : List Bytes) (lrows : List (List Sql.Lit))
    (hvalid : ∀ r ∈ lrows.map (fun r => r.map Spec.litVal), ∀ v ∈ r, ValidVal v) (sdbC : Spec.SDB)
    (hspec : Spec.specInsert sdbN table cols (lrows.map fun r => r.map Spec.litVal) = some sdbC)
    (hrunok : ∀ pt tbls t schema, AbsV dbN.store pt sch tbls sdbN → (table, t) ∈ tbls →
      schemaOf sch table = some schema →
      InsRunOK schema (cols.map Engine.bytesToName) t dbN.store.hdr.lastKey dbN.store.hdr.nextLSN
        dbN.store.hdr.nextFree (lrows.map fun r => r.map Spec.litVal))
    (n : Nat) (dbC : Engine.DB)
    (heval : Engine.evalInsert dbN table cols (lrows.map fun r => r.map Spec.litVal) = .ok n dbC) (k : Nat) :
    ∃ rK ptR tblsK sdbK stK j,
      replayAll (dbN.wal ++ (dbC.wal.drop dbN.wal.length).take k) db0.store = (rK, none, false) ∧
      AbsV rK ptR sch tblsK sdbK ∧
      Spec.findTable sdbK table = some stK ∧
      (table, stK.rows.map (·.vals)) ∈ Spec.rowPrefixStates sdbN (.insert table cols lrows) ∧
      (∀ n, n ≠ table → Spec.findTable sdbK n = Spec.findTable sdbN n) ∧
      j ≤ lrows.length ∧ rK.hdr.lastKey = dbN.store.hdr.lastKey + j :=
  insert_crash_rowPrefixState sch run hwal pt tbls hA hself hf table cols lrows hvalid sdbC hspec hrunok n dbC heval k

/-- **C03.delete_crash_leaves_row_prefix**: likewise for DELETE - the first `min k (selected rows)`
selected rows are gone, in the order the statement deleted them. -/
theorem C03_delete_crash_leaves_row_prefix (sch : Levels) {db0 dbN : Engine.DB} {sdb0 sdbN : Spec.SDB}
    {stmts : List EStmt} (run : SpecRun sch db0 sdb0 stmts dbN sdbN) (hwal : db0.wal = [])
    (pt : Levels) (tbls : List (Bytes × Levels)) (hA : AbsV db0.store pt sch tbls sdb0)
    (hself : PtSelf pt) (hf : FreshM db0.store tbls)
    (table : Bytes) (w : Option Sql.Cond) (sdbC : Spec.SDB)
    (hspec : Spec.specDelete sdbN table w = some sdbC)
    (n : Nat) (dbC : Engine.DB) (heval : Engine.evalDelete dbN table w = .ok n dbC) (k : Nat) :
    ∃ rK ptK tblsK sdbK stK,
      replayAll (dbN.wal ++ (dbC.wal.drop dbN.wal.length).take k) db0.store = (rK, none, false) ∧
      AbsV rK ptK sch tblsK sdbK ∧
      Spec.findTable sdbK table = some stK ∧
      (table, stK.rows.map (·.vals)) ∈ Spec.rowPrefixStates sdbN (.delete table w) ∧
      (∀ n, n ≠ table → Spec.findTable sdbK n = Spec.findTable sdbN n) ∧
      rK.hdr.lastKey = dbN.store.hdr.lastKey ∧ rK.hdr.nextFree = dbN.store.hdr.nextFree :=
  delete_crash_rowPrefixState sch run hwal pt tbls hA hself hf table w sdbC hspec n dbC heval k

/-- **C03.update_crash_leaves_row_prefix**: likewise for UPDATE - the first `min k (selected rows)`
selected rows are rewritten, the others are as before. -/
theorem C03_update_crash_leaves_row_prefix (sch : Levels) {db0 dbN : Engine.DB} {sdb0 sdbN : Spec.SDB}
    {stmts : List EStmt} (run : SpecRun sch db0 sdb0 stmts dbN sdbN) (hwal : db0.wal = [])
    (pt : Levels) (tbls : List (Bytes × Levels)) (hA : AbsV db0.store pt sch tbls sdb0)
    (hself : PtSelf pt) (hf : FreshM db0.store tbls)
    (table : Bytes) (sets : List (Bytes × Sql.VExpr)) (w : Option Sql.Cond)
    (hvalid : ∀ p ∈ sets, ∀ l, p.2 = .lit l → ValidVal (Engine.litToVal l)) (sdbC : Spec.SDB)
    (hspec : Spec.specUpdate sdbN table sets w = some sdbC)
    (dbC : Engine.DB) (heval : Engine.evalUpdate dbN table sets w = .ok () dbC) (k : Nat) :
    ∃ rK ptK tblsK sdbK stK,
      replayAll (dbN.wal ++ (dbC.wal.drop dbN.wal.length).take k) db0.store = (rK, none, false) ∧
      AbsV rK ptK sch tblsK sdbK ∧
      Spec.findTable sdbK table = some stK ∧
      (table, stK.rows.map (·.vals)) ∈ Spec.rowPrefixStates sdbN (.update table sets w) ∧
      (∀ n, n ≠ table → Spec.findTable sdbK n = Spec.findTable sdbN n) ∧
      rK.hdr.lastKey = dbN.store.hdr.lastKey ∧ rK.hdr.nextFree = dbN.store.hdr.nextFree :=
  update_crash_rowPrefixState sch run hwal pt tbls hA hself hf table sets w hvalid sdbC hspec dbC heval k

/-- **C03.log_cut_is_statement_prefix** (storage level, any mix of row operations over several
tables): replaying the first `k` records of what a live run logged reproduces the live state after a
prefix of the row operations, page for page on every table and `sys_schema`; the only cut that is not
a row boundary - between the two records of an insert that moved a root - yields the state AFTER that
row with one leaf of the page table carrying an older LSN stamp (`PtRestamp`). -/
theorem C03_log_cut_is_statement_prefix (sch : Levels) {s0 sN : Store} {tbls tblsN : List (Bytes × Levels)}
    {stmts : List RStmt} {logs : List WalRec} (run : LiveRunM sch s0 tbls stmts sN tblsN logs)
    (pt : Levels) (h : Cat s0 pt sch tbls) (hself : PtSelf pt) (hf : FreshM s0 tbls)
    (k : Nat) (hk : k ≤ logs.length) :
    ∃ j sK tblsK logsK ptK ptR rK,
      j ≤ stmts.length ∧
      LiveRunM sch s0 tbls (stmts.take j) sK tblsK logsK ∧
      replayAll (logs.take k) s0 = (rK, none, false) ∧
      Cat sK ptK sch tblsK ∧ Cat rK ptR sch tblsK ∧
      (∀ x ∈ sch :: tblsK.map (·.2), ∀ o ∈ offs x, view rK o = view sK o) ∧
      rK.hdr.nextFree = sK.hdr.nextFree ∧ rK.hdr.lastKey = sK.hdr.lastKey ∧
      rK.hdr.ptRoot = sK.hdr.ptRoot ∧ rK.hdr.nextLSN ≤ sK.hdr.nextLSN ∧
      ((logsK = logs.take k ∧ ptR = ptK ∧ ∀ o ∈ offs ptK, view rK o = view sK o) ∨
       (logsK = logs.take (k + 1) ∧ k + 1 ≤ logs.length ∧ PtRestamp ptR ptK ∧
         ∃ table cols vals, (stmts.take j).getLast? = some (.ins table cols vals))) :=
  replay_prefix sch run pt h hself hf k hk

end Mkdb.Store
