import Mkdb.Props.C10
import Mkdb.Proofs.ScanText8
import Mkdb.Proofs.TextStmt3
/-!
# C10 — parsing is faithful, TEXT level (the scanner)

Property theorems only.  The token-level theorems (`Props/C10.lean`) say which token lists parse to
which statement; here: a token list *written as SQL text* - keywords in any mix of upper and lower
case, any whitespace, line breaks and comments between the tokens - scans back to that token list
(`C10_scan_roundtrip`), so that parsing the text is parsing the token list (`C10_text_parse`).

Vocabulary (definitions in `Proofs/ScanText*.lean`):
* `asciiRune c` - the rune of the ASCII byte `c`;
* `Piece` - one written token: `word rs` (identifier or keyword, any identifier runes), `int ds`
  (decimal digits), `str body` (`'body'`), `punct c` (one of `! ( ) * , . ; < = >`), `op2 c`
  (`!=`, `<=`, `>=` with nothing between the two characters); `Piece.ok` its well-formedness,
  `Piece.tok` the token the scanner reports, `Piece.stop` what the next rune must satisfy;
* `Gap` - what stands between two tokens: a list of whitespace runes (tab, LF, CR, space),
  `/* ... */` comments (body without `*/`) and `// ...` comments ending in a line feed;
* `tokRunes cs t` / `renderText gap cs toks` - a token / a token list as text, `TokOK` the covered tokens,
  `layoutOK` the admissible layouts (every non-empty gap is fine; an empty gap where the next rune
  ends the token anyway), `scanned cs 0 toks` the tokens the scanner reports.
-/
namespace Mkdb.Sql
open Mkdb.Scan Mkdb.Generated Mkdb.Scan.TextEx

/-- **C10.scan_roundtrip** (tokens): every list of covered tokens (`TokOK`: IDENT `[A-Za-z_][A-Za-z0-9_]*`
not spelling a keyword, INT decimal digits, STR ASCII text the scanner reads to its closing quote - e.g.
anything without `'`, backslash, line feed -, every keyword and operator of the table), written with
the gaps `gap` (`gap i` before token `i`, `gap n` at the end) and the keyword cases `cs`, scans to
exactly those tokens: same types in the same order, nothing added or dropped.  The text of IDENT, INT,
STR tokens is the token's; the text of keyword / punctuation tokens is what was typed (`scanned`).
Excludes: layouts where two tokens touch although the second continues the first (`layoutOK`), non-ASCII
identifiers and strings (covered by `C10_scan_roundtrip_pieces`), delimited `"identifiers"`. -/
theorem C10_scan_roundtrip (gap : Nat → Gap) (cs : Nat → List Bool) (toks : List Token)
    (htoks : ∀ t ∈ toks, TokOK t = true) (hlay : layoutOK gap cs 0 toks = true) :
    scanSQL (renderText gap cs toks) = .ok (scanned cs 0 toks) :=
  scanSQL_renderText gap cs toks htoks hlay

/-- **C10.scan_roundtrip, what comes back**: the reported tokens are the written ones up to the text of
keyword and punctuation tokens (`ToksSim`: same length, same types, same text on IDENT/INT/STR) - which
the parser never reads (`parseTokens_textSim`). -/
theorem C10_scanned_same_tokens (cs : Nat → List Bool) (toks : List Token)
    (htoks : ∀ t ∈ toks, TokOK t = true) : ToksSim toks (scanned cs 0 toks) :=
  scanned_sim cs toks htoks 0

/-- **C10.scan_roundtrip** (pieces; the general form): a text made of well-formed gaps and written tokens,
each token followed by a rune that lets it end (`ItemsOK`), scans to exactly the tokens of its pieces.
Words may contain any Unicode letters and digits, string bodies any runes. -/
theorem C10_scan_roundtrip_pieces (items : List (Gap × Piece)) (tail : Gap) (hok : ItemsOK items tail = true) :
    scanSQL (renderItems items tail) = .ok (items.map (·.2.tok)) :=
  scanSQL_items items tail hok

/-- **C10.text_parse** (scanner and parser composed): parsing the text of a covered token list - any
admissible layout, any keyword case - gives exactly what the parser gives on the token list.  With a
token-level theorem `parseTokens toks = .ok s` this is `parseSQL text = .ok s`. -/
theorem C10_text_parse (gap : Nat → Gap) (cs : Nat → List Bool) (toks : List Token)
    (htoks : ∀ t ∈ toks, TokOK t = true) (hlay : layoutOK gap cs 0 toks = true) :
    parseSQL (renderText gap cs toks) = parseTokens toks :=
  parseSQL_renderText gap cs toks htoks hlay

/-- **C10.keyword_case_insensitive**: a word (letters, digits, `_`; ASCII or not) whose ASCII upper-casing
(`strings.ToUpper`) is the spelling of a keyword scans to that keyword's token, whatever the case of its
letters; its text is the word as typed. -/
theorem C10_keyword_case_insensitive (rs : Input) (codes : List Nat) (k : Int) (hk : (codes, k) ∈ kwTable)
    (hok : (Piece.word rs).ok = true) (hup : upperCodes rs = codes) :
    scanSQL rs = .ok [⟨k, textOf rs⟩] := by
  have := scanSQL_piece (.word rs) hok
  rwa [word_tok_kw rs codes k hk hup] at this

/-- **C10.keyword_case_insensitive** (ASCII): every upper/lower case mix `spell cs codes` of a word keyword
scans to the keyword. -/
theorem C10_keyword_any_case (cs : List Bool) (codes : List Nat) (k : Int) (hk : (codes, k) ∈ kwTable)
    (hw : isWordKw codes = true) :
    scanSQL ((spell cs codes).map asciiRune) = .ok [⟨k, (spell cs codes).map UInt8.ofNat⟩] := by
  obtain ⟨hne, hlow, _⟩ := kwTable_shape _ hk
  have h := C10_keyword_case_insensitive ((spell cs codes).map asciiRune) codes k hk ?_ ?_
  · rwa [textOf_ascii] at h
  · have hup : ∀ c ∈ codes, 65 ≤ c ∧ c ≤ 90 := by
      intro c hc
      have := List.all_eq_true.mp hw c hc
      simpa using this
    have hlet := spell_letters codes hup cs
    have hlen := spell_length codes cs
    cases hs : spell cs codes with
    | nil =>
      rw [hs] at hlen
      cases codes with
      | nil => exact absurd rfl hne
      | cons c r => simp at hlen
    | cons d ds =>
      rw [hs] at hlet
      have hd := asciiLetter_start d (hlet d (List.mem_cons_self ..))
      obtain ⟨h1', h2', h3'⟩ := isIdentStart_rune _ hd.1
      simp only [List.map_cons, Piece.ok, h1', asciiRune_code, h2', h3', Bool.not_false, Bool.and_true, Bool.true_and,
        List.all_eq_true, List.mem_map, forall_exists_index, and_imp, forall_apply_eq_imp_iff₂]
      intro a ha
      exact isIdentPart_rune _ (asciiLetter_start a (hlet a (List.mem_cons_of_mem _ ha))).2
  · rw [upperCodes_ascii, spell_upper codes hlow cs]

/-- **C10.keyword_vs_identifier**: a word scans to an IDENT token exactly when its upper-casing is not a
keyword, and then the IDENT's text is the word; otherwise it is the keyword with that upper-casing.  So
an identifier is never taken for a keyword nor a keyword for an identifier. -/
theorem C10_keyword_vs_identifier (rs : Input) (hok : (Piece.word rs).ok = true) :
    (keywordOf (upperCodes rs) = none → scanSQL rs = .ok [⟨t_IDENT, textOf rs⟩]) ∧
    (∀ k, keywordOf (upperCodes rs) = some k →
      scanSQL rs = .ok [⟨k, textOf rs⟩] ∧ k ≠ t_IDENT ∧ (upperCodes rs, k) ∈ kwTable) := by
  have h := scanSQL_piece (.word rs) hok
  refine ⟨?_, ?_⟩
  · intro hn
    simpa only [Piece.runes, Piece.tok, hn] using h
  · intro k hk
    refine ⟨?_, kwTable_ty_ne_ident _ (keywordOf_mem _ _ hk), keywordOf_mem _ _ hk⟩
    simpa only [Piece.runes, Piece.tok, hk] using h

/-- **C10.whitespace_irrelevant**: two admissible layouts of the same tokens (different spaces, tabs, line
breaks, comments) scan to the same token list. -/
theorem C10_whitespace_irrelevant (gap gap' : Nat → Gap) (cs : Nat → List Bool) (toks : List Token)
    (htoks : ∀ t ∈ toks, TokOK t = true) (h1 : layoutOK gap cs 0 toks = true)
    (h2 : layoutOK gap' cs 0 toks = true) :
    scanSQL (renderText gap cs toks) = scanSQL (renderText gap' cs toks) := by
  rw [C10_scan_roundtrip gap cs toks htoks h1, C10_scan_roundtrip gap' cs toks htoks h2]

/-- **C10.layout_and_case_irrelevant**: two texts of the same tokens - different layouts, different keyword
cases - parse to the same result. -/
theorem C10_layout_and_case_irrelevant (gap gap' : Nat → Gap) (cs cs' : Nat → List Bool) (toks : List Token)
    (htoks : ∀ t ∈ toks, TokOK t = true) (h1 : layoutOK gap cs 0 toks = true)
    (h2 : layoutOK gap' cs' 0 toks = true) :
    parseSQL (renderText gap cs toks) = parseSQL (renderText gap' cs' toks) := by
  rw [C10_text_parse gap cs toks htoks h1, C10_text_parse gap' cs' toks htoks h2]

/-- **C10.spaced_layout**: well-formed gaps with at least one whitespace rune or comment between any two
tokens are an admissible layout, whatever the tokens. -/
theorem C10_spaced_layout (gap : Nat → Gap) (cs : Nat → List Bool) (toks : List Token)
    (hgap : ∀ i, Gap.ok (gap i) = true) (hsp : ∀ j, 0 < j → j < toks.length → gap j ≠ []) :
    layoutOK gap cs 0 toks = true :=
  layoutOK_of_spaced gap cs toks hgap 0 (fun j h1 h2 => hsp j h1 (by omega))

/-- **C10.string_plain**: an ASCII string without `'`, backslash and line feed is a covered STR token. -/
theorem C10_string_plain (bs : Bytes)
    (h : ∀ b ∈ bs, b.toNat < 128 ∧ b ≠ 39 ∧ b ≠ 92 ∧ b ≠ 10) : TokOK ⟨t_STR, bs⟩ = true := by
  have e1 : (t_STR == t_IDENT) = false := by decide
  have e2 : (t_STR == t_INT) = false := by decide
  simp only [TokOK, e1, e2, beq_self_eq_true, Bool.false_eq_true, ↓reduceIte, Bool.and_eq_true, List.all_eq_true,
    decide_eq_true_eq]
  refine ⟨fun b hb => (h b hb).1, strBodyOK_plain _ ?_ ?_⟩
  · intro r hr
    simp only [List.mem_map] at hr
    obtain ⟨b, hb, rfl⟩ := hr
    obtain ⟨_, h2, h3, h4⟩ := h b hb
    have : ∀ n : Nat, b.toNat = n → b = UInt8.ofNat n := by
      intro n hn; rw [← hn, UInt8.ofNat_toNat]
    simp only [asciiRune_code, Bool.or_eq_false_iff, beq_eq_false_iff_ne]
    exact ⟨⟨fun hh => h2 (this 39 hh), fun hh => h4 (this 10 hh)⟩, fun hh => h3 (this 92 hh)⟩
  · intro b hb
    rw [textOf_bytes] at hb
    exact (h b hb).2.2.1

/-! ## Non-vacuity: concrete texts -/

/-- the rendered text is the intended text -/
example : (renderText exGap exCase exToks).map (·.code) =
    strCodes "sElEcT a , COUNT(*) from t\n WHERE a <= 10 AND b != 'x y' GROUP BY a ;" := by decide

/-- it scans to the expected tokens (computed by the model, not through the theorem) ... -/
example : scanSQL (renderText exGap exCase exToks) = .ok [⟨t_SELECT, [115, 69, 108, 69, 99, 84]⟩, ⟨t_IDENT, [97]⟩,
    ⟨t_COMMA, [44]⟩, ⟨t_COUNT, [67, 79, 85, 78, 84]⟩, ⟨t_LPAREN, [40]⟩, ⟨t_ASTRSK, [42]⟩, ⟨t_RPAREN, [41]⟩,
    ⟨t_FROM, [102, 114, 111, 109]⟩, ⟨t_IDENT, [116]⟩, ⟨t_WHERE, [87, 72, 69, 82, 69]⟩, ⟨t_IDENT, [97]⟩, ⟨t_LTE, [60]⟩,
    ⟨t_INT, [49, 48]⟩, ⟨t_AND, [65, 78, 68]⟩, ⟨t_IDENT, [98]⟩, ⟨t_NEQ, [33]⟩, ⟨t_STR, [120, 32, 121]⟩,
    ⟨t_GROUP, [71, 82, 79, 85, 80]⟩, ⟨t_BY, [66, 89]⟩, ⟨t_IDENT, [97]⟩, ⟨t_SEMICOLON, [59]⟩] := by rfl

/-- ... which is what the theorem says (`scanned`) ... -/
example : scanSQL (renderText exGap exCase exToks) = .ok (scanned exCase 0 exToks) :=
  C10_scan_roundtrip exGap exCase exToks exToks_ok.1 exToks_ok.2

/-- ... and parses to the expected statement: `a` and `COUNT(*)`, `a <= 10 AND b != 'x y'`, `GROUP BY a`. -/
example : parseSQL (renderText exGap exCase exToks) = .ok (.select
    { list := [⟨.expr (.val (.col ⟨[], [97]⟩)), []⟩, ⟨.count none, []⟩],
      from_ := some (.table ⟨[116], none⟩),
      where_ := some (.and ⟨.col ⟨[], [97]⟩, t_LTE, .lit (.int 10)⟩ (.pred ⟨.col ⟨[], [98]⟩, t_NEQ, .lit (.str [120, 32, 121])⟩)),
      groupBy := [⟨[], [97]⟩] }) := by rfl

/-- the reported tokens are the written ones up to keyword text -/
example : ToksSim exToks (scanned exCase 0 exToks) := C10_scanned_same_tokens exCase exToks exToks_ok.1

/-- through the theorem: the text parses as its token list does -/
example : parseSQL (renderText exGap exCase exToks) = parseTokens exToks :=
  C10_text_parse exGap exCase exToks exToks_ok.1 exToks_ok.2

example : (renderText exGap2 exCase2 exToks2).map (·.code) = strCodes "/* q */select\tt.a,b//x\r\nfrom t;\r\n" := by decide

example : parseSQL (renderText exGap2 exCase2 exToks2) = .ok (.select
    { list := [⟨.expr (.val (.col ⟨[116], [97]⟩)), []⟩, ⟨.expr (.val (.col ⟨[], [98]⟩)), []⟩],
      from_ := some (.table ⟨[116], none⟩) }) := by rfl

/-- the two layouts / spellings of `exToks2` - the one above and `SELECT t . a , b FROM t ;` - scan alike -/
example : parseSQL (renderText exGap2 exCase2 exToks2) = parseSQL (renderText (fun _ => sp) (fun _ => []) exToks2) :=
  C10_layout_and_case_irrelevant _ _ _ _ exToks2 exToks2_ok.1 exToks2_ok.2
    (C10_spaced_layout _ _ _ (fun _ => rfl) (fun _ _ _ => by simp [sp]))

example : scanSQL (renderText exGap2 exCase2 exToks2) = scanSQL (renderText (fun _ => sp) exCase2 exToks2) :=
  C10_whitespace_irrelevant _ _ _ exToks2 exToks2_ok.1 exToks2_ok.2
    (C10_spaced_layout _ _ _ (fun _ => rfl) (fun _ _ _ => by simp [sp]))

/-- not admissible: two words that touch, `<` `=` that touch, a number and a word starting with `e` -/
example : layoutOK (fun _ => []) (fun _ => []) 0 [⟨t_SELECT, []⟩, ⟨t_IDENT, [97]⟩] = false ∧
    layoutOK (fun _ => []) (fun _ => []) 0 [⟨t_LT, []⟩, ⟨t_EQ, []⟩] = false ∧
    layoutOK (fun _ => []) (fun _ => []) 0 [⟨t_INT, [49]⟩, ⟨t_ELSE, []⟩] = false := by decide

/-- keywords: `sElEcT` is SELECT; `ſelect` with the long s U+017F - whose Unicode `ToUpper` is `S` - is an
IDENTIFIER (only ASCII letters are folded when a word is looked up as a keyword: repair 3984b79; before
it this word was the keyword SELECT and `lımıt`, `ſet` were LIMIT and SET); `selects` is an identifier -/
example : scanSQL (asciiText "sElEcT") = .ok [⟨t_SELECT, [115, 69, 108, 69, 99, 84]⟩] :=
  C10_keyword_case_insensitive _ (strCodes "SELECT") _ (by decide) (by decide) (by decide)
example : scanSQL ((⟨0x17F, [0xC5, 0xBF], true, false, 83⟩ : Rune) :: asciiText "elect") =
    .ok [⟨t_IDENT, [0xC5, 0xBF, 101, 108, 101, 99, 116]⟩] :=
  (C10_keyword_vs_identifier _ (by decide)).1 (by decide)
example : scanSQL (asciiText "selects") = .ok [⟨t_IDENT, [115, 101, 108, 101, 99, 116, 115]⟩] :=
  (C10_keyword_vs_identifier _ (by decide)).1 (by decide)
example : scanSQL (asciiText "Int") = .ok [⟨t_T_INT, [73, 110, 116]⟩] :=
  ((C10_keyword_vs_identifier _ (by decide)).2 t_T_INT (by decide)).1
example : scanSQL ((spell [true, false, true] [70, 82, 79, 77]).map asciiRune) = .ok [⟨t_FROM, [102, 82, 111, 77]⟩] :=
  C10_keyword_any_case _ _ _ (by decide) (by decide)

/-- strings: a plain body; a body with an escaped quote is covered too and keeps its backslash -/
example : TokOK ⟨t_STR, [120, 32, 121]⟩ = true := C10_string_plain _ (by decide)
example : TokOK ⟨t_STR, [105, 116, 92, 39, 115]⟩ = true ∧
    scanSQL (asciiText "'it\\'s'") = .ok [⟨t_STR, [105, 116, 92, 39, 115]⟩] := ⟨by decide, by rfl⟩

/-- pieces: a non-ASCII identifier `é1` and a string with a non-ASCII rune, without blanks around `=` -/
example : scanSQL (renderItems [([], .word [⟨233, [0xC3, 0xA9], true, false, 201⟩, asciiRune 49]), ([], .punct 61),
      ([], .str [⟨233, [0xC3, 0xA9], true, false, 201⟩])] sp) =
    .ok [⟨t_IDENT, [0xC3, 0xA9, 49]⟩, ⟨t_EQ, [61]⟩, ⟨t_STR, [0xC3, 0xA9]⟩] :=
  C10_scan_roundtrip_pieces _ _ (by decide)

/-! ## Texts in customary SQL form that do NOT scan to the intended tokens (known gaps of the scanner) -/

/-- `-5`: there is no negative literal - `-` is a one-character STR token; `a = -5` is a syntax error -/
example : scanSQL (asciiText "a = -5") = .ok [⟨t_IDENT, [97]⟩, ⟨t_EQ, [61]⟩, ⟨t_STR, [45]⟩, ⟨t_INT, [53]⟩] ∧
    (match parseSQL (asciiText "SELECT a FROM t WHERE a = -5") with | .err .syntax => true | _ => false) = true :=
  ⟨by rfl, by decide +kernel⟩

/-- `<>` is `<` then `>`; `--` does not start a comment -/
example : scanSQL (asciiText "a <> 5") = .ok [⟨t_IDENT, [97]⟩, ⟨t_LT, [60]⟩, ⟨t_GT, [62]⟩, ⟨t_INT, [53]⟩] ∧
    scanSQL (asciiText "a -- c") = .ok [⟨t_IDENT, [97]⟩, ⟨t_STR, [45]⟩, ⟨t_STR, [45]⟩, ⟨t_IDENT, [99]⟩] := ⟨by rfl, by rfl⟩

/-- `1.5` is a STRING token with the text `1.5` (and the statement is accepted) -/
example : scanSQL (asciiText "a = 1.5") = .ok [⟨t_IDENT, [97]⟩, ⟨t_EQ, [61]⟩, ⟨t_STR, [49, 46, 53]⟩] := by rfl

/-- `''` does not escape a quote: `'it''s'` is two strings -/
example : scanSQL (asciiText "'it''s'") = .ok [⟨t_STR, [105, 116]⟩, ⟨t_STR, [115]⟩] := by rfl

/-- a number directly followed by a word: `a=1or b=1` is fine, `a=0or b=1` is not (`0o` is read as an octal
prefix, the INT token `0o` fails in `Atoi`) -/
example : scanSQL (asciiText "a=1or b") = .ok [⟨t_IDENT, [97]⟩, ⟨t_EQ, [61]⟩, ⟨t_INT, [49]⟩, ⟨t_OR, [111, 114]⟩, ⟨t_IDENT, [98]⟩] ∧
    scanSQL (asciiText "a=0or b") = .ok [⟨t_IDENT, [97]⟩, ⟨t_EQ, [61]⟩, ⟨t_INT, [48, 111]⟩, ⟨t_IDENT, [114]⟩, ⟨t_IDENT, [98]⟩] :=
  ⟨by rfl, by rfl⟩

/-- digit strings: leading zeros are kept in the text (and `Atoi` reads `007` as 7); `1_0` and `0x1F` are INT
tokens too, whose text `Atoi` then refuses -/
example : scanSQL (asciiText "007 1_0 0x1F") = .ok [⟨t_INT, [48, 48, 55]⟩, ⟨t_INT, [49, 95, 48]⟩, ⟨t_INT, [48, 120, 49, 70]⟩] ∧
    (match parseSQL (asciiText "SELECT a FROM t LIMIT 0x1F") with | .err .atoi => true | _ => false) = true :=
  ⟨by rfl, by decide +kernel⟩

/-! ## The whole statement as SQL text (scanner + parser + token-level round trip) -/

/-- **C10.text_tokens_covered**: every token of a rendered text-writable statement (`TextOK`) and of its
closing semicolons is a token the text level covers (`TokOK`) - whatever optional spellings `o` chooses
and whatever texts `o.kw` puts on keyword tokens (the text level writes the keyword table's spelling in
the case chosen per occurrence, and the parser never reads that text).  Hypothesis: literals are written
by the standard tokens. -/
theorem C10_text_tokens_covered (o : ROpts) (ho : o.lit = stdLitTok) (s : Stmt) (ht : TextOK s) (k : Nat) :
    ∀ t ∈ renderStmt o s ++ closing o k false, TokOK t = true :=
  renderStmt_tokOK o ho s ht k

/-- **C10.text_roundtrip** - PARSING IS FAITHFUL, the sentence of the property.  For every statement `s`
the grammar can express (`WFStmt`) whose names and strings can be written in plain SQL text (`TextOK`):
writing it as SQL text - the optional keywords and spellings chosen by `o` (AS, INNER, ASC, GROUP BY
commas, LIMIT/OFFSET order, `()`, `SHOW DATABASE` / `SHOW databases`), every keyword occurrence in the
letter case `cs` chooses for it, the tokens separated by the gaps `gap` (spaces, tabs, CR, LF, `/* */`
and `//` comments; nothing where two tokens may touch: `layoutOK`), closed by `k` semicolons - and
parsing that text (`parseSQL`: scanner, then parser) yields exactly `s`.
Hypotheses: `o.lit = stdLitTok` (integers as decimal digits, strings as `'text'`); `closingOK` (behind a
SELECT without FROM the code accepts at most one semicolon); `layoutOK` (decidable; every layout with a
non-empty gap between any two tokens qualifies, see `C10_text_roundtrip_spaced`).
`TextOK` excludes: names needing "delimited identifier" quoting (reserved words, blanks, leading digit,
empty), non-ASCII names and strings, strings with a quote, line feed or a backslash sequence beyond
`strBodyOK`; `WFStmt` excludes negative integers (`-5` is not a token) and shapes the grammar cannot
produce. -/
theorem C10_text_roundtrip (o : ROpts) (ho : o.lit = stdLitTok) (s : Stmt) (hw : WFStmt s) (ht : TextOK s)
    (k : Nat) (hc : closingOK s k false = true) (gap : Nat → Gap) (cs : Nat → List Bool)
    (hlay : layoutOK gap cs 0 (renderStmt o s ++ closing o k false) = true) :
    parseSQL (renderText gap cs (renderStmt o s ++ closing o k false)) = .ok s :=
  parseSQL_renderStmt o ho s hw ht k hc gap cs hlay

/-- **C10.text_roundtrip (any whitespace)**: the same for every layout that puts at least one whitespace
rune or comment between any two tokens (leading and trailing gap optional) - no condition that mentions
the tokens. -/
theorem C10_text_roundtrip_spaced (o : ROpts) (ho : o.lit = stdLitTok) (s : Stmt) (hw : WFStmt s) (ht : TextOK s)
    (k : Nat) (hc : closingOK s k false = true) (gap : Nat → Gap) (cs : Nat → List Bool)
    (hgap : ∀ i, Gap.ok (gap i) = true) (hsp : ∀ j, 0 < j → gap j ≠ []) :
    parseSQL (renderText gap cs (renderStmt o s ++ closing o k false)) = .ok s :=
  C10_text_roundtrip o ho s hw ht k hc gap cs (C10_spaced_layout gap cs _ hgap (fun j h _ => hsp j h))

/-- **C10.text_no_list_cut**: no clause written as text in standard form is cut short - the statement
parsed from the TEXT of `s` has the same select list, GROUP BY list, ORDER BY list, INSERT column list,
VALUES rows (and values in each row), SET assignments and column definitions as `s`: same elements in
the same order, hence the same lengths.  (`C10_no_list_cut` through the scanner; same hypotheses as
`C10_text_roundtrip`.) -/
theorem C10_text_no_list_cut (o : ROpts) (ho : o.lit = stdLitTok) (s : Stmt) (hw : WFStmt s) (ht : TextOK s)
    (k : Nat) (hc : closingOK s k false = true) (gap : Nat → Gap) (cs : Nat → List Bool)
    (hlay : layoutOK gap cs 0 (renderStmt o s ++ closing o k false) = true) :
    (∀ sel, s = .select sel → ∃ sel',
      parseSQL (renderText gap cs (renderStmt o s ++ closing o k false)) = .ok (.select sel') ∧
      sel'.list = sel.list ∧ sel'.groupBy = sel.groupBy ∧ sel'.orderBy = sel.orderBy ∧
      sel'.list.length = sel.list.length ∧ sel'.groupBy.length = sel.groupBy.length ∧
      sel'.orderBy.length = sel.orderBy.length) ∧
    (∀ t cols rows, s = .insert t cols rows → ∃ cols' rows',
      parseSQL (renderText gap cs (renderStmt o s ++ closing o k false)) = .ok (.insert t cols' rows') ∧
      cols' = cols ∧ rows' = rows ∧ rows'.length = rows.length ∧ rows'.map List.length = rows.map List.length) ∧
    (∀ t sets w, s = .update t sets w → ∃ sets',
      parseSQL (renderText gap cs (renderStmt o s ++ closing o k false)) = .ok (.update t sets' w) ∧
      sets' = sets ∧ sets'.length = sets.length) ∧
    (∀ n cols, s = .createTable n cols → ∃ cols',
      parseSQL (renderText gap cs (renderStmt o s ++ closing o k false)) = .ok (.createTable n cols') ∧
      cols' = cols ∧ cols'.length = cols.length) := by
  rw [C10_text_parse gap cs _ (renderStmt_tokOK o ho s ht k) hlay]
  exact C10_no_list_cut o ho s hw k false hc

/-! ### Non-vacuity: the rich statements of `Props/C10.lean` as text -/

/-- they are text-writable -/
example : TextOK c10ExSelect ∧ TextOK c10ExInsert ∧ TextOK c10ExCreate ∧ TextOK c10ExUpdate ∧ TextOK c10TxTightStmt := by
  decide

/-- the CREATE TABLE as text, layout `c10TxGap` (tabs, CR LF, blanks), cases `c10TxCase` -/
example : (renderText c10TxGap c10TxCase (renderStmt {} c10ExCreate ++ closing {} 1 false)).map (·.code) =
    strCodes "cReAtE table t ( a\tINT ,\r\n  b BIGINT ,\tc VARCHAR ( 255\r\n  )\t, d BOOLEAN ) ;\t" := by decide

/-- the INSERT with the non-default spellings and two semicolons -/
example : (renderText c10TxGap c10TxCase (renderStmt c10ExOpts c10ExInsert ++ closing c10ExOpts 2 false)).map (·.code) =
    strCodes "iNsErT into t ( a\t, b\r\n  ) VALUES (\t1 , 'x' ,\r\n  TRUE\t) , ( 2 ,\t'y'\r\n  , false ) ,\t( ) ;\r\n  ; " := by
  decide

/-- the beginning of the 102-token SELECT: `sElEcT t . a as\tx ,\r\n  count ( *\t) AS c ,` -/
example : ((renderText c10TxGap c10TxCase (renderStmt {} c10ExSelect ++ closing {} 1 false)).take 41).map (·.code) =
    strCodes "sElEcT t . a as\tx ,\r\n  count ( *\t) AS c ," := by decide

/-- the theorem instantiated: SELECT (default and non-default spellings), INSERT, CREATE TABLE, UPDATE, SHOW -/
example :
    parseSQL (renderText c10TxGap c10TxCase (renderStmt {} c10ExSelect ++ closing {} 1 false)) = .ok c10ExSelect ∧
    parseSQL (renderText c10TxGap c10TxCase (renderStmt c10ExOpts c10ExSelect ++ closing c10ExOpts 0 false)) = .ok c10ExSelect ∧
    parseSQL (renderText c10TxGap c10TxCase (renderStmt c10ExOpts c10ExInsert ++ closing c10ExOpts 2 false)) = .ok c10ExInsert ∧
    parseSQL (renderText c10TxGap c10TxCase (renderStmt {} c10ExCreate ++ closing {} 1 false)) = .ok c10ExCreate ∧
    parseSQL (renderText c10TxGap c10TxCase (renderStmt c10ExOpts c10ExUpdate ++ closing c10ExOpts 1 false)) = .ok c10ExUpdate ∧
    parseSQL (renderText c10TxGap c10TxCase (renderStmt c10ExOpts .showDatabases ++ closing c10ExOpts 1 false)) =
      .ok .showDatabases :=
  ⟨C10_text_roundtrip_spaced {} rfl _ (by decide) (by decide) 1 (by decide) _ _ c10TxGap_ok c10TxGap_ne,
   C10_text_roundtrip_spaced c10ExOpts rfl _ (by decide) (by decide) 0 (by decide) _ _ c10TxGap_ok c10TxGap_ne,
   C10_text_roundtrip_spaced c10ExOpts rfl _ (by decide) (by decide) 2 (by decide) _ _ c10TxGap_ok c10TxGap_ne,
   C10_text_roundtrip_spaced {} rfl _ (by decide) (by decide) 1 (by decide) _ _ c10TxGap_ok c10TxGap_ne,
   C10_text_roundtrip_spaced c10ExOpts rfl _ (by decide) (by decide) 1 (by decide) _ _ c10TxGap_ok c10TxGap_ne,
   C10_text_roundtrip_spaced c10ExOpts rfl _ (by decide) (by decide) 1 (by decide) _ _ c10TxGap_ok c10TxGap_ne⟩

/-- the same by evaluation of the scanner and parser models, independent of the proofs -/
example :
    (match parseSQL (renderText c10TxGap c10TxCase (renderStmt c10ExOpts c10ExSelect ++ closing c10ExOpts 0 false)) with
      | .ok s => s == c10ExSelect | _ => false) = true ∧
    (match parseSQL (renderText c10TxGap c10TxCase (renderStmt c10ExOpts c10ExInsert ++ closing c10ExOpts 2 false)) with
      | .ok s => s == c10ExInsert | _ => false) = true ∧
    (match parseSQL (renderText c10TxGap c10TxCase (renderStmt {} c10ExCreate ++ closing {} 1 false)) with
      | .ok s => s == c10ExCreate | _ => false) = true := by
  refine ⟨?_, ?_, ?_⟩ <;> decide +kernel

/-- tokens that touch: `SELECT COUNT(*),t.a FROM t WHERE a<=1 GROUP BY t.a;` is an admissible layout
(through `C10_text_roundtrip` itself, with `layoutOK` decided) -/
example : (renderText c10TxTight (fun _ => []) (renderStmt {} c10TxTightStmt ++ closing {} 1 false)).map (·.code) =
      strCodes "SELECT COUNT(*),t.a FROM t WHERE a<=1 GROUP BY t.a;" ∧
    parseSQL (renderText c10TxTight (fun _ => []) (renderStmt {} c10TxTightStmt ++ closing {} 1 false)) = .ok c10TxTightStmt :=
  ⟨by decide, C10_text_roundtrip {} rfl _ (by decide) (by decide) 1 (by decide) _ _ (by decide)⟩

/-- the three VALUES rows (of 3, 3 and 0 values) of the INSERT come back from its text -/
example : ∃ cols' rows', parseSQL (renderText c10TxGap c10TxCase (renderStmt c10ExOpts c10ExInsert ++ closing c10ExOpts 1 false)) =
      .ok (.insert [116] cols' rows') ∧ rows'.length = 3 ∧ rows'.map List.length = [3, 3, 0] := by
  obtain ⟨c, r, h, _, hr, _, _⟩ :=
    (C10_text_no_list_cut c10ExOpts rfl c10ExInsert (by decide) (by decide) 1 (by decide) c10TxGap c10TxCase
      (C10_spaced_layout _ _ _ c10TxGap_ok (fun j h _ => c10TxGap_ne j h))).2.1 _ _ _ rfl
  exact ⟨c, r, h, by rw [hr]; rfl, by rw [hr]; rfl⟩

/-- what `TextOK` refuses: a table named `select` / `Order`, a name with a blank, a name starting with a
digit, an empty name, a non-ASCII name; a string with a quote, a line feed, a trailing backslash, a
non-ASCII byte.  (A string with an escaped quote `it\'s` is accepted - and comes back with its backslash.) -/
example : ¬ TextOK (.use [115, 101, 108, 101, 99, 116]) ∧ ¬ TextOK (.use [79, 114, 100, 101, 114]) ∧
    ¬ TextOK (.use [97, 32, 98]) ∧ ¬ TextOK (.use [49, 97]) ∧ ¬ TextOK (.use []) ∧ ¬ TextOK (.use [0xC3, 0xA9]) ∧
    ¬ TextOK (.insert [116] [] [[.str [105, 116, 39, 115]]]) ∧ ¬ TextOK (.insert [116] [] [[.str [97, 10, 98]]]) ∧
    ¬ TextOK (.insert [116] [] [[.str [97, 92]]]) ∧ ¬ TextOK (.insert [116] [] [[.str [0xC3, 0xA9]]]) ∧
    TextOK (.insert [116] [] [[.str [105, 116, 92, 39, 115]]]) := by decide

end Mkdb.Sql
