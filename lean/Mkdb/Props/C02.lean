import Mkdb.Proofs.Redo
import Mkdb.Proofs.Wal
import Mkdb.Proofs.RedoLink
import Mkdb.Proofs.ReplayInsert
import Mkdb.Proofs.ReplayMixed
import Mkdb.Proofs.ReplayCkpt
import Mkdb.Proofs.ReplayCounter
import Mkdb.Proofs.BaseCase2
import Mkdb.Proofs.PtSelfFree6
import Mkdb.Proofs.Counters6
import Mkdb.Proofs.Counters8
/-!
# C02 — acknowledged statements survive a crash between statements

Property theorems only.  Two layers are proved:

* the redo rule (`Mkdb.Redo`): for every log of page-local changes with increasing LSNs, every
  initial state and **every** placement of page flushes (each page of the data file is the cached
  page as of an arbitrary earlier moment: never flushed, flushed after any statement, always
  flushed), replaying the log reproduces exactly the state the statements had built, page by page;
  replaying again changes nothing;
* the log file (`Mkdb.Wal`): what the statements appended is what recovery reads.

Not covered by a theorem (partial): records that change more than one page (a tree insert that
splits, the catalog re-pointing that follows a root move, page allocation) and the header counters;
for those the concrete model `Mkdb.Engine.recover` is compared with the implementation on crash
images after every statement under every flush placement the harness generates.
-/
namespace Mkdb.Redo
variable {α : Type}

/-- **C02.recovery_reconstructs**: whatever subset of the pages had reached the data file, and
whenever each of them did, replay of the whole log yields exactly the pages the acknowledged
statements had produced in the cache. -/
theorem C02_recovery_reconstructs (log : List (Rec α)) (init : Pages α) (k : Nat → Nat) (h : LogOK log init) :
    ∀ p, replay log (Image log init k) p = run log init p := replay_image log init k h

/-- **C02.recovery_idempotent**: running recovery again changes nothing. -/
theorem C02_recovery_idempotent (log : List (Rec α)) (init : Pages α) (k : Nat → Nat) (h : LogOK log init) :
    ∀ p, replay log (replay log (Image log init k)) p = replay log (Image log init k) p :=
  replay_idempotent log init k h

/-- **C02.clean_shutdown**: the special case "flush, then crash": replay over fully flushed pages is
the identity. -/
theorem C02_clean_shutdown (log : List (Rec α)) (init : Pages α) (h : LogOK log init) :
    ∀ p, replay log (run log init) p = run log init p := replay_run log init h

/-- non-vacuity: a two-record log on one page satisfies the hypothesis -/
example : LogOK exLog exInit := exLog_ok

end Mkdb.Redo

namespace Mkdb.Wal
/-- **C02.log_roundtrip**: the records a statement appended (each followed by fsync) are exactly the
records start-up recovery reads. -/
theorem C02_log_roundtrip (rs : List Rec) (h : ∀ r ∈ rs, r.wf) :
    readLog (encodeLog rs) = .ok rs (encodeLog rs).length false := readLog_encodeLog rs h
end Mkdb.Wal

namespace Mkdb.RedoLink
open Mkdb.Engine Mkdb.Store Mkdb.Page

/-- **C02.concrete_replay_is_the_redo_rule**: on UPDATE and DELETE records the concrete recovery model
(`Mkdb.Engine.replayAll`, the model of `WALBatch.replay` that is compared with the implementation on
crash images) *is* the abstract redo rule, page by page, under the abstraction "page = LSN and
content the engine sees at the offset" - so the theorems above are statements about it. -/
theorem C02_concrete_replay_is_the_redo_rule (log : List WalRec) (s : Store) (h : LogFits log s) :
    (replayAll log s).2 = (none, false) ∧
      absPages (replayAll log s).1 = Redo.replay (log.map toAbs) (absPages s) :=
  replayAll_is_replay log s h

/-- **C02.concrete_recovery_reconstructs**: for every crashed store whose pages are, each, the cached
page as of some earlier moment of the history (`Redo.Image`: any flush placement, any torn flush),
the concrete replay of a log of UPDATE / DELETE records ends without error and every page is the
page the acknowledged statements had built. -/
theorem C02_concrete_recovery_reconstructs (log : List WalRec) (s : Store)
    (init : Redo.Pages (Option Node)) (k : Nat → Nat) (hfit : StaticFits log s)
    (himg : absPages s = Redo.Image (log.map toAbs) init k) (hok : Redo.LogOK (log.map toAbs) init) :
    (replayAll log s).2 = (none, false) ∧
      ∀ p, absPages (replayAll log s).1 p = Redo.run (log.map toAbs) init p :=
  concrete_recovery_reconstructs_static log s init k hfit himg hok

/-- non-vacuity: one leaf on disk, an update and a delete in the log, file flushed after the first -/
example : StaticFits exLog exStore1 ∧ Redo.LogOK (exLog.map toAbs) (absPages exStore) := ⟨ex_static1, ex_logOK⟩

end Mkdb.RedoLink

namespace Mkdb.Store
open Mkdb.Engine Mkdb.Tree Mkdb.Page

/-- **C02.redo_of_unflushed_inserts** (INSERT records, concrete recovery model, with the catalog): take
any history of INSERT statements run live from a store satisfying the catalog invariant; replaying
the concatenation of their log records on the store *before* the history - the crash in which
nothing since then had reached the data file - ends without error in a store with the same catalog,
the same tables page for page, the same row-id counter and allocation frontier as the live run:
tree inserts with all their splits, root moves and catalog re-pointing are redone exactly.
(`hself`, `hf`: the side conditions `PtSelf` / `Fresh`, which hold in every reachable database - see
`C02_acknowledged_statements_survive_an_unflushed_crash`.) -/
theorem C02_redo_of_unflushed_inserts (sch : Levels) {s0 sN : Store} {tbls tblsN : List (Bytes × Levels)}
    {stmts : List Stmt} {logs : List WalRec} (run : LiveRun sch s0 tbls stmts sN tblsN logs)
    (pt : Levels) (h : Cat s0 pt sch tbls) (hself : PtSelf pt) (hf : Fresh s0 tbls) :
    ∃ ptN rN, replayAll logs s0 = (rN, none, false) ∧
      Cat sN ptN sch tblsN ∧ Cat rN ptN sch tblsN ∧
      (∀ x ∈ catTrees ptN sch tblsN, ∀ o ∈ offs x, view rN o = view sN o) ∧
      rN.hdr.nextFree = sN.hdr.nextFree ∧ rN.hdr.lastKey = sN.hdr.lastKey ∧
      rN.hdr.ptRoot = sN.hdr.ptRoot ∧ rN.hdr.nextLSN ≤ sN.hdr.nextLSN :=
  replay_history sch run pt h hself hf

/-- **C02.recovery_of_a_flushed_database_changes_nothing**: a log every record of which is already
applied - its page carries an LSN at least the record's, or it is an INSERT of a key the table
already holds - and none of whose INSERT records carries a key beyond the row-id counter is replayed
without error and without any visible change; only the LSN counter moves, to the largest LSN seen
(clean shutdown, and running recovery a second time).

*Statement changed with the repair of the row-id counter in recovery* (corpus `C04/F27`): `replayOne`
now raises `lastKey` to the key of every INSERT record before the page-LSN test, so also for a record
it then skips.  Without the new hypothesis `hkeys` the old conclusion is false: a skipped INSERT
record with `r.cell > s.hdr.lastKey` raises the counter (that is the repair: after a torn flush the
pages may be ahead of the header).  `hkeys` holds in every state a complete flush leaves behind: every
logged insert key was handed out by the counter, and the flush wrote the counter
(`Ckpt.keys` in `ReplayCkpt7`).  The form without the hypothesis is `replay_clean_gen`, restated
next: the row-id counter ends at the largest INSERT key of the log, if that is beyond it. -/
theorem C02_recovery_of_a_flushed_database_changes_nothing (log : List WalRec) (s : Store) (pt sch : Levels)
    (tbls : List (Bytes × Levels)) (h : Cat s pt sch tbls) (hall : ∀ r ∈ log, Applied tbls s r)
    (hkeys : ∀ r ∈ log, r.op = Generated.c_OpInsert → r.cell ≤ s.hdr.lastKey) :
    ∃ s', replayAll log s = (s', none, false) ∧ view s' = view s ∧ Cat s' pt sch tbls ∧
      s'.hdr = { s.hdr with nextLSN := log.foldl (fun m r => max m r.lsn) s.hdr.nextLSN } :=
  replay_clean log s pt sch tbls h hall hkeys

/-- **C02.recovery_of_an_applied_log_changes_only_the_counters**: the same without the hypothesis on
the keys: no visible change, and of the header only the two counters move - `nextLSN` to the largest
LSN of the log, the row-id counter to the largest key of an INSERT record of the log (`maxKey`),
skipped records included. -/
theorem C02_recovery_of_an_applied_log_changes_only_the_counters (log : List WalRec) (s : Store)
    (pt sch : Levels) (tbls : List (Bytes × Levels)) (h : Cat s pt sch tbls)
    (hall : ∀ r ∈ log, Applied tbls s r) :
    ∃ s', replayAll log s = (s', none, false) ∧ view s' = view s ∧ Cat s' pt sch tbls ∧
      s'.hdr = { s.hdr with nextLSN := log.foldl (fun m r => max m r.lsn) s.hdr.nextLSN,
                            lastKey := maxKey log s.hdr.lastKey } :=
  replay_clean_gen log s pt sch tbls h hall

end Mkdb.Store

namespace Mkdb.Store
open Mkdb.Engine Mkdb.Tree Mkdb.Page

/-- **C02.acknowledged_statements_survive_an_unflushed_crash** (end to end, at the level of the plain
in-memory model): run any list of INSERT / DELETE / UPDATE statements that the plain model accepts
from a database whose log is empty; replay the log the statements wrote on the store as it was
before them - the crash in which nothing since then reached the data file; the replay ends without
error in a store that abstracts to the very plain database the live run ended in: every table holds
exactly the effects of all acknowledged statements, and the row-id counter, the allocation frontier
and the catalog root are the live ones (later statements never reuse a row id).
The two side conditions are invariants of every database a history reaches from CREATE DATABASE, not
assumptions about a region (`C02_side_conditions_hold_in_every_reachable_database`): `hself` (`PtSelf`):
the row the page table holds about itself names a page of the page table - true also after the page
table has split and that row, which nothing ever rewrites, has gone stale (it then names the old root,
now the leftmost leaf; until W10 `PtSelf` read "names the root" and excluded those databases); `hf`
(`FreshM`): every page of every user table is older than the LSN counter, and nothing lies at offset 0.
Witness with a split page table: `C02_crash_recovery_with_a_split_page_table`. -/
theorem C02_acknowledged_statements_survive_an_unflushed_crash (sch : Levels) {db0 dbN : Engine.DB}
    {sdb0 sdbN : Spec.SDB} {stmts : List EStmt}
    (run : SpecRun sch db0 sdb0 stmts dbN sdbN) (hwal : db0.wal = [])
    (pt : Levels) (tbls : List (Bytes × Levels)) (hA : AbsV db0.store pt sch tbls sdb0)
    (hself : PtSelf pt) (hf : FreshM db0.store tbls) :
    ∃ ptN tblsN rN, replayAll dbN.wal db0.store = (rN, none, false) ∧
      AbsV dbN.store ptN sch tblsN sdbN ∧ AbsV rN ptN sch tblsN sdbN ∧
      (∀ x ∈ catTrees ptN sch tblsN, ∀ o ∈ offs x, view rN o = view dbN.store o) ∧
      rN.hdr.nextFree = dbN.store.hdr.nextFree ∧ rN.hdr.lastKey = dbN.store.hdr.lastKey ∧
      rN.hdr.ptRoot = dbN.store.hdr.ptRoot ∧ rN.hdr.nextLSN ≤ dbN.store.hdr.nextLSN :=
  crash_recovery_spec sch run hwal pt tbls hA hself hf

/-- **C02.mixed_history_is_redone**: the same at the storage level, for any interleaving of row inserts,
updates and deletes over several tables (same side conditions). -/
theorem C02_mixed_history_is_redone (sch : Levels) {s0 sN : Store} {tbls tblsN : List (Bytes × Levels)}
    {stmts : List RStmt} {logs : List WalRec} (run : LiveRunM sch s0 tbls stmts sN tblsN logs)
    (pt : Levels) (h : Cat s0 pt sch tbls) (hself : PtSelf pt) (hf : FreshM s0 tbls) :
    ∃ ptN rN, replayAll logs s0 = (rN, none, false) ∧
      Cat sN ptN sch tblsN ∧ Cat rN ptN sch tblsN ∧
      (∀ x ∈ catTrees ptN sch tblsN, ∀ o ∈ offs x, view rN o = view sN o) ∧
      rN.hdr.nextFree = sN.hdr.nextFree ∧ rN.hdr.lastKey = sN.hdr.lastKey ∧
      rN.hdr.ptRoot = sN.hdr.ptRoot ∧ rN.hdr.nextLSN ≤ sN.hdr.nextLSN :=
  replay_history_mixed sch run pt h hself hf

end Mkdb.Store

namespace Mkdb.Store
open Mkdb.Engine Mkdb.Tree Mkdb.Page Mkdb.Generated

/-- **C02.crash_after_a_checkpoint** (the log is never truncated): as
`C02_acknowledged_statements_survive_an_unflushed_crash`, but the database the statements start from
may carry any log whose records are already applied on it and behind its counters - what every flush
and every recovery leaves (`C02_rounds_*`).  The WHOLE log - old records, then the records of the
statements - is replayed on the store the statements started from.  (`hself`, `hf`: see
`C02_acknowledged_statements_survive_an_unflushed_crash`; they hold in every reachable database.) -/
theorem C02_crash_after_a_checkpoint (sch : Levels) {db0 dbN : Engine.DB} {sdb0 sdbN : Spec.SDB} {stmts : List EStmt}
    (run : SpecRun sch db0 sdb0 stmts dbN sdbN)
    (pt : Levels) (tbls : List (Bytes × Levels)) (hA : AbsV db0.store pt sch tbls sdb0)
    (hself : PtSelf pt) (hf : FreshM db0.store tbls)
    (hold : ∀ r ∈ db0.wal, Applied tbls db0.store r)
    (hlsn : ∀ r ∈ db0.wal, r.lsn ≤ db0.store.hdr.nextLSN)
    (hkeys : ∀ r ∈ db0.wal, r.op = c_OpInsert → r.cell ≤ db0.store.hdr.lastKey) :
    ∃ ptN tblsN rN, replayAll dbN.wal db0.store = (rN, none, false) ∧
      AbsV dbN.store ptN sch tblsN sdbN ∧ AbsV rN ptN sch tblsN sdbN ∧
      (∀ x ∈ catTrees ptN sch tblsN, ∀ o ∈ offs x, view rN o = view dbN.store o) ∧
      rN.hdr.nextFree = dbN.store.hdr.nextFree ∧ rN.hdr.lastKey = dbN.store.hdr.lastKey ∧
      rN.hdr.ptRoot = dbN.store.hdr.ptRoot ∧ rN.hdr.nextLSN ≤ dbN.store.hdr.nextLSN :=
  crash_recovery_ckpt sch run pt tbls hA hself hf hold hlsn hkeys

/-- **C02.rounds_keep_the_checkpoint_invariant**: any number of rounds, each `statements ; flush`
(any page write order) or `statements ; crash ; start-up recovery` (`Engine.recover`: replay of the
whole log on the reopened data file, LSN bump, two flushes), starting from a checkpointed database
(`Ckpt`: abstraction to the plain database, all catalog pages clean and in the data file, every log
record applied and behind the counters; with the side conditions `PtSelf`, `FreshM` of the replay
theorems) end in a checkpointed database for the plain database of ALL statements acknowledged so far.
(`Rounds` has no CREATE TABLE; CREATE TABLE keeps `Ckpt` too: `C02_create_table_keeps_the_checkpoint_invariant`,
and both together: `C02_histories_with_create_table_stay_checkpointed`.) -/
theorem C02_rounds_keep_the_checkpoint_invariant {sch : Levels} {db db' : Engine.DB} {sdb sdb' : Spec.SDB}
    (hist : Rounds sch db sdb db' sdb') {pt : Levels} {tbls : List (Bytes × Levels)}
    (h : Ckpt sch db sdb pt tbls) : ∃ pt' tbls', Ckpt sch db' sdb' pt' tbls' :=
  rounds_ckpt hist h

/-- **C02.rounds_no_recovery_fails**: in such a history no recovery fails, and after it the store
abstracts to the plain database of the acknowledged statements with a log that is applied in full
(so running recovery again changes nothing: `C02_recovery_of_a_flushed_database_changes_nothing`). -/
theorem C02_rounds_no_recovery_fails {sch : Levels} {db db1 dbN : Engine.DB} {sdb sdb1 sdbN : Spec.SDB}
    {stmts : List EStmt} {pt : Levels} {tbls : List (Bytes × Levels)} (h : Ckpt sch db sdb pt tbls)
    (hist : Rounds sch db sdb db1 sdb1) (run : SpecRun sch db1 sdb1 stmts dbN sdbN) (o1 o2 : List Nat) :
    ∃ db2, Engine.recover dbN o1 o2 = .ok db2 ∧ Rounds sch db sdb db2 sdbN ∧
      ∃ pt2 tbls2, AbsV db2.store pt2 sch tbls2 sdbN ∧ ∀ r ∈ db2.wal, Applied tbls2 db2.store r :=
  rounds_recover h hist run o1 o2

/-- **C02.never_reuses_a_row_id** (any store, any log, any placement of flushes - also a flush torn
between its page writes and its header write): when the replay runs to its end, the row-id counter is
at least the key of EVERY logged insert - redone, tolerated or skipped because its page had already
reached the data file - and never below its old value; the next INSERT takes `counter + 1`.
(Before repair fa35ced a skipped record did not raise the counter; `skipped_example` in
Proofs/ReplayCounter.lean is the witness, kernel-checked.) -/
theorem C02_never_reuses_a_row_id (log : List WalRec) (s s' : Store) (h : replayAll log s = (s', none, false)) :
    (∀ r ∈ log, r.op = c_OpInsert → r.cell ≤ s'.hdr.lastKey) ∧ s.hdr.lastKey ≤ s'.hdr.lastKey :=
  replayAll_counter log s s' h

/-- **C02.unknown_operation_code_is_ignored**: the `switch` of `WALBatch.replay` has no default.  A log
record whose operation code is none of INSERT, UPDATE, DELETE (the engine never writes one; a damaged or
foreign log can hold one) raises the LSN counter to its LSN, has its page fetched (`s1`: the store after
that fetch), and changes nothing else - no cell, no page LSN, no dirty bit, not the row-id counter - and
the replay goes on with the next record.  (Before this repair the model treated every code from 3 up as a
DELETE.)  No hypothesis on the store. -/
theorem C02_unknown_operation_code_is_ignored (r : WalRec) (s : Store)
    (h0 : r.op ≠ c_OpInsert) (h1 : r.op ≠ c_OpUpdate) (h2 : r.op ≠ c_OpDelete) (node : Node) (s1 : Store)
    (hf : fetch r.page { s with hdr := { s.hdr with nextLSN := max s.hdr.nextLSN r.lsn } } = .ok node s1) :
    replayOne r s = (s1, none, false) ∧
    ∀ rest, replayAll (r :: rest) s = replayAll rest s1 := by
  have e0 : (r.op == c_OpInsert) = false := by simpa using h0
  have e1 : (r.op == c_OpUpdate) = false := by simpa using h1
  have e2 : (r.op == c_OpDelete) = false := by simpa using h2
  have e : replayOne r s = (s1, none, false) := by
    unfold Engine.replayOne
    simp only [e0, e1, e2, Bool.false_eq_true, if_false]
    rw [hf]
    simp only
    split <;> rfl
  refine ⟨e, fun rest => ?_⟩
  show (match replayOne r s with
    | (s', none, false) => replayAll rest s'
    | res => res) = _
  rw [e]

/-- the record of the Go run `TestR1WalOp` (operation code 5, LSN 50, on the leaf of the one row): the row
is still there and not deleted, the page keeps LSN 10 and stays clean, the LSN counter is 50 -/
example :
    let l : Leaf := ⟨12288, 10, false, false, 0, 0, [⟨11, false, [5, 0, 0, 0]⟩]⟩
    let s : Store := { hdr := { lastKey := 11, nextLSN := 11, nextFree := 16384 }, disk := [(12288, .leaf l)] }
    let s' := (replayAll [⟨5, 50, 12288, 11, []⟩] s).1
    (replayAll [⟨5, 50, 12288, 11, []⟩] s).2 = (none, false) ∧
    view s' 12288 = some (.leaf l, false) ∧ s'.hdr.nextLSN = 50 ∧ s'.hdr.lastKey = 11 := by
  decide

end Mkdb.Store

namespace Mkdb.Store
open Mkdb.Engine Mkdb.Tree Mkdb.Page Mkdb.Generated

/-- **C02.rounds_from_create_database**: `C02_rounds_keep_the_checkpoint_invariant` and
`C02_rounds_no_recovery_fails` with their hypothesis `Ckpt` discharged at the real starting point: the
database `CREATE DATABASE` leaves (`newDB`: the store `createDB` returns, re-opened, with an empty
log; `C01_create_database_establishes_the_invariants`) is checkpointed for the empty plain database,
so any number of rounds from it end checkpointed and no recovery fails.  (From the EMPTY plain database
no row statement is accepted and `Rounds` has no CREATE TABLE, so these rounds carry no statements:
`specRun_of_empty`; the rounds with statements start at `C02_rounds_from_create_table`.) -/
theorem C02_rounds_from_create_database :
    Ckpt schNew newDB [] ptNew [] ∧
    (∀ db' sdb', Rounds schNew newDB [] db' sdb' → ∃ pt' tbls', Ckpt schNew db' sdb' pt' tbls') ∧
    (∀ db1 dbN sdb1 sdbN stmts o1 o2, Rounds schNew newDB [] db1 sdb1 → SpecRun schNew db1 sdb1 stmts dbN sdbN →
      ∃ db2, Engine.recover dbN o1 o2 = .ok db2 ∧ Rounds schNew newDB [] db2 sdbN) ∧
    (∃ db1 db2, Engine.flush newDB [] = .ok () db1 ∧ Engine.recover db1 [] [] = .ok db2 ∧
      Rounds schNew newDB [] db2 []) := by
  refine ⟨ckpt_newDB, fun _ _ h => from_create_database_rounds h, ?_, ?_⟩
  · intro db1 dbN sdb1 sdbN stmts o1 o2 hist run
    obtain ⟨db2, e, hr, _⟩ := from_create_database_recover hist run o1 o2
    exact ⟨db2, e, hr⟩
  · obtain ⟨db1, db2, e1, e2, hr, _⟩ := rounds_newDB_example
    exact ⟨db1, db2, e1, e2, hr⟩

/-- **C02.rounds_from_create_table**: `CREATE TABLE t (a INT)` on `newDB` returns the database
`tableDB` (computed by kernel evaluation of `evalStmt`; CREATE TABLE writes no log record and ends with
a flush), which is checkpointed for the plain database with the one empty table `t (a INT)`; so any
number of rounds from it end checkpointed. -/
theorem C02_rounds_from_create_table :
    evalStmt newDB [] (.createTable tname acols) = .ok () tableDB ∧
    Ckpt schT tableDB sdbA0 ptT [(tname, tT)] ∧
    ∀ db' sdb', Rounds schT tableDB sdbA0 db' sdb' → ∃ pt' tbls', Ckpt schT db' sdb' pt' tbls' :=
  ⟨create_table_eq, ckpt_tableDB, fun _ _ h => from_create_table_rounds h⟩

/-- **C02.rounds_example_from_create_database** (non-vacuity with every state produced by the model):
`CREATE DATABASE`; `CREATE TABLE t (a INT)`; `INSERT INTO t VALUES (5), (6)`; crash; recovery;
`UPDATE t SET a = 7 WHERE a = 5`; crash; recovery.  Both recoveries succeed and keep the log; the final
database is checkpointed for the plain database with the rows `(7)`, `(6)`. -/
theorem C02_rounds_example_from_create_database : ∃ db1 dbR1 db2 dbR2 pt2 tbls2,
    evalStmt newDB [] (.createTable tname acols) = .ok () tableDB ∧
    SpecRun schT tableDB sdbA0 [.insert tname [] [[.int 5], [.int 6]]] db1 sdbA1 ∧
    Engine.recover db1 [] [] = .ok dbR1 ∧ dbR1.wal = db1.wal ∧
    SpecRun schT dbR1 sdbA1 [.update tname [([97], .lit (.int 7))] (some (condEq 5))] db2 sdbA2 ∧
    Engine.recover db2 [] [] = .ok dbR2 ∧ dbR2.wal = db2.wal ∧
    Ckpt schT dbR2 sdbA2 pt2 tbls2 ∧ Rounds schT tableDB sdbA0 dbR2 sdbA2 :=
  real_rounds_example

end Mkdb.Store

namespace Mkdb.Store
open Mkdb.Engine Mkdb.Tree Mkdb.Page Mkdb.Generated

/-- **C02.create_table_keeps_the_checkpoint_invariant**: from a checkpointed database (`Ckpt`) whose
`sys_schema` has no rows for unknown names (`NoStale`), a CREATE TABLE the plain model accepts - fresh
name that is not a catalog table, per-column checks and catalog-row checks passed, fuel and file-size
room - succeeds, writes no log record, and leaves a checkpointed database for the plain database with
the new empty table.  In particular `PtSelf` and `FreshM`, the side conditions of the crash theorems,
hold again - whether or not this CREATE TABLE split the page table and left its self-row stale.
Excluded: nothing beyond the acceptance conditions (`hpd` … `hbig` hold for every catalog below some
sixty B-tree levels and files below 2^63 bytes). -/
theorem C02_create_table_keeps_the_checkpoint_invariant {db : Engine.DB} {sdb : Spec.SDB} {pt sch : Levels}
    {tbls : List (Bytes × Levels)} (h : Ckpt sch db sdb pt tbls) (hns : NoStale sch tbls) (name : Bytes)
    (cols : List Sql.ColDef) (order : List Nat)
    (hfind : Spec.findTable sdb name = none) (hn1 : name ≠ sysPages) (hn2 : name ≠ sysSchema)
    (hfld : checkFieldsFrom [] (cols.map Engine.colTypeToField) = none)
    (hchk : checkCatalogRows (cols.map Engine.colTypeToField) name = none)
    (hpd : pt.inner.length + 3 ≤ treeFuel) (hpl : pt.leaves.length + 1 ≤ scanFuel)
    (hsd : sch.inner.length + cols.length + 2 ≤ treeFuel) (hsl : sch.leaves.length + cols.length ≤ scanFuel)
    (hbig : db.store.hdr.nextFree + 262144 * cols.length + 262144 ≤ 9223372036854775807) :
    ∃ db' pt' sch' tbls', evalStmt db order (.createTable name cols) = .ok () db' ∧ db'.wal = db.wal ∧
      Ckpt sch' db' (sdb ++ [⟨name, cols.map Spec.colField, []⟩]) pt' tbls' ∧ NoStale sch' tbls' ∧
      PtSelf pt' ∧ FreshM db'.store tbls' := by
  obtain ⟨db', pt', sch', tbls', e, hw, hk, hns', _⟩ := h.createTable_ok hns name cols order hfind hn1 hn2 hfld
    hchk hpd hpl hsd hsl hbig
  exact ⟨db', pt', sch', tbls', e, hw, hk, hns', hk.self, hk.fresh⟩

/-- non-vacuity: the database CREATE DATABASE leaves meets the hypotheses for `CREATE TABLE t (a INT)` -/
example : Ckpt schNew newDB [] ptNew [] ∧ NoStale schNew [] ∧ Spec.findTable [] tname = none ∧
    checkCatalogRows (acols.map Engine.colTypeToField) tname = none :=
  ⟨ckpt_newDB, noStale_new, rfl, acheck⟩

/-- **C02.histories_with_create_table_stay_checkpointed**: a history `HistCT` alternates rounds (`Rounds`:
row statements, then a flush or a crash with recovery) and accepted CREATE TABLEs.  From a checkpointed
database without stale `sys_schema` rows, every database such a history reaches is checkpointed - for the
plain database of ALL acknowledged statements, CREATE TABLEs included - so the crash theorems
(`C02_crash_after_a_checkpoint`, `C02_rounds_no_recovery_fails`, `C03_*`) apply at every point of it. -/
theorem C02_histories_with_create_table_stay_checkpointed {sch0 sch : Levels} {db0 db : Engine.DB}
    {sdb0 sdb : Spec.SDB} (hist : HistCT sch0 db0 sdb0 sch db sdb) {pt0 : Levels} {tbls0 : List (Bytes × Levels)}
    (h : Ckpt sch0 db0 sdb0 pt0 tbls0) (hns : NoStale sch0 tbls0) :
    ∃ pt tbls, Ckpt sch db sdb pt tbls ∧ NoStale sch tbls :=
  histCT_ckpt hist h hns

/-- **C02.side_conditions_hold_in_every_reachable_database**: every database reached from the one CREATE
DATABASE leaves (`newDB`) by rounds and accepted CREATE TABLEs (`HistCT`) is checkpointed; in particular
the two side conditions of the concrete crash theorems hold in it: the self-row of the page table names
a page of the page table (`PtSelf`), every page of every user table is older than the LSN counter
(`FreshM`).  And no recovery fails: after any further accepted row statements a crash is recovered from,
and the recovered store abstracts to the plain database of all acknowledged statements.
(Histories of the engine's statements; a session additionally routes CREATE DATABASE / USE: C17.) -/
theorem C02_side_conditions_hold_in_every_reachable_database {sch : Levels} {db : Engine.DB} {sdb : Spec.SDB}
    (hist : HistCT schNew newDB [] sch db sdb) :
    (∃ pt tbls, Ckpt sch db sdb pt tbls ∧ NoStale sch tbls ∧ PtSelf pt ∧ FreshM db.store tbls) ∧
    ∀ stmts dbN sdbN o1 o2, SpecRun sch db sdb stmts dbN sdbN →
      ∃ db2, Engine.recover dbN o1 o2 = .ok db2 ∧ HistCT schNew newDB [] sch db2 sdbN ∧
        ∃ pt2 tbls2, AbsV db2.store pt2 sch tbls2 sdbN ∧ ∀ r ∈ db2.wal, Applied tbls2 db2.store r :=
  ⟨histCT_from_create_database hist, fun _ _ _ o1 o2 run => histCT_recover hist run o1 o2⟩

/-- **C02.crash_recovery_with_a_split_page_table** (the witness in the region the old `PtSelf` excluded;
every state is an output of the model).  `CREATE DATABASE`; `CREATE TABLE t1 (a INT)` … `CREATE TABLE t8
(a INT)` give `db8` (`runCreates`, evaluated by the kernel): all eight are accepted, `db8` is reached by a
history `HistCT` and is checkpointed for the plain database `sdb8` of eight empty tables.  With the seventh
table the page table split: its root is page 53248, while its row about itself still reads `(sys_pages,
4096)` - the reading of `PtSelf` before W10 (`PtSelfRoot`) is FALSE here, the present one true.  Then
`INSERT INTO t1 VALUES (1), …, (9)`: accepted; the ninth row splits the root leaf of `t1` (page 12288),
the root moves, and the log ends with the UPDATE record that re-points the catalog row of `t1` - for
page 4096, the page the stale self-row names and lives on.  Crash with nothing flushed: the log replayed
on the store before the statement gives a store that abstracts to the plain database with the nine rows,
with the live allocation frontier, row-id counter and catalog root; start-up recovery succeeds, keeps the
log and leaves a checkpointed database for that plain database. -/
theorem C02_crash_recovery_with_a_split_page_table : ∃ sch8 pt8 tbls8,
    runCreates newDB names8 = some db8 ∧ HistCT schNew newDB [] sch8 db8 sdb8 ∧
    Ckpt sch8 db8 sdb8 pt8 tbls8 ∧
    (sysPages, 4096) ∈ ptEntries pt8 ∧ rootOff pt8 = 53248 ∧ ¬ PtSelfRoot pt8 ∧ PtSelf pt8 ∧
    SpecRun sch8 db8 sdb8 [.insert [116, 49] [] rows9] db9 sdb9 ∧
    db9.wal.map (fun r => (r.op, r.page)) =
      [(c_OpInsert, 12288), (c_OpInsert, 12288), (c_OpInsert, 12288), (c_OpInsert, 12288), (c_OpInsert, 12288),
       (c_OpInsert, 12288), (c_OpInsert, 12288), (c_OpInsert, 12288), (c_OpInsert, 12288), (c_OpUpdate, 4096)] ∧
    (∃ ptN tblsN rN, replayAll db9.wal db8.store = (rN, none, false) ∧
      AbsV db9.store ptN sch8 tblsN sdb9 ∧ AbsV rN ptN sch8 tblsN sdb9 ∧
      rN.hdr.nextFree = db9.store.hdr.nextFree ∧ rN.hdr.lastKey = db9.store.hdr.lastKey ∧
      rN.hdr.ptRoot = db9.store.hdr.ptRoot) ∧
    (∃ dbR ptR tblsR, Engine.recover db9 [] [] = .ok dbR ∧ dbR.wal = db9.wal ∧
      Ckpt sch8 dbR sdb9 ptR tblsR) := by
  obtain ⟨sch8, pt8, tbls8, erun, hk, _, run, hre, hrec⟩ := split_page_table_crash
  obtain ⟨sch8', pt8', tbls8', _, hist, hg⟩ := eight_tables
  obtain ⟨_, habs, _⟩ := hk.abs
  obtain ⟨_, habs', _⟩ := hg.ck.abs
  have es : sch8' = sch8 := habs'.cat.sch_unique habs.cat
  have ep : pt8' = pt8 := habs'.cat.pt_unique habs.cat
  subst es
  subst ep
  obtain ⟨s1, s2, s3, s4⟩ := db8_stale hg
  exact ⟨_, _, tbls8, erun, hist, hk, s1, s2, s3, s4, run, db9_log, hre, hrec⟩

/-- **C02.each_side_condition_is_needed** (kernel evaluations of the model on two hand-made, unreachable
stores; `Cat` excludes neither).  `FreshM`: on a store whose table page carries LSN 100 while the LSN
counter stands at 7, the record of an INSERT is stamped 7 and the replay skips it - live one row, replayed
none, no error.  `PtSelf`: on a store whose page-table self-row names the root of table `t` (12288), nine
inserts move that root to 20480; replaying the nine INSERT records without the catalog record re-points
the self-row instead of the row of `t` (offsets of the rows `sys_pages`, `sys_schema`, `t`: live `[12288,
8192, 20480]`, replayed `[20480, 8192, 12288]`: the table is cut in half), replaying all ten records leaves
the self-row rewritten.  On the regular store `st1` both replays reproduce the live state. -/
theorem C02_each_side_condition_is_needed :
    (insertThenReplay st1 = some (1, 1, true) ∧ insertThenReplay stStale = some (1, 0, true)) ∧
    (nineThenReplay st1 9 = some (10, [4096, 8192, 20480], [4096, 8192, 20480], true) ∧
     nineThenReplay stSelfBad 9 = some (10, [12288, 8192, 20480], [20480, 8192, 12288], true) ∧
     nineThenReplay stSelfBad 10 = some (10, [12288, 8192, 20480], [20480, 8192, 20480], true)) :=
  ⟨freshM_is_needed, ptSelf_is_needed⟩

end Mkdb.Store

/-! ## the header counters: natural numbers in the model, `uint32` / `uint64` in the code (W16) -/

namespace Mkdb.Store
open Mkdb.Engine Mkdb.Tree Mkdb.Page Mkdb.Generated

/-- **C02.one_tree_insert_allocates_at_most_66_pages** (every store - also corrupt pages -, every outcome):
`BTree.insertKey` moves neither the row-id counter nor the LSN counter, never lowers the allocation frontier
and raises it by at most `insertBytes = 270336 = pageSize × (treeFuel + 2)` bytes: one page per level
that splits (the leaf and at most `treeFuel = 64` internal levels: below that fuel the model reports a
hang, not a state) and one for a new root.  `BTree.insert` (`btInsert`) adds exactly one row id and one
LSN - also when the insertion is refused (`keyExists`, `rowTooLarge`). -/
theorem C02_one_tree_insert_allocates_at_most_66_pages (bt : BT) (key lsn : Nat) (value : Bytes) :
    Grows (Store.insertKey bt key lsn value) 0 0 270336 ∧ 270336 = c_pageSize * (treeFuel + 2) ∧
    Grows (Store.btInsert bt value) 1 1 270336 :=
  ⟨Grows.insertKey bt key lsn value, rfl, Grows.btInsert bt value⟩

/-- **C02.insert_advances_the_counters_by_at_most** (`EvaluateInsert`, every database, every outcome that
leaves a database - `ResI`): an INSERT statement of `n` rows never lowers a counter, raises the row-id
counter by at most `n`, the LSN counter by at most `2 n` (a row whose insert moved the root of its table
logs a second record, for the catalog), the allocation frontier by at most `66 n` pages, and does not touch
the header in the data file.  Accepted: the log grew by records that account for the LSNs one by one
(`Logged`: the LSN counter advanced by exactly the number of records, the row-id counter by exactly the
number of INSERT records).  REFUSED (a later row is invalid, `rowTooLarge` inside the tree insert, …): the
log is the old one, but the counters keep what the rows tried before the error consumed - refused
statements use up row ids. -/
theorem C02_insert_advances_the_counters_by_at_most (db : Engine.DB) (table : Bytes) (cols : List Bytes)
    (rows : List (List Tuple.Val)) :
    ResI db (Engine.evalInsert db table cols rows) rows.length (2 * rows.length) (270336 * rows.length) :=
  evalInsert_counters db table cols rows

/-- **C02.update_and_delete_move_only_the_lsn_counter** (`EvaluateUpdate`, `EvaluateDelete`, every database,
every outcome - `ResUD`): neither the row-id counter nor the allocation frontier nor the header in the data
file moves; the LSN counter does not go down; accepted: it advanced by exactly the number of records
appended to the log - one per row version written.  (No bound in terms of the statement text exists: the
number of rows a WHERE clause selects is a property of the table; `RelationService.Update` rewrites EVERY
cell of the scan that carries the row id, `update_counters`.) -/
theorem C02_update_and_delete_move_only_the_lsn_counter (db : Engine.DB) (table : Bytes)
    (sets : List (Bytes × Sql.VExpr)) (w : Option Sql.Cond) :
    ResUD db (Engine.evalUpdate db table sets w) ∧ ResUD db (Engine.evalDelete db table w) :=
  ⟨evalUpdate_counters db table sets w, evalDelete_counters db table w⟩

/-- **C02.create_table_advances_the_counters_by_at_most** (`EvaluateCreateTable`, every database, every
outcome - `ResC`): a CREATE TABLE of `n` columns never lowers a counter, raises the row-id counter by at most
`n + 1` (its catalog rows: one in `sys_pages`, one per column in `sys_schema` - catalog rows draw from the
same counter as user rows), the LSN counter by at most `2 n + 1`, the allocation frontier by at most
`1 + 66 (n + 1)` pages; it writes no log record; its final flush copies the header to the data file. -/
theorem C02_create_table_advances_the_counters_by_at_most (db : Engine.DB) (name : Bytes)
    (cols : List Sql.ColDef) (order : List Nat) (doFlush : Bool) :
    ResC db (Engine.evalCreateTable db name cols order doFlush)
      (cols.length + 1) (2 * cols.length + 1) (4096 + 270336 * (cols.length + 1)) :=
  evalCreateTable_counters db name cols order doFlush

/-- **C02.recovery_raises_the_counters_to_at_most_header_and_log** (`Engine.recover`, every database - any
crash image -, every outcome that leaves a database; `RecAdv`): after start-up recovery the row-id counter
lies between its value in the data-file header and the maximum of that value and the keys of the logged
INSERT records (`maxKey`); the LSN counter between the header's value and the maximum of header and logged
LSNs plus one (`maxLsn … + 1`: the final bump; not reached when the replay ends early); the allocation
frontier between the header's value and that value plus 66 pages per INSERT record of the log (a replay on a
data file the pages had not reached allocates them again; in the histories of the crash theorems it
allocates exactly what the crash lost: `C02_counters_in_checkpointed_histories_are_bounded_by_the_log`); the
new header is written to the data file and the log is kept.  The reference is the header ON FILE: the
in-memory counters died with the crash, and recovery can end BELOW them (a refused statement's row ids, pages
allocated since the last flush by statements that logged nothing). -/
theorem C02_recovery_raises_the_counters_to_at_most_header_and_log (db : Engine.DB) (o1 o2 : List Nat) :
    match Engine.recover db o1 o2 with
    | .ok db' => RecAdv db db'
    | .err _ db' => RecAdv db db'
    | _ => True :=
  recover_counters db o1 o2

/-- **C02.counters_after_any_history**: `Hist newDB w db` - `db` is reached from the database CREATE
DATABASE leaves by ANY sequence of INSERT / UPDATE / DELETE / CREATE TABLE statements with any arguments,
accepted or refused, flushes in any page write order, crashes (also inside a flush: `tornFlush`) followed
by start-up recovery that succeeds or fails, and re-opening; no invariant of the store is assumed.  `w`
counts the work: `rows` = rows of the INSERT statements run + catalog rows (columns + 1) of the CREATE
TABLEs run; `creates`; `lsns` = LSNs consumed by UPDATE / DELETE statements; `recs` = recoveries;
`replayed` = INSERT records in the log at each recovery, summed.  Then EVERY counter of `db` - header in
memory, header in the data file, the key of every logged INSERT, every logged LSN (`Bnd`) - is at most
`8 + rows` (row ids), `8 + 2 rows + lsns + recs` (LSNs), `12288 + 66 pages × (rows + replayed) + 1 page ×
creates` (allocation frontier).  And `replayed ≤ recs × rows`: every INSERT record in the log is a row some
INSERT statement of the history was given (`hist_insCount`).  The histories of the crash theorems (`SpecRun`,
`Rounds`, `HistCT`) are such histories: `specRun_hist`, `rounds_hist`, `histCT_hist`; so is what the session
does to each of its databases: `C02_row_ids_of_a_session_fit`. -/
theorem C02_counters_after_any_history {db : Engine.DB} {w : Work} (hist : Hist newDB w db) :
    Bnd db (8 + w.rows) (8 + 2 * w.rows + w.lsns + w.recs)
      (12288 + 270336 * w.rows + 4096 * w.creates + 270336 * w.replayed) ∧
    w.replayed ≤ w.recs * w.rows :=
  ⟨hist_bounds newDB_bnd hist, hist_replayed_le hist⟩

/-- non-vacuity: `CREATE TABLE t (a INT)` on the new database is such a history (two catalog rows, one table);
a longer one, with a refused statement, a crash and a recovery, follows `C02_counters_fit_their_go_types` -/
example : Hist newDB ⟨2, 1, 0, 0, 0⟩ tableDB := hist_tableDB

/-- **C02.counters_fit_their_go_types**: after any history from CREATE DATABASE (`Hist newDB w db`, see
`C02_counters_after_any_history`)
* the row-id counter is a `uint32` if `w.rows ≤ 2^32 - 9 = 4294967287` (`maxRows`) - the binding bound, and
  an exact one: `newDB` starts at 8 and every row insert that reaches the tree adds exactly one
  (`btInsert_counters`), so a history of `2^32 - 8` such inserts leaves `lastKey = 2^32` in the model and `0`
  in the Go code (`f.lastKey++` on a `uint32` wraps in silence; the next row ids are ids in use).  BEYOND
  THIS BOUND THE MODEL IS NOT FAITHFUL AND C01 / C02 ("never reuses a row id") ARE NOT CLAIMED.  Note what
  counts: rows of REFUSED inserts and catalog rows too;
* the LSN counter is a `uint64` if `2 rows + lsns + recs < 2^64 - 8`;
* the allocation frontier is a non-negative `int64` file offset if `66 (rows + replayed) + creates < 2^51 - 3`;
* all three hold if the total work `rows + creates + lsns + recs + replayed` is at most `2^32 - 9`: the
  natural numbers of the model ARE the values of the Go fields, nothing has wrapped.  (With 10^9 row
  operations the margins are: 4.29 for the row ids, 9·10^9 for the LSNs, 3·10^4 for the frontier.) -/
theorem C02_counters_fit_their_go_types {db : Engine.DB} {w : Work} (hist : Hist newDB w db) :
    (w.rows ≤ 4294967287 → db.store.hdr.lastKey < 2 ^ 32) ∧
    (2 * w.rows + w.lsns + w.recs < 2 ^ 64 - 8 → db.store.hdr.nextLSN < 2 ^ 64) ∧
    (66 * (w.rows + w.replayed) + w.creates < 2 ^ 51 - 3 → db.store.hdr.nextFree < 2 ^ 63) ∧
    (w.total ≤ 4294967287 →
      db.store.hdr.lastKey < 2 ^ 32 ∧ db.store.hdr.nextLSN < 2 ^ 64 ∧ db.store.hdr.nextFree < 2 ^ 63) := by
  obtain ⟨h1, h2, h3⟩ := counters_fit_each hist
  exact ⟨h1, h2, h3, counters_fit hist⟩

/-- non-vacuity (every state computed by the model): CREATE DATABASE; `CREATE TABLE t (a INT)`; `INSERT INTO
t VALUES (5), ('x')` - REFUSED, and row id 11 and LSN 10 are gone -; `INSERT INTO t VALUES (5), (6)`;
`UPDATE t SET a = 7 WHERE a = 6`; crash and recovery; flush.  Work: 6 rows (2 catalog rows, 2 + 2 rows), 1
table, 1 UPDATE LSN, 1 recovery that replayed 2 INSERT records; the counters end at 13 / 14 / 16384, within
`8 + 6`, `8 + 12 + 1 + 1`, `12288 + 270336 × (6 + 2) + 4096`. -/
example : ∃ db, Hist newDB ⟨6, 1, 1, 1, 2⟩ db ∧ db.store.hdr = ⟨13, 4096, 16384, 14⟩ ∧ db.wal.length = 3 ∧
    (⟨6, 1, 1, 1, 2⟩ : Work).total ≤ 4294967287 := by
  obtain ⟨db, h1, h2, h3⟩ := ex_history
  exact ⟨db, h1, h2, h3, by decide⟩

/-- **C02.counters_in_checkpointed_histories_are_bounded_by_the_log**: in the histories of the crash
theorems - `HistR r c t`: the histories `HistCT` from CREATE DATABASE (rounds of accepted statements ending
in a flush or in a crash and its recovery, accepted CREATE TABLEs; `histCT_histR`: every `HistCT` history is
one), with `r` recoveries, `c` catalog rows and `t` tables created - and after any further accepted
statements, the LOG (never truncated) bounds the counters: row-id counter `≤ 8 + c + #INSERT records`, LSN
counter `≤ 8 + 2 c + #records + r`, allocation frontier `≤ 12288 + t pages + 66 pages × (c + #INSERT
records)`.  No term for the recoveries in the frontier: every database of such a history is checkpointed and
a recovery re-allocates exactly the pages the crash lost (`Ckpt.recover_round_full`).  Hence with `c + t + r +
#records ≤ 2^32 - 9` the three counters are values of their Go types. -/
theorem C02_counters_in_checkpointed_histories_are_bounded_by_the_log {r c t : Nat} {sch : Levels}
    {db dbN : Engine.DB} {sdb sdbN : Spec.SDB} {stmts : List EStmt}
    (hist : HistR r c t sch db sdb) (run : SpecRun sch db sdb stmts dbN sdbN) :
    (dbN.store.hdr.lastKey ≤ 8 + c + insCount dbN.wal ∧
     dbN.store.hdr.nextLSN ≤ 8 + 2 * c + dbN.wal.length + r ∧
     dbN.store.hdr.nextFree ≤ 12288 + 4096 * t + 270336 * (c + insCount dbN.wal)) ∧
    (c + t + r + dbN.wal.length ≤ 4294967287 →
      dbN.store.hdr.lastKey < 2 ^ 32 ∧ dbN.store.hdr.nextLSN < 2 ^ 64 ∧ dbN.store.hdr.nextFree < 2 ^ 63) := by
  obtain ⟨h1, h2, h3⟩ := histR_run_bounds hist run
  refine ⟨⟨h1, h2, h3⟩, fun hN => ?_⟩
  have := insCount_le dbN.wal
  have p32 : (2 : Nat) ^ 32 = 4294967296 := by decide
  have p64 : (2 : Nat) ^ 64 = 18446744073709551616 := by decide
  have p63 : (2 : Nat) ^ 63 = 9223372036854775808 := by decide
  exact ⟨by omega, by omega, by omega⟩

/-- non-vacuity: the history of `C02_rounds_example_from_create_database` (CREATE TABLE, INSERT of two rows,
crash, recovery, UPDATE, crash, recovery), counted: two recoveries, two catalog rows, one table -/
example : ∃ dbR2, HistR 2 2 1 schT dbR2 sdbA2 ∧ SpecRun schT dbR2 sdbA2 [] dbR2 sdbA2 := by
  obtain ⟨db1, dbR1, db2, dbR2, pt2, tbls2, hc, run1, rec1, _, run2, rec2, _, hk, _⟩ := real_rounds_example
  have h0 : HistR 0 (0 + (acols.length + 1)) (0 + 1) schT tableDB ([] ++ [⟨tname, acols.map Spec.colField, []⟩]) :=
    HistR.create .nil tname acols [] rfl tname_ne_sys.1 tname_ne_sys.2 acols_fields acheck
      (grown_newDB.create (by decide) tname rfl tname_ne_sys.1 tname_ne_sys.2 acheck).1 hc cat_tableDB
  exact ⟨dbR2, (h0.crash run1 rec1).crash run2 rec2, .nil _ _⟩

end Mkdb.Store

namespace Mkdb.Session
open Mkdb.Engine Mkdb.Store Mkdb.Sql

/-- **C02.row_ids_of_a_session_fit** (the session model `Session.exec`: CREATE DATABASE, USE - which flushes
and re-opens the database selected before -, SHOW DATABASES, SELECT, and the four DML / DDL statements on the
selected database, accepted or refused or given with no database selected; `runAll` goes on after every
error): after ANY list of statements from the empty session, every database of the session is reached from
the database CREATE DATABASE leaves by a history `Hist` (so `C02_counters_after_any_history` applies to it)
whose row-id work is at most `Σ stmtRows` - the rows of all INSERT statements plus the catalog rows (columns +
1) of all CREATE TABLE statements of the list, to whatever database they went; its row-id counter is at most
8 plus that, and a `uint32` if the list carries at most `2^32 - 9` such rows.  A restart of the session
(close, start-up recovery of every database, re-open) keeps this: `restart_sessRows`. -/
theorem C02_row_ids_of_a_session_fit (sts : List Sql.Stmt) :
    ∀ p ∈ (runAll {} sts).1.dbs, (∃ w, Hist newDB w p.2 ∧ w.rows ≤ (sts.map stmtRows).sum) ∧
      p.2.store.hdr.lastKey ≤ 8 + (sts.map stmtRows).sum ∧
      ((sts.map stmtRows).sum ≤ 4294967287 → p.2.store.hdr.lastKey < 2 ^ 32) :=
  session_row_ids_fit sts

/-- a session: an INSERT before any database is selected (it counts), `CREATE DATABASE d`, `USE d`, `CREATE
TABLE t (a INT)`, a refused and an accepted two-row INSERT -/
def exSession : List Sql.Stmt :=
  [.insert tname [] [[.int 1]], .createDatabase [100], .use [100], .createTable tname acols,
   .insert tname [] [[.int 5], [.str [120]]], .insert tname [] [[.int 5], [.int 6]]]

/-- the example session, computed: one database, row-id counter 13, within `8 + 7` -/
example : (runAll {} exSession).1.dbs.map (fun p => (p.1, p.2.store.hdr.lastKey)) = [("d", 13)] ∧
    (exSession.map stmtRows).sum = 7 := by decide +kernel

end Mkdb.Session
