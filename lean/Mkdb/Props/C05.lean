import Mkdb.Proofs.Select
import Mkdb.Proofs.AliasCapture
import Mkdb.Proofs.Meaning3
import Mkdb.Proofs.SortAny1
import Mkdb.Proofs.SortAny2
import Mkdb.Props.C10
/-!
# C05 — single-table SELECT returns what its clauses mean

Property theorems only (proofs in `Mkdb/Proofs/Select.lean`).  Quantifier: every table
content, every query (any WHERE condition, select list, ORDER BY keys, OFFSET, LIMIT).
-/
namespace Mkdb.Exec
open Mkdb.Sql Mkdb.Exec.SelectP Mkdb.Exec.AliasCaptureP

/-- **C05.select_correct**: the result of a single-table SELECT without aggregates and without
GROUP BY is exactly: the rows of the table that satisfy the WHERE condition (in insertion order),
projected by the select list, sorted by the resolved ORDER BY keys, then OFFSET rows
dropped and at most LIMIT rows kept — nothing else happens, in that order.
(The keys are resolved against `sortFields q.list hdr`: the output header in which an aliased
column has lost its table id, so that a qualified key `t.b` is not captured by the alias `b` of
another column - `C05_qualified_key_not_captured_by_alias`.)
(`hgb : q.groupBy = []`: a GROUP BY groups even when the select list holds no aggregate -
`SELECT a FROM t GROUP BY a` is one row per distinct `a`, which is C07's
`C07_group_by_without_aggregate`, not this theorem.) -/
theorem C05_select_correct {fetch : Bytes → Option Table} {q : Select} {t : TableName}
    {rows : List Row} {hdr : List Field}
    (hfrom : q.from_ = some (.table t)) (hagg : hasAggr q.list = false) (hgb : q.groupBy = [])
    (h : evaluateSelect fetch q = .ok (rows, hdr)) :
    ∃ tbl src fields filtered projected keys,
      fetch t.name = some tbl ∧ src = tbl.rows ∧ fields = tableFields t tbl ∧
      (match q.where_ with
        | some c => (∀ r ∈ src, ∃ v, evaluate c fields r = .ok v) ∧
                    filtered = src.filter (keeps c fields)
        | none => filtered = src) ∧
      projectColumns q.list fields filtered = .ok (projected, hdr) ∧
      resolveSortKeys q.orderBy (sortFields q.list hdr) = .ok keys ∧
      (∀ a ∈ projected, ∀ b ∈ projected, KeyComparable keys a b) ∧
      rows = cut q.lim (sortRows keys projected) :=
  select_single_table hfrom hagg hgb h

/-- **C05.sort**: the sorting step returns a permutation of its input that is sorted by
the keys (ASC/DESC per key), for every key list and every row list. -/
theorem C05_sort (keys : List (Nat × Bool)) (rows : List Row) :
    (sortRows keys rows).Perm rows ∧ Spec.sortedBy keys (sortRows keys rows) = true :=
  ⟨sortRows_perm keys rows, sortRows_sorted keys rows⟩

/-- **C05.insertion_order**: without ORDER BY the rows come back in insertion order. -/
theorem C05_no_order_by (rows : List Row) : sortRows [] rows = rows := sortRows_stable_nokeys rows

/-- **C05.cmp_strict_weak**: on rows whose key columns hold values of one type (or NULL)
the multi-key ASC/DESC comparator is a strict weak order — the hypothesis under which the
library sort (`sort.Slice`) is trusted to produce a sorted permutation. -/
theorem C05_cmp_strict_weak (keys : List (Nat × Bool)) (S : List Row)
    (hS : ∀ a ∈ S, ∀ b ∈ S, KeyComparable keys a b) : StrictWeakOn (rowLess keys) S :=
  rowLess_strict_weak keys S hS

/-- **C05.limit_offset**: the final rows are `take LIMIT (drop OFFSET sorted)` of a sorted
permutation of the projected rows, and are themselves sorted.  (Without aggregates and without
GROUP BY, `hgb : q.groupBy = []`, as in `C05_select_correct`: with a GROUP BY the sorted rows are
the grouped rows, not the projected ones.) -/
theorem C05_limit_offset {fetch : Bytes → Option Table} {q : Select} {t : TableName}
    {rows : List Row} {hdr : List Field}
    (hfrom : q.from_ = some (.table t)) (hagg : hasAggr q.list = false) (hgb : q.groupBy = [])
    (h : evaluateSelect fetch q = .ok (rows, hdr)) :
    ∃ keys fields filtered projected sorted,
      projectColumns q.list fields filtered = .ok (projected, hdr) ∧
      Spec.sortKeys q hdr = some keys ∧
      sorted = sortRows keys projected ∧ sorted.Perm projected ∧
      Spec.sortedBy keys sorted = true ∧
      sorted.Pairwise (fun a b => rowLess keys b a = false) ∧
      rows = (let off := if q.lim.offsetActive then q.lim.offset.toNat else 0
              let d := sorted.drop off
              if q.lim.limitActive then d.take q.lim.limit.toNat else d) ∧
      Spec.sortedBy keys rows = true :=
  limit_offset_spec hfrom hagg hgb h

/-- **C05.qualified_key_not_captured_by_alias**: a qualified ORDER BY key finds only a non-aliased
column of the table it names.  For a select list `sl` and an output header `hdr` of the same length
(any select list but `*`), if the qualified reference `c` resolves - in the header `sortColumns` is
handed, `sortFields sl hdr` - to position `i`, then the `i`-th select-list element has no alias and
the `i`-th output column is the column `c.qual.c.name` itself.  (`SELECT a AS b, b AS c FROM t
ORDER BY t.b` used to sort by the first column, the alias `b` of `a`: the defect repaired in
`sortColumns`; see the example below.) -/
theorem C05_qualified_key_not_captured_by_alias (sl : List DerivedCol) (hdr : List Field)
    (hlen : sl.length = hdr.length) (c : ColRef) (hq : c.qual ≠ []) (i : Nat)
    (h : findColumn c (sortFields sl hdr) = .ok i) :
    (sl[i]?).map (·.alias) = some [] ∧ hdr[i]? = some ⟨c.qual, c.name⟩ :=
  qualified_key_not_captured_by_alias sl hdr hlen c hq i h

/-- `sortFields` only blanks table ids: the positions of the header are unchanged -/
theorem C05_sortFields_length (sl : List DerivedCol) (hdr : List Field) :
    (sortFields sl hdr).length = hdr.length := sortFields_length sl hdr

/-- `SELECT a AS b, b AS c FROM t ORDER BY t.b`: the key is refused (no output column is the column
`b` of `t`), whereas resolved against the raw output header it was the alias `b` of column `a` -/
example :
    findColumn ⟨[116], [98]⟩
      (sortFields [⟨.expr (.val (.col ⟨[], [97]⟩)), [98]⟩, ⟨.expr (.val (.col ⟨[], [98]⟩)), [99]⟩]
        [⟨[116], [98]⟩, ⟨[116], [99]⟩]) = .err .fieldNotFound ∧
    findColumn ⟨[116], [98]⟩ [⟨[116], [98]⟩, ⟨[116], [99]⟩] = .ok 0 := by decide

/-- **C05.where**: the WHERE step keeps exactly the rows on which the condition holds, in order. -/
theorem C05_where {c : Cond} {fields : List Field} {rows out : List Row}
    (h : filterRows c fields rows = .ok out) :
    (∀ r ∈ rows, ∃ v, evaluate c fields r = .ok v) ∧ out = rows.filter (keeps c fields) :=
  filterRows_ok h

/-- **C05.precedence** is `C10_cond_roundtrip`: every parenthesis-free AND/OR combination
parses to the tree with AND binding tighter than OR; `evaluate` then computes
`(… ∧ …) ∨ …` on that tree. -/
theorem C05_or_of_and (p q r : Pred) (fields : List Field) (row : Row) (a b c : Bool)
    (hp : evalPred p fields row = .ok a) (hq : evalPred q fields row = .ok b) (hr : evalPred r fields row = .ok c) :
    evaluate (Sql.orTree (p, [q]) [(r, [])]) fields row = .ok (.bool ((a && b) || c)) := by
  simp [Sql.orTree, Sql.andTree, evaluate, hp, hq, hr, bind, Bind.bind]

end Mkdb.Exec

/-! ## The executor against the reference meaning

`Spec.meaning fetch q` (the rows a SELECT means before ORDER BY / OFFSET / LIMIT, written as list
comprehensions) and `Spec.satisfies q hdr want result` ("`result` is what `q` means") are the pair
the differential-testing judge evaluates on the output of the real implementation
(`Mkdb/Driver/Exec.lean`, `judgeLine`); the header it passes is `judgeHeader fetch q`
(`projectColumns q.list fields []` on the fields of `Spec.fromRows`).  The theorems below say that the
model of `EvaluateSelect` and this reference meaning agree, in both directions. -/
namespace Mkdb.Exec
open Mkdb.Sql Mkdb.Exec.SelectP Mkdb.Exec.MeaningP

/-- **C05.result_is_the_reference_meaning**: whatever a single-table SELECT without aggregates and
without GROUP BY answers is what the query means.  If `evaluateSelect` answers `(rows, hdr)` then the
query has a reference meaning `want` (`Spec.meaning`: the rows of the table satisfying WHERE, in
insertion order, projected by the select list), `hdr` is the header the judge computes, the ORDER BY
keys resolve against it to `keys`, the key columns of `want` are comparable, the answer is exactly
`rows = cut (sortRows keys want)` (OFFSET rows dropped, at most LIMIT kept; without ORDER BY
`keys = []` and `sortRows [] want = want`: insertion order), and the judge's test
`Spec.satisfies q hdr want rows` accepts it.
Hypothesis `hwhere` excludes a WHERE clause that is a bare integer or string literal (`WHERE 5`):
the code evaluates it to a non-boolean, selects no row and answers, while the reference meaning is
undefined (ill-typed) - `C05_bare_literal_where_is_answered` is the witness that the hypothesis is
needed. -/
theorem C05_result_is_the_reference_meaning {fetch : Bytes → Option Table} {q : Select}
    {t : TableName} {rows : List Row} {hdr : List Field}
    (hfrom : q.from_ = some (.table t)) (hagg : hasAggr q.list = false) (hgb : q.groupBy = [])
    (hwhere : whereIsBoolean q = true)
    (h : evaluateSelect fetch q = .ok (rows, hdr)) :
    ∃ want keys, Spec.meaning fetch q = some want ∧ hdr = judgeHeader fetch q ∧
      Spec.sortKeys q hdr = some keys ∧
      (∀ a ∈ want, ∀ b ∈ want, KeyComparable keys a b) ∧
      rows = cut q.lim (sortRows keys want) ∧
      Spec.satisfies q hdr want rows = true := by
  obtain ⟨want, keys, hm, hh, hk, hcomp, rfl, _⟩ := (single_table_iff hfrom hagg hgb hwhere).1 h
  exact ⟨want, keys, hm, (judgeHeader_of hh).symm, hk, hcomp, rfl,
    satisfies_single want hfrom hagg hgb hk⟩

/-- **C05.meaningful_query_is_answered** (the converse: what makes the reference meaning a
specification and not a restatement): a single-table SELECT without aggregates and without GROUP BY
that has a reference meaning `want`, whose ORDER BY keys resolve against the header the judge
computes and whose key columns hold comparable values (one type, or NULL - what typed columns
guarantee; `C05_incomparable_keys_panic` shows the hypothesis is needed) is not refused: the
executor answers, with that header and exactly the rows `cut (sortRows keys want)`, and the judge's
test accepts the answer.  No hypothesis on WHERE and none on the shape of the stored rows.
Hypotheses `hlist`, `hlim`: the select list is not empty and no written LIMIT / OFFSET is negative
(`Spec.boundsOK`) - true of every statement the parser returns; `EvaluateSelect` takes both for
granted and a hand-built statement without them makes it panic (`selectList[0]`, `rows[0:limit]`,
`rows[offset:]`) although the reference meaning, which does not look at LIMIT / OFFSET, is defined:
`C05_empty_list_and_negative_bounds_panic`. -/
theorem C05_meaningful_query_is_answered {fetch : Bytes → Option Table} {q : Select}
    {t : TableName} {want : List Row} {keys : List (Nat × Bool)}
    (hfrom : q.from_ = some (.table t)) (hagg : hasAggr q.list = false) (hgb : q.groupBy = [])
    (hlist : q.list ≠ []) (hlim : Spec.boundsOK q.lim = true)
    (hm : Spec.meaning fetch q = some want)
    (hk : Spec.sortKeys q (judgeHeader fetch q) = some keys)
    (hcomp : ∀ a ∈ want, ∀ b ∈ want, KeyComparable keys a b) :
    evaluateSelect fetch q = .ok (cut q.lim (sortRows keys want), judgeHeader fetch q) ∧
      Spec.satisfies q (judgeHeader fetch q) want (cut q.lim (sortRows keys want)) = true :=
  ⟨(meaningful_single_table_answered hfrom hagg hgb hlist hlim hm hk hcomp).1,
   satisfies_single want hfrom hagg hgb hk⟩

/-- **C05.answered_iff_meaningful**: the two directions as one equivalence.  For a single-table
SELECT without aggregates and GROUP BY whose WHERE clause is not a bare non-boolean literal, the
executor answers `(rows, hdr)` if and only if the select list is not empty, no written LIMIT / OFFSET
is negative (`Spec.boundsOK`; both hold of every parsed statement), the query has a reference meaning
`want`, `hdr` is the judge's header, the sort keys resolve to `keys` and are comparable on `want`, and
`rows = cut (sortRows keys want)`.  In particular a query without a meaning (unknown table, unknown
or ambiguous column, ill-typed comparison on some row) or with an unresolvable sort key is refused
(an error or a panic), and a refused query has no meaning or no usable sort keys. -/
theorem C05_answered_iff_meaningful {fetch : Bytes → Option Table} {q : Select} {t : TableName}
    (hfrom : q.from_ = some (.table t)) (hagg : hasAggr q.list = false) (hgb : q.groupBy = [])
    (hwhere : whereIsBoolean q = true) (rows : List Row) (hdr : List Field) :
    evaluateSelect fetch q = .ok (rows, hdr) ↔
      q.list ≠ [] ∧ Spec.boundsOK q.lim = true ∧
      ∃ want keys, Spec.meaning fetch q = some want ∧ hdr = judgeHeader fetch q ∧
        Spec.sortKeys q hdr = some keys ∧
        (∀ a ∈ want, ∀ b ∈ want, KeyComparable keys a b) ∧
        rows = cut q.lim (sortRows keys want) := by
  constructor
  · intro h
    obtain ⟨want, keys, hm, hh, hk, hcomp, hrows, _⟩ :=
      C05_result_is_the_reference_meaning hfrom hagg hgb hwhere h
    obtain ⟨_, _, _, hh', _, _, _, hb⟩ := (single_table_iff hfrom hagg hgb hwhere).1 h
    exact ⟨NoPanicP.projectColumns_ok_ne_nil hh', hb, want, keys, hm, hh, hk, hcomp, hrows⟩
  · rintro ⟨hlist, hlim, want, keys, hm, rfl, hk, hcomp, rfl⟩
    exact (C05_meaningful_query_is_answered hfrom hagg hgb hlist hlim hm hk hcomp).1

/-- the judge's header, spelled out: `projectColumns` on the fields of the FROM clause and no rows -/
theorem C05_judgeHeader_def (fetch : Bytes → Option Table) (q : Select) :
    judgeHeader fetch q =
      (match projectColumns q.list
          (match q.from_ with
            | some tr => (match Spec.fromRows fetch tr with | some (_, f) => f | none => [])
            | none => []) [] with
        | .ok (_, h) => h | _ => []) := rfl

/-- the hypothesis on WHERE, spelled out -/
theorem C05_whereIsBoolean_def (q : Select) :
    whereIsBoolean q = (match q.where_ with
      | some (.val (.lit (.int _))) => false
      | some (.val (.lit (.str _))) => false
      | _ => true) := by
  unfold whereIsBoolean
  cases q.where_ with
  | none => rfl
  | some c => cases c with
    | val v => cases v with
      | lit l => cases l <;> rfl
      | col c => rfl
    | pred p => rfl
    | and p r => rfl
    | or l r => rfl

/-- `SELECT a FROM t WHERE 5` -/
def exQueryBareLiteral : Select :=
  { list := [⟨.expr (.val (.col ⟨[], [97]⟩)), []⟩]
    from_ := some (.table ⟨[116], none⟩)
    where_ := some (.val (.lit (.int 5))) }

/-- **C05.bare_literal_where_is_answered** (an ill-typed query answered; why
`C05_result_is_the_reference_meaning` has the hypothesis `whereIsBoolean`): `SELECT a FROM t WHERE 5`
on a table with five rows is answered with the empty result, although the condition is not a truth
value on any row and the reference meaning is undefined (`filterRows` keeps a row when the value is
the boolean `true` and drops it silently when it is not a boolean at all).  The parser accepts the
statement; the judge does not flag it (a query without meaning may be answered with anything but
rows in an unresolvable order). -/
theorem C05_bare_literal_where_is_answered :
    evaluateSelect exFetch exQueryBareLiteral = .ok ([], [⟨[116], [97]⟩]) ∧
    Spec.meaning exFetch exQueryBareLiteral = none ∧ whereIsBoolean exQueryBareLiteral = false := by
  decide

/-- table `m(a)` with an integer and a string in one column (no typed table holds this) -/
def exFetchMixed (n : Bytes) : Option Table :=
  if n = [109] then some ⟨[[97]], [[.int 1], [.str [120]]]⟩ else none

/-- `SELECT a FROM m ORDER BY a` -/
def exQueryMixed : Select :=
  { list := [⟨.expr (.val (.col ⟨[], [97]⟩)), []⟩]
    from_ := some (.table ⟨[109], none⟩)
    orderBy := [⟨⟨[], [97]⟩, false⟩] }

/-- **C05.incomparable_keys_panic** (why `C05_meaningful_query_is_answered` has the hypothesis
`KeyComparable`): on a column holding an integer and a string the query has a meaning and its sort
key resolves, yet the executor does not answer - the comparator of `sortColumns` has no order for
the pair (a panic in Go; C18 records it). -/
theorem C05_incomparable_keys_panic :
    Spec.meaning exFetchMixed exQueryMixed = some [[.int 1], [.str [120]]] ∧
    Spec.sortKeys exQueryMixed (judgeHeader exFetchMixed exQueryMixed) = some [(0, false)] ∧
    evaluateSelect exFetchMixed exQueryMixed = .panic "sortColumns: no comparison available" := by
  decide

/-- **C05.empty_list_and_negative_bounds_panic** (why `C05_meaningful_query_is_answered` has `hlist`
and `hlim`): three hand-built statements over the table `m` - an empty select list, `SELECT a FROM m
LIMIT -1`, `SELECT a FROM m OFFSET -1` (the parser returns none of them: it demands a select list and
refuses a negative bound) - have a reference meaning, and `EvaluateSelect` panics on each, in the Go
code (index out of range [0], slice bounds out of range [:-1] and [-1:]) as in the model. -/
theorem C05_empty_list_and_negative_bounds_panic :
    Spec.meaning exFetchMixed { list := [], from_ := some (.table ⟨[109], none⟩) } = some [[], []] ∧
    evaluateSelect exFetchMixed { list := [], from_ := some (.table ⟨[109], none⟩) } =
      .panic "projectColumns: selectList[0]" ∧
    Spec.meaning exFetchMixed { exQueryMixed with orderBy := [], lim := { limitActive := true, limit := -1 } } =
      some [[.int 1], [.str [120]]] ∧
    evaluateSelect exFetchMixed { exQueryMixed with orderBy := [], lim := { limitActive := true, limit := -1 } } =
      .panic "limit: rows[0:limit]" ∧
    evaluateSelect exFetchMixed { exQueryMixed with orderBy := [], lim := { offsetActive := true, offset := -1 } } =
      .panic "offset: rows[offset:]" := by
  decide

-- non-vacuity: `SELECT b, a FROM t WHERE a = 3 OR b = 'ab' ORDER BY b LIMIT 2 OFFSET 1` on the
-- five-row table `t(a, b)` of `Mkdb/Proofs/Select.lean` meets every hypothesis of the three theorems
example : exQuery.from_ = some (.table ⟨[116], none⟩) ∧ hasAggr exQuery.list = false ∧
    exQuery.groupBy = [] ∧ whereIsBoolean exQuery = true ∧ exQuery.list ≠ [] ∧
    Spec.boundsOK exQuery.lim = true := by decide
example : evaluateSelect exFetch exQuery =
    .ok ([[.str [97, 98], .int 1], [.str [98], .int 3]], [⟨[116], [98]⟩, ⟨[116], [97]⟩]) := rfl
example : Spec.meaning exFetch exQuery =
    some [[.str [98], .int 3], [.str [97, 98], .int 1], [.str [97], .int 3]] := by decide
example : judgeHeader exFetch exQuery = [⟨[116], [98]⟩, ⟨[116], [97]⟩] := by decide
example : Spec.sortKeys exQuery (judgeHeader exFetch exQuery) = some [(0, false)] := by decide
example : ∀ a ∈ ([[.str [98], .int 3], [.str [97, 98], .int 1], [.str [97], .int 3]] : List Row),
    ∀ b ∈ ([[.str [98], .int 3], [.str [97, 98], .int 1], [.str [97], .int 3]] : List Row),
      KeyComparable [(0, false)] a b := by decide
-- and the answer is the meaning, sorted by `b` ascending, one row skipped, two kept
example : cut exQuery.lim (sortRows [(0, false)]
    [[.str [98], .int 3], [.str [97, 98], .int 1], [.str [97], .int 3]]) =
    [[.str [97, 98], .int 1], [.str [98], .int 3]] := by decide
example : Spec.satisfies exQuery (judgeHeader exFetch exQuery)
    [[.str [98], .int 3], [.str [97, 98], .int 1], [.str [97], .int 3]]
    [[.str [97, 98], .int 1], [.str [98], .int 3]] = true := by decide

end Mkdb.Exec

/-! ## ORDER BY under any correct sorting algorithm

The model sorts with a stable insertion sort (`sortRows`).  The Go code sorts with `sort.Slice`
(`sortColumns`, engine/select.go), which is an insertion sort up to 12 elements and a
pattern-defeating quicksort above: from 13 rows on it is NOT stable, and rows that are tied under the
sort keys may come back in another order than the model's - with LIMIT / OFFSET, other rows
(`exTieRows13` below is an order `sort.Slice` of go1.23.5 really returns).  The theorems of this section
are the bridge between the exact statements above (`rows = cut (sortRows keys want)`) and the code:
`SortedPerm keys rows out` is what ANY correct sort may return (a rearrangement of `rows` in which no
row is strictly before its predecessor under the comparison of `sortColumns`); without ties there is
one such `out` and the exact statements describe the code whatever it sorts with; with ties every
such `out`, cut, is what `Spec.satisfies` accepts - and the exact statements describe the model only.
(The comparison `rowLess keys` is irreflexive, asymmetric and transitive on all rows -
`rowLess_irrefl`, `rowLess_asymm`, `rowLess_trans`; "tied" is transitive on rows whose key columns hold
values of one type or NULL - `C05_cmp_strict_weak` -, and on the others `sortColumns` panics:
`C05_incomparable_keys_panic`.  So `sort.Slice` is never left with a comparison that is not a strict
weak order.) -/
namespace Mkdb.Exec
open Mkdb.Sql Mkdb.Exec.SelectP Mkdb.Exec.MeaningP Mkdb.Exec.SortAnyP

/-- what any correct sort may return, spelled out: a permutation of the input, sorted on consecutive
pairs by the comparison of `sortColumns` -/
theorem C05_SortedPerm_def (keys : List (Nat × Bool)) (rows out : List Row) :
    SortedPerm keys rows out ↔ out.Perm rows ∧ Spec.sortedBy keys out = true := Iff.rfl

/-- **C05.model_sort_is_a_correct_sort**: what the model's stable insertion sort returns is one of
the lists a correct sort may return (`SortedPerm`), for every key list and every row list; on rows
whose key columns are comparable, being sorted on consecutive pairs (the definition) and being sorted
on all pairs are the same thing, for every correct sort. -/
theorem C05_model_sort_is_a_correct_sort (keys : List (Nat × Bool)) (rows : List Row) :
    SortedPerm keys rows (sortRows keys rows) ∧
    ((∀ a ∈ rows, ∀ b ∈ rows, KeyComparable keys a b) → ∀ out, SortedPerm keys rows out →
      out.Pairwise (fun a b => rowLess keys b a = false)) :=
  ⟨sortRows_sortedPerm keys rows, fun hc _ h => sortedPerm_pairwise hc h⟩

/-- **C05.sort_is_unique_without_ties**: if no two different positions of `rows` are tied under the
sort keys (one of the two rows is strictly before the other), then every correct sort - stable or
not - returns the same list: the one the model's `sortRows` returns.  This is what makes the exact
theorems (`rows = cut (sortRows keys want)`) statements about the Go code, whose `sort.Slice` is not
stable from 13 rows on: on tie-free keys stability does not matter.  No hypothesis on the types of
the key columns: a tie-free list is totally ordered by the comparison.  Excluded: lists with two rows
carrying the same key values (in particular a list holding one row twice), see
`C05_tied_rows_have_several_correct_orders`. -/
theorem C05_sort_is_unique_without_ties {keys : List (Nat × Bool)} {rows out : List Row}
    (htf : ∀ (i j : Nat) (hi : i < rows.length) (hj : j < rows.length), i ≠ j →
      rowLess keys rows[i] rows[j] = true ∨ rowLess keys rows[j] rows[i] = true)
    (hout : SortedPerm keys rows out) : out = sortRows keys rows :=
  sortedPerm_unique ((tieFree_iff_index keys rows).2 htf) hout

/-- **C05.tie_free_sort_ignores_the_input_order**: the same for a sort that is handed a rearrangement
`got` of the tie-free rows `want` (after a join or a grouping the model's rows come in the order of
the nested loops or of the groups: C06, C07): every correct sort of `got` returns `sortRows keys want`.
On tie-free keys the exact answer `cut (sortRows keys want)` depends neither on the sorting algorithm
nor on the order in which the rows were produced. -/
theorem C05_tie_free_sort_ignores_the_input_order {keys : List (Nat × Bool)} {want got out : List Row}
    (htf : ∀ (i j : Nat) (hi : i < want.length) (hj : j < want.length), i ≠ j →
      rowLess keys want[i] want[j] = true ∨ rowLess keys want[j] want[i] = true)
    (hgot : got.Perm want) (hout : SortedPerm keys got out) : out = sortRows keys want :=
  C05_sort_is_unique_without_ties htf (hout.of_perm hgot)

/-- **C05.any_correct_sort_satisfies_the_reference**: under ORDER BY, whatever a correct sort - stable
or not, e.g. Go's `sort.Slice`, unstable from 13 rows on - makes of the rows to be sorted, cut by
OFFSET / LIMIT, is accepted by the reference `Spec.satisfies`.  `want` is the meaning of the query
(`Spec.meaning`), `got` the rows handed to the sort: `want` itself for a single table, a
rearrangement of it after a join or a grouping (C06, C07), `out` any sorted rearrangement of `got`.
With ties `cut out` may hold other rows than the model's answer; the reference accepts it because it
asks for: the right number of rows, sorted, the key values of the model's answer position by
position, every row taken from the meaning (no more often than it occurs there).
Hypotheses: `hob`, there is an ORDER BY (without one see
`C05_without_order_by_only_insertion_order_is_accepted`); `hcomp`, the key columns hold values of one
type or NULL (otherwise `sortColumns` panics and there is no answer). -/
theorem C05_any_correct_sort_satisfies_the_reference {q : Select} {hdr : List Field}
    {keys : List (Nat × Bool)} {want got out : List Row}
    (hob : q.orderBy ≠ []) (hk : Spec.sortKeys q hdr = some keys)
    (hcomp : ∀ a ∈ want, ∀ b ∈ want, KeyComparable keys a b)
    (hgot : got.Perm want) (hout : SortedPerm keys got out) :
    Spec.satisfies q hdr want (cut q.lim out) = true :=
  satisfies_any_sort hob hk hcomp (hout.of_perm hgot)

/-- **C05.reference_accepts_exactly_the_correct_sorts**: under ORDER BY, on a meaning `want` whose
key columns hold comparable values, the reference `Spec.satisfies` accepts a result if and only if it
is `cut out` (OFFSET rows dropped, at most LIMIT kept) for SOME correct sort `out` of `want` - some
rearrangement of the meaning that is sorted by the keys.  So the specification neither demands
stability (which Go's `sort.Slice` does not give from 13 rows on) nor lets through anything a correct
sort followed by the cut could not have produced: it is exactly "sort correctly, then cut".
Hypotheses as in `C05_any_correct_sort_satisfies_the_reference`; excluded: no ORDER BY (there the
reference asks for the insertion order, `C05_without_order_by_only_insertion_order_is_accepted`). -/
theorem C05_reference_accepts_exactly_the_correct_sorts {q : Select} {hdr : List Field}
    {keys : List (Nat × Bool)} {want : List Row}
    (hob : q.orderBy ≠ []) (hk : Spec.sortKeys q hdr = some keys)
    (hcomp : ∀ a ∈ want, ∀ b ∈ want, KeyComparable keys a b) (result : List Row) :
    Spec.satisfies q hdr want result = true ↔
      ∃ out, SortedPerm keys want out ∧ cut q.lim out = result :=
  ⟨accepted_is_cut_of_sort hob hk hcomp,
   fun ⟨_, hout, hcut⟩ => hcut ▸ satisfies_any_sort hob hk hcomp hout⟩

/-- **C05.answered_query_accepts_any_correct_sort**: the same, tied to the executor.  If the model of
`EvaluateSelect` answers a single-table SELECT with ORDER BY (no aggregates, no GROUP BY), then the
query has a meaning `want`, the keys resolve to `keys`, the model's answer is the stable one,
`cut (sortRows keys want)`, and the answer of ANY implementation that filters and projects like the
model and then sorts correctly - `cut out` for a `SortedPerm keys want out`; Go's unstable
`sort.Slice` from 13 rows on - is accepted by the reference. -/
theorem C05_answered_query_accepts_any_correct_sort {fetch : Bytes → Option Table} {q : Select}
    {t : TableName} {rows : List Row} {hdr : List Field}
    (hfrom : q.from_ = some (.table t)) (hagg : hasAggr q.list = false) (hgb : q.groupBy = [])
    (hwhere : whereIsBoolean q = true) (hob : q.orderBy ≠ [])
    (h : evaluateSelect fetch q = .ok (rows, hdr)) :
    ∃ want keys, Spec.meaning fetch q = some want ∧ Spec.sortKeys q hdr = some keys ∧
      rows = cut q.lim (sortRows keys want) ∧ SortedPerm keys want (sortRows keys want) ∧
      ∀ out, SortedPerm keys want out → Spec.satisfies q hdr want (cut q.lim out) = true := by
  obtain ⟨want, keys, hm, _, hk, hcomp, hrows, _⟩ :=
    C05_result_is_the_reference_meaning hfrom hagg hgb hwhere h
  exact ⟨want, keys, hm, hk, hrows, sortRows_sortedPerm keys want,
    fun out hout => satisfies_any_sort hob hk hcomp hout⟩

/-- **C05.exact_result_describes_any_sort_when_tie_free**: under the hypotheses of
`C05_result_is_the_reference_meaning`, if no two rows of the meaning `want` (the filtered and
projected rows) are tied under the resolved sort keys, then ANY implementation that filters and
projects as the model does and then sorts correctly - stably or not: Go's `sort.Slice` is unstable
from 13 rows on - returns exactly the `rows` the model returns: `cut out = rows` for every
`SortedPerm keys want out`.  (`hm`, `hk` name the meaning and the keys, which `h` determines:
`C05_result_is_the_reference_meaning`.)  Excluded: ties, where only
`C05_any_correct_sort_satisfies_the_reference` holds; and the query without ORDER BY, where every pair
of rows is tied: `C05_without_order_by_only_insertion_order_is_accepted`. -/
theorem C05_exact_result_describes_any_sort_when_tie_free {fetch : Bytes → Option Table} {q : Select}
    {t : TableName} {rows want : List Row} {hdr : List Field} {keys : List (Nat × Bool)}
    (hfrom : q.from_ = some (.table t)) (hagg : hasAggr q.list = false) (hgb : q.groupBy = [])
    (hwhere : whereIsBoolean q = true)
    (h : evaluateSelect fetch q = .ok (rows, hdr))
    (hm : Spec.meaning fetch q = some want) (hk : Spec.sortKeys q hdr = some keys)
    (htf : ∀ (i j : Nat) (hi : i < want.length) (hj : j < want.length), i ≠ j →
      rowLess keys want[i] want[j] = true ∨ rowLess keys want[j] want[i] = true) :
    ∀ out, SortedPerm keys want out → cut q.lim out = rows := by
  obtain ⟨want', keys', hm', _, hk', _, hrows, _⟩ :=
    C05_result_is_the_reference_meaning hfrom hagg hgb hwhere h
  rw [hm] at hm'; cases hm'
  rw [hk] at hk'; cases hk'
  intro out hout
  rw [hrows, C05_sort_is_unique_without_ties htf hout]

/-- **C05.without_order_by_only_insertion_order_is_accepted** (the special case without sort keys):
a single-table SELECT without ORDER BY (no aggregates, no GROUP BY) that is answered has the empty key
list, the model's answer is the meaning in insertion order, cut (`sortRows [] want = want`); under
the empty key list EVERY pair of rows is tied and every rearrangement of `want` is "sorted"
(`SortedPerm [] want out ↔ out.Perm want`), yet the reference accepts the insertion order only
(`result = rows`).  So here the freedom of an unstable sort is NOT covered by the specification: the
Go code calls `sort.Slice` also when there is no ORDER BY, with a comparison that is constantly
false, and the result is right only because the library's insertion sort and pdqsort move nothing
when nothing is less than anything (no documented guarantee of `sort.Slice`; observed on go1.23.5 for
5 to 5000 rows). -/
theorem C05_without_order_by_only_insertion_order_is_accepted {fetch : Bytes → Option Table}
    {q : Select} {t : TableName} {rows : List Row} {hdr : List Field}
    (hfrom : q.from_ = some (.table t)) (hagg : hasAggr q.list = false) (hgb : q.groupBy = [])
    (hwhere : whereIsBoolean q = true) (hob : q.orderBy = [])
    (h : evaluateSelect fetch q = .ok (rows, hdr)) :
    ∃ want, Spec.meaning fetch q = some want ∧ Spec.sortKeys q hdr = some [] ∧
      rows = cut q.lim want ∧ sortRows [] want = want ∧
      (∀ out, SortedPerm [] want out ↔ out.Perm want) ∧
      ∀ result, Spec.satisfies q hdr want result = true ↔ result = rows := by
  obtain ⟨want, keys, hm, _, hk, _, hrows, _⟩ :=
    C05_result_is_the_reference_meaning hfrom hagg hgb hwhere h
  have hkeys := keys_nil_of_no_order_by hob hk
  subst hkeys
  rw [sortRows_stable_nokeys] at hrows
  refine ⟨want, hm, hk, hrows, sortRows_stable_nokeys want, sortedPerm_nil_iff want, ?_⟩
  intro result
  rw [hrows]
  exact satisfies_no_order_by_iff hdr want result hob hfrom hagg hgb

/-! ### examples: a tie-free sort, a tied one, and what `sort.Slice` does with 13 rows -/

/-- table `u(k, v)`: `k` = 1, 1, 0 (the first two rows are tied under `k`), `v` = 10, 20, 30 -/
def exFetchTie (n : Bytes) : Option Table :=
  if n = [117] then some ⟨[[107], [118]], [[.int 1, .int 10], [.int 1, .int 20], [.int 0, .int 30]]⟩
  else none

/-- `SELECT k, v FROM u ORDER BY k LIMIT 2` (tied) -/
def exQueryTie : Select :=
  { list := [⟨.expr (.val (.col ⟨[], [107]⟩)), []⟩, ⟨.expr (.val (.col ⟨[], [118]⟩)), []⟩]
    from_ := some (.table ⟨[117], none⟩)
    orderBy := [⟨⟨[], [107]⟩, false⟩]
    lim := { limitActive := true, limit := 2 } }

/-- `SELECT k, v FROM u ORDER BY v DESC LIMIT 2` (tie-free) -/
def exQueryNoTie : Select := { exQueryTie with orderBy := [⟨⟨[], [118]⟩, true⟩] }

def exTieRows : List Row := [[.int 1, .int 10], [.int 1, .int 20], [.int 0, .int 30]]

-- non-vacuity of `C05_sort_is_unique_without_ties` and
-- `C05_exact_result_describes_any_sort_when_tie_free`: three rows with distinct keys `v`
example : exQueryNoTie.from_ = some (.table ⟨[117], none⟩) ∧ hasAggr exQueryNoTie.list = false ∧
    exQueryNoTie.groupBy = [] ∧ whereIsBoolean exQueryNoTie = true ∧ exQueryNoTie.orderBy ≠ [] := by
  decide
example : evaluateSelect exFetchTie exQueryNoTie =
    .ok ([[.int 0, .int 30], [.int 1, .int 20]], [⟨[117], [107]⟩, ⟨[117], [118]⟩]) := by decide
example : Spec.meaning exFetchTie exQueryNoTie = some exTieRows := by decide
example : Spec.sortKeys exQueryNoTie [⟨[117], [107]⟩, ⟨[117], [118]⟩] = some [(1, true)] := by decide
example : TieFree [(1, true)] exTieRows := by decide
example : ∀ (i j : Nat) (hi : i < exTieRows.length) (hj : j < exTieRows.length), i ≠ j →
    rowLess [(1, true)] exTieRows[i] exTieRows[j] = true ∨
      rowLess [(1, true)] exTieRows[j] exTieRows[i] = true :=
  (tieFree_iff_index _ _).1 (by decide)
example : SortedPerm [(1, true)] exTieRows
    [[.int 0, .int 30], [.int 1, .int 20], [.int 1, .int 10]] := by decide
example : sortRows [(1, true)] exTieRows =
    [[.int 0, .int 30], [.int 1, .int 20], [.int 1, .int 10]] := by decide

/-- **C05.tied_rows_have_several_correct_orders** (why `C05_sort_is_unique_without_ties` has its
hypothesis, and non-vacuity of `C05_any_correct_sort_satisfies_the_reference`):
`SELECT k, v FROM u ORDER BY k LIMIT 2` on three rows with `k` = 1, 1, 0.  The rows are not tie-free;
two different lists are correct sorts of them - the stable one, which the model returns, and the one
with the tied rows exchanged -; cut by `LIMIT 2` they hold DIFFERENT rows (`v` = 10 or `v` = 20 next
to `v` = 30), the model answers with the first, and the reference accepts both - and does not accept
the two rows out of order, nor a row that is not in the table. -/
theorem C05_tied_rows_have_several_correct_orders :
    Spec.meaning exFetchTie exQueryTie = some exTieRows ∧
    Spec.sortKeys exQueryTie [⟨[117], [107]⟩, ⟨[117], [118]⟩] = some [(0, false)] ∧
    ¬ TieFree [(0, false)] exTieRows ∧
    (∀ a ∈ exTieRows, ∀ b ∈ exTieRows, KeyComparable [(0, false)] a b) ∧
    sortRows [(0, false)] exTieRows = [[.int 0, .int 30], [.int 1, .int 10], [.int 1, .int 20]] ∧
    SortedPerm [(0, false)] exTieRows [[.int 0, .int 30], [.int 1, .int 10], [.int 1, .int 20]] ∧
    SortedPerm [(0, false)] exTieRows [[.int 0, .int 30], [.int 1, .int 20], [.int 1, .int 10]] ∧
    evaluateSelect exFetchTie exQueryTie =
      .ok ([[.int 0, .int 30], [.int 1, .int 10]], [⟨[117], [107]⟩, ⟨[117], [118]⟩]) ∧
    Spec.satisfies exQueryTie [⟨[117], [107]⟩, ⟨[117], [118]⟩] exTieRows
      [[.int 0, .int 30], [.int 1, .int 10]] = true ∧
    Spec.satisfies exQueryTie [⟨[117], [107]⟩, ⟨[117], [118]⟩] exTieRows
      [[.int 0, .int 30], [.int 1, .int 20]] = true ∧
    Spec.satisfies exQueryTie [⟨[117], [107]⟩, ⟨[117], [118]⟩] exTieRows
      [[.int 1, .int 10], [.int 0, .int 30]] = false ∧
    Spec.satisfies exQueryTie [⟨[117], [107]⟩, ⟨[117], [118]⟩] exTieRows
      [[.int 0, .int 30], [.int 1, .int 30]] = false := by
  decide

/-- thirteen rows `(k, id)`: `k` = 1 on the first, 0 on the twelve others -/
def exTieRows13 : List Row :=
  [.int 1, .int 0] :: (List.range 12).map fun i => [.int 0, .int (i + 1 : Nat)]

/-- the order the Go function `sortColumns` itself (engine/select.go, run with go1.23.5 on these
rows, key = first column ascending) leaves `exTieRows13` in: the row `id = 6` has moved to the front of its eleven equals -/
def exGoOrder13 : List Row :=
  ([6, 1, 2, 3, 4, 5, 7, 8, 9, 10, 11, 12].map fun (i : Nat) => [.int 0, .int i]) ++ [[.int 1, .int 0]]

/-- **C05.unstable_sort_of_13_rows** (the smallest case in which the Go code and the model differ):
for thirteen rows with the keys 1, 0, 0, …, 0 the list `sort.Slice` returns is a correct sort
(`SortedPerm`), it is not the list the model returns, under `ORDER BY k LIMIT 1` the two answers are
different rows (`id = 6` against `id = 1`), and the reference accepts both. -/
theorem C05_unstable_sort_of_13_rows :
    SortedPerm [(0, false)] exTieRows13 exGoOrder13 ∧
    exGoOrder13 ≠ sortRows [(0, false)] exTieRows13 ∧
    (exGoOrder13.take 1, (sortRows [(0, false)] exTieRows13).take 1) =
      ([[.int 0, .int 6]], [[.int 0, .int 1]]) ∧
    Spec.satisfies { exQueryTie with lim := { limitActive := true, limit := 1 } }
      [⟨[117], [107]⟩, ⟨[117], [118]⟩] exTieRows13 (exGoOrder13.take 1) = true ∧
    Spec.satisfies { exQueryTie with lim := { limitActive := true, limit := 1 } }
      [⟨[117], [107]⟩, ⟨[117], [118]⟩] exTieRows13 ((sortRows [(0, false)] exTieRows13).take 1) = true := by
  decide

-- non-vacuity of `C05_without_order_by_only_insertion_order_is_accepted`: `SELECT k, v FROM u LIMIT 2`
example : evaluateSelect exFetchTie { exQueryTie with orderBy := [] } =
    .ok ([[.int 1, .int 10], [.int 1, .int 20]], [⟨[117], [107]⟩, ⟨[117], [118]⟩]) := by decide
example : whereIsBoolean { exQueryTie with orderBy := [] } = true := by decide
example : SortedPerm [(0, false)] [[.int 0, .int 30], [.int 1, .int 10], [.int 1, .int 20]]
    (sortRows [(0, false)] [[.int 0, .int 30], [.int 1, .int 10], [.int 1, .int 20]]) := by decide
example : exQueryTie.orderBy ≠ [] ∧ whereIsBoolean exQueryTie = true := by decide
-- `C05_tie_free_sort_ignores_the_input_order`: a rearrangement of the three rows, sorted by `v` DESC
example : ([[.int 1, .int 20], [.int 0, .int 30], [.int 1, .int 10]] : List Row).Perm exTieRows ∧
    SortedPerm [(1, true)] [[.int 1, .int 20], [.int 0, .int 30], [.int 1, .int 10]]
      [[.int 0, .int 30], [.int 1, .int 20], [.int 1, .int 10]] := by decide
-- a rearrangement is a "correct sort" by no keys, and is refused
example : SortedPerm [] exTieRows [[.int 1, .int 20], [.int 1, .int 10], [.int 0, .int 30]] ∧
    Spec.satisfies { exQueryTie with orderBy := [] } [⟨[117], [107]⟩, ⟨[117], [118]⟩] exTieRows
      [[.int 1, .int 20], [.int 1, .int 10]] = false := by decide

end Mkdb.Exec
