import Mkdb.Proofs.Select
import Mkdb.Props.C10
/-!
# C05 — single-table SELECT returns what its clauses mean

Property theorems only (proofs in `Mkdb/Proofs/Select.lean`).  Quantifier: every table
content, every query (any WHERE condition, select list, ORDER BY keys, OFFSET, LIMIT).
-/
namespace Mkdb.Exec
open Mkdb.Sql Mkdb.Exec.SelectP

/-- **C05.select_correct**: the result of a single-table SELECT without aggregates and without
GROUP BY is exactly: the rows of the table that satisfy the WHERE condition (in insertion order),
projected by the select list, sorted by the resolved ORDER BY keys, then OFFSET rows
dropped and at most LIMIT rows kept — nothing else happens, in that order.
(`hgb : q.groupBy = []`: a GROUP BY groups even when the select list holds no aggregate -
`SELECT a FROM t GROUP BY a` is one row per distinct `a`, which is C07's
`C07_group_by_without_aggregate`, not this theorem.) -/
theorem C05_select_correct {fetch : Bytes → Option Table} {q : Select} {t : TableName}
    {rows : List Row} {hdr : List Field}
    (hfrom : q.from_ = some (.table t)) (hagg : hasAggr q.list = false) (hgb : q.groupBy = [])
    (h : evaluateSelect fetch q = .ok (rows, hdr)) :
    ∃ tbl src fields filtered projected keys,
      fetch t.name = some tbl ∧ src = tbl.rows ∧ fields = tableFields t tbl ∧
      (match q.where_ with
        | some c => (∀ r ∈ src, ∃ v, evaluate c fields r = .ok v) ∧
                    filtered = src.filter (keeps c fields)
        | none => filtered = src) ∧
      projectColumns q.list fields filtered = .ok (projected, hdr) ∧
      resolveSortKeys q.orderBy hdr = .ok keys ∧
      (∀ a ∈ projected, ∀ b ∈ projected, KeyComparable keys a b) ∧
      rows = cut q.lim (sortRows keys projected) :=
  select_single_table hfrom hagg hgb h

/-- **C05.sort**: the sorting step returns a permutation of its input that is sorted by
the keys (ASC/DESC per key), for every key list and every row list. -/
theorem C05_sort (keys : List (Nat × Bool)) (rows : List Row) :
    (sortRows keys rows).Perm rows ∧ Spec.sortedBy keys (sortRows keys rows) = true :=
  ⟨sortRows_perm keys rows, sortRows_sorted keys rows⟩

/-- **C05.insertion_order**: without ORDER BY the rows come back in insertion order. -/
theorem C05_no_order_by (rows : List Row) : sortRows [] rows = rows := sortRows_stable_nokeys rows

/-- **C05.cmp_strict_weak**: on rows whose key columns hold values of one type (or NULL)
the multi-key ASC/DESC comparator is a strict weak order — the hypothesis under which the
library sort (`sort.Slice`) is trusted to produce a sorted permutation. -/
theorem C05_cmp_strict_weak (keys : List (Nat × Bool)) (S : List Row)
    (hS : ∀ a ∈ S, ∀ b ∈ S, KeyComparable keys a b) : StrictWeakOn (rowLess keys) S :=
  rowLess_strict_weak keys S hS

/-- **C05.limit_offset**: the final rows are `take LIMIT (drop OFFSET sorted)` of a sorted
permutation of the projected rows, and are themselves sorted.  (Without aggregates and without
GROUP BY, `hgb : q.groupBy = []`, as in `C05_select_correct`: with a GROUP BY the sorted rows are
the grouped rows, not the projected ones.) -/
theorem C05_limit_offset {fetch : Bytes → Option Table} {q : Select} {t : TableName}
    {rows : List Row} {hdr : List Field}
    (hfrom : q.from_ = some (.table t)) (hagg : hasAggr q.list = false) (hgb : q.groupBy = [])
    (h : evaluateSelect fetch q = .ok (rows, hdr)) :
    ∃ keys fields filtered projected sorted,
      projectColumns q.list fields filtered = .ok (projected, hdr) ∧
      Spec.sortKeys q hdr = some keys ∧
      sorted = sortRows keys projected ∧ sorted.Perm projected ∧
      Spec.sortedBy keys sorted = true ∧
      sorted.Pairwise (fun a b => rowLess keys b a = false) ∧
      rows = (let off := if q.lim.offsetActive then q.lim.offset.toNat else 0
              let d := sorted.drop off
              if q.lim.limitActive then d.take q.lim.limit.toNat else d) ∧
      Spec.sortedBy keys rows = true :=
  limit_offset_spec hfrom hagg hgb h

/-- **C05.where**: the WHERE step keeps exactly the rows on which the condition holds, in order. -/
theorem C05_where {c : Cond} {fields : List Field} {rows out : List Row}
    (h : filterRows c fields rows = .ok out) :
    (∀ r ∈ rows, ∃ v, evaluate c fields r = .ok v) ∧ out = rows.filter (keeps c fields) :=
  filterRows_ok h

/-- **C05.precedence** is `C10_cond_roundtrip`: every parenthesis-free AND/OR combination
parses to the tree with AND binding tighter than OR; `evaluate` then computes
`(… ∧ …) ∨ …` on that tree. -/
theorem C05_or_of_and (p q r : Pred) (fields : List Field) (row : Row) (a b c : Bool)
    (hp : evalPred p fields row = .ok a) (hq : evalPred q fields row = .ok b) (hr : evalPred r fields row = .ok c) :
    evaluate (Sql.orTree (p, [q]) [(r, [])]) fields row = .ok (.bool ((a && b) || c)) := by
  simp [Sql.orTree, Sql.andTree, evaluate, hp, hq, hr, bind, Bind.bind]

end Mkdb.Exec
