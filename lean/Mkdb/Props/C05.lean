import Mkdb.Proofs.Select
import Mkdb.Proofs.AliasCapture
import Mkdb.Props.C10
/-!
# C05 — single-table SELECT returns what its clauses mean

Property theorems only (proofs in `Mkdb/Proofs/Select.lean`).  Quantifier: every table
content, every query (any WHERE condition, select list, ORDER BY keys, OFFSET, LIMIT).
-/
namespace Mkdb.Exec
open Mkdb.Sql Mkdb.Exec.SelectP Mkdb.Exec.AliasCaptureP

/-- **C05.select_correct**: the result of a single-table SELECT without aggregates and without
GROUP BY is exactly: the rows of the table that satisfy the WHERE condition (in insertion order),
projected by the select list, sorted by the resolved ORDER BY keys, then OFFSET rows
dropped and at most LIMIT rows kept — nothing else happens, in that order.
(The keys are resolved against `sortFields q.list hdr`: the output header in which an aliased
column has lost its table id, so that a qualified key `t.b` is not captured by the alias `b` of
another column - `C05_qualified_key_not_captured_by_alias`.)
(`hgb : q.groupBy = []`: a GROUP BY groups even when the select list holds no aggregate -
`SELECT a FROM t GROUP BY a` is one row per distinct `a`, which is C07's
`C07_group_by_without_aggregate`, not this theorem.) -/
theorem C05_select_correct {fetch : Bytes → Option Table} {q : Select} {t : TableName}
    {rows : List Row} {hdr : List Field}
    (hfrom : q.from_ = some (.table t)) (hagg : hasAggr q.list = false) (hgb : q.groupBy = [])
    (h : evaluateSelect fetch q = .ok (rows, hdr)) :
    ∃ tbl src fields filtered projected keys,
      fetch t.name = some tbl ∧ src = tbl.rows ∧ fields = tableFields t tbl ∧
      (match q.where_ with
        | some c => (∀ r ∈ src, ∃ v, evaluate c fields r = .ok v) ∧
                    filtered = src.filter (keeps c fields)
        | none => filtered = src) ∧
      projectColumns q.list fields filtered = .ok (projected, hdr) ∧
      resolveSortKeys q.orderBy (sortFields q.list hdr) = .ok keys ∧
      (∀ a ∈ projected, ∀ b ∈ projected, KeyComparable keys a b) ∧
      rows = cut q.lim (sortRows keys projected) :=
  select_single_table hfrom hagg hgb h

/-- **C05.sort**: the sorting step returns a permutation of its input that is sorted by
the keys (ASC/DESC per key), for every key list and every row list. -/
theorem C05_sort (keys : List (Nat × Bool)) (rows : List Row) :
    (sortRows keys rows).Perm rows ∧ Spec.sortedBy keys (sortRows keys rows) = true :=
  ⟨sortRows_perm keys rows, sortRows_sorted keys rows⟩

/-- **C05.insertion_order**: without ORDER BY the rows come back in insertion order. -/
theorem C05_no_order_by (rows : List Row) : sortRows [] rows = rows := sortRows_stable_nokeys rows

/-- **C05.cmp_strict_weak**: on rows whose key columns hold values of one type (or NULL)
the multi-key ASC/DESC comparator is a strict weak order — the hypothesis under which the
library sort (`sort.Slice`) is trusted to produce a sorted permutation. -/
theorem C05_cmp_strict_weak (keys : List (Nat × Bool)) (S : List Row)
    (hS : ∀ a ∈ S, ∀ b ∈ S, KeyComparable keys a b) : StrictWeakOn (rowLess keys) S :=
  rowLess_strict_weak keys S hS

/-- **C05.limit_offset**: the final rows are `take LIMIT (drop OFFSET sorted)` of a sorted
permutation of the projected rows, and are themselves sorted.  (Without aggregates and without
GROUP BY, `hgb : q.groupBy = []`, as in `C05_select_correct`: with a GROUP BY the sorted rows are
the grouped rows, not the projected ones.) -/
theorem C05_limit_offset {fetch : Bytes → Option Table} {q : Select} {t : TableName}
    {rows : List Row} {hdr : List Field}
    (hfrom : q.from_ = some (.table t)) (hagg : hasAggr q.list = false) (hgb : q.groupBy = [])
    (h : evaluateSelect fetch q = .ok (rows, hdr)) :
    ∃ keys fields filtered projected sorted,
      projectColumns q.list fields filtered = .ok (projected, hdr) ∧
      Spec.sortKeys q hdr = some keys ∧
      sorted = sortRows keys projected ∧ sorted.Perm projected ∧
      Spec.sortedBy keys sorted = true ∧
      sorted.Pairwise (fun a b => rowLess keys b a = false) ∧
      rows = (let off := if q.lim.offsetActive then q.lim.offset.toNat else 0
              let d := sorted.drop off
              if q.lim.limitActive then d.take q.lim.limit.toNat else d) ∧
      Spec.sortedBy keys rows = true :=
  limit_offset_spec hfrom hagg hgb h

/-- **C05.qualified_key_not_captured_by_alias**: a qualified ORDER BY key finds only a non-aliased
column of the table it names.  For a select list `sl` and an output header `hdr` of the same length
(any select list but `*`), if the qualified reference `c` resolves - in the header `sortColumns` is
handed, `sortFields sl hdr` - to position `i`, then the `i`-th select-list element has no alias and
the `i`-th output column is the column `c.qual.c.name` itself.  (`SELECT a AS b, b AS c FROM t
ORDER BY t.b` used to sort by the first column, the alias `b` of `a`: the defect repaired in
`sortColumns`; see the example below.) -/
theorem C05_qualified_key_not_captured_by_alias (sl : List DerivedCol) (hdr : List Field)
    (hlen : sl.length = hdr.length) (c : ColRef) (hq : c.qual ≠ []) (i : Nat)
    (h : findColumn c (sortFields sl hdr) = .ok i) :
    (sl[i]?).map (·.alias) = some [] ∧ hdr[i]? = some ⟨c.qual, c.name⟩ :=
  qualified_key_not_captured_by_alias sl hdr hlen c hq i h

/-- `sortFields` only blanks table ids: the positions of the header are unchanged -/
theorem C05_sortFields_length (sl : List DerivedCol) (hdr : List Field) :
    (sortFields sl hdr).length = hdr.length := sortFields_length sl hdr

/-- `SELECT a AS b, b AS c FROM t ORDER BY t.b`: the key is refused (no output column is the column
`b` of `t`), whereas resolved against the raw output header it was the alias `b` of column `a` -/
example :
    findColumn ⟨[116], [98]⟩
      (sortFields [⟨.expr (.val (.col ⟨[], [97]⟩)), [98]⟩, ⟨.expr (.val (.col ⟨[], [98]⟩)), [99]⟩]
        [⟨[116], [98]⟩, ⟨[116], [99]⟩]) = .err .fieldNotFound ∧
    findColumn ⟨[116], [98]⟩ [⟨[116], [98]⟩, ⟨[116], [99]⟩] = .ok 0 := by decide

/-- **C05.where**: the WHERE step keeps exactly the rows on which the condition holds, in order. -/
theorem C05_where {c : Cond} {fields : List Field} {rows out : List Row}
    (h : filterRows c fields rows = .ok out) :
    (∀ r ∈ rows, ∃ v, evaluate c fields r = .ok v) ∧ out = rows.filter (keeps c fields) :=
  filterRows_ok h

/-- **C05.precedence** is `C10_cond_roundtrip`: every parenthesis-free AND/OR combination
parses to the tree with AND binding tighter than OR; `evaluate` then computes
`(… ∧ …) ∨ …` on that tree. -/
theorem C05_or_of_and (p q r : Pred) (fields : List Field) (row : Row) (a b c : Bool)
    (hp : evalPred p fields row = .ok a) (hq : evalPred q fields row = .ok b) (hr : evalPred r fields row = .ok c) :
    evaluate (Sql.orTree (p, [q]) [(r, [])]) fields row = .ok (.bool ((a && b) || c)) := by
  simp [Sql.orTree, Sql.andTree, evaluate, hp, hq, hr, bind, Bind.bind]

end Mkdb.Exec
