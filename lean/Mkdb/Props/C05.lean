import Mkdb.Proofs.Select
import Mkdb.Proofs.AliasCapture
import Mkdb.Proofs.Meaning3
import Mkdb.Props.C10
/-!
# C05 — single-table SELECT returns what its clauses mean

Property theorems only (proofs in `Mkdb/Proofs/Select.lean`).  Quantifier: every table
content, every query (any WHERE condition, select list, ORDER BY keys, OFFSET, LIMIT).
-/
namespace Mkdb.Exec
open Mkdb.Sql Mkdb.Exec.SelectP Mkdb.Exec.AliasCaptureP

/-- **C05.select_correct**: the result of a single-table SELECT without aggregates and without
GROUP BY is exactly: the rows of the table that satisfy the WHERE condition (in insertion order),
projected by the select list, sorted by the resolved ORDER BY keys, then OFFSET rows
dropped and at most LIMIT rows kept — nothing else happens, in that order.
(The keys are resolved against `sortFields q.list hdr`: the output header in which an aliased
column has lost its table id, so that a qualified key `t.b` is not captured by the alias `b` of
another column - `C05_qualified_key_not_captured_by_alias`.)
(`hgb : q.groupBy = []`: a GROUP BY groups even when the select list holds no aggregate -
`SELECT a FROM t GROUP BY a` is one row per distinct `a`, which is C07's
`C07_group_by_without_aggregate`, not this theorem.) -/
theorem C05_select_correct {fetch : Bytes → Option Table} {q : Select} {t : TableName}
    {rows : List Row} {hdr : List Field}
    (hfrom : q.from_ = some (.table t)) (hagg : hasAggr q.list = false) (hgb : q.groupBy = [])
    (h : evaluateSelect fetch q = .ok (rows, hdr)) :
    ∃ tbl src fields filtered projected keys,
      fetch t.name = some tbl ∧ src = tbl.rows ∧ fields = tableFields t tbl ∧
      (match q.where_ with
        | some c => (∀ r ∈ src, ∃ v, evaluate c fields r = .ok v) ∧
                    filtered = src.filter (keeps c fields)
        | none => filtered = src) ∧
      projectColumns q.list fields filtered = .ok (projected, hdr) ∧
      resolveSortKeys q.orderBy (sortFields q.list hdr) = .ok keys ∧
      (∀ a ∈ projected, ∀ b ∈ projected, KeyComparable keys a b) ∧
      rows = cut q.lim (sortRows keys projected) :=
  select_single_table hfrom hagg hgb h

/-- **C05.sort**: the sorting step returns a permutation of its input that is sorted by
the keys (ASC/DESC per key), for every key list and every row list. -/
theorem C05_sort (keys : List (Nat × Bool)) (rows : List Row) :
    (sortRows keys rows).Perm rows ∧ Spec.sortedBy keys (sortRows keys rows) = true :=
  ⟨sortRows_perm keys rows, sortRows_sorted keys rows⟩

/-- **C05.insertion_order**: without ORDER BY the rows come back in insertion order. -/
theorem C05_no_order_by (rows : List Row) : sortRows [] rows = rows := sortRows_stable_nokeys rows

/-- **C05.cmp_strict_weak**: on rows whose key columns hold values of one type (or NULL)
the multi-key ASC/DESC comparator is a strict weak order — the hypothesis under which the
library sort (`sort.Slice`) is trusted to produce a sorted permutation. -/
theorem C05_cmp_strict_weak (keys : List (Nat × Bool)) (S : List Row)
    (hS : ∀ a ∈ S, ∀ b ∈ S, KeyComparable keys a b) : StrictWeakOn (rowLess keys) S :=
  rowLess_strict_weak keys S hS

/-- **C05.limit_offset**: the final rows are `take LIMIT (drop OFFSET sorted)` of a sorted
permutation of the projected rows, and are themselves sorted.  (Without aggregates and without
GROUP BY, `hgb : q.groupBy = []`, as in `C05_select_correct`: with a GROUP BY the sorted rows are
the grouped rows, not the projected ones.) -/
theorem C05_limit_offset {fetch : Bytes → Option Table} {q : Select} {t : TableName}
    {rows : List Row} {hdr : List Field}
    (hfrom : q.from_ = some (.table t)) (hagg : hasAggr q.list = false) (hgb : q.groupBy = [])
    (h : evaluateSelect fetch q = .ok (rows, hdr)) :
    ∃ keys fields filtered projected sorted,
      projectColumns q.list fields filtered = .ok (projected, hdr) ∧
      Spec.sortKeys q hdr = some keys ∧
      sorted = sortRows keys projected ∧ sorted.Perm projected ∧
      Spec.sortedBy keys sorted = true ∧
      sorted.Pairwise (fun a b => rowLess keys b a = false) ∧
      rows = (let off := if q.lim.offsetActive then q.lim.offset.toNat else 0
              let d := sorted.drop off
              if q.lim.limitActive then d.take q.lim.limit.toNat else d) ∧
      Spec.sortedBy keys rows = true :=
  limit_offset_spec hfrom hagg hgb h

/-- **C05.qualified_key_not_captured_by_alias**: a qualified ORDER BY key finds only a non-aliased
column of the table it names.  For a select list `sl` and an output header `hdr` of the same length
(any select list but `*`), if the qualified reference `c` resolves - in the header `sortColumns` is
handed, `sortFields sl hdr` - to position `i`, then the `i`-th select-list element has no alias and
the `i`-th output column is the column `c.qual.c.name` itself.  (`SELECT a AS b, b AS c FROM t
ORDER BY t.b` used to sort by the first column, the alias `b` of `a`: the defect repaired in
`sortColumns`; see the example below.) -/
theorem C05_qualified_key_not_captured_by_alias (sl : List DerivedCol) (hdr : List Field)
    (hlen : sl.length = hdr.length) (c : ColRef) (hq : c.qual ≠ []) (i : Nat)
    (h : findColumn c (sortFields sl hdr) = .ok i) :
    (sl[i]?).map (·.alias) = some [] ∧ hdr[i]? = some ⟨c.qual, c.name⟩ :=
  qualified_key_not_captured_by_alias sl hdr hlen c hq i h

/-- `sortFields` only blanks table ids: the positions of the header are unchanged -/
theorem C05_sortFields_length (sl : List DerivedCol) (hdr : List Field) :
    (sortFields sl hdr).length = hdr.length := sortFields_length sl hdr

/-- `SELECT a AS b, b AS c FROM t ORDER BY t.b`: the key is refused (no output column is the column
`b` of `t`), whereas resolved against the raw output header it was the alias `b` of column `a` -/
example :
    findColumn ⟨[116], [98]⟩
      (sortFields [⟨.expr (.val (.col ⟨[], [97]⟩)), [98]⟩, ⟨.expr (.val (.col ⟨[], [98]⟩)), [99]⟩]
        [⟨[116], [98]⟩, ⟨[116], [99]⟩]) = .err .fieldNotFound ∧
    findColumn ⟨[116], [98]⟩ [⟨[116], [98]⟩, ⟨[116], [99]⟩] = .ok 0 := by decide

/-- **C05.where**: the WHERE step keeps exactly the rows on which the condition holds, in order. -/
theorem C05_where {c : Cond} {fields : List Field} {rows out : List Row}
    (h : filterRows c fields rows = .ok out) :
    (∀ r ∈ rows, ∃ v, evaluate c fields r = .ok v) ∧ out = rows.filter (keeps c fields) :=
  filterRows_ok h

/-- **C05.precedence** is `C10_cond_roundtrip`: every parenthesis-free AND/OR combination
parses to the tree with AND binding tighter than OR; `evaluate` then computes
`(… ∧ …) ∨ …` on that tree. -/
theorem C05_or_of_and (p q r : Pred) (fields : List Field) (row : Row) (a b c : Bool)
    (hp : evalPred p fields row = .ok a) (hq : evalPred q fields row = .ok b) (hr : evalPred r fields row = .ok c) :
    evaluate (Sql.orTree (p, [q]) [(r, [])]) fields row = .ok (.bool ((a && b) || c)) := by
  simp [Sql.orTree, Sql.andTree, evaluate, hp, hq, hr, bind, Bind.bind]

end Mkdb.Exec

/-! ## The executor against the reference meaning

`Spec.meaning fetch q` (the rows a SELECT means before ORDER BY / OFFSET / LIMIT, written as list
comprehensions) and `Spec.satisfies q hdr want result` ("`result` is what `q` means") are the pair
the differential-testing judge evaluates on the output of the real implementation
(`Mkdb/Driver/Exec.lean`, `judgeLine`); the header it passes is `judgeHeader fetch q`
(`projectColumns q.list fields []` on the fields of `Spec.fromRows`).  The theorems below say that the
model of `EvaluateSelect` and this reference meaning agree, in both directions. -/
namespace Mkdb.Exec
open Mkdb.Sql Mkdb.Exec.SelectP Mkdb.Exec.MeaningP

/-- **C05.result_is_the_reference_meaning**: whatever a single-table SELECT without aggregates and
without GROUP BY answers is what the query means.  If `evaluateSelect` answers `(rows, hdr)` then the
query has a reference meaning `want` (`Spec.meaning`: the rows of the table satisfying WHERE, in
insertion order, projected by the select list), `hdr` is the header the judge computes, the ORDER BY
keys resolve against it to `keys`, the key columns of `want` are comparable, the answer is exactly
`rows = cut (sortRows keys want)` (OFFSET rows dropped, at most LIMIT kept; without ORDER BY
`keys = []` and `sortRows [] want = want`: insertion order), and the judge's test
`Spec.satisfies q hdr want rows` accepts it.
Hypothesis `hwhere` excludes a WHERE clause that is a bare integer or string literal (`WHERE 5`):
the code evaluates it to a non-boolean, selects no row and answers, while the reference meaning is
undefined (ill-typed) - `C05_bare_literal_where_is_answered` is the witness that the hypothesis is
needed. -/
theorem C05_result_is_the_reference_meaning {fetch : Bytes → Option Table} {q : Select}
    {t : TableName} {rows : List Row} {hdr : List Field}
    (hfrom : q.from_ = some (.table t)) (hagg : hasAggr q.list = false) (hgb : q.groupBy = [])
    (hwhere : whereIsBoolean q = true)
    (h : evaluateSelect fetch q = .ok (rows, hdr)) :
    ∃ want keys, Spec.meaning fetch q = some want ∧ hdr = judgeHeader fetch q ∧
      Spec.sortKeys q hdr = some keys ∧
      (∀ a ∈ want, ∀ b ∈ want, KeyComparable keys a b) ∧
      rows = cut q.lim (sortRows keys want) ∧
      Spec.satisfies q hdr want rows = true := by
  obtain ⟨want, keys, hm, hh, hk, hcomp, rfl, _⟩ := (single_table_iff hfrom hagg hgb hwhere).1 h
  exact ⟨want, keys, hm, (judgeHeader_of hh).symm, hk, hcomp, rfl,
    satisfies_single want hfrom hagg hgb hk⟩

/-- **C05.meaningful_query_is_answered** (the converse: what makes the reference meaning a
specification and not a restatement): a single-table SELECT without aggregates and without GROUP BY
that has a reference meaning `want`, whose ORDER BY keys resolve against the header the judge
computes and whose key columns hold comparable values (one type, or NULL - what typed columns
guarantee; `C05_incomparable_keys_panic` shows the hypothesis is needed) is not refused: the
executor answers, with that header and exactly the rows `cut (sortRows keys want)`, and the judge's
test accepts the answer.  No hypothesis on WHERE and none on the shape of the stored rows.
Hypotheses `hlist`, `hlim`: the select list is not empty and no written LIMIT / OFFSET is negative
(`Spec.boundsOK`) - true of every statement the parser returns; `EvaluateSelect` takes both for
granted and a hand-built statement without them makes it panic (`selectList[0]`, `rows[0:limit]`,
`rows[offset:]`) although the reference meaning, which does not look at LIMIT / OFFSET, is defined:
`C05_empty_list_and_negative_bounds_panic`. -/
theorem C05_meaningful_query_is_answered {fetch : Bytes → Option Table} {q : Select}
    {t : TableName} {want : List Row} {keys : List (Nat × Bool)}
    (hfrom : q.from_ = some (.table t)) (hagg : hasAggr q.list = false) (hgb : q.groupBy = [])
    (hlist : q.list ≠ []) (hlim : Spec.boundsOK q.lim = true)
    (hm : Spec.meaning fetch q = some want)
    (hk : Spec.sortKeys q (judgeHeader fetch q) = some keys)
    (hcomp : ∀ a ∈ want, ∀ b ∈ want, KeyComparable keys a b) :
    evaluateSelect fetch q = .ok (cut q.lim (sortRows keys want), judgeHeader fetch q) ∧
      Spec.satisfies q (judgeHeader fetch q) want (cut q.lim (sortRows keys want)) = true :=
  ⟨(meaningful_single_table_answered hfrom hagg hgb hlist hlim hm hk hcomp).1,
   satisfies_single want hfrom hagg hgb hk⟩

/-- **C05.answered_iff_meaningful**: the two directions as one equivalence.  For a single-table
SELECT without aggregates and GROUP BY whose WHERE clause is not a bare non-boolean literal, the
executor answers `(rows, hdr)` if and only if the select list is not empty, no written LIMIT / OFFSET
is negative (`Spec.boundsOK`; both hold of every parsed statement), the query has a reference meaning
`want`, `hdr` is the judge's header, the sort keys resolve to `keys` and are comparable on `want`, and
`rows = cut (sortRows keys want)`.  In particular a query without a meaning (unknown table, unknown
or ambiguous column, ill-typed comparison on some row) or with an unresolvable sort key is refused
(an error or a panic), and a refused query has no meaning or no usable sort keys. -/
theorem C05_answered_iff_meaningful {fetch : Bytes → Option Table} {q : Select} {t : TableName}
    (hfrom : q.from_ = some (.table t)) (hagg : hasAggr q.list = false) (hgb : q.groupBy = [])
    (hwhere : whereIsBoolean q = true) (rows : List Row) (hdr : List Field) :
    evaluateSelect fetch q = .ok (rows, hdr) ↔
      q.list ≠ [] ∧ Spec.boundsOK q.lim = true ∧
      ∃ want keys, Spec.meaning fetch q = some want ∧ hdr = judgeHeader fetch q ∧
        Spec.sortKeys q hdr = some keys ∧
        (∀ a ∈ want, ∀ b ∈ want, KeyComparable keys a b) ∧
        rows = cut q.lim (sortRows keys want) := by
  constructor
  · intro h
    obtain ⟨want, keys, hm, hh, hk, hcomp, hrows, _⟩ :=
      C05_result_is_the_reference_meaning hfrom hagg hgb hwhere h
    obtain ⟨_, _, _, hh', _, _, _, hb⟩ := (single_table_iff hfrom hagg hgb hwhere).1 h
    exact ⟨NoPanicP.projectColumns_ok_ne_nil hh', hb, want, keys, hm, hh, hk, hcomp, hrows⟩
  · rintro ⟨hlist, hlim, want, keys, hm, rfl, hk, hcomp, rfl⟩
    exact (C05_meaningful_query_is_answered hfrom hagg hgb hlist hlim hm hk hcomp).1

/-- the judge's header, spelled out: `projectColumns` on the fields of the FROM clause and no rows -/
theorem C05_judgeHeader_def (fetch : Bytes → Option Table) (q : Select) :
    judgeHeader fetch q =
      (match projectColumns q.list
          (match q.from_ with
            | some tr => (match Spec.fromRows fetch tr with | some (_, f) => f | none => [])
            | none => []) [] with
        | .ok (_, h) => h | _ => []) := rfl

/-- the hypothesis on WHERE, spelled out -/
theorem C05_whereIsBoolean_def (q : Select) :
    whereIsBoolean q = (match q.where_ with
      | some (.val (.lit (.int _))) => false
      | some (.val (.lit (.str _))) => false
      | _ => true) := by
  unfold whereIsBoolean
  cases q.where_ with
  | none => rfl
  | some c => cases c with
    | val v => cases v with
      | lit l => cases l <;> rfl
      | col c => rfl
    | pred p => rfl
    | and p r => rfl
    | or l r => rfl

/-- `SELECT a FROM t WHERE 5` -/
def exQueryBareLiteral : Select :=
  { list := [⟨.expr (.val (.col ⟨[], [97]⟩)), []⟩]
    from_ := some (.table ⟨[116], none⟩)
    where_ := some (.val (.lit (.int 5))) }

/-- **C05.bare_literal_where_is_answered** (an ill-typed query answered; why
`C05_result_is_the_reference_meaning` has the hypothesis `whereIsBoolean`): `SELECT a FROM t WHERE 5`
on a table with five rows is answered with the empty result, although the condition is not a truth
value on any row and the reference meaning is undefined (`filterRows` keeps a row when the value is
the boolean `true` and drops it silently when it is not a boolean at all).  The parser accepts the
statement; the judge does not flag it (a query without meaning may be answered with anything but
rows in an unresolvable order). -/
theorem C05_bare_literal_where_is_answered :
    evaluateSelect exFetch exQueryBareLiteral = .ok ([], [⟨[116], [97]⟩]) ∧
    Spec.meaning exFetch exQueryBareLiteral = none ∧ whereIsBoolean exQueryBareLiteral = false := by
  decide

/-- table `m(a)` with an integer and a string in one column (no typed table holds this) -/
def exFetchMixed (n : Bytes) : Option Table :=
  if n = [109] then some ⟨[[97]], [[.int 1], [.str [120]]]⟩ else none

/-- `SELECT a FROM m ORDER BY a` -/
def exQueryMixed : Select :=
  { list := [⟨.expr (.val (.col ⟨[], [97]⟩)), []⟩]
    from_ := some (.table ⟨[109], none⟩)
    orderBy := [⟨⟨[], [97]⟩, false⟩] }

/-- **C05.incomparable_keys_panic** (why `C05_meaningful_query_is_answered` has the hypothesis
`KeyComparable`): on a column holding an integer and a string the query has a meaning and its sort
key resolves, yet the executor does not answer - the comparator of `sortColumns` has no order for
the pair (a panic in Go; C18 records it). -/
theorem C05_incomparable_keys_panic :
    Spec.meaning exFetchMixed exQueryMixed = some [[.int 1], [.str [120]]] ∧
    Spec.sortKeys exQueryMixed (judgeHeader exFetchMixed exQueryMixed) = some [(0, false)] ∧
    evaluateSelect exFetchMixed exQueryMixed = .panic "sortColumns: no comparison available" := by
  decide

/-- **C05.empty_list_and_negative_bounds_panic** (why `C05_meaningful_query_is_answered` has `hlist`
and `hlim`): three hand-built statements over the table `m` - an empty select list, `SELECT a FROM m
LIMIT -1`, `SELECT a FROM m OFFSET -1` (the parser returns none of them: it demands a select list and
refuses a negative bound) - have a reference meaning, and `EvaluateSelect` panics on each, in the Go
code (index out of range [0], slice bounds out of range [:-1] and [-1:]) as in the model. -/
theorem C05_empty_list_and_negative_bounds_panic :
    Spec.meaning exFetchMixed { list := [], from_ := some (.table ⟨[109], none⟩) } = some [[], []] ∧
    evaluateSelect exFetchMixed { list := [], from_ := some (.table ⟨[109], none⟩) } =
      .panic "projectColumns: selectList[0]" ∧
    Spec.meaning exFetchMixed { exQueryMixed with orderBy := [], lim := { limitActive := true, limit := -1 } } =
      some [[.int 1], [.str [120]]] ∧
    evaluateSelect exFetchMixed { exQueryMixed with orderBy := [], lim := { limitActive := true, limit := -1 } } =
      .panic "limit: rows[0:limit]" ∧
    evaluateSelect exFetchMixed { exQueryMixed with orderBy := [], lim := { offsetActive := true, offset := -1 } } =
      .panic "offset: rows[offset:]" := by
  decide

-- non-vacuity: `SELECT b, a FROM t WHERE a = 3 OR b = 'ab' ORDER BY b LIMIT 2 OFFSET 1` on the
-- five-row table `t(a, b)` of `Mkdb/Proofs/Select.lean` meets every hypothesis of the three theorems
example : exQuery.from_ = some (.table ⟨[116], none⟩) ∧ hasAggr exQuery.list = false ∧
    exQuery.groupBy = [] ∧ whereIsBoolean exQuery = true ∧ exQuery.list ≠ [] ∧
    Spec.boundsOK exQuery.lim = true := by decide
example : evaluateSelect exFetch exQuery =
    .ok ([[.str [97, 98], .int 1], [.str [98], .int 3]], [⟨[116], [98]⟩, ⟨[116], [97]⟩]) := rfl
example : Spec.meaning exFetch exQuery =
    some [[.str [98], .int 3], [.str [97, 98], .int 1], [.str [97], .int 3]] := by decide
example : judgeHeader exFetch exQuery = [⟨[116], [98]⟩, ⟨[116], [97]⟩] := by decide
example : Spec.sortKeys exQuery (judgeHeader exFetch exQuery) = some [(0, false)] := by decide
example : ∀ a ∈ ([[.str [98], .int 3], [.str [97, 98], .int 1], [.str [97], .int 3]] : List Row),
    ∀ b ∈ ([[.str [98], .int 3], [.str [97, 98], .int 1], [.str [97], .int 3]] : List Row),
      KeyComparable [(0, false)] a b := by decide
-- and the answer is the meaning, sorted by `b` ascending, one row skipped, two kept
example : cut exQuery.lim (sortRows [(0, false)]
    [[.str [98], .int 3], [.str [97, 98], .int 1], [.str [97], .int 3]]) =
    [[.str [97, 98], .int 1], [.str [98], .int 3]] := by decide
example : Spec.satisfies exQuery (judgeHeader exFetch exQuery)
    [[.str [98], .int 3], [.str [97, 98], .int 1], [.str [97], .int 3]]
    [[.str [97, 98], .int 1], [.str [98], .int 3]] = true := by decide

end Mkdb.Exec
