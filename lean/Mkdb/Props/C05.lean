import Mkdb.Spec.Query
namespace Mkdb.Exec
end Mkdb.Exec
