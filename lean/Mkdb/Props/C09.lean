import Mkdb.Proofs.Parse
import Mkdb.Proofs.Fuel
/-!
# C09 — the SQL front end never crashes or hangs on any input

Property theorems only.  Quantifier: every rune sequence (with arbitrary letter / digit /
upper-case oracles for non-ASCII runes), every token list.
-/
namespace Mkdb.Sql
open Mkdb.Scan

/-- **C09.no_panic (parser)**: for every token list and every fuel, parsing yields a
statement, an error value or `.fuel` — never a panic. -/
theorem C09_parse_no_panic (ts : List Token) (s : String) : parseTokens ts = .panic s → False := by
  intro h
  unfold parseTokens at h
  cases hp : parseStmt (ts.length + 2) ts with
  | ok a rest => rw [hp] at h; simp only [] at h; split at h <;> cases h
  | err e => rw [hp] at h; cases h
  | panic s' => exact (NoPanic.parseStmt _).h ts s' hp
  | fuel => rw [hp] at h; cases h

/-- **C09.no_panic**: `parseSQL` (scanner + parser, as `engine.parseSQL` drives them) never
panics, whatever the input.  (The scanner model has no panic outcome left: the only
slicing site, the quote stripping, is guarded — see `C09_unquote_guard`.) -/
theorem C09_no_panic (input : Input) (s : String) : parseSQL input ≠ .panic s := by
  intro h
  unfold parseSQL at h
  cases hs : scanSQL input with
  | ok ts => rw [hs] at h; exact C09_parse_no_panic ts s h
  | fuel => rw [hs] at h; cases h

/-- **C09.terminates (scanner)**: the scanner never exhausts its fuel `input length + 2`:
every token consumes at least one rune and every skipped comment at least two. -/
theorem C09_scan_terminates (input : Input) : scanSQL input ≠ .fuel := scanSQL_ne_fuel input

/-- **C09.terminates (parser)**: with fuel `token count + 2` the parser never runs out of
fuel: every loop iteration and every recursive production consumes at least one token or
returns. -/
theorem C09_parse_terminates (ts : List Token) : ∀ f, ts.length + 2 ≤ f → parseStmt f ts ≠ .fuel :=
  fun f h => parseStmt_ne_fuel ts f h

/-- **C09.total**: for every input, `parseSQL` yields a statement or an error value —
neither a panic nor non-termination (fuel exhaustion). -/
theorem C09_total (input : Input) : (∃ s, parseSQL input = .ok s) ∨ (∃ e, parseSQL input = .err e) := by
  cases h : parseSQL input with
  | ok s => exact Or.inl ⟨s, rfl⟩
  | err e => exact Or.inr ⟨e, rfl⟩
  | panic s => exact absurd h (C09_no_panic input s)
  | fuel => exact absurd h (parseSQL_ne_fuel input)

/-- A stripped quote never yields text for an unterminated token: `stripQuotes` succeeds
only when the token is at least two bytes long and ends with its opening quote. -/
theorem C09_unquote_guard (b inner : Bytes) (h : stripQuotes b = some inner) :
    2 ≤ b.length ∧ b.getLast? = b.head? ∧ inner = (b.drop 1).take (b.length - 2) := by
  unfold stripQuotes at h
  by_cases h1 : b.length < 2
  · simp [h1] at h
  · by_cases h2 : (b.getLast? != b.head?) = true
    · simp [h1, h2] at h
    · simp only [h1, h2, ↓reduceIte, Bool.false_eq_true] at h
      refine ⟨by omega, by simpa using h2, ?_⟩
      by_cases h3 : (trailingBackslashes ((b.drop 1).take (b.length - 2)) % 2 == 1) = true
      · simp only [h3, ↓reduceIte] at h; cases h
      · simp only [h3, Bool.false_eq_true, ↓reduceIte, Option.some.injEq] at h
        exact h.symm

end Mkdb.Sql
