import Mkdb.Proofs.Parse
/-!
# C09 — the SQL front end never crashes or hangs on any input

Property theorems only.  Quantifier: every rune sequence (with arbitrary letter / digit /
upper-case oracles for non-ASCII runes), every token list.
-/
namespace Mkdb.Sql
open Mkdb.Scan

/-- **C09.no_panic (parser)**: for every token list and every fuel, parsing yields a
statement, an error value or `.fuel` — never a panic. -/
theorem C09_parse_no_panic (ts : List Token) (s : String) : parseTokens ts = .panic s → False := by
  intro h
  unfold parseTokens at h
  cases hp : parseStmt (ts.length + 2) ts with
  | ok a rest => rw [hp] at h; cases h
  | err e => rw [hp] at h; cases h
  | panic s' => exact (NoPanic.parseStmt _).h ts s' hp
  | fuel => rw [hp] at h; cases h

/-- **C09.no_panic**: `parseSQL` (scanner + parser, as `engine.parseSQL` drives them) never
panics, whatever the input.  (The scanner model has no panic outcome left: the only
slicing site, the quote stripping, is guarded — see `C09_unquote_guard`.) -/
theorem C09_no_panic (input : Input) (s : String) : parseSQL input ≠ .panic s := by
  intro h
  unfold parseSQL at h
  cases hs : scanSQL input with
  | ok ts => rw [hs] at h; exact C09_parse_no_panic ts s h
  | fuel => rw [hs] at h; cases h

/-- A stripped quote never yields text for an unterminated token: `stripQuotes` succeeds
only when the token is at least two bytes long and ends with its opening quote. -/
theorem C09_unquote_guard (b inner : Bytes) (h : stripQuotes b = some inner) :
    2 ≤ b.length ∧ b.getLast? = b.head? ∧ inner = (b.drop 1).take (b.length - 2) := by
  unfold stripQuotes at h
  by_cases h1 : b.length < 2
  · simp [h1] at h
  · by_cases h2 : (b.getLast? != b.head?) = true
    · simp [h1, h2] at h
    · simp only [h1, h2, ↓reduceIte, Bool.false_eq_true] at h
      refine ⟨by omega, by simpa using h2, ?_⟩
      by_cases h3 : (trailingBackslashes ((b.drop 1).take (b.length - 2)) % 2 == 1) = true
      · simp only [h3, ↓reduceIte] at h; cases h
      · simp only [h3, Bool.false_eq_true, ↓reduceIte, Option.some.injEq] at h
        exact h.symm

end Mkdb.Sql
