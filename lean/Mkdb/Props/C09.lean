import Mkdb.Proofs.Parse
import Mkdb.Proofs.Fuel
import Mkdb.Proofs.SizeBound7
/-!
# C09 — the SQL front end never crashes or hangs on any input

Property theorems only.  Quantifier: every rune sequence (with arbitrary letter / digit /
upper-case oracles for non-ASCII runes), every token list.
-/
namespace Mkdb.Sql
open Mkdb.Scan

/-- **C09.no_panic (parser)**: for every token list and every fuel, parsing yields a
statement, an error value or `.fuel` — never a panic. -/
theorem C09_parse_no_panic (ts : List Token) (s : String) : parseTokens ts = .panic s → False := by
  intro h
  unfold parseTokens at h
  cases hp : parseStmt (ts.length + 2) ts with
  | ok a rest => rw [hp] at h; simp only [] at h; split at h <;> cases h
  | err e => rw [hp] at h; cases h
  | panic s' => exact (NoPanic.parseStmt _).h ts s' hp
  | fuel => rw [hp] at h; cases h

/-- **C09.no_panic**: `parseSQL` (scanner + parser, as `engine.parseSQL` drives them) never
panics, whatever the input.  (The scanner model has no panic outcome left: the only
slicing site, the quote stripping, is guarded — see `C09_unquote_guard`.) -/
theorem C09_no_panic (input : Input) (s : String) : parseSQL input ≠ .panic s := by
  intro h
  unfold parseSQL at h
  cases hs : scanSQL input with
  | ok ts => rw [hs] at h; exact C09_parse_no_panic ts s h
  | fuel => rw [hs] at h; cases h

/-- **C09.terminates (scanner)**: the scanner never exhausts its fuel `input length + 2`:
every token consumes at least one rune and every skipped comment at least two. -/
theorem C09_scan_terminates (input : Input) : scanSQL input ≠ .fuel := scanSQL_ne_fuel input

/-- **C09.terminates (parser)**: with fuel `token count + 2` the parser never runs out of
fuel: every loop iteration and every recursive production consumes at least one token or
returns. -/
theorem C09_parse_terminates (ts : List Token) : ∀ f, ts.length + 2 ≤ f → parseStmt f ts ≠ .fuel :=
  fun f h => parseStmt_ne_fuel ts f h

/-- **C09.total**: for every input, `parseSQL` yields a statement or an error value —
neither a panic nor non-termination (fuel exhaustion). -/
theorem C09_total (input : Input) : (∃ s, parseSQL input = .ok s) ∨ (∃ e, parseSQL input = .err e) := by
  cases h : parseSQL input with
  | ok s => exact Or.inl ⟨s, rfl⟩
  | err e => exact Or.inr ⟨e, rfl⟩
  | panic s => exact absurd h (C09_no_panic input s)
  | fuel => exact absurd h (parseSQL_ne_fuel input)

/-- A stripped quote never yields text for an unterminated token: `stripQuotes` succeeds
only when the token is at least two bytes long and ends with its opening quote. -/
theorem C09_unquote_guard (b inner : Bytes) (h : stripQuotes b = some inner) :
    2 ≤ b.length ∧ b.getLast? = b.head? ∧ inner = (b.drop 1).take (b.length - 2) := by
  unfold stripQuotes at h
  by_cases h1 : b.length < 2
  · simp [h1] at h
  · by_cases h2 : (b.getLast? != b.head?) = true
    · simp [h1, h2] at h
    · simp only [h1, h2, ↓reduceIte, Bool.false_eq_true] at h
      refine ⟨by omega, by simpa using h2, ?_⟩
      by_cases h3 : (trailingBackslashes ((b.drop 1).take (b.length - 2)) % 2 == 1) = true
      · simp only [h3, ↓reduceIte] at h; cases h
      · simp only [h3, Bool.false_eq_true, ↓reduceIte, Option.some.injEq] at h
        exact h.symm

/-! ## "never exhausts memory": what the front end builds is linear in the input

Common limit of the theorems below: they bound what the MODEL's front end returns (token list,
AST) and how deep it nests, as functions of the input.  Transient allocations of the Go code are
not modelled: the scanner's 1024-byte read buffer, the `strings.ToUpper` copy made per token for
the keyword lookup, the growth slack of `append`, and the error strings (which embed the text of
one token once - `syntaxErr`, `unexpectedTypeErr`, `strconv.Atoi`'s error - and are wrapped once
by `Session.ExecQuery`).  Each of these is itself linear in the input, but that is an argument
about the Go code, not a theorem here. -/

/-- **C09.memory (token count)**: the scanner returns at most one token per input rune (a byte
order mark, white space and comments yield none; an unterminated comment, at least two runes
long, yields the single ILLEGAL token).  No constant is needed: the bound is `input.length`.
Limit: bounds the token list of the model, not the Go scanner's buffer. -/
theorem C09_token_count_linear (input : Input) (ts : List Token) (h : scanSQL input = .ok ts) :
    ts.length ≤ input.length := scanSQL_count input ts h

/-- non-vacuity and tightness: `a,b,c` is 5 runes and 5 tokens -/
example : ∃ ts, scanSQL inCommas = .ok ts ∧ ts.length = 5 ∧ inCommas.length = 5 :=
  ⟨_, rfl, rfl, rfl⟩

/-- **C09.memory (token text)**: the text bytes of all tokens together are at most the source
bytes of all input runes plus 2: every rune's bytes go to at most one token, quote stripping
only removes bytes, and the 2 is the fixed text `/*` of the ILLEGAL token that stands for an
unterminated comment.  (`inBytes` sums `Rune.bytes`; the model does not force the two runes of
`/*` to carry bytes, hence the constant - see the examples.)  Limit: the per-token upper-case
copy made for the keyword lookup is transient and not modelled. -/
theorem C09_token_text_linear (input : Input) (ts : List Token) (h : scanSQL input = .ok ts) :
    textBytes ts ≤ inBytes input + 2 := scanSQL_text input ts h

/-- non-vacuity: `SELECT a` has 8 source bytes, its two tokens 7 text bytes -/
example : ∃ ts, scanSQL inSelectA = .ok ts ∧ textBytes ts = 7 ∧ inBytes inSelectA = 8 :=
  ⟨_, rfl, rfl, rfl⟩
/-- `/*` as real ASCII runes: 2 source bytes, one ILLEGAL token of 2 text bytes -/
example : ∃ ts, scanSQL inOpenComment = .ok ts ∧ textBytes ts = 2 ∧ inBytes inOpenComment = 2 :=
  ⟨_, rfl, rfl, rfl⟩
/-- tightness of the constant over ALL model inputs: runes `/`, `*` without source bytes give 2
text bytes from 0 source bytes -/
example : ∃ ts, scanSQL inOpenCommentNoBytes = .ok ts ∧ textBytes ts = 2 ∧
    inBytes inOpenCommentNoBytes = 0 := ⟨_, rfl, rfl, rfl⟩

/-- **C09.memory (the parser only moves forward)**: when `parseStmt` succeeds, the token list
it hands back is a suffix of the one it was given - whatever the fuel. -/
theorem C09_parser_consumes (f : Nat) (ts : List Token) (s : Stmt) (rest : List Token)
    (h : parseStmt f ts = .ok s rest) : ∃ pre, ts = pre ++ rest := by
  obtain ⟨pre, e, _⟩ := parseStmt_size f ts s rest h
  exact ⟨pre, e⟩

example : parseStmt 4 tkSelectA = .ok stSelectA [] := by rfl

/-- **C09.memory (AST size)**: the statement `parseStmt` returns has size at most
`3 * (tokens consumed) + (text bytes of the tokens consumed) + 9`, where `Stmt.size` counts every
constructor, every scalar field (an INT literal is one word: `atoi` bounds it by int64), every
list cell and every text byte of the AST.  Whatever the fuel.  Limit: a bound on the returned
value of the model; the Go parser's intermediate slices (`append` growth) and its error values
are not modelled. -/
theorem C09_ast_size_linear (f : Nat) (ts : List Token) (s : Stmt) (rest : List Token)
    (h : parseStmt f ts = .ok s rest) :
    ∃ pre, ts = pre ++ rest ∧ s.size ≤ 3 * pre.length + textBytes pre + 9 :=
  parseStmt_size f ts s rest h

/-- non-vacuity: `SELECT a` (2 tokens, 7 text bytes) gives an AST of size 16; the bound is 22 -/
example : parseStmt 4 tkSelectA = .ok stSelectA [] ∧ stSelectA.size = 16 ∧
    3 * tkSelectA.length + textBytes tkSelectA + 9 = 22 := ⟨by rfl, rfl, rfl⟩
/-- tightness: when the keyword token carries no text the bound is attained exactly (16 = 16) -/
example : parseStmt 4 tkSelectA0 = .ok stSelectA [] ∧ stSelectA.size = 16 ∧
    3 * tkSelectA0.length + textBytes tkSelectA0 + 9 = 16 := ⟨by rfl, rfl, rfl⟩

/-- **C09.memory (output linear in the input)**: the statement `parseSQL` returns has size at
most `3 * (number of input runes) + (source bytes of the input) + 11`.  Together with
`C09_total` (an error value is one of nine constants in the model): everything the model's
front end returns is linear in its input.  Limit: see the section comment - transient Go
allocations (read buffer, upper-case copies, error strings) are outside the model. -/
theorem C09_output_linear (input : Input) (s : Stmt) (h : parseSQL input = .ok s) :
    s.size ≤ 3 * input.length + inBytes input + 11 := parseSQL_size input s h

/-- non-vacuity: `SELECT a` (8 runes, 8 bytes): size 16, bound 43 -/
example : parseSQL inSelectA = .ok stSelectA ∧ stSelectA.size = 16 ∧
    3 * inSelectA.length + inBytes inSelectA + 11 = 43 := ⟨by rfl, rfl, rfl⟩
/-- tightness within a factor 2: `SELECT a,a,a,a` (14 runes, 14 bytes): size 37, bound 67; every
further `,a` adds 7 to the size and 8 to the bound -/
example : sizeOfParse inSelectAAAA = 37 ∧
    3 * inSelectAAAA.length + inBytes inSelectAAAA + 11 = 67 := ⟨by rfl, rfl⟩

/-- **C09.memory (nesting depth of one condition)**: a condition tree returned by `orCond`
(`p.OrCondition()`) is nested at most as deep as the number of tokens it was parsed from. -/
theorem C09_cond_depth_linear (f : Nat) (ts : List Token) (c : Cond) (rest : List Token)
    (h : orCond f ts = .ok c rest) : ∃ pre, ts = pre ++ rest ∧ c.depth ≤ pre.length :=
  orCond_depth f ts c rest h

example : ∃ c, orCond 8 (tkSelectOr.drop 1) = .ok c [] ∧ c.depth = 3 := ⟨_, by rfl, rfl⟩

/-- **C09.memory (recursion depth)**: the deepest condition tree anywhere in the statement
`parseStmt` returns (select list, JOIN ... ON, WHERE) is nested at most as deep as the number
of tokens consumed; for `parseSQL`, at most the number of input runes (`C09_parse_depth_input`).
This depth is what the Go stack pays: `OrCondition` / `AndCondition` call themselves once per
`OR` / `AND`, and the evaluator later recurses over the same tree.  Limit: the theorem bounds
the depth, it does not model the Go stack; the C09 / C18 claims of the checks are limited to
inputs whose nesting the Go stack holds (the runtime's default limit is 1 GB on 64-bit
platforms; exceeding it is a fatal error, not a recoverable panic). -/
theorem C09_recursion_depth_linear (f : Nat) (ts : List Token) (s : Stmt) (rest : List Token)
    (h : parseStmt f ts = .ok s rest) : ∃ pre, ts = pre ++ rest ∧ s.condDepth ≤ pre.length :=
  parseStmt_condDepth f ts s rest h

/-- non-vacuity and tightness within a factor 2: `SELECT a OR a OR a` consumes 6 tokens and
nests 3 deep; every further `OR a` adds 2 tokens and 1 level -/
example : ∃ s, parseStmt 8 tkSelectOr = .ok s [] ∧ s.condDepth = 3 ∧ tkSelectOr.length = 6 :=
  ⟨_, by rfl, rfl, rfl⟩

/-- **C09.memory (recursion depth, end to end)**: the condition depth of the statement
`parseSQL` returns is at most the number of input runes.  Same limit as
`C09_recursion_depth_linear`. -/
theorem C09_parse_depth_input (input : Input) (s : Stmt) (h : parseSQL input = .ok s) :
    s.condDepth ≤ input.length := parseSQL_condDepth input s h

example : depthOfParse inSelectOr = 3 ∧ inSelectOr.length = 18 := ⟨by rfl, rfl⟩

end Mkdb.Sql
