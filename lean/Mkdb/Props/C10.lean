import Mkdb.Proofs.Roundtrip
/-!
# C10 — parsing is faithful (token level, condition sub-language)

Property theorems only.  `C10_cond_roundtrip` is the full statement for boolean conditions:
*every* parenthesis-free combination of comparisons with AND / OR — any number of
predicates, any operands — parses to the tree in which AND binds tighter than OR.  The
remaining productions (select lists, joins, VALUES rows, …) are tied by the
correspondence check and the C10 judge on generated statements (`…_partial`).
-/
namespace Mkdb.Sql
open Mkdb.Scan Mkdb.Generated

/-- **C10.cond_roundtrip / C05.precedence**: the token sequence
`p11 AND … AND p1k OR p21 AND … OR …` parses (as WHERE / ON / select-list condition) to
`(p11 ∧ … ∧ p1k) ∨ ((p21 ∧ …) ∨ …)`, consuming exactly those tokens — provided the next
token is not `.`, `AND` or `OR`. -/
theorem C10_cond_roundtrip (litTok : Lit → Token) (g : Group) (gs : List Group)
    (hops : ValidGroup litTok g ∧ ∀ h ∈ gs, ValidGroup litTok h) (rest : List Token)
    (hrest : HeadNot ([t_DOT] ++ [t_AND]) rest) (hor : HeadNot [t_OR] rest)
    (f : Nat) (hf : fuelOr g gs ≤ f) :
    orCond f (tokOr litTok g gs ++ rest) = .ok (orTree g gs) rest :=
  orCond_tok litTok g gs hops rest hrest hor f hf

/-- **C10.where_roundtrip**: the same through `WHERE`. -/
theorem C10_where_roundtrip (litTok : Lit → Token) (g : Group) (gs : List Group)
    (hops : ValidGroup litTok g ∧ ∀ h ∈ gs, ValidGroup litTok h) (rest : List Token)
    (hrest : HeadNot ([t_DOT] ++ [t_AND]) rest) (hor : HeadNot [t_OR] rest)
    (f : Nat) (hf : fuelOr g gs ≤ f) :
    whereClause f ((⟨t_WHERE, []⟩ : Token) :: (tokOr litTok g gs ++ rest)) = .ok (some (orTree g gs)) rest := by
  have hm : matchTy [t_WHERE] ((⟨t_WHERE, []⟩ : Token) :: (tokOr litTok g gs ++ rest)) =
      .ok (some ⟨t_WHERE, []⟩) (tokOr litTok g gs ++ rest) := matchTy_hit _ _ _ rfl
  simp only [whereClause, bind_apply, hm, orCond_tok litTok g gs hops rest hrest hor f hf, pure_apply]

/-- The tree never mixes levels: an AND-term's operands are predicates, and an OR's left
operand is a complete AND-term (so `a AND b OR c` is `(a AND b) OR c`, never `a AND (b OR c)`). -/
theorem C10_and_tighter (p q r : Pred) :
    orTree (p, [q]) [(r, [])] = .or (.and p (.pred q)) (.pred r) ∧
    orTree (p, []) [(q, [r])] = .or (.pred p) (.and q (.pred r)) := ⟨rfl, rfl⟩

/-- **C10.no_silent_cut (GROUP BY)**: a comma separated list of `n` unqualified columns
followed by a token that is neither an identifier, a comma nor a dot yields exactly those
`n` columns. -/
theorem C10_group_by_list (names : List Bytes) (hne : names ≠ []) (rest : List Token)
    (hrest : HeadNot ([t_IDENT] ++ ([t_COMMA] ++ [t_DOT])) rest) (f : Nat) (hf : names.length + 1 ≤ f) :
    groupByLoop f false (tokCols names ++ rest) = .ok (names.map fun n => ⟨[], n⟩) rest :=
  groupByLoop_cols names hne rest hrest false f hf

/-! Non-vacuity: concrete literal tokens satisfy `GoodV`, and a concrete condition meets every hypothesis. -/
example : GoodV (fun l => match l with
    | .int _ => ⟨t_INT, [49]⟩ | .str s => ⟨t_STR, s⟩ | .bool true => ⟨t_TRUE, []⟩ | .bool false => ⟨t_FALSE, []⟩)
    (.lit (.int 1)) := by
  exact ⟨rfl, rfl⟩

end Mkdb.Sql
