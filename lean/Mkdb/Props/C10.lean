import Mkdb.Proofs.Roundtrip
/-!
# C10 — parsing is faithful (token level, condition sub-language)

Property theorems only.  `C10_cond_roundtrip` is the full statement for boolean conditions:
*every* parenthesis-free combination of comparisons with AND / OR — any number of
predicates, any operands — parses to the tree in which AND binds tighter than OR.  The
remaining productions (select lists, joins, VALUES rows, …) are tied by the
correspondence check and the C10 judge on generated statements (`…_partial`).
-/
namespace Mkdb.Sql
open Mkdb.Scan Mkdb.Generated

/-- **C10.cond_roundtrip / C05.precedence**: the token sequence
`p11 AND … AND p1k OR p21 AND … OR …` parses (as WHERE / ON / select-list condition) to
`(p11 ∧ … ∧ p1k) ∨ ((p21 ∧ …) ∨ …)`, consuming exactly those tokens — provided the next
token is not `.`, `AND` or `OR`. -/
theorem C10_cond_roundtrip (litTok : Lit → Token) (g : Group) (gs : List Group)
    (hops : ValidGroup litTok g ∧ ∀ h ∈ gs, ValidGroup litTok h) (rest : List Token)
    (hrest : HeadNot ([t_DOT] ++ [t_AND]) rest) (hor : HeadNot [t_OR] rest)
    (f : Nat) (hf : fuelOr g gs ≤ f) :
    orCond f (tokOr litTok g gs ++ rest) = .ok (orTree g gs) rest :=
  orCond_tok litTok g gs hops rest hrest hor f hf

/-- **C10.where_roundtrip**: the same through `WHERE`. -/
theorem C10_where_roundtrip (litTok : Lit → Token) (g : Group) (gs : List Group)
    (hops : ValidGroup litTok g ∧ ∀ h ∈ gs, ValidGroup litTok h) (rest : List Token)
    (hrest : HeadNot ([t_DOT] ++ [t_AND]) rest) (hor : HeadNot [t_OR] rest)
    (f : Nat) (hf : fuelOr g gs ≤ f) :
    whereClause f ((⟨t_WHERE, []⟩ : Token) :: (tokOr litTok g gs ++ rest)) = .ok (some (orTree g gs)) rest := by
  have hm : matchTy [t_WHERE] ((⟨t_WHERE, []⟩ : Token) :: (tokOr litTok g gs ++ rest)) =
      .ok (some ⟨t_WHERE, []⟩) (tokOr litTok g gs ++ rest) := matchTy_hit _ _ _ rfl
  simp only [whereClause, bind_apply, hm, orCond_tok litTok g gs hops rest hrest hor f hf, pure_apply]

/-- The tree never mixes levels: an AND-term's operands are predicates, and an OR's left
operand is a complete AND-term (so `a AND b OR c` is `(a AND b) OR c`, never `a AND (b OR c)`). -/
theorem C10_and_tighter (p q r : Pred) :
    orTree (p, [q]) [(r, [])] = .or (.and p (.pred q)) (.pred r) ∧
    orTree (p, []) [(q, [r])] = .or (.pred p) (.and q (.pred r)) := ⟨rfl, rfl⟩

/-- **C10.no_silent_cut (GROUP BY)**: a comma separated list of `n` unqualified columns
followed by a token that is neither an identifier, a comma nor a dot yields exactly those
`n` columns. -/
theorem C10_group_by_list (names : List Bytes) (hne : names ≠ []) (rest : List Token)
    (hrest : HeadNot ([t_IDENT] ++ ([t_COMMA] ++ [t_DOT])) rest) (f : Nat) (hf : names.length + 1 ≤ f) :
    groupByLoop f false (tokCols names ++ rest) = .ok (names.map fun n => ⟨[], n⟩) rest :=
  groupByLoop_cols names hne rest hrest false f hf

/-- **C10.no_silent_tail**: `Parser.Parse` returns a statement only if the statement production
consumed the whole input up to closing semicolons and the end: every token of the text is part of
the parsed statement (or a closing semicolon).  In particular no clause behind a token the grammar
does not know is dropped in silence - the repaired defect `DELETE FROM p x WHERE x.id = 1`. -/
theorem C10_no_silent_tail (ts : List Token) (s : Stmt) (h : parseTokens ts = .ok s) :
    ∃ rest, parseStmt (ts.length + 2) ts = .ok s rest ∧
      ((rest.dropWhile (fun t => t.ty == t_SEMICOLON)).headD eofToken).ty = t_EOF := by
  unfold parseTokens at h
  cases hp : parseStmt (ts.length + 2) ts with
  | ok a rest =>
    rw [hp] at h
    simp only [] at h
    split at h
    · rename_i he
      cases h
      refine ⟨rest, rfl, ?_⟩
      · have hd : ∀ l : List Token, dropSemis l = l.dropWhile (fun t => t.ty == t_SEMICOLON) := by
          intro l
          induction l with
          | nil => rfl
          | cons t r ih =>
            unfold dropSemis
            by_cases hc : (t.ty == t_SEMICOLON) = true
            · simp [hc, ih]
            · simp [hc]
        unfold atEnd at he
        rw [hd] at he
        simpa using he
    · cases h
  | err e => rw [hp] at h; cases h
  | panic p => rw [hp] at h; cases h
  | fuel => rw [hp] at h; cases h

/-- **C10.tail_refused**: conversely, a statement followed by anything but semicolons and the end is a
syntax error, whatever the statement. -/
theorem C10_tail_refused (ts : List Token) (s : Stmt) (rest : List Token)
    (hp : parseStmt (ts.length + 2) ts = .ok s rest) (hne : atEnd rest = false) :
    parseTokens ts = .err .syntax := by
  unfold parseTokens
  rw [hp]
  simp [hne]

/-- the witness of the repaired defect: `DELETE FROM p x WHERE x = 1` is refused, `DELETE FROM p ;;`
is the plain DELETE -/
example :
    parseTokens [⟨t_DELETE, []⟩, ⟨t_FROM, []⟩, ⟨t_IDENT, [112]⟩, ⟨t_IDENT, [120]⟩, ⟨t_WHERE, []⟩,
      ⟨t_IDENT, [120]⟩, ⟨t_EQ, []⟩, ⟨t_INT, [49]⟩, ⟨t_EOF, []⟩] = .err .syntax ∧
    parseTokens [⟨t_DELETE, []⟩, ⟨t_FROM, []⟩, ⟨t_IDENT, [112]⟩, ⟨t_SEMICOLON, []⟩, ⟨t_SEMICOLON, []⟩, ⟨t_EOF, []⟩] =
      .ok (.delete [112] none) := by
  constructor <;> rfl

/-! Non-vacuity: concrete literal tokens satisfy `GoodV`, and a concrete condition meets every hypothesis. -/
example : GoodV (fun l => match l with
    | .int _ => ⟨t_INT, [49]⟩ | .str s => ⟨t_STR, s⟩ | .bool true => ⟨t_TRUE, []⟩ | .bool false => ⟨t_FALSE, []⟩)
    (.lit (.int 1)) := by
  exact ⟨rfl, rfl⟩

end Mkdb.Sql
