import Mkdb.Proofs.Roundtrip
import Mkdb.Proofs.RoundtripStmt8
import Mkdb.Proofs.ScanBuf
/-!
# C10 — parsing is faithful (token level)

Property theorems only.  `C10_cond_roundtrip` is the statement for boolean conditions:
*every* parenthesis-free combination of comparisons with AND / OR — any number of
predicates, any operands — parses to the tree in which AND binds tighter than OR.
`C10_statement_roundtrip` (second half of the file) is the statement for the whole grammar:
every well-formed statement, written as tokens with any choice of the optional spellings,
is read back by `Parser.Parse` unchanged; `C10_wellformed_iff_parseable` says that the well-formed
statements are exactly the statements the parser can return.
-/
namespace Mkdb.Sql
open Mkdb.Scan Mkdb.Generated

/-- **C10.cond_roundtrip / C05.precedence**: the token sequence
`p11 AND … AND p1k OR p21 AND … OR …` parses (as WHERE / ON / select-list condition) to
`(p11 ∧ … ∧ p1k) ∨ ((p21 ∧ …) ∨ …)`, consuming exactly those tokens — provided the next
token is not `.`, `AND` or `OR`. -/
theorem C10_cond_roundtrip (litTok : Lit → Token) (g : Group) (gs : List Group)
    (hops : ValidGroup litTok g ∧ ∀ h ∈ gs, ValidGroup litTok h) (rest : List Token)
    (hrest : HeadNot ([t_DOT] ++ [t_AND]) rest) (hor : HeadNot [t_OR] rest)
    (f : Nat) (hf : fuelOr g gs ≤ f) :
    orCond f (tokOr litTok g gs ++ rest) = .ok (orTree g gs) rest :=
  orCond_tok litTok g gs hops rest hrest hor f hf

/-- **C10.where_roundtrip**: the same through `WHERE`. -/
theorem C10_where_roundtrip (litTok : Lit → Token) (g : Group) (gs : List Group)
    (hops : ValidGroup litTok g ∧ ∀ h ∈ gs, ValidGroup litTok h) (rest : List Token)
    (hrest : HeadNot ([t_DOT] ++ [t_AND]) rest) (hor : HeadNot [t_OR] rest)
    (f : Nat) (hf : fuelOr g gs ≤ f) :
    whereClause f ((⟨t_WHERE, []⟩ : Token) :: (tokOr litTok g gs ++ rest)) = .ok (some (orTree g gs)) rest := by
  have hm : matchTy [t_WHERE] ((⟨t_WHERE, []⟩ : Token) :: (tokOr litTok g gs ++ rest)) =
      .ok (some ⟨t_WHERE, []⟩) (tokOr litTok g gs ++ rest) := matchTy_hit _ _ _ rfl
  simp only [whereClause, bind_apply, hm, orCond_tok litTok g gs hops rest hrest hor f hf, pure_apply]

/-- The tree never mixes levels: an AND-term's operands are predicates, and an OR's left
operand is a complete AND-term (so `a AND b OR c` is `(a AND b) OR c`, never `a AND (b OR c)`). -/
theorem C10_and_tighter (p q r : Pred) :
    orTree (p, [q]) [(r, [])] = .or (.and p (.pred q)) (.pred r) ∧
    orTree (p, []) [(q, [r])] = .or (.pred p) (.and q (.pred r)) := ⟨rfl, rfl⟩

/-- **C10.no_silent_cut (GROUP BY)**: a comma separated list of `n` unqualified columns
followed by a token that is neither an identifier, a comma nor a dot yields exactly those
`n` columns. -/
theorem C10_group_by_list (names : List Bytes) (hne : names ≠ []) (rest : List Token)
    (hrest : HeadNot ([t_IDENT] ++ ([t_COMMA] ++ [t_DOT])) rest) (f : Nat) (hf : names.length + 1 ≤ f) :
    groupByLoop f false (tokCols names ++ rest) = .ok (names.map fun n => ⟨[], n⟩) rest :=
  groupByLoop_cols names hne rest hrest false f hf

/-- **C10.no_silent_tail**: `Parser.Parse` returns a statement only if the statement production
consumed the whole input up to closing semicolons and the end: every token of the text is part of
the parsed statement (or a closing semicolon).  In particular no clause behind a token the grammar
does not know is dropped in silence - the repaired defect `DELETE FROM p x WHERE x.id = 1`. -/
theorem C10_no_silent_tail (ts : List Token) (s : Stmt) (h : parseTokens ts = .ok s) :
    ∃ rest, parseStmt (ts.length + 2) ts = .ok s rest ∧
      ((rest.dropWhile (fun t => t.ty == t_SEMICOLON)).headD eofToken).ty = t_EOF := by
  unfold parseTokens at h
  cases hp : parseStmt (ts.length + 2) ts with
  | ok a rest =>
    rw [hp] at h
    simp only [] at h
    split at h
    · rename_i he
      cases h
      refine ⟨rest, rfl, ?_⟩
      · have hd : ∀ l : List Token, dropSemis l = l.dropWhile (fun t => t.ty == t_SEMICOLON) := by
          intro l
          induction l with
          | nil => rfl
          | cons t r ih =>
            unfold dropSemis
            by_cases hc : (t.ty == t_SEMICOLON) = true
            · simp [hc, ih]
            · simp [hc]
        unfold atEnd at he
        rw [hd] at he
        simpa using he
    · cases h
  | err e => rw [hp] at h; cases h
  | panic p => rw [hp] at h; cases h
  | fuel => rw [hp] at h; cases h

/-- **C10.tail_refused**: conversely, a statement followed by anything but semicolons and the end is a
syntax error, whatever the statement. -/
theorem C10_tail_refused (ts : List Token) (s : Stmt) (rest : List Token)
    (hp : parseStmt (ts.length + 2) ts = .ok s rest) (hne : atEnd rest = false) :
    parseTokens ts = .err .syntax := by
  unfold parseTokens
  rw [hp]
  simp [hne]

/-- the witness of the repaired defect: `DELETE FROM p x WHERE x = 1` is refused, `DELETE FROM p ;;`
is the plain DELETE -/
example :
    parseTokens [⟨t_DELETE, []⟩, ⟨t_FROM, []⟩, ⟨t_IDENT, [112]⟩, ⟨t_IDENT, [120]⟩, ⟨t_WHERE, []⟩,
      ⟨t_IDENT, [120]⟩, ⟨t_EQ, []⟩, ⟨t_INT, [49]⟩, ⟨t_EOF, []⟩] = .err .syntax ∧
    parseTokens [⟨t_DELETE, []⟩, ⟨t_FROM, []⟩, ⟨t_IDENT, [112]⟩, ⟨t_SEMICOLON, []⟩, ⟨t_SEMICOLON, []⟩, ⟨t_EOF, []⟩] =
      .ok (.delete [112] none) := by
  constructor <;> rfl

/-! Non-vacuity: concrete literal tokens satisfy `GoodV`, and a concrete condition meets every hypothesis. -/
example : GoodV (fun l => match l with
    | .int _ => ⟨t_INT, [49]⟩ | .str s => ⟨t_STR, s⟩ | .bool true => ⟨t_TRUE, []⟩ | .bool false => ⟨t_FALSE, []⟩)
    (.lit (.int 1)) := by
  exact ⟨rfl, rfl⟩

/-! ## The whole grammar: `renderStmt` and `Parser.Parse` -/

/-- **C10.std_literals**: the standard literal tokens - `INT` with the decimal digits of a
non-negative int64, `STR` with the bytes, `TRUE` / `FALSE` - are literal tokens and `Token.Val`
reads the literal back from them.  Excluded: negative integers and integers above 2^63-1 (the
scanner has no signed integer token). -/
theorem C10_std_literals_good (l : Lit) (h : stdLit l = true) : GoodLit stdLitTok l :=
  stdLitTok_good l h

example : stdLit (.int 9223372036854775807) = true ∧ stdLit (.str [39, 0, 255]) = true ∧ stdLit (.bool false) = true := by
  decide

/-- **C10.condition_roundtrip (any shape)**: every condition `OrCondition` can return -
AND-terms joined by OR (nested to the right), an AND-term being comparisons joined by AND whose
last operand may be a bare value - is read back from its tokens, AND grouping tighter than OR,
consuming exactly those tokens.  Hypotheses: the literals are written by good tokens, the next
token is not `.`, a comparison operator, AND or OR, and the fuel is the token count + 2. -/
theorem C10_condition_roundtrip_any_shape (o : ROpts) (ok : Lit → Bool)
    (hlit : ∀ l, ok l = true → GoodLit o.lit l) (c : Cond) (hc : wfCond ok c = true)
    (rest : List Token) (hr : HeadNot condBad rest) (f : Nat) (hf : (tokCond o c).length + 2 ≤ f) :
    orCond f (tokCond o c ++ rest) = .ok c rest :=
  orCond_tokCond o ok hlit c hc rest hr f hf

/-- `a = 1 AND b OR c < 'x'`: the last operand of the AND chain is a bare column -/
example : orCond 20 (tokCond {} (.or (.and ⟨.col ⟨[], [97]⟩, t_EQ, .lit (.int 1)⟩ (.val (.col ⟨[], [98]⟩)))
      (.pred ⟨.col ⟨[], [99]⟩, t_LT, .lit (.str [120])⟩)) ++ [⟨t_SEMICOLON, []⟩]) =
    .ok (.or (.and ⟨.col ⟨[], [97]⟩, t_EQ, .lit (.int 1)⟩ (.val (.col ⟨[], [98]⟩)))
      (.pred ⟨.col ⟨[], [99]⟩, t_LT, .lit (.str [120])⟩)) [⟨t_SEMICOLON, []⟩] :=
  C10_condition_roundtrip_any_shape {} stdLit stdLitTok_good _ (by decide) _ (by decide) 20 (by decide)

/-- **C10.no_list_cut (loops of the shape `for { x; if !match(COMMA) break }`)**: a non-empty comma
separated list is returned whole - every element, in order - whenever the loop body reads one
element back from its tokens and says whether a comma follows (select list, ORDER BY).
Hypotheses: the token behind the list is not a comma (nor one the body would go on reading),
the fuel is at least the number of elements. -/
theorem C10_sep_list_whole {α} (body : P (α × Bool)) (tk : Nat → α → List Token) (comma : Token)
    (hc : comma.ty = t_COMMA) (bad : List Int) (hbad : bad.contains t_COMMA = false)
    (rest : List Token) (hrest : HeadNot (t_COMMA :: bad) rest) (N : Nat) (xs : List α)
    (hbody : ∀ j x r', x ∈ xs → (tk j x).length ≤ N → HeadNot bad r' → body (tk j x ++ r') = withComma x r')
    (hne : xs ≠ []) (i f : Nat) (hf : xs.length ≤ f) (hN : (tokSep tk comma i xs).length ≤ N) :
    sepLoop f body (tokSep tk comma i xs ++ rest) = .ok xs rest :=
  sepLoop_tok body tk comma hc bad hbad rest hrest N xs hbody hne i f hf hN

/-- `ORDER BY` keys `a DESC, t.b`: both come back -/
example : sepLoop 2 sortBody (tokSep (tokSort {}) ⟨t_COMMA, []⟩ 0 [⟨⟨[], [97]⟩, true⟩, ⟨⟨[116], [98]⟩, false⟩] ++ []) =
    .ok [⟨⟨[], [97]⟩, true⟩, ⟨⟨[116], [98]⟩, false⟩] [] :=
  C10_sep_list_whole sortBody (tokSort {}) ⟨t_COMMA, []⟩ rfl [t_DOT, t_ASC, t_DESC] (by decide) [] trivial 100 _
    (fun j x r' _ _ hb => sortBody_tok {} x j r' hb) (by simp) 0 2 (by decide) (by decide)

/-- **C10.no_list_cut (loops of the shape `for match(GUARD) { x; if !match(COMMA) break }`)**: a
possibly empty comma separated list whose elements start with a guard token is returned whole
(column definitions, INSERT column list, VALUES rows and the values of a row, SET assignments).
Hypotheses: the token behind the list is not a comma; behind an empty list it is not the guard;
the fuel is at least the number of elements + 1. -/
theorem C10_guarded_list_whole {α} (tys : List Int) (body : Token → P (α × Bool)) (tk : Nat → α → List Token)
    (comma : Token) (hc : comma.ty = t_COMMA) (bad : List Int) (hbad : bad.contains t_COMMA = false)
    (rest : List Token) (hrest : HeadNot (t_COMMA :: bad) rest) (N : Nat) (xs : List α)
    (hbody : ∀ j x r', x ∈ xs → (tk j x).length ≤ N → HeadNot bad r' →
      ∃ g tl, tk j x = g :: tl ∧ tys.contains g.ty = true ∧ body g (tl ++ r') = withComma x r')
    (hnil : xs = [] → HeadNot tys rest) (i f : Nat) (hf : xs.length + 1 ≤ f)
    (hN : (tokSep tk comma i xs).length ≤ N) :
    guardedLoop f tys body (tokSep tk comma i xs ++ rest) = .ok xs rest :=
  guardedLoop_tok tys body tk comma hc bad hbad rest hrest N xs hbody hnil i f hf hN

/-- the values `1, 'x', TRUE` of a VALUES row, closed by `)` -/
example : guardedLoop 4 literalTys valBody
      (tokSep (tokLitItem {}) ⟨t_COMMA, []⟩ 0 [.int 1, .str [120], .bool true] ++ [⟨t_RPAREN, []⟩]) =
    .ok [.int 1, .str [120], .bool true] [⟨t_RPAREN, []⟩] :=
  C10_guarded_list_whole literalTys valBody (tokLitItem {}) ⟨t_COMMA, []⟩ rfl [] rfl _ (by decide) 100 _
    (fun j x r' hx _ _ => ⟨stdLitTok x, [], rfl, (stdLitTok_good x (by
        simp only [List.mem_cons, List.not_mem_nil, or_false] at hx
        rcases hx with rfl | rfl | rfl <;> rfl)).1, valBody_tok {} x (stdLitTok_good x (by
        simp only [List.mem_cons, List.not_mem_nil, or_false] at hx
        rcases hx with rfl | rfl | rfl <;> rfl)) _⟩)
    (fun h => by cases h) 0 4 (by decide) (by decide)

/-- **C10.join_chain_roundtrip**: a chain of joins - each LEFT, RIGHT or INNER (the keyword INNER
written or not, per join), with table, optional alias and ON condition - is read back with every
kind mapped to itself, nested to the left.  Hypotheses: well-formed ON conditions, the next token
is not one a condition or the loop would go on reading, fuel = token count + 2. -/
theorem C10_join_chain_roundtrip (o : ROpts) (ok : Lit → Bool) (hlit : ∀ l, ok l = true → GoodLit o.lit l)
    (rest : List Token) (hr : HeadNot joinBad rest) (js : List JoinSpec)
    (hw : (js.all fun j => wfCond ok j.2.2) = true) (lhs : TableRef) (i f : Nat)
    (hf : (tokJoins o i js).length + 2 ≤ f) :
    joinLoop f lhs (tokJoins o i js ++ rest) = .ok (js.foldl mkJoin lhs) rest :=
  joinLoop_tok o ok hlit rest hr js hw lhs i f hf

/-- `t JOIN u ON a = b RIGHT JOIN v w ON c` -/
example : joinLoop 20 (.table ⟨[116], none⟩) (tokJoins {} 0
      [(.inner, ⟨[117], none⟩, .pred ⟨.col ⟨[], [97]⟩, t_EQ, .col ⟨[], [98]⟩⟩),
       (.right, ⟨[118], some [119]⟩, .val (.col ⟨[], [99]⟩))] ++ []) =
    .ok (.join (.join (.table ⟨[116], none⟩) .inner ⟨[117], none⟩ (.pred ⟨.col ⟨[], [97]⟩, t_EQ, .col ⟨[], [98]⟩⟩))
      .right ⟨[118], some [119]⟩ (.val (.col ⟨[], [99]⟩))) [] :=
  C10_join_chain_roundtrip {} stdLit stdLitTok_good [] trivial _ (by decide) _ 0 20 (by decide)

/-! The concrete statements `c10ExSelect`, `c10ExInsert`, `c10ExCreate`, `c10ExUpdate` and the options
`c10ExOpts` of the non-vacuity examples below are defined at the end of `Proofs/RoundtripStmt8.lean`. -/

/-- **C10.parse_statement_roundtrip**: `parseStatement` reads every well-formed statement back from
`renderStmt o s`, whatever optional spellings `o` chooses, and consumes exactly its tokens.
Hypotheses: the literals `ok` accepts are written by good tokens; the next token is none a
production would go on reading (`stmtBad`: a semicolon or the end is fine); behind a SELECT without
FROM there is at most one token (`p.HasNext()`); fuel = token count + 2. -/
theorem C10_parse_statement_roundtrip (o : ROpts) (ok : Lit → Bool) (hlit : ∀ l, ok l = true → GoodLit o.lit l)
    (s : Stmt) (hw : wfStmt ok s = true) (rest : List Token) (hr : HeadNot stmtBad rest)
    (hshort : needsShortTail s = true → rest.length ≤ 1)
    (f : Nat) (hf : (renderStmt o s).length + 2 ≤ f) :
    parseStmt f (renderStmt o s ++ rest) = .ok s rest :=
  parseStmt_tok o ok hlit s hw rest hr hshort f hf

/-- the UPDATE, followed by a semicolon that is left unread -/
example : parseStmt 40 (renderStmt c10ExOpts c10ExUpdate ++ [⟨t_SEMICOLON, []⟩]) = .ok c10ExUpdate [⟨t_SEMICOLON, []⟩] :=
  C10_parse_statement_roundtrip c10ExOpts stdLit stdLitTok_good c10ExUpdate (by decide) _ (by decide)
    (by decide) 40 (by decide)

/-- **C10.statement_roundtrip (any literal tokens)**: `Parser.Parse` - with its own fuel - returns `s`
for the tokens of `s` followed by `k` closing semicolons and an EOF token or nothing.
Hypotheses: `o.lit` is good on the literals `ok` accepts, `s` is well formed relative to `ok`, and
the closing is one the parser allows (`closingOK`: any, except that a SELECT without FROM takes at
most one token behind it). -/
theorem C10_statement_roundtrip_lit (o : ROpts) (ok : Lit → Bool) (hlit : ∀ l, ok l = true → GoodLit o.lit l)
    (s : Stmt) (hw : wfStmt ok s = true) (k : Nat) (e : Bool) (hc : closingOK s k e = true) :
    parseTokens (renderStmt o s ++ closing o k e) = .ok s :=
  parseTokens_render o ok hlit s hw k e hc

/-- literal tokens other than the standard ones: integers written with a `+` sign -/
example : parseTokens (renderStmt { lit := fun l => match l with
      | .int i => ⟨t_INT, 43 :: natDigits i.toNat⟩ | l => stdLitTok l } c10ExCreate ++ closing {} 1 false) =
    .ok c10ExCreate :=
  C10_statement_roundtrip_lit _ (fun l => decide (l = .int 255)) (fun l hl => by
    simp only [decide_eq_true_eq] at hl; subst hl; exact ⟨rfl, rfl⟩) c10ExCreate (by decide) 1 false (by decide)

/-- **C10.statement_roundtrip** - parsing is faithful, token level, ALL productions.  For every
well-formed statement `s` (`WFStmt`, decidable: the statements the grammar can express) and every
choice `o` of the optional spellings - keyword texts (any case), AS before an alias or not, INNER
before JOIN or not, ASC written or not, commas in GROUP BY or not, `GROUP BY` with an empty list,
LIMIT before OFFSET or after, `()` for an empty INSERT column list, `SHOW DATABASE` or
`SHOW databases` in any case - the token list `renderStmt o s`, closed by any number `k` of
semicolons and an EOF token or nothing, parses to exactly `s`: same kind, names, literals,
operators, clause contents and order.  This contains: AND groups tighter than OR (the shape in
`WFStmt` is the tree with that grouping and it comes back unchanged); LEFT / RIGHT / INNER,
ASC / DESC, LIMIT / OFFSET are mapped to themselves; every element of every comma separated list
comes back (`C10_no_list_cut` spells that out).  Hypotheses: literals are written by the standard
tokens (`o.lit = stdLitTok`, the default); `closingOK`: behind a SELECT without FROM at most one
closing token is accepted by the code (`SELECT 1;;` is refused, see the witness below). -/
theorem C10_statement_roundtrip (o : ROpts) (ho : o.lit = stdLitTok) (s : Stmt) (hw : WFStmt s)
    (k : Nat) (e : Bool) (hc : closingOK s k e = true) :
    parseTokens (renderStmt o s ++ closing o k e) = .ok s :=
  parseTokens_render o stdLit (fun l hl => by rw [ho]; exact stdLitTok_good l hl) s hw k e hc

/-- **C10.no_list_cut**: no clause written in standard form is cut short - the statement parsed
from the tokens of `s` has the same select list, GROUP BY list, ORDER BY list, INSERT column list,
VALUES rows (and values in each row), SET assignments and column definitions as `s`: same elements
in the same order, hence the same lengths.  (This is `C10_statement_roundtrip` read list by list;
the loop-level facts for arbitrary element parsers are `C10_sep_list_whole` and
`C10_guarded_list_whole`; that nothing behind a statement is dropped is `C10_no_silent_tail`.) -/
theorem C10_no_list_cut (o : ROpts) (ho : o.lit = stdLitTok) (s : Stmt) (hw : WFStmt s)
    (k : Nat) (e : Bool) (hc : closingOK s k e = true) :
    (∀ sel, s = .select sel → ∃ sel', parseTokens (renderStmt o s ++ closing o k e) = .ok (.select sel') ∧
      sel'.list = sel.list ∧ sel'.groupBy = sel.groupBy ∧ sel'.orderBy = sel.orderBy ∧
      sel'.list.length = sel.list.length ∧ sel'.groupBy.length = sel.groupBy.length ∧
      sel'.orderBy.length = sel.orderBy.length) ∧
    (∀ t cols rows, s = .insert t cols rows → ∃ cols' rows',
      parseTokens (renderStmt o s ++ closing o k e) = .ok (.insert t cols' rows') ∧ cols' = cols ∧ rows' = rows ∧
      rows'.length = rows.length ∧ rows'.map List.length = rows.map List.length) ∧
    (∀ t sets w, s = .update t sets w → ∃ sets',
      parseTokens (renderStmt o s ++ closing o k e) = .ok (.update t sets' w) ∧ sets' = sets ∧
      sets'.length = sets.length) ∧
    (∀ n cols, s = .createTable n cols → ∃ cols',
      parseTokens (renderStmt o s ++ closing o k e) = .ok (.createTable n cols') ∧ cols' = cols ∧
      cols'.length = cols.length) := by
  have h := C10_statement_roundtrip o ho s hw k e hc
  refine ⟨?_, ?_, ?_, ?_⟩
  · intro sel hs; subst hs; exact ⟨sel, h, rfl, rfl, rfl, rfl, rfl, rfl⟩
  · intro t cols rows hs; subst hs; exact ⟨cols, rows, h, rfl, rfl, rfl, rfl⟩
  · intro t sets w hs; subst hs; exact ⟨sets, h, rfl, rfl⟩
  · intro n cols hs; subst hs; exact ⟨cols, h, rfl, rfl⟩

/-- the three VALUES rows (of 3, 3 and 0 values) of the concrete INSERT come back -/
example : ∃ cols' rows', parseTokens (renderStmt c10ExOpts c10ExInsert ++ closing c10ExOpts 1 false) =
      .ok (.insert [116] cols' rows') ∧ rows'.length = 3 ∧ rows'.map List.length = [3, 3, 0] := by
  obtain ⟨c, r, h, hc, hr, _, _⟩ :=
    (C10_no_list_cut c10ExOpts rfl c10ExInsert (by decide) 1 false (by decide)).2.1 _ _ _ rfl
  exact ⟨c, r, h, by rw [hr]; rfl, by rw [hr]; rfl⟩

/-- **C10.parsed_statements_are_wellformed** (the converse: `wfStmt` is not too narrow): whatever
token list `Parser.Parse` accepts, the statement it returns is well formed relative to the literals
a token can carry (`int64Lit`: strings, booleans, int64 integers).  In particular conditions have
the AND-inside-OR shape, `*` stands alone in a select list, a SELECT without FROM has no other
clause, an absent LIMIT / OFFSET is 0 and a present one is not negative, `validateGroupBy` passed. -/
theorem C10_parsed_statements_are_wellformed (ts : List Token) (s : Stmt) (h : parseTokens ts = .ok s) :
    wfStmt int64Lit s = true :=
  parseTokens_wf h

/-- the hypothesis is met by `SELECT 1;` -/
example : wfStmt int64Lit (.select { list := [⟨.expr (.val (.lit (.int 1))), []⟩] }) = true :=
  C10_parsed_statements_are_wellformed [⟨t_SELECT, []⟩, ⟨t_INT, [49]⟩, ⟨t_SEMICOLON, []⟩] _ rfl

/-- **C10.wellformed_iff_parseable**: `wfStmt` describes exactly the statements the grammar can
express - a statement is well formed relative to `int64Lit` if and only if some token list parses
to it (for "if": its rendering, negative integers written with a minus sign in the INT token).
`WFStmt` is the same predicate relative to the literals the scanner can write (`stdLit`: no
negative integers). -/
theorem C10_wellformed_iff_parseable (s : Stmt) :
    wfStmt int64Lit s = true ↔ ∃ ts, parseTokens ts = .ok s :=
  wfStmt_iff_parseable s

/-- both directions are inhabited: the rich SELECT is well formed, hence parseable -/
example : ∃ ts, parseTokens ts = .ok c10ExSelect := (C10_wellformed_iff_parseable _).mp (by decide)

/-! ### Non-vacuity of `C10_statement_roundtrip`, and the findings -/

example : WFStmt c10ExSelect ∧ WFStmt c10ExInsert ∧ WFStmt c10ExCreate ∧ WFStmt c10ExUpdate := by decide

example : closingOK c10ExSelect 3 true = true ∧ closingOK (.select { list := [⟨.star, []⟩] }) 1 false = true := by
  decide

/-- the theorem instantiated: default spellings and the non-default ones, three semicolons and EOF -/
example : parseTokens (renderStmt {} c10ExSelect ++ closing {} 3 true) = .ok c10ExSelect ∧
    parseTokens (renderStmt c10ExOpts c10ExSelect ++ closing c10ExOpts 0 false) = .ok c10ExSelect ∧
    parseTokens (renderStmt c10ExOpts c10ExInsert ++ closing c10ExOpts 2 false) = .ok c10ExInsert ∧
    parseTokens (renderStmt {} c10ExCreate ++ closing {} 0 true) = .ok c10ExCreate ∧
    parseTokens (renderStmt c10ExOpts c10ExUpdate ++ closing c10ExOpts 1 true) = .ok c10ExUpdate ∧
    parseTokens (renderStmt c10ExOpts .showDatabases ++ closing c10ExOpts 1 false) = .ok .showDatabases :=
  ⟨C10_statement_roundtrip {} rfl _ (by decide) 3 true (by decide),
   C10_statement_roundtrip c10ExOpts rfl _ (by decide) 0 false (by decide),
   C10_statement_roundtrip c10ExOpts rfl _ (by decide) 2 false (by decide),
   C10_statement_roundtrip {} rfl _ (by decide) 0 true (by decide),
   C10_statement_roundtrip c10ExOpts rfl _ (by decide) 1 true (by decide),
   C10_statement_roundtrip c10ExOpts rfl _ (by decide) 1 false (by decide)⟩

/-- the same by evaluation of the model (independent of the proofs): the 102 tokens of the SELECT
with default spellings, and the spellings of `c10ExOpts` -/
example : parseTokens (renderStmt {} c10ExSelect) = .ok c10ExSelect ∧
    parseTokens (renderStmt c10ExOpts c10ExSelect ++ closing c10ExOpts 2 false) = .ok c10ExSelect ∧
    parseTokens (renderStmt c10ExOpts c10ExInsert) = .ok c10ExInsert ∧
    parseTokens (renderStmt {} c10ExCreate) = .ok c10ExCreate := by
  refine ⟨?_, ?_, ?_, ?_⟩ <;> rfl

/-- the first tokens of the rendering are what one expects: `SELECT t . a AS x , COUNT ( * ) c , …` -/
example : (renderStmt {} c10ExSelect).take 12 =
    [⟨t_SELECT, []⟩, ⟨t_IDENT, [116]⟩, ⟨t_DOT, []⟩, ⟨t_IDENT, [97]⟩, ⟨t_AS, []⟩, ⟨t_IDENT, [120]⟩, ⟨t_COMMA, []⟩,
     ⟨t_COUNT, []⟩, ⟨t_LPAREN, []⟩, ⟨t_ASTRSK, []⟩, ⟨t_RPAREN, []⟩, ⟨t_AS, []⟩] := by decide

/-- **Finding (closing of a SELECT without FROM)**: `SELECT 1` and `SELECT 1;` parse, `SELECT 1;;`
is refused ("unexpected token ;, expected FROM") although `SELECT * FROM t;;` is accepted: the
test `!hasFromClause && p.HasNext()` of `Parser.Select` counts tokens instead of looking for the
end of the statement.  This is why `closingOK` restricts the closing of such a SELECT. -/
example :
    parseTokens [⟨t_SELECT, []⟩, ⟨t_INT, [49]⟩, ⟨t_SEMICOLON, []⟩] =
      .ok (.select { list := [⟨.expr (.val (.lit (.int 1))), []⟩] }) ∧
    parseTokens [⟨t_SELECT, []⟩, ⟨t_INT, [49]⟩, ⟨t_SEMICOLON, []⟩, ⟨t_SEMICOLON, []⟩] = .err .unexpected ∧
    parseTokens [⟨t_SELECT, []⟩, ⟨t_ASTRSK, []⟩, ⟨t_FROM, []⟩, ⟨t_IDENT, [116]⟩, ⟨t_SEMICOLON, []⟩, ⟨t_SEMICOLON, []⟩] =
      .ok (.select { list := [⟨.star, []⟩], from_ := some (.table ⟨[116], none⟩) }) := by
  refine ⟨?_, ?_, ?_⟩ <;> rfl

/-- standard spellings outside the grammar are refused, not cut: `FROM t AS x`, `LEFT OUTER JOIN` -/
example :
    parseTokens [⟨t_SELECT, []⟩, ⟨t_ASTRSK, []⟩, ⟨t_FROM, []⟩, ⟨t_IDENT, [116]⟩, ⟨t_AS, []⟩, ⟨t_IDENT, [120]⟩] =
      .err .syntax ∧
    parseTokens [⟨t_SELECT, []⟩, ⟨t_ASTRSK, []⟩, ⟨t_FROM, []⟩, ⟨t_IDENT, [116]⟩, ⟨t_LEFT, []⟩, ⟨t_OUTER, []⟩,
      ⟨t_JOIN, []⟩, ⟨t_IDENT, [117]⟩, ⟨t_ON, []⟩, ⟨t_IDENT, [97]⟩] = .err .unexpected := by
  refine ⟨?_, ?_⟩ <;> rfl

end Mkdb.Sql

/-!
# C10 — buffered reading of the SQL scanner is invisible

`Scanner.next` (sql/go_scanner.go) reads runes out of a 1024-byte buffer that it refills
from an `io.Reader`; a reader may return any number of bytes per `Read`.  The statements
below hold for every input and every behaviour of the reader.
-/
namespace Mkdb.ScanBuf

/-- **C10.buffered_reading_is_invisible**: take any input bytes and any reader (any number of
bytes per `Read`, at least one while input remains; EOF reported together with the last bytes
or by a separate empty `Read`).  Calling `next` from `Init` until it returns EOF delivers
exactly the runes that decoding the whole input in one piece gives (`DecodeRune` on what is
left, again and again), and every rune takes up the same number of bytes, so offsets agree;
the widths add up to the length of the input, so nothing is lost or read twice at a refill. -/
theorem C10_buffered_reading_is_invisible (input : Bytes) (sched : Nat → Choice) :
    (nextAll (init input sched)).map (·.1) = decodeRunes input ∧
    (nextAll (init input sched)).map (·.2) = (decodeAll input).map (·.2) ∧
    ((nextAll (init input sched)).map (·.2)).sum = input.length :=
  ⟨nextAll_buffered_eq_unbuffered input sched, nextAll_widths_eq input sched, by
    rw [nextAll_widths_eq]; exact decodeAll_widths_sum _ input rfl⟩

/-- The same from any scanner state (any buffer content, any token in progress): what is still
to come is the decoding of the bytes not yet consumed. -/
theorem C10_buffered_reading_is_invisible_any_state (st : St) :
    nextAll st = decodeAll (pending st) :=
  nextAll_eq_decodeAll st

/-- **C10.token_text_survives_refills**: `Scan` starts a token when `i+1` characters have been
read (the token begins with character `i+1`, the look-ahead) and ends it when `k+1` more
have been read (the last of them is the next look-ahead).  `TokenText()` is then exactly the
`k+1` characters of the input that begin at the byte offset of character `i+1` - however
often the buffer was refilled in between and however the reader cut the input. -/
theorem C10_token_text_survives_refills (input : Bytes) (sched : Nat → Choice) (i k : Nat) :
    tokenText (nexts (k + 1) (startToken (nexts (i + 1) (init input sched)))) =
      (input.drop (consumed i input)).take (consumed (k + 1) (input.drop (consumed i input))) :=
  tokenText_from_init input sched i k

/-- `consumed k p`, the offset used above, is the sum of the first `k` rune widths of `p`. -/
theorem C10_consumed_is_sum_of_widths (k : Nat) (p : Bytes) :
    consumed k p = (((decodeAll p).take k).map (·.2)).sum :=
  consumed_eq_sum k p

/-- The fact the refill loop of `next` rests on: when the bytes in the buffer begin with a full
rune (or there are `UTFMax` of them), `DecodeRune` does not look at what follows. -/
theorem C10_decodeRune_prefix_stable (bs more : Bytes)
    (h : fullRune bs = true ∨ utfMax ≤ bs.length) :
    decodeRune (bs ++ more) = decodeRune bs :=
  decodeRune_prefix_stable bs more h

/-! Computed examples.  The input: 1023 times `a`, then `é` (C3 A9) on the byte positions
1023/1024 - across the end of the first buffer -, `b`, `€` (E2 82 AC), an encoded surrogate
(ED A0 80: three error runes of width 1) and a cut-off 4-byte sequence (F0 9F: two more). -/

def c10BufInput : Bytes :=
  List.replicate 1023 97 ++ [0xC3, 0xA9, 98, 0xE2, 0x82, 0xAC, 0xED, 0xA0, 0x80, 0xF0, 0x9F]
/-- a reader that fills all the free space (`strings.Reader`, `bytes.Reader`) -/
def c10FillAll : Nat → Choice := fun _ => ⟨bufLen, false⟩
/-- a reader that returns 1, 2, 3, 1, 2, 3, ... bytes and reports EOF with the last ones -/
def c10Small : Nat → Choice := fun i => ⟨i % 3 + 1, true⟩

set_option maxRecDepth 100000 in
/-- both readers: the tail of the run is `a é b € � � � � �` with widths 1 2 1 3 1 1 1 1 1,
and the run has 1031 runes for 1034 bytes -/
example :
    (nextAll (init c10BufInput c10FillAll)).drop 1022 =
      [(97, 1), (233, 2), (98, 1), (8364, 3), (65533, 1), (65533, 1), (65533, 1), (65533, 1), (65533, 1)] ∧
    (nextAll (init c10BufInput c10Small)).drop 1022 =
      [(97, 1), (233, 2), (98, 1), (8364, 3), (65533, 1), (65533, 1), (65533, 1), (65533, 1), (65533, 1)] ∧
    (nextAll (init c10BufInput c10Small)).length = 1031 ∧ c10BufInput.length = 1034 := by
  simp only [nextAll, nextAllFuel_eq_nextAllF]
  decide +kernel

set_option maxRecDepth 100000 in
/-- ... which is what direct decoding gives -/
example : (decodeAll c10BufInput).drop 1022 =
    [(97, 1), (233, 2), (98, 1), (8364, 3), (65533, 1), (65533, 1), (65533, 1), (65533, 1), (65533, 1)] := by
  rw [decodeAll_eq_decodeAllF 1034 c10BufInput (by decide)]
  decide +kernel

set_option maxRecDepth 100000 in
/-- the refill really happens inside the character: with the filling reader, after 1023 calls
one `Read` has been made and the buffer holds the lone byte C3; the next call reads again -/
example :
    (nexts 1023 (init c10BufInput c10FillAll)).win = [0xC3] ∧
    (nexts 1023 (init c10BufInput c10FillAll)).reads = 1 ∧
    (nexts 1024 (init c10BufInput c10FillAll)).reads = 2 ∧
    (nexts 1024 (init c10BufInput c10FillAll)).last = [0xC3, 0xA9] ∧
    (nexts 1031 (init c10BufInput c10Small)).reads = 518 := by
  simp only [nexts_eq_nextsF]
  decide +kernel

set_option maxRecDepth 100000 in
/-- token text across the refill: a token that begins with the `a` at offset 1021 and ends
before `b` reads `a a é`; its head `a a` went to `tokBuf` when the buffer was refilled -/
example :
    tokenText (nexts 3 (startToken (nexts 1022 (init c10BufInput c10FillAll)))) = [97, 97, 0xC3, 0xA9] ∧
    (nexts 3 (startToken (nexts 1022 (init c10BufInput c10FillAll)))).tokBuf = [97, 97] ∧
    tokenText (nexts 3 (startToken (nexts 1022 (init c10BufInput c10Small)))) = [97, 97, 0xC3, 0xA9] ∧
    tokenText (nexts 6 (startToken (nexts 1024 (init c10BufInput c10Small)))) =
      [0xC3, 0xA9, 98, 0xE2, 0x82, 0xAC, 0xED, 0xA0, 0x80] := by
  simp only [nexts_eq_nextsF]
  decide +kernel

end Mkdb.ScanBuf
