import Mkdb.Model.Parse
/-! # C10 — parsing is faithful (theorems follow the repaired parser) -/
namespace Mkdb.Sql
end Mkdb.Sql
