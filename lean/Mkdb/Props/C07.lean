import Mkdb.Proofs.Aggregate
import Mkdb.Proofs.NoPanicExec
import Mkdb.Proofs.GroupNoAgg
import Mkdb.Proofs.AliasCapture
import Mkdb.Proofs.Meaning9
/-!
# C07 — COUNT, AVG and GROUP BY compute true aggregates

Property theorems only (proofs in `Mkdb/Proofs/Aggregate.lean`, `NoPanicExec.lean`,
`GroupNoAgg.lean`, `AliasCapture.lean`).
Full statement for GROUP BY and COUNT; AVG is a *known finding*: the code keeps a
cumulative average rounded after every row, so "AVG = round(sum/count), independent of row
order" is false of the code and of the model — `C07_avg_counterexample` is its witness and
`C07_avg_partial` what does hold.
-/
namespace Mkdb.Exec
open Mkdb.Sql Mkdb.Exec.AggP Mkdb.Exec.NoPanicP Mkdb.Exec.GroupNoAggP Mkdb.Exec.AliasCaptureP

/-- **C07.one_group_per_key**: grouping produces exactly one group per distinct tuple of
grouping values, in first-occurrence order. -/
theorem C07_one_group_per_key (key : Row → List Val) (rows : List Row) :
    ((groupsOf key rows).map (·.key)).Nodup ∧ (groupsOf key rows).map (·.key) = (rows.map key).eraseDups :=
  ⟨groups_keys_nodup key rows, groups_keys_first_occurrence key rows⟩

/-- **C07.same_group_iff_equal_key**: two rows are in the same group only if all their
grouping values are equal, and every row is in the group of its key. -/
theorem C07_group_membership (key : Row → List Val) (rows : List Row) :
    (∀ g ∈ groupsOf key rows, ∀ r ∈ g.rows, key r = g.key) ∧
    (∀ r ∈ rows, ∃ g ∈ groupsOf key rows, g.key = key r ∧ r ∈ g.rows) :=
  groups_rows_key key rows

/-- **C07.partition**: the groups partition the input: each group is exactly the rows with
its key (in order), and together they are a permutation of the input. -/
theorem C07_partition (key : Row → List Val) (rows : List Row) :
    ((groupsOf key rows).flatMap (·.rows)).Perm rows ∧
    (∀ g ∈ groupsOf key rows, g.rows = rows.filter (fun r => key r == g.key)) :=
  groups_partition key rows

/-- **C07.count_star**: COUNT(*) of a group is its number of rows. -/
theorem C07_count_star (colIdx : Nat) (g : Group) (h : ∀ r ∈ g.rows, r[colIdx]? = some (.int 1)) :
    aggCell (.count none) colIdx g = .ok (.int g.rows.length) :=
  count_star_correct colIdx g h

/-- **C07.count_col**: COUNT(col) of a group is its number of rows with a non-NULL value. -/
theorem C07_count_col (c : Option ColRef) (colIdx : Nat) (g : Group) (nonNull : Row → Bool)
    (h : ∀ r ∈ g.rows, r[colIdx]? = some (.int (if nonNull r then 1 else 0))) :
    aggCell (.count c) colIdx g = .ok (.int (g.rows.filter nonNull).length) :=
  count_col_correct c colIdx g nonNull h

/-- **C07.order_independent (groups, counts)**: permuting the input rows changes neither the
set of groups nor the rows (hence the counts) of any group. -/
theorem C07_order_independent (key : Row → List Val) {rows rows' : List Row} (hp : rows'.Perm rows) (k : List Val) :
    ((∃ g' ∈ groupsOf key rows', g'.key = k) ↔ (∃ g ∈ groupsOf key rows, g.key = k)) ∧
    (∀ g' ∈ groupsOf key rows', ∀ g ∈ groupsOf key rows, g'.key = k → g.key = k →
      g'.rows.Perm g.rows ∧ g'.rows.length = g.rows.length) :=
  count_perm_invariant key hp k

/-- **C07.rows_out**: with aggregates the result has one row per distinct grouping tuple. -/
theorem C07_one_row_per_key (sl : List DerivedCol) (groupBy : List ColRef) (rows out : List Row)
    (hagg : hasAggr sl = true) (hne : (groupBy.isEmpty && rows.isEmpty) = false)
    (h : aggregateRows sl groupBy rows = .ok out) :
    ∃ idxs, groupIdxs sl groupBy = .ok idxs ∧
      out.length = ((rows.map fun r => idxs.map fun i => (r[i]?).getD .null).eraseDups).length :=
  aggregateRows_one_row_per_key sl groupBy rows out hagg hne h

/-- **C07.group_by_without_aggregate**: a GROUP BY groups whether or not the select list holds an
aggregate - `SELECT a FROM t GROUP BY a` returns one row per distinct `a`, not every row (the
defect repaired in `aggregateRows`: it used to return early on "no aggregate").  For a select list
without aggregates, a non-empty GROUP BY whose references all designate a select-list column, and
projected rows with one value per select-list element (what `projectColumns` delivers), the result
has exactly one row per distinct grouping key (`groupKey idxs r` = the values of `r` at the GROUP BY
positions): (1) the keys of the output rows are pairwise distinct, (2) every key of an input row is
the key of an output row and conversely, (3) every output row is an input row, namely the first
with its key, (4) in order of first occurrence of the keys. -/
theorem C07_group_by_without_aggregate (sl : List DerivedCol) (groupBy : List ColRef)
    (rows : List Row) (hagg : hasAggr sl = false) (hne : groupBy ≠ [])
    (hres : ∀ g ∈ groupBy, ∃ i, groupIdx sl g = some i)
    (hlen : ∀ r ∈ rows, r.length = sl.length) :
    ∃ idxs out, groupIdxs sl groupBy = .ok idxs ∧ aggregateRows sl groupBy rows = .ok out ∧
      (out.map (groupKey idxs)).Nodup ∧
      ((∀ r ∈ rows, ∃ o ∈ out, groupKey idxs o = groupKey idxs r) ∧
       (∀ o ∈ out, ∃ r ∈ rows, groupKey idxs r = groupKey idxs o)) ∧
      (∀ o ∈ out, o ∈ rows ∧
        rows.find? (fun r => groupKey idxs r == groupKey idxs o) = some o) ∧
      out.map (groupKey idxs) = (rows.map (groupKey idxs)).eraseDups :=
  aggregateRows_group_no_aggr sl groupBy rows hagg hne hres hlen

/-- `groupKey` is the expression `aggregateRows` groups by -/
theorem C07_groupKey_def (idxs : List Nat) (r : Row) :
    groupKey idxs r = idxs.map fun i => (r[i]?).getD .null := rfl

/-- `SELECT k FROM t GROUP BY k` on the rows 1, 2, 1 is the rows 1, 2 -/
example : aggregateRows [⟨.expr (.val (.col ⟨[], [107]⟩)), []⟩] [⟨[], [107]⟩]
    [[.int 1], [.int 2], [.int 1]] = .ok [[.int 1], [.int 2]] := rfl

/-- **C07.qualified_group_column_not_captured_by_alias**: a qualified GROUP BY reference `t.b`
matches a select-list element only as that very column reference - the alias alternative and the
bare-name alternative of `DerivedColumn.Matches` need an unqualified reference (`SELECT a AS b ...
GROUP BY t.b` used to group by `a`: the defect repaired in `Matches`).  Hence the select-list
column a qualified GROUP BY reference designates (`groupIdx`) is a reference to that column. -/
theorem C07_qualified_group_column_not_captured_by_alias :
    (∀ (d : DerivedCol) (rhs : ColRef), rhs.qual ≠ [] → d.matches rhs = true →
      ∃ lhs, d.item = .expr (.val (.col lhs)) ∧ lhs.equals rhs = true) ∧
    (∀ (sl : List DerivedCol) (g : ColRef) (i : Nat), g.qual ≠ [] → groupIdx sl g = some i →
      ∃ d lhs, sl[i]? = some d ∧ d.item = .expr (.val (.col lhs)) ∧ lhs.equals g = true) :=
  ⟨fun _ _ hq h => matches_qualified hq h,
   fun sl g i hq h => qualified_group_column_not_captured_by_alias sl g hq i h⟩

/-- `ColumnReference.Equals` is equality of qualifier and name -/
theorem C07_colref_equals_eq {lhs rhs : ColRef} (h : lhs.equals rhs = true) : lhs = rhs :=
  ColRef_equals_eq h

/-- `a AS b` does not match `t.b`; `t.b AS c` does -/
example : (⟨.expr (.val (.col ⟨[116], [97]⟩)), [98]⟩ : DerivedCol).matches ⟨[116], [98]⟩ = false ∧
    (⟨.expr (.val (.col ⟨[116], [98]⟩)), [99]⟩ : DerivedCol).matches ⟨[116], [98]⟩ = true := by decide

/-- **C07.avg_partial**: the cumulative average is exact when all values are equal or there is one value. -/
theorem C07_avg_partial (x : Int) (n : Nat) : runningAvg [x] = x ∧ runningAvg (List.replicate (n + 1) x) = x :=
  ⟨runningAvg_single x, runningAvg_const x n⟩

/-- **C07.avg_counterexample** (known finding): the average depends on row order and differs
from round(sum/count): avg of 2,1,1 is 2, of 1,1,2 is 1, while round(4/3) = 1. -/
theorem C07_avg_counterexample : runningAvg [2, 1, 1] = 2 ∧ runningAvg [1, 1, 2] = 1 ∧ roundDiv 4 3 = 1 :=
  runningAvg_counterexample

end Mkdb.Exec

/-! ## The executor against the reference meaning, for aggregates and GROUP BY

`Spec.meaning` / `Spec.satisfies` are the pair the differential-testing judge evaluates on the output
of the real implementation (`Mkdb/Driver/Exec.lean`); see the same section of `Mkdb/Props/C05.lean`.
The reference meaning groups the *source* rows by the distinct tuples of grouping values and computes
COUNT(*) as the number of rows of the group, COUNT(col) as the number of non-NULL values, AVG as the
rounded mean; a select-list element that is not an aggregate has a meaning only if it evaluates on
every row of the group and has the same value on all of them (a grouping column has; standard SQL
forbids anything else; `validateGroupBy` checks bare column references only).  Without GROUP BY one
row for the whole input, all zeros when it is empty.  The executor aggregates the *projected* rows
and takes a non-aggregate element from the first row of the group it meets. -/
namespace Mkdb.Exec
open Mkdb.Sql Mkdb.Exec.SelectP Mkdb.Exec.MeaningP Mkdb.Exec.NoPanicP Mkdb.Exec.JoinP

/-- **C07.result_is_the_reference_meaning**: whatever a single-table SELECT with COUNT(*) /
COUNT(col) and / or GROUP BY (with or without aggregates) answers is what the query means.  If
`evaluateSelect` answers `(rows, hdr)` then the query has a reference meaning `want` - one row per
distinct combination of grouping values in order of first occurrence, each with the true counts of
its group; without GROUP BY one row for the whole input, all zeros when it is empty -, `hdr` is the
header the judge computes, the ORDER BY keys resolve against it and are comparable, the answer is
exactly `cut (sortRows keys want)`, and the judge's test `Spec.satisfies q hdr want rows` accepts it.
Hypotheses: `hgrouped` - the select list holds only COUNTs, literals and the columns the GROUP BY
references designate (`groupedQuery`, a test on the query alone: a valid grouping query without AVG;
the executor also answers a query that lists something else next to an aggregate, with the value of
the first row of the group, and such a query has no reference meaning:
`C07_ungrouped_expression_has_no_meaning`); `hstar` - the select list does not start with `*`
(`C07_star_with_group_by_is_refused`); `hgroups` - the query has an aggregate or a GROUP BY
(otherwise it is C05's theorem); `hwhere` as in `C05_result_is_the_reference_meaning`. -/
theorem C07_result_is_the_reference_meaning {fetch : Bytes → Option Table} {q : Select}
    {t : TableName} {rows : List Row} {hdr : List Field}
    (hfrom : q.from_ = some (.table t)) (hstar : isStar q.list = false) (hgroups : groups q = true)
    (hgrouped : groupedQuery q = true) (hwhere : whereIsBoolean q = true)
    (h : evaluateSelect fetch q = .ok (rows, hdr)) :
    ∃ want keys, Spec.meaning fetch q = some want ∧ hdr = judgeHeader fetch q ∧
      Spec.sortKeys q hdr = some keys ∧
      (∀ a ∈ want, ∀ b ∈ want, KeyComparable keys a b) ∧
      rows = cut q.lim (sortRows keys want) ∧
      Spec.satisfies q hdr want rows = true := by
  obtain ⟨want, keys, hm, hh, hk, hcomp, rfl⟩ := agg_single_result hfrom hstar hgroups hwhere
    (groupConst_of_groupedQuery hgrouped fetch _) h
  exact ⟨want, keys, hm, (judgeHeader_of hh).symm, hk, hcomp, rfl,
    satisfies_perm (comparedExactly_groups hgroups) hk (List.Perm.refl _) hcomp⟩

/-- **C07.result_is_the_reference_meaning_with_avg**: the same for any select list, AVG included,
under a hypothesis on the data instead of the query: on the rows of the table every select-list
element that is not a COUNT is constant on each group (`nonCountsConstantOnGroups`, a decidable test
on the table and the query).  For an AVG this is the case of `C07_avg_partial` - all averaged values
of a group equal - in which the code's cumulative average, rounded after every row, is the rounded
mean the reference meaning asks for; without it the statement is false (`C07_avg_counterexample`,
the known finding). -/
theorem C07_result_is_the_reference_meaning_with_avg {fetch : Bytes → Option Table} {q : Select}
    {t : TableName} {rows : List Row} {hdr : List Field}
    (hfrom : q.from_ = some (.table t)) (hstar : isStar q.list = false) (hgroups : groups q = true)
    (hconst : nonCountsConstantOnGroups fetch q = true) (hwhere : whereIsBoolean q = true)
    (h : evaluateSelect fetch q = .ok (rows, hdr)) :
    ∃ want keys, Spec.meaning fetch q = some want ∧ hdr = judgeHeader fetch q ∧
      Spec.sortKeys q hdr = some keys ∧
      (∀ a ∈ want, ∀ b ∈ want, KeyComparable keys a b) ∧
      rows = cut q.lim (sortRows keys want) ∧
      Spec.satisfies q hdr want rows = true := by
  obtain ⟨want, keys, hm, hh, hk, hcomp, rfl⟩ := agg_single_result hfrom hstar hgroups hwhere
    (groupConst_of_nonCountsConstantOnGroups hfrom hconst) h
  exact ⟨want, keys, hm, (judgeHeader_of hh).symm, hk, hcomp, rfl,
    satisfies_perm (comparedExactly_groups hgroups) hk (List.Perm.refl _) hcomp⟩

/-- **C07.meaningful_query_is_answered** (the converse): a single-table SELECT with aggregates and /
or GROUP BY that has a reference meaning `want`, whose ORDER BY keys resolve against the judge's
header and are comparable on `want`, is not refused: the executor answers with that header and
exactly `cut (sortRows keys want)`, and the judge's test accepts the answer.  No hypothesis on the
shape of the select list: a reference meaning exists only if every non-aggregate element evaluates
on every row and is constant on each group.
Hypotheses: `havg` - in every group the values an AVG averages are equal (`avgGroupsConstant`, a
decidable test; true of every query without AVG: `C07_avgGroupsConstant_of_noAvg`; the known
finding); `hws` - every stored row has one value per column (`WellShaped`; on a short row the
reference meaning counts the missing value as NULL while the executor panics:
`C07_short_row_panics`); `hlist`, `hlim` - the select list is not empty, no written LIMIT / OFFSET is
negative (every parsed statement; `C05_meaningful_query_is_answered`); `hgroups` as above.  (No hypothesis on `*`: a select list that starts with `*`
has no reference meaning in a query with an aggregate or a GROUP BY,
`C07_star_with_group_by_is_refused`.) -/
theorem C07_meaningful_query_is_answered {fetch : Bytes → Option Table} {q : Select}
    {t : TableName} {want : List Row} {keys : List (Nat × Bool)}
    (hfrom : q.from_ = some (.table t)) (hgroups : groups q = true)
    (hlist : q.list ≠ []) (hlim : Spec.boundsOK q.lim = true)
    (havg : avgGroupsConstant fetch q = true) (hws : WellShaped fetch)
    (hm : Spec.meaning fetch q = some want)
    (hk : Spec.sortKeys q (judgeHeader fetch q) = some keys)
    (hcomp : ∀ a ∈ want, ∀ b ∈ want, KeyComparable keys a b) :
    evaluateSelect fetch q = .ok (cut q.lim (sortRows keys want), judgeHeader fetch q) ∧
      Spec.satisfies q (judgeHeader fetch q) want (cut q.lim (sortRows keys want)) = true :=
  ⟨agg_single_answered hfrom hgroups hlist hlim (avgConst_of_avgGroupsConstant hfrom havg) hws hm hk hcomp,
   satisfies_perm (comparedExactly_groups hgroups) hk (List.Perm.refl _) hcomp⟩

/-- a select list without AVG passes the test `avgGroupsConstant` on any tables -/
theorem C07_avgGroupsConstant_of_noAvg (fetch : Bytes → Option Table) {q : Select}
    (h : noAvg q.list = true) : avgGroupsConstant fetch q = true :=
  avgGroupsConstant_of_noAvg fetch h

/-- **C07.aggregate_rows_is_the_grouping_of_the_meaning**: the heart of the theorems above, on its
own.  For source rows `src` on each of which every select-list element has a value (`hproj`) and
everything but the COUNTs is constant on each group (`hconst`), `aggregateRows` applied to the
projected rows answers `out` if and only if the grouping part of the reference meaning (`specAgg`,
the text of `Spec.meaning` from "grouping columns" on) of `src` is `out`: the same groups in the
same order, the same counts, the same values, the same row of zeros. -/
theorem C07_aggregate_rows_is_the_grouping_of_the_meaning {q : Select} {fields : List Field}
    {src out : List Row} (hgroups : groups q = true)
    (hres : ColumnsResolve q.list fields) (hproj : Projects q.list fields src)
    (hconst : ∀ idxs, q.groupBy.mapM (groupIdx q.list) = some idxs →
      GroupConst q.list fields (keyAt idxs) src) :
    aggregateRows q.list q.groupBy (src.map (projRow q.list fields)) = .ok out ↔
      specAgg q fields src = some out :=
  aggregate_agree ((groups_iff q).1 hgroups) hres hproj hconst

/-- **C07.meaning_demands_constant_elements**: a defined grouping part of the reference meaning
says of the source rows (each as long as the header): every select-list element evaluates on every
row, and every element that is neither a COUNT nor an AVG has one value on all rows of a group. -/
theorem C07_meaning_demands_constant_elements {q : Select} {fields : List Field}
    {src out : List Row} {idxs : List Nat}
    (hgi : q.groupBy.mapM (groupIdx q.list) = some idxs) (hz : ¬(q.groupBy = [] ∧ src = []))
    (hres : ColumnsResolve q.list fields) (hlen : ∀ r ∈ src, r.length = fields.length)
    (h : specAgg q fields src = some out) :
    Projects q.list fields src ∧ PlainConst q.list fields (keyAt idxs) src :=
  specAgg_inv hgi hz hres hlen h

/-- tables: `t(k, v, w)` with five rows in two groups, NULLs in `w`, equal `v` within each group;
`s(v)` holding NULL and 1; `r(a, b)` with a row that is too short -/
def exAggFetch (n : Bytes) : Option Table :=
  if n = [116] then some ⟨[[107], [118], [119]],
    [[.int 1, .int 10, .null], [.int 2, .int 5, .str [97]], [.int 1, .int 10, .str [98]],
     [.int 2, .int 5, .null], [.int 1, .int 10, .str [99]]]⟩
  else if n = [115] then some ⟨[[118]], [[.null], [.int 1]]⟩
  else if n = [114] then some ⟨[[97], [98]], [[.int 1]]⟩
  else none

/-- `SELECT k, count(*), count(w) FROM t WHERE k >= 1 GROUP BY k ORDER BY k DESC LIMIT 5` -/
def exAggQuery : Select :=
  { list := [⟨.expr (.val (.col ⟨[], [107]⟩)), []⟩, ⟨.count none, []⟩, ⟨.count (some ⟨[], [119]⟩), []⟩]
    from_ := some (.table ⟨[116], none⟩)
    where_ := some (.pred ⟨.col ⟨[], [107]⟩, Generated.t_GTE, .lit (.int 1)⟩)
    groupBy := [⟨[], [107]⟩]
    orderBy := [⟨⟨[], [107]⟩, true⟩]
    lim := { limitActive := true, limit := 5 } }

/-- the same with `avg(v)` as a fourth column -/
def exAvgQuery : Select := { exAggQuery with list := exAggQuery.list ++ [⟨.avg ⟨[], [118]⟩, []⟩] }

/-- `SELECT count(*), count(w) FROM t WHERE k > 7`: no row passes -/
def exZeroQuery : Select :=
  { list := [⟨.count none, []⟩, ⟨.count (some ⟨[], [119]⟩), []⟩]
    from_ := some (.table ⟨[116], none⟩)
    where_ := some (.pred ⟨.col ⟨[], [107]⟩, Generated.t_GT, .lit (.int 7)⟩) }

-- non-vacuity of `C07_result_is_the_reference_meaning` and `C07_meaningful_query_is_answered`
example : exAggQuery.from_ = some (.table ⟨[116], none⟩) ∧ isStar exAggQuery.list = false ∧
    groups exAggQuery = true ∧ groupedQuery exAggQuery = true ∧ whereIsBoolean exAggQuery = true ∧
    noAvg exAggQuery.list = true ∧ exAggQuery.list ≠ [] ∧ Spec.boundsOK exAggQuery.lim = true := by decide
example : evaluateSelect exAggFetch exAggQuery =
    .ok ([[.int 2, .int 2, .int 1], [.int 1, .int 3, .int 2]],
      [⟨[116], [107]⟩, ⟨[], "count(*)".toUTF8.toList⟩, ⟨[], "count(w)".toUTF8.toList⟩]) := by
  decide +kernel
example : Spec.meaning exAggFetch exAggQuery =
    some [[.int 1, .int 3, .int 2], [.int 2, .int 2, .int 1]] := by decide +kernel
example : Spec.sortKeys exAggQuery (judgeHeader exAggFetch exAggQuery) = some [(0, true)] := by
  decide +kernel
example : ∀ a ∈ ([[.int 1, .int 3, .int 2], [.int 2, .int 2, .int 1]] : List Row),
    ∀ b ∈ ([[.int 1, .int 3, .int 2], [.int 2, .int 2, .int 1]] : List Row),
      KeyComparable [(0, true)] a b := by decide +kernel
/-- the table `t` alone: every row has one value per column -/
def exAggFetchT (n : Bytes) : Option Table := if n = [116] then exAggFetch n else none
example : WellShaped exAggFetchT := by
  intro n t h r hr
  unfold exAggFetchT at h
  split at h
  · rename_i hn
    subst hn
    simp only [exAggFetch, if_true, Option.some.injEq] at h
    subst h
    simp only [List.mem_cons, List.not_mem_nil, or_false] at hr
    rcases hr with rfl | rfl | rfl | rfl | rfl <;> rfl
  · cases h
example : Spec.meaning exAggFetchT exAggQuery =
    some [[.int 1, .int 3, .int 2], [.int 2, .int 2, .int 1]] ∧
    Spec.sortKeys exAggQuery (judgeHeader exAggFetchT exAggQuery) = some [(0, true)] ∧
    avgGroupsConstant exAggFetchT exAggQuery = true := by
  decide +kernel
-- the empty input without GROUP BY: one row of zeros, in the executor and in the meaning
example : evaluateSelect exAggFetch exZeroQuery =
    .ok ([[.int 0, .int 0]], [⟨[], "count(*)".toUTF8.toList⟩, ⟨[], "count(w)".toUTF8.toList⟩]) ∧
    Spec.meaning exAggFetch exZeroQuery = some [[.int 0, .int 0]] ∧ groups exZeroQuery = true ∧
    groupedQuery exZeroQuery = true := by
  decide +kernel
-- non-vacuity of `C07_result_is_the_reference_meaning_with_avg`: `v` is constant in each group
example : nonCountsConstantOnGroups exAggFetch exAvgQuery = true ∧
    avgGroupsConstant exAggFetch exAvgQuery = true ∧ noAvg exAvgQuery.list = false ∧
    groupedQuery exAvgQuery = false ∧
    groups exAvgQuery = true ∧ isStar exAvgQuery.list = false := by decide +kernel
example : evaluateSelect exAggFetch exAvgQuery =
      .ok ([[.int 2, .int 2, .int 1, .int 5], [.int 1, .int 3, .int 2, .int 10]],
        [⟨[116], [107]⟩, ⟨[], "count(*)".toUTF8.toList⟩, ⟨[], "count(w)".toUTF8.toList⟩,
         ⟨[], "avg(v)".toUTF8.toList⟩]) ∧
    Spec.meaning exAggFetch exAvgQuery =
      some [[.int 1, .int 3, .int 2, .int 10], [.int 2, .int 2, .int 1, .int 5]] := by
  decide +kernel

/-- `SELECT * FROM t GROUP BY k` -/
def exStarGroup : Select :=
  { list := [⟨.star, []⟩], from_ := some (.table ⟨[116], none⟩), groupBy := [⟨[], [107]⟩] }

/-- **C07.star_with_group_by_is_refused**: `SELECT * FROM t GROUP BY k` - a statement the parser
accepts (`validateGroupBy` looks at the column references of the select list only and `*` is none) -
is refused by the executor, as by the Go code (`ErrGroupByNotSelected`: `*` is no column a GROUP BY
reference could designate), and has no reference meaning: a grouping query has one row per group and
`*` names no column of it.  So the refusal is no violation for the judge, and the "meaningful query
is answered" theorems need no hypothesis on `*`; the "result is the reference meaning" theorems keep
`hstar` (the executor answers the hand-built list `*, count(*)` - no parser output - on a one-row
table, with that row). -/
theorem C07_star_with_group_by_is_refused :
    evaluateSelect exAggFetch exStarGroup = .err .groupByNotSelected ∧
    Spec.meaning exAggFetch exStarGroup = none ∧ groups exStarGroup = true := by decide

/-- **C07.star_has_no_meaning_in_a_grouping_query**: in general - a query with an aggregate in the
select list or a GROUP BY whose select list starts with `*` has no reference meaning, on any tables. -/
theorem C07_star_has_no_meaning_in_a_grouping_query (fetch : Bytes → Option Table) (q : Select)
    (hstar : isStar q.list = true) (hgroups : groups q = true) : Spec.meaning fetch q = none := by
  cases hm : Spec.meaning fetch q with
  | none => rfl
  | some want => rw [meaning_groups_nostar hgroups hm] at hstar; cases hstar

/-- `SELECT v < 'x', count(*) FROM s` -/
def exExprAgg : Select :=
  { list := [⟨.expr (.pred ⟨.col ⟨[], [118]⟩, Generated.t_LT, .lit (.str [120])⟩), []⟩,
             ⟨.count none, []⟩]
    from_ := some (.table ⟨[115], none⟩) }

/-- **C07.expression_next_to_aggregate_has_no_meaning**: `SELECT v < 'x', count(*) FROM s` on the
rows NULL, 1 has no reference meaning - the comparison is ill-typed on the second row of the group
(`1 < 'x'`), and an element of a grouping query must evaluate on every row of its group, not on the
first only - so any answer or refusal is acceptable; the executor, as the Go code, projects every
row before it aggregates and refuses with "incompatible types".  (The parser accepts the statement:
`validateGroupBy` looks at column references only.  Before the reference meaning demanded every row
it was `[[false, 2]]` and the judge would have reported the refusal.) -/
theorem C07_expression_next_to_aggregate_has_no_meaning :
    evaluateSelect exAggFetch exExprAgg = .err .incompat ∧
    Spec.meaning exAggFetch exExprAgg = none := by decide

/-- `SELECT k = 1, count(*) FROM t`: no GROUP BY, `k` is 1 on three rows and 2 on two -/
def exUngroupedSingle : Select :=
  { list := [⟨.expr (.pred ⟨.col ⟨[], [107]⟩, Generated.t_EQ, .lit (.int 1)⟩), []⟩, ⟨.count none, []⟩]
    from_ := some (.table ⟨[116], none⟩) }

/-- **C07.ungrouped_expression_on_one_table_has_no_meaning** (why `C07_result_is_the_reference_meaning`
has `hgrouped`): `SELECT k = 1, count(*) FROM t` is answered - with the value of the first row,
`true`, and the count 5 - although `k = 1` is not constant on the one group: the query is not a valid
grouping query and has no reference meaning (any answer or refusal is acceptable). -/
theorem C07_ungrouped_expression_on_one_table_has_no_meaning :
    (∃ hdr, evaluateSelect exAggFetch exUngroupedSingle = .ok ([[.bool true, .int 5]], hdr)) ∧
    Spec.meaning exAggFetch exUngroupedSingle = none ∧
    groupedQuery exUngroupedSingle = false ∧
    nonCountsConstantOnGroups exAggFetch exUngroupedSingle = false :=
  ⟨⟨[⟨[], [63]⟩, ⟨[], "count(*)".toUTF8.toList⟩], by decide +kernel⟩, by decide +kernel⟩

/-- `SELECT count(b) FROM r` -/
def exShortRow : Select :=
  { list := [⟨.count (some ⟨[], [98]⟩), []⟩], from_ := some (.table ⟨[114], none⟩) }

/-- **C07.short_row_panics** (why `C07_meaningful_query_is_answered` has `hws`): on a stored row with
fewer values than the table has columns - which no INSERT produces - `COUNT(b)` has the meaning `0`
(a missing value counts as NULL) while the executor indexes past the end of the row. -/
theorem C07_short_row_panics :
    evaluateSelect exAggFetch exShortRow = .panic "projectColumns: row.Vals[idx]" ∧
    Spec.meaning exAggFetch exShortRow = some [[.int 0]] ∧
    avgGroupsConstant exAggFetch exShortRow = true := by
  decide +kernel

/-! ## Aggregates and GROUP BY over joins

The nested loops deliver the rows of a join in another order than the relational definition lists
them.  Groups, counts and the elements that are constant on each group do not depend on that order;
the first row of a group does. -/

/-- **C07.join_result_is_the_reference_meaning**: whatever a SELECT with COUNT / AVG / GROUP BY over
any FROM clause (one table or a chain of INNER / LEFT / RIGHT joins) answers is what the query
means, as a multiset of result rows.  If `evaluateSelect` answers `(rows, hdr)` then the query has a
reference meaning `want`, `hdr` is the judge's header, the ORDER BY keys resolve against it and are
comparable, the answer is `cut (sortRows keys got)` for a permutation `got` of `want` (the groups in
the order in which the nested loops meet them), and the judge's test accepts it.
Hypothesis `hconst`: everything in the select list but the COUNTs is constant on each group - either
by the look of the query (`groupedQuery`: only COUNTs, literals and the columns the GROUP BY
references designate - what standard SQL demands of a grouping query) or on the data at hand
(`nonCountsConstantOnGroups`, a decidable test; it covers AVG over equal values, `C07_avg_partial`).
Without it the executor still answers - with the value on the first row of the group its loops meet
- a query that has no reference meaning: `C07_ungrouped_expression_has_no_meaning`.  `hstar`,
`hgroups`, `hwhere` as in `C07_result_is_the_reference_meaning`. -/
theorem C07_join_result_is_the_reference_meaning {fetch : Bytes → Option Table} {q : Select}
    {tr : TableRef} {rows : List Row} {hdr : List Field}
    (hfrom : q.from_ = some tr) (hstar : isStar q.list = false) (hgroups : groups q = true)
    (hconst : groupedQuery q = true ∨ nonCountsConstantOnGroups fetch q = true)
    (hwhere : whereIsBoolean q = true)
    (h : evaluateSelect fetch q = .ok (rows, hdr)) :
    ∃ want got keys, Spec.meaning fetch q = some want ∧ hdr = judgeHeader fetch q ∧
      Spec.sortKeys q hdr = some keys ∧ got.Perm want ∧
      (∀ a ∈ want, ∀ b ∈ want, KeyComparable keys a b) ∧
      rows = cut q.lim (sortRows keys got) ∧
      Spec.satisfies q hdr want rows = true := by
  have hc := hconst.elim (fun h => groupConst_of_groupedQuery h fetch tr)
    (fun h => groupConst_of_nonCountsConstantOnGroups hfrom h)
  obtain ⟨want, got, keys, hm, hh, hk, hp, hcomp, rfl⟩ :=
    agg_any_result hfrom hstar hgroups hwhere hc h
  exact ⟨want, got, keys, hm, (judgeHeader_of hh).symm, hk, hp, hcomp, rfl,
    satisfies_perm (comparedExactly_groups hgroups) hk hp hcomp⟩

/-- **C07.join_meaningful_query_is_answered** (the converse): a SELECT with aggregates / GROUP BY
over any FROM clause that has a reference meaning `want`, whose ORDER BY keys resolve against the
judge's header and are comparable on `want`, is not refused: the executor answers with that header
and `cut (sortRows keys got)` for a permutation `got` of `want`, and the judge's test accepts the
answer.  Hypotheses `havg`, `hws`, `hlist`, `hlim`, `hgroups` as in `C07_meaningful_query_is_answered`; none
on the shape of the select list (a reference meaning exists only for a query whose non-aggregate
elements are constant on each group, and such an element does not depend on the order of the rows). -/
theorem C07_join_meaningful_query_is_answered {fetch : Bytes → Option Table} {q : Select}
    {tr : TableRef} {want : List Row} {keys : List (Nat × Bool)}
    (hfrom : q.from_ = some tr) (hgroups : groups q = true)
    (hlist : q.list ≠ []) (hlim : Spec.boundsOK q.lim = true)
    (havg : avgGroupsConstant fetch q = true) (hws : WellShaped fetch)
    (hm : Spec.meaning fetch q = some want)
    (hk : Spec.sortKeys q (judgeHeader fetch q) = some keys)
    (hcomp : ∀ a ∈ want, ∀ b ∈ want, KeyComparable keys a b) :
    ∃ got, got.Perm want ∧
      evaluateSelect fetch q = .ok (cut q.lim (sortRows keys got), judgeHeader fetch q) ∧
      Spec.satisfies q (judgeHeader fetch q) want (cut q.lim (sortRows keys got)) = true := by
  obtain ⟨got, hp, he⟩ := agg_any_answered hfrom hgroups hlist hlim
    (avgConst_of_avgGroupsConstant hfrom havg) hws hm hk hcomp
  exact ⟨got, hp, he, satisfies_perm (comparedExactly_groups hgroups) hk hp hcomp⟩

/-- **C07.groups_do_not_depend_on_row_order**: the grouping part of the reference meaning of two
permutations of one list of source rows is the same multiset of result rows, when everything but
the COUNTs is constant on each group: same distinct keys, same counts, same values. -/
theorem C07_groups_do_not_depend_on_row_order {q : Select} {fields : List Field}
    {src src' out' : List Row} {idxs : List Nat}
    (hp : src'.Perm src) (hgi : q.groupBy.mapM (groupIdx q.list) = some idxs)
    (hres : ColumnsResolve q.list fields) (hproj : Projects q.list fields src)
    (hconst : GroupConst q.list fields (keyAt idxs) src)
    (h : specAgg q fields src' = some out') :
    ∃ out, specAgg q fields src = some out ∧ out'.Perm out :=
  specAgg_perm hp hgi hres hproj hconst h

/-- `t RIGHT JOIN u ON t.id = u.id` on the tables of `Mkdb/Proofs/Join.lean` -/
def exJoinRU : TableRef :=
  .join (.table ⟨Example.bt, none⟩) .right ⟨Example.bu, none⟩ Example.onC

/-- `SELECT u.y, count(*), count(t.x) FROM t RIGHT JOIN u ON t.id = u.id GROUP BY u.y
ORDER BY u.y DESC` -/
def exJoinAgg : Select :=
  { list := [⟨.expr (.val (.col ⟨Example.bu, Example.by_⟩)), []⟩, ⟨.count none, []⟩,
             ⟨.count (some ⟨Example.bt, Example.bx⟩), []⟩]
    from_ := some exJoinRU
    groupBy := [⟨Example.bu, Example.by_⟩]
    orderBy := [⟨⟨Example.bu, Example.by_⟩, true⟩] }

-- non-vacuity of the two theorems: three groups, the unmatched right row counts 1 and 0
example : exJoinAgg.from_ = some exJoinRU ∧ isStar exJoinAgg.list = false ∧ groups exJoinAgg = true ∧
    groupedQuery exJoinAgg = true ∧ nonCountsConstantOnGroups Example.fetchX exJoinAgg = true ∧
    whereIsBoolean exJoinAgg = true ∧ avgGroupsConstant Example.fetchX exJoinAgg = true ∧
    exJoinAgg.list ≠ [] ∧ Spec.boundsOK exJoinAgg.lim = true := by
  decide +kernel
example : evaluateSelect Example.fetchX exJoinAgg =
    .ok ([[.str [122], .int 1, .int 0], [.str [113], .int 2, .int 2], [.str [112], .int 2, .int 2]],
      [⟨Example.bu, Example.by_⟩, ⟨[], "count(*)".toUTF8.toList⟩, ⟨[], "count(t.x)".toUTF8.toList⟩]) ∧
    Spec.meaning Example.fetchX exJoinAgg =
      some [[.str [112], .int 2, .int 2], [.str [113], .int 2, .int 2], [.str [122], .int 1, .int 0]] ∧
    Spec.sortKeys exJoinAgg (judgeHeader Example.fetchX exJoinAgg) = some [(0, true)] := by
  decide +kernel
example : WellShaped Example.fetchX := by
  intro n t h r hr
  unfold Example.fetchX at h
  split at h
  · simp only [Option.some.injEq] at h
    subst h
    simp only [Example.Lx, List.mem_cons, List.not_mem_nil, or_false] at hr
    rcases hr with rfl | rfl | rfl <;> rfl
  · split at h
    · simp only [Option.some.injEq] at h
      subst h
      simp only [Example.Rx, List.mem_cons, List.not_mem_nil, or_false] at hr
      rcases hr with rfl | rfl | rfl <;> rfl
    · cases h

/-- `SELECT u.y = 'q', count(*) FROM t RIGHT JOIN u ON t.id = u.id WHERE t.x = 'b' OR u.y = 'q'` -/
def exUngrouped : Select :=
  { list := [⟨.expr (.pred ⟨.col ⟨Example.bu, Example.by_⟩, Generated.t_EQ, .lit (.str [113])⟩), []⟩,
             ⟨.count none, []⟩]
    from_ := some exJoinRU
    where_ := some (.or (.pred ⟨.col ⟨Example.bt, Example.bx⟩, Generated.t_EQ, .lit (.str [98])⟩)
                        (.pred ⟨.col ⟨Example.bu, Example.by_⟩, Generated.t_EQ, .lit (.str [113])⟩)) }

/-- **C07.ungrouped_expression_has_no_meaning** (why the forward theorems have `hgrouped` /
`hconst`): `SELECT u.y = 'q', count(*) FROM t RIGHT JOIN u ON t.id = u.id WHERE t.x = 'b' OR
u.y = 'q'` has no reference meaning: `u.y = 'q'` is false on one and true on two of the three rows of
the one group, so the query is not a valid grouping query and any answer or refusal is acceptable.
The executor, as the Go code, answers with the value on the first row its loops meet - a RIGHT JOIN
runs over the right table outside, the first row that passes WHERE is `(1, b, 1, p)`: `false`, 3.
(Before the reference meaning demanded a constant value it took the first row in the order of the
relational definition, `(1, a, 1, q)`: `true`, 3, and the judge would have reported a wrong result.)
The parser accepts the statement: `validateGroupBy` looks at column references only. -/
theorem C07_ungrouped_expression_has_no_meaning :
    (∃ hdr, evaluateSelect Example.fetchX exUngrouped = .ok ([[.bool false, .int 3]], hdr)) ∧
    Spec.meaning Example.fetchX exUngrouped = none ∧
    groupedQuery exUngrouped = false ∧ nonCountsConstantOnGroups Example.fetchX exUngrouped = false :=
  ⟨⟨[⟨[], [63]⟩, ⟨[], "count(*)".toUTF8.toList⟩], by decide +kernel⟩, by decide +kernel⟩

end Mkdb.Exec
