import Mkdb.Proofs.Aggregate
import Mkdb.Proofs.NoPanicExec
import Mkdb.Proofs.GroupNoAgg
import Mkdb.Proofs.AliasCapture
/-!
# C07 — COUNT, AVG and GROUP BY compute true aggregates

Property theorems only (proofs in `Mkdb/Proofs/Aggregate.lean`, `NoPanicExec.lean`,
`GroupNoAgg.lean`, `AliasCapture.lean`).
Full statement for GROUP BY and COUNT; AVG is a *known finding*: the code keeps a
cumulative average rounded after every row, so "AVG = round(sum/count), independent of row
order" is false of the code and of the model — `C07_avg_counterexample` is its witness and
`C07_avg_partial` what does hold.
-/
namespace Mkdb.Exec
open Mkdb.Sql Mkdb.Exec.AggP Mkdb.Exec.NoPanicP Mkdb.Exec.GroupNoAggP Mkdb.Exec.AliasCaptureP

/-- **C07.one_group_per_key**: grouping produces exactly one group per distinct tuple of
grouping values, in first-occurrence order. -/
theorem C07_one_group_per_key (key : Row → List Val) (rows : List Row) :
    ((groupsOf key rows).map (·.key)).Nodup ∧ (groupsOf key rows).map (·.key) = (rows.map key).eraseDups :=
  ⟨groups_keys_nodup key rows, groups_keys_first_occurrence key rows⟩

/-- **C07.same_group_iff_equal_key**: two rows are in the same group only if all their
grouping values are equal, and every row is in the group of its key. -/
theorem C07_group_membership (key : Row → List Val) (rows : List Row) :
    (∀ g ∈ groupsOf key rows, ∀ r ∈ g.rows, key r = g.key) ∧
    (∀ r ∈ rows, ∃ g ∈ groupsOf key rows, g.key = key r ∧ r ∈ g.rows) :=
  groups_rows_key key rows

/-- **C07.partition**: the groups partition the input: each group is exactly the rows with
its key (in order), and together they are a permutation of the input. -/
theorem C07_partition (key : Row → List Val) (rows : List Row) :
    ((groupsOf key rows).flatMap (·.rows)).Perm rows ∧
    (∀ g ∈ groupsOf key rows, g.rows = rows.filter (fun r => key r == g.key)) :=
  groups_partition key rows

/-- **C07.count_star**: COUNT(*) of a group is its number of rows. -/
theorem C07_count_star (colIdx : Nat) (g : Group) (h : ∀ r ∈ g.rows, r[colIdx]? = some (.int 1)) :
    aggCell (.count none) colIdx g = .ok (.int g.rows.length) :=
  count_star_correct colIdx g h

/-- **C07.count_col**: COUNT(col) of a group is its number of rows with a non-NULL value. -/
theorem C07_count_col (c : Option ColRef) (colIdx : Nat) (g : Group) (nonNull : Row → Bool)
    (h : ∀ r ∈ g.rows, r[colIdx]? = some (.int (if nonNull r then 1 else 0))) :
    aggCell (.count c) colIdx g = .ok (.int (g.rows.filter nonNull).length) :=
  count_col_correct c colIdx g nonNull h

/-- **C07.order_independent (groups, counts)**: permuting the input rows changes neither the
set of groups nor the rows (hence the counts) of any group. -/
theorem C07_order_independent (key : Row → List Val) {rows rows' : List Row} (hp : rows'.Perm rows) (k : List Val) :
    ((∃ g' ∈ groupsOf key rows', g'.key = k) ↔ (∃ g ∈ groupsOf key rows, g.key = k)) ∧
    (∀ g' ∈ groupsOf key rows', ∀ g ∈ groupsOf key rows, g'.key = k → g.key = k →
      g'.rows.Perm g.rows ∧ g'.rows.length = g.rows.length) :=
  count_perm_invariant key hp k

/-- **C07.rows_out**: with aggregates the result has one row per distinct grouping tuple. -/
theorem C07_one_row_per_key (sl : List DerivedCol) (groupBy : List ColRef) (rows out : List Row)
    (hagg : hasAggr sl = true) (hne : (groupBy.isEmpty && rows.isEmpty) = false)
    (h : aggregateRows sl groupBy rows = .ok out) :
    ∃ idxs, groupIdxs sl groupBy = .ok idxs ∧
      out.length = ((rows.map fun r => idxs.map fun i => (r[i]?).getD .null).eraseDups).length :=
  aggregateRows_one_row_per_key sl groupBy rows out hagg hne h

/-- **C07.group_by_without_aggregate**: a GROUP BY groups whether or not the select list holds an
aggregate - `SELECT a FROM t GROUP BY a` returns one row per distinct `a`, not every row (the
defect repaired in `aggregateRows`: it used to return early on "no aggregate").  For a select list
without aggregates, a non-empty GROUP BY whose references all designate a select-list column, and
projected rows with one value per select-list element (what `projectColumns` delivers), the result
has exactly one row per distinct grouping key (`groupKey idxs r` = the values of `r` at the GROUP BY
positions): (1) the keys of the output rows are pairwise distinct, (2) every key of an input row is
the key of an output row and conversely, (3) every output row is an input row, namely the first
with its key, (4) in order of first occurrence of the keys. -/
theorem C07_group_by_without_aggregate (sl : List DerivedCol) (groupBy : List ColRef)
    (rows : List Row) (hagg : hasAggr sl = false) (hne : groupBy ≠ [])
    (hres : ∀ g ∈ groupBy, ∃ i, groupIdx sl g = some i)
    (hlen : ∀ r ∈ rows, r.length = sl.length) :
    ∃ idxs out, groupIdxs sl groupBy = .ok idxs ∧ aggregateRows sl groupBy rows = .ok out ∧
      (out.map (groupKey idxs)).Nodup ∧
      ((∀ r ∈ rows, ∃ o ∈ out, groupKey idxs o = groupKey idxs r) ∧
       (∀ o ∈ out, ∃ r ∈ rows, groupKey idxs r = groupKey idxs o)) ∧
      (∀ o ∈ out, o ∈ rows ∧
        rows.find? (fun r => groupKey idxs r == groupKey idxs o) = some o) ∧
      out.map (groupKey idxs) = (rows.map (groupKey idxs)).eraseDups :=
  aggregateRows_group_no_aggr sl groupBy rows hagg hne hres hlen

/-- `groupKey` is the expression `aggregateRows` groups by -/
theorem C07_groupKey_def (idxs : List Nat) (r : Row) :
    groupKey idxs r = idxs.map fun i => (r[i]?).getD .null := rfl

/-- `SELECT k FROM t GROUP BY k` on the rows 1, 2, 1 is the rows 1, 2 -/
example : aggregateRows [⟨.expr (.val (.col ⟨[], [107]⟩)), []⟩] [⟨[], [107]⟩]
    [[.int 1], [.int 2], [.int 1]] = .ok [[.int 1], [.int 2]] := rfl

/-- **C07.qualified_group_column_not_captured_by_alias**: a qualified GROUP BY reference `t.b`
matches a select-list element only as that very column reference - the alias alternative and the
bare-name alternative of `DerivedColumn.Matches` need an unqualified reference (`SELECT a AS b ...
GROUP BY t.b` used to group by `a`: the defect repaired in `Matches`).  Hence the select-list
column a qualified GROUP BY reference designates (`groupIdx`) is a reference to that column. -/
theorem C07_qualified_group_column_not_captured_by_alias :
    (∀ (d : DerivedCol) (rhs : ColRef), rhs.qual ≠ [] → d.matches rhs = true →
      ∃ lhs, d.item = .expr (.val (.col lhs)) ∧ lhs.equals rhs = true) ∧
    (∀ (sl : List DerivedCol) (g : ColRef) (i : Nat), g.qual ≠ [] → groupIdx sl g = some i →
      ∃ d lhs, sl[i]? = some d ∧ d.item = .expr (.val (.col lhs)) ∧ lhs.equals g = true) :=
  ⟨fun _ _ hq h => matches_qualified hq h,
   fun sl g i hq h => qualified_group_column_not_captured_by_alias sl g hq i h⟩

/-- `ColumnReference.Equals` is equality of qualifier and name -/
theorem C07_colref_equals_eq {lhs rhs : ColRef} (h : lhs.equals rhs = true) : lhs = rhs :=
  ColRef_equals_eq h

/-- `a AS b` does not match `t.b`; `t.b AS c` does -/
example : (⟨.expr (.val (.col ⟨[116], [97]⟩)), [98]⟩ : DerivedCol).matches ⟨[116], [98]⟩ = false ∧
    (⟨.expr (.val (.col ⟨[116], [98]⟩)), [99]⟩ : DerivedCol).matches ⟨[116], [98]⟩ = true := by decide

/-- **C07.avg_partial**: the cumulative average is exact when all values are equal or there is one value. -/
theorem C07_avg_partial (x : Int) (n : Nat) : runningAvg [x] = x ∧ runningAvg (List.replicate (n + 1) x) = x :=
  ⟨runningAvg_single x, runningAvg_const x n⟩

/-- **C07.avg_counterexample** (known finding): the average depends on row order and differs
from round(sum/count): avg of 2,1,1 is 2, of 1,1,2 is 1, while round(4/3) = 1. -/
theorem C07_avg_counterexample : runningAvg [2, 1, 1] = 2 ∧ runningAvg [1, 1, 2] = 1 ∧ roundDiv 4 3 = 1 :=
  runningAvg_counterexample

end Mkdb.Exec
