import Mkdb.Proofs.Unchanged
import Mkdb.Proofs.SpecRefine
import Mkdb.Proofs.SpecRefineB
import Mkdb.Proofs.BaseCase3
/-!
# C14 — a statement that returns an error changes nothing

Property theorems only, about the heap model of the storage engine (`Mkdb.Store`, `Mkdb.Engine`),
which is compared with the implementation page by page.  "Changes nothing" is `SameData`
(Mkdb/Spec/Unchanged.lean): every page the engine can see, every dirty bit, the data file, the
header on disk and the fields of the in-memory header that locate data are what they were, and
the log is untouched - so the same holds after a restart (recovery reads exactly these).  The
row-id and LSN counters may advance, and pages may have been pulled into the cache by reading.
Quantifier: every well-filed store (`Filed`), every table, every row.

What the theorems do **not** say is as important, and is stated here rather than hidden:
* `C14_insert_kth_row` is the *exact* behaviour for a multi-row INSERT whose k-th row (k >= 2) is
  refused: the statement returns the error and logs nothing, but the rows before it stay applied
  in the cache.  That is the known finding `db:failed-statement-applied-row-prefix` (the
  implementation does the same; not repaired, see KNOWN_FINDINGS.txt), so C14 is proved for the
  first row and relative to the prefix state for later rows.
* UPDATE: only `update_err` under a uniqueness hypothesis, no statement-level theorem (partial).
* For CREATE TABLE five error codes (`BodyErr`) could in principle still come out of the body on a
  catalog that is itself damaged; excluding them needs catalog invariants that are not proved.
-/
namespace Mkdb.Engine
open Mkdb.Store Mkdb.Tuple Mkdb.Sql

/-- **C14.insert_first_row**: an INSERT whose first row is refused - unknown table, column-count
mismatch, a column name the table does not have (`fieldNotFound`) or one column named twice
(`fieldAmbiguous`), type mismatch, out-of-range integer, duplicate key - returns that error, leaves the
log untouched and changes nothing in the store. -/
theorem C14_insert_first_row (db : DB) (table : Bytes) (cols : List Bytes) (r : List Val)
    (rest : List (List Val)) (e : SErr) (s' : Store) (hf : Filed db.store)
    (h : insert table (cols.map bytesToName) r db.store = .err e s') (he : Refusal e) :
    ∃ db', evalInsert db table cols (r :: rest) = .err (.store e) db' ∧
      db'.wal = db.wal ∧ Filed db'.store ∧ SameData db.store db'.store :=
  evalInsert_first_row_refused db table cols r rest e s' hf h he

/-- **C14.insert_oversized_row**: the same for a row that is too large, for every table whose name fits
the catalog. -/
theorem C14_insert_oversized_row (table : Bytes) (cols : List String) (vals : List Val) (s s' : Store)
    (hf : Filed s) (hname : table.length + 14 ≤ Mkdb.Generated.c_maxValueSize)
    (h : insert table cols vals s = .err .rowTooLarge s') : Filed s' ∧ SameData s s' :=
  insert_err_rowTooLarge table cols vals s s' hf hname h

/-- **C14.insert_kth_row** (the exact statement behind the known finding): when the rows before the
refused one were applied, taking the store to `sk`, the statement returns the error and the log is
untouched, and relative to `sk` the refused row changed nothing - but `sk`, not the store before
the statement, is what the cache holds. -/
theorem C14_insert_kth_row (db : DB) (table : Bytes) (cols : List Bytes)
    (good : List (List Val)) (bad : List Val) (rest : List (List Val))
    (logs : List WalRec) (sk s' : Store) (e : SErr) (hf : Filed sk)
    (hgood : Applies table (cols.map bytesToName) good db.store logs sk)
    (hbad : insert table (cols.map bytesToName) bad sk = .err e s') (he : Refusal e) :
    ∃ db', evalInsert db table cols (good ++ bad :: rest) = .err (.store e) db' ∧
      db'.wal = db.wal ∧ Filed db'.store ∧ SameData sk db'.store :=
  evalInsert_kth_row_refused db table cols good bad rest logs sk s' e hf hgood hbad he

/-- **C14.create_table**: CREATE TABLE refused because the table exists, a column length is out of
range, a column name is used twice (`fieldAmbiguous`), or a catalog row would not fit a page cell (a
long table or column name) changes nothing and logs nothing. -/
theorem C14_create_table (db : DB) (name : Bytes) (cols : List Sql.ColDef)
    (flushOrder : List Nat) (doFlush : Bool) (e : SErr) (s' : Store) (hf : Filed db.store)
    (h : createTable (cols.map colTypeToField) name flushOrder doFlush db.store = .err e s')
    (he : e = .tableAlreadyExist ∨ e = .intOutOfRange ∨ e = .rowTooLarge ∨ e = .typeMismatch ∨
          e = .colCountMismatch ∨ e = .fieldAmbiguous) :
    ∃ db', evalCreateTable db name cols flushOrder doFlush = .err (.store e) db' ∧
      db'.wal = db.wal ∧ Filed db'.store ∧ SameData db.store db'.store :=
  evalCreateTable_refused db name cols flushOrder doFlush e s' hf h he

/-- **C14.delete**: a DELETE that fails at its first selected row changes nothing. -/
theorem C14_delete (db : DB) (table : Bytes) (where_ : Option Sql.Cond)
    (rows : List (Nat × List Val)) (schema : List FieldDef) (s0 : Store)
    (r : Nat × List Val) (rest : List (Nat × List Val)) (e : SErr) (s' : Store)
    (hf : Filed db.store)
    (hfetch : fetchTable table db.store = .ok (rows, schema) s0)
    (hsel : filterIds where_ (schema.map fun fd => ⟨[], fd.name.toUTF8.toList⟩) rows = .ok (r :: rest))
    (h : markDeleted table r.1 s0 = .err e s') :
    evalDelete db table where_ = .err (.store e) { db with store := s' } ∧
      Filed s' ∧ SameData db.store s' :=
  evalDelete_first_row_err db table where_ rows schema s0 r rest e s' hf hfetch hsel h

end Mkdb.Engine

namespace Mkdb.Store
/-- **C14.insert_unknown_column** (the repaired defect, on ANY store): once the catalog lookups have
delivered the columns `schema` of the table, an INSERT whose column list names something that is not a
column of the table never succeeds: it returns `colCountMismatch` (wrong number of values, tested
first) or `fieldNotFound` / `fieldAmbiguous` (what `checkColumns` says), in the store the lookups left,
and - the cache being well filed - every page, every dirty bit, the data file and the header locations
are as before.  (Before the repair the row went in with the value dropped.) -/
theorem C14_insert_unknown_column (table : Bytes) (cols : List String) (vals : List Tuple.Val)
    (s s1 s2 s3 : Store) (off : Nat) (n : Mkdb.Page.Node) (schema : List Tuple.FieldDef)
    (h1 : relationOffset table s = .ok off s1) (h2 : fetch off s1 = .ok n s2)
    (h3 : relationSchema table s2 = .ok schema s3)
    (c : String) (hc : c ∈ colsOf schema cols) (hn : c ∉ schema.map (·.name)) :
    ∃ e, insert table cols vals s = .err e s3 ∧
      (e = .colCountMismatch ∨ e = .fieldNotFound ∨ e = .fieldAmbiguous) ∧
      ((colsOf schema cols).length = vals.length → checkColumns schema (colsOf schema cols) = some e) ∧
      (Filed s → Filed s3 ∧ SameData s s3) :=
  insert_unknown_column table cols vals s s1 s2 s3 off n schema h1 h2 h3 c hc hn

/-- **C14.create_table_long_column_witness** (non-vacuity, and the regression witness of a repaired
defect): on an empty catalog, CREATE TABLE with a 400-byte name in its *second* column is refused
and the store is exactly the one before it, with the page table pulled into the cache - no root
page allocated, no `sys_pages` entry, no schema row of the first column left behind. -/
theorem C14_create_table_long_column_witness :
    createTable [⟨"a", .int, 0⟩, ⟨longColumn, .int, 0⟩] [116] [] true emptyCatalog
        = .err .rowTooLarge emptyCatalogRead ∧
      Filed emptyCatalogRead ∧ SameData emptyCatalog emptyCatalogRead :=
  createTable_longColumn_unchanged

/-- non-vacuity: a refused INSERT on a concrete well-filed store meets the hypotheses -/
example : Filed emptyCatalog ∧ ∃ s', insert [116] [] [] emptyCatalog = .err .tableNotExist s' := by
  refine ⟨emptyCatalog_filed, ?_⟩
  have h := insertNoTableCheck_true
  unfold insertNoTableCheck at h
  split at h
  · rename_i e s' heq
    simp only [beq_iff_eq] at h
    subst h
    exact ⟨s', heq⟩
  · cases h
end Mkdb.Store

namespace Mkdb.Store
open Mkdb.Tree Mkdb.Page Mkdb.Tuple

/-- **C14.insert_refused_plain_model**: against the plain in-memory model (the judge's specification):
an INSERT into an unknown table, or whose *first* row the plain model refuses (arity, type, range,
size), or whose column list names a column the table does not have or one column twice, is refused by
the plain model and by the engine, the log is untouched and the store still abstracts to the same
plain database. -/
theorem C14_insert_refused_plain_model (db : Engine.DB) (pt sch : Levels) (tbls : List (Bytes × Levels))
    (sdb : Spec.SDB) (h : AbsV db.store pt sch tbls sdb) (table : Bytes) (cols : List Bytes)
    (r : List Val) (rest : List (List Val))
    (hbad : (Spec.findTable sdb table = none ∧ table ≠ sysPages ∧ table ≠ sysSchema) ∨
      ∃ st, Spec.findTable sdb table = some st ∧
        (Spec.rowOf st cols r = none ∨ Spec.namesOK st (cols.map Spec.nameStr) = false)) :
    Spec.specInsert sdb table cols (r :: rest) = none ∧
    ∃ e db', Engine.evalInsert db table cols (r :: rest) = .err (.store e) db' ∧
      (e = .tableNotExist ∨ RowRefusal e) ∧ db'.wal = db.wal ∧ AbsV db'.store pt sch tbls sdb :=
  evalInsert_refused_specV db pt sch tbls sdb h table cols r rest hbad

/-- **C14.insert_kth_row_plain_model** (the known finding, stated against the plain model): when the
k-th row (k >= 2) is the refused one, the plain model refuses the statement and so does the engine,
nothing is logged - but the store abstracts to the plain database *with the good rows before it
appended*, not to the database before the statement.  (`hnames`: the column list is one the plain model
accepts; a bad column list is refused at the first row, `C14_insert_refused_plain_model`.) -/
theorem C14_insert_kth_row_plain_model (db : Engine.DB) (pt sch : Levels) (tbls : List (Bytes × Levels))
    (sdb : Spec.SDB) (h : Abs db.store pt sch tbls sdb)
    (table : Bytes) (t : Levels) (ht : (table, t) ∈ tbls)
    (schema : List FieldDef) (hsch : schemaOf sch table = some schema)
    (cols : List Bytes) (good : List (List Val)) (bad : List Val) (rest : List (List Val))
    (goodRows : List (List Val)) (hvalid : ∀ r ∈ good, ∀ v ∈ r, ValidVal v)
    (hgood : good.mapM (Spec.rowOf (absTable table schema t) cols) = some goodRows)
    (hbad : Spec.rowOf (absTable table schema t) cols bad = none)
    (hnames : Spec.namesOK (absTable table schema t) (cols.map Spec.nameStr) = true)
    (hrun : InsRunOK schema (cols.map Engine.bytesToName) t db.store.hdr.lastKey db.store.hdr.nextLSN
      db.store.hdr.nextFree good) :
    Spec.specInsert sdb table cols (good ++ bad :: rest) = none ∧
    ∃ e db' ptF t', Engine.evalInsert db table cols (good ++ bad :: rest) = .err (.store e) db' ∧
      RowRefusal e ∧ db'.wal = db.wal ∧
      Abs db'.store ptF sch (setTable tbls table t')
        (sdb.map (updRows table (fun r => r ++ idRows db.store.hdr.lastKey goodRows))) :=
  evalInsert_kth_refused_spec db pt sch tbls sdb h table t ht schema hsch cols good bad rest goodRows hvalid hgood hbad hnames hrun

end Mkdb.Store

namespace Mkdb.Store
open Mkdb.Tree Mkdb.Page Mkdb.Tuple Mkdb.Generated

/-- **C14.refused_statement_plain_model** (one theorem over parsed statements, against the plain
in-memory model): `StmtRefusal` lists the refusals that happen before anything is changed - CREATE
TABLE of an existing or catalog name, with a column length beyond 32 bits or with one column name
twice; INSERT into an unknown table, whose column list names an unknown column or one column twice, or
whose first row is refused (column count, type, range, size); UPDATE with a column source, of an
unknown table, with an unknown or repeated SET column (whatever its WHERE selects), with a WHERE that
cannot be evaluated, or whose first selected row cannot be rewritten; DELETE of an unknown table or with a WHERE that cannot be evaluated.  The plain
model refuses, the engine model returns an error, the log is untouched and the relation `Rel` holds
with the SAME catalog trees and the SAME plain database: every table and the catalog contain what
they contained, and since recovery reads only the file and the log, so they do after a restart. -/
theorem C14_refused_statement_plain_model (db : Engine.DB) (order : List Nat) (pt sch : Levels)
    (tbls : List (Bytes × Levels)) (sdb : Spec.SDB) (h : Rel db pt sch tbls sdb) (st : Sql.Stmt)
    (hbad : StmtRefusal sdb pt st) :
    Spec.specStmt sdb st = none ∧
    ∃ e db', evalStmt db order st = .err e db' ∧ db'.wal = db.wal ∧ Rel db' pt sch tbls sdb :=
  evalStmt_refused_spec db order pt sch tbls sdb h st hbad

/-- **C14.delete_refused_plain_model**: the DELETE case with the stronger conclusion `Same` - no page
and no header field differs, not only the abstraction. -/
theorem C14_delete_refused_plain_model (db : Engine.DB) (pt sch : Levels) (tbls : List (Bytes × Levels))
    (sdb : Spec.SDB) (h : AbsV db.store pt sch tbls sdb) (table : Bytes) (w : Option Sql.Cond)
    (hname : Spec.findTable sdb table = none → table ≠ sysPages ∧ table ≠ sysSchema)
    (hbad : Spec.specDelete sdb table w = none) :
    ∃ e db', Engine.evalDelete db table w = .err e db' ∧ PreErr e ∧
      (Spec.findTable sdb table = none → e = .store .tableNotExist) ∧
      ((Spec.findTable sdb table).isSome → ∃ x, e = .exec x) ∧
      db'.wal = db.wal ∧ Same db.store db'.store ∧ AbsV db'.store pt sch tbls sdb :=
  evalDelete_refused_specV db pt sch tbls sdb h table w hname hbad

/-- **C14.update_refused_plain_model**: likewise for UPDATE refused before its first row (`UpdRefusal`:
column source, unknown table, a SET column the table does not have or one set twice - also when no row
is selected -, WHERE not evaluable, first selected row not rewritable). -/
theorem C14_update_refused_plain_model (db : Engine.DB) (pt sch : Levels) (tbls : List (Bytes × Levels))
    (sdb : Spec.SDB) (h : AbsV db.store pt sch tbls sdb) (table : Bytes)
    (sets : List (Bytes × Sql.VExpr)) (w : Option Sql.Cond) (hbad : UpdRefusal sdb table sets w) :
    Spec.specUpdate sdb table sets w = none ∧
    ∃ e db', Engine.evalUpdate db table sets w = .err e db' ∧ UpdErr e ∧
      db'.wal = db.wal ∧ Same db.store db'.store ∧ AbsV db'.store pt sch tbls sdb :=
  evalUpdate_refused_specV db pt sch tbls sdb h table sets w hbad

/-- **C14.update_kth_row_plain_model** (the known finding for UPDATE, stated exactly): when the k-th
selected row (k >= 2) is the one that cannot be rewritten, the plain model refuses the statement, the
engine model returns a row error and logs nothing - but the store abstracts to the plain database
with the first k-1 selected rows REWRITTEN, one of the states `Spec.prefixStates` lists
(`kth_state_in_prefixStates`), not to the database before the statement.  (`hset`: the SET columns pass
the statement's check; an unknown or repeated SET column is refused before any row is rewritten,
`C14_update_refused_plain_model`.) -/
theorem C14_update_kth_row_plain_model (db : Engine.DB) (pt sch : Levels) (tbls : List (Bytes × Levels))
    (sdb : Spec.SDB) (h : Abs db.store pt sch tbls sdb) (table : Bytes)
    (sets : List (Bytes × Sql.VExpr)) (w : Option Sql.Cond)
    (hnocol : ∀ p ∈ sets, ∀ c, p.2 ≠ .col c)
    (hvalid : ∀ p ∈ sets, ∀ l, p.2 = .lit l → ValidVal (Engine.litToVal l))
    (st : Spec.STable) (sel : List Bool) (pre : List (List Val)) (bad : List Val) (post : List (List Val))
    (hfind : Spec.findTable sdb table = some st) (hsel : Spec.selects st w = some sel)
    (hset : Engine.checkSetColumns (Spec.fieldsOfTable st) [] (sets.map (·.1)) = none)
    (hsplit : selVals st sel = pre ++ bad :: post)
    (hpre : ∀ v ∈ pre, specAssign st.cols sets v ≠ none) (hbad : specAssign st.cols sets bad = none) :
    Spec.specUpdate sdb table sets w = none ∧
    ∃ e db' t', Engine.evalUpdate db table sets w = .err (.store e) db' ∧
      (e = .typeMismatch ∨ e = .intOutOfRange ∨ e = .rowTooLarge) ∧ db'.wal = db.wal ∧
      Abs db'.store pt sch (setTable tbls table t')
        (sdb.map (updRows table fun rs => rewriteFirst st.cols sets pre.length (rs.zip sel))) :=
  evalUpdate_kth_refused_spec db pt sch tbls sdb h table sets w hnocol hvalid st sel pre bad post hfind hsel hset hsplit hpre hbad

end Mkdb.Store

namespace Mkdb.Store
open Mkdb.Tree Mkdb.Page Mkdb.Tuple Mkdb.Generated

/-- **C14.witnesses_on_a_real_database** (non-vacuity on a store the model itself creates): on the
database `CREATE DATABASE` leaves (`createDB [] {}` computed, reopened), a CREATE TABLE whose name makes
a catalog row too large, a CREATE TABLE with such a column name, and an INSERT into a table that does
not exist are refused and leave a well-filed store with the same data.  (The earlier witness store
`emptyCatalog` was hand-written; the base-case work showed that it satisfies `Filed` but is not a
database at all - `emptyCatalog_not_cat`: no catalog invariant holds of it.) -/
theorem C14_witnesses_on_a_real_database :
    (∃ s', createTable [] longName [] true (reopen newStore) = .err .rowTooLarge s' ∧
      Filed s' ∧ SameData (reopen newStore) s') ∧
    (∃ s', createTable [⟨"a", .int, 0⟩, ⟨longColumn, .int, 0⟩] [116] [] true (reopen newStore) = .err .rowTooLarge s' ∧
      Filed s' ∧ SameData (reopen newStore) s') ∧
    (∃ s', insert [116] [] [] (reopen newStore) = .err .tableNotExist s' ∧
      Filed s' ∧ SameData (reopen newStore) s') :=
  newStore_examples

end Mkdb.Store
