import Mkdb.Proofs.Redo
/-!
# C04 — a crash while the page cache is being flushed loses nothing

Property theorems only, about the redo rule (`Mkdb.Redo`).  A flush writes pages one at a time in
arbitrary order; a crash inside it leaves a data file in which some pages are current and the
others are as old as their previous flush.  `Image log init k` is exactly that family of files
(`k p` = how much of the history page `p` had seen when it was last written), so the statement for
torn flushes is the same theorem as for flush placement, read with a different `k`.

Partial: the theorem is about page-local records.  A flush torn between the pages of a split
(allocation of new pages, the header write that persists the allocation frontier) is outside it;
that is where the implementation actually fails (known finding `db:fimage-…:alloc1`), and what the
crash-image runs of the check explore.
-/
namespace Mkdb.Redo
variable {α : Type}

/-- **C04.torn_flush_recovers**: for every log, every earlier flush history and every position at
which a later flush is interrupted (all folded into `k`), replay yields the acknowledged state. -/
theorem C04_torn_flush_recovers (log : List (Rec α)) (init : Pages α) (k : Nat → Nat) (h : LogOK log init) :
    ∀ p, replay log (Image log init k) p = run log init p := replay_image log init k h

/-- **C04.write_ahead_needed**: with the log cut at `j`, recovery reproduces the first `j` records
provided no page in the file is newer than the cut - the write-ahead rule (each statement's
records are synced before it returns, and pages are flushed only between statements). -/
theorem C04_log_cut (log : List (Rec α)) (init : Pages α) (k : Nat → Nat) (j : Nat)
    (h : LogOK log init) (hk : ∀ p, k p ≤ j) :
    ∀ p, replay (log.take j) (Image log init k) p = run (log.take j) init p :=
  replay_prefix log init k j h hk

/-- the rule is needed: a page flushed ahead of the log is not repaired -/
theorem C04_write_ahead_needed :
    LogOK exLog exInit ∧
    ¬ ∀ p, replay (exLog.take 1) (Image exLog exInit (fun _ => 2)) p = run (exLog.take 1) exInit p := by
  refine ⟨exLog_ok, ?_⟩
  intro h
  have := congrArg Pg.val (h 0)
  revert this
  decide

end Mkdb.Redo
