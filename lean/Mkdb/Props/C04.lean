import Mkdb.Proofs.Redo
import Mkdb.Proofs.TornFlush16
/-!
# C04 — a crash while the page cache is being flushed loses nothing

Property theorems only, about the redo rule (`Mkdb.Redo`).  A flush writes pages one at a time in
arbitrary order; a crash inside it leaves a data file in which some pages are current and the
others are as old as their previous flush.  `Image log init k` is exactly that family of files
(`k p` = how much of the history page `p` had seen when it was last written), so the statement for
torn flushes is the same theorem as for flush placement, read with a different `k`.

Partial: the theorem is about page-local records.  A flush torn between the pages of a split
(allocation of new pages, the header write that persists the allocation frontier) is outside it;
that is where the implementation actually fails (known finding `db:fimage-…:alloc1`), and what the
crash-image runs of the check explore.

Second part (namespace `Mkdb.Store`, proofs in `Proofs/TornFlush1-11.lean` and `TornFlushLK.lean`): the
same for the CONCRETE recovery model `Mkdb.Engine.recover` / `replayAll` on REAL logs - INSERT records
included, whose page field names the ROOT of the table, whose skip test reads the root page and whose
redo runs through the tree and tolerates a key that is already there - for every flush torn while no
page was allocated since the last complete flush (class `alloc0`):
`C04_torn_flush_without_allocation_recovers`, `C04_rounds_with_torn_flushes`,
`C04_any_mixture_of_boundary_pages_recovers` (each page of the data file as of ANY statement boundary
since the checkpoint), `C04_replay_over_any_mixture_of_page_versions` (as of any RECORD boundary, about
`replayAll` itself).
-/
namespace Mkdb.Redo
variable {α : Type}

/-- **C04.torn_flush_recovers**: for every log, every earlier flush history and every position at
which a later flush is interrupted (all folded into `k`), replay yields the acknowledged state. -/
theorem C04_torn_flush_recovers (log : List (Rec α)) (init : Pages α) (k : Nat → Nat) (h : LogOK log init) :
    ∀ p, replay log (Image log init k) p = run log init p := replay_image log init k h

/-- **C04.write_ahead_needed**: with the log cut at `j`, recovery reproduces the first `j` records
provided no page in the file is newer than the cut - the write-ahead rule (each statement's
records are synced before it returns, and pages are flushed only between statements). -/
theorem C04_log_cut (log : List (Rec α)) (init : Pages α) (k : Nat → Nat) (j : Nat)
    (h : LogOK log init) (hk : ∀ p, k p ≤ j) :
    ∀ p, replay (log.take j) (Image log init k) p = run (log.take j) init p :=
  replay_prefix log init k j h hk

/-- the rule is needed: a page flushed ahead of the log is not repaired -/
theorem C04_write_ahead_needed :
    LogOK exLog exInit ∧
    ¬ ∀ p, replay (exLog.take 1) (Image exLog exInit (fun _ => 2)) p = run (exLog.take 1) exInit p := by
  refine ⟨exLog_ok, ?_⟩
  intro h
  have := congrArg Pg.val (h 0)
  revert this
  decide

end Mkdb.Redo

namespace Mkdb.Store
open Mkdb.Engine Mkdb.Tree Mkdb.Page Mkdb.Generated

/-- **C04.torn_flush_without_allocation_recovers** (concrete recovery model, real logs).  `db` is a
checkpointed database (`Ckpt`: what every complete flush and every recovery leave: everything in the data
file, the never truncated log applied); the engine runs any INSERT / UPDATE / DELETE statements the plain
model accepts (`SpecRun`) and reaches `dbN`; the statements allocated no page - no leaf split, no root
move (`hnf`: the allocation frontier is where it was; a decidable condition on the two stores).  Then
the page cache is flushed - by the timer, by shutdown, by whoever - the pages are written in ANY order
`order`, and the process dies before the `j`-th page write, for ANY `j` (`j ≥ order.length`: every page
written, the header not; the case "header written too" is the complete flush, `C02_rounds_*`).  Start-up
recovery `Engine.recover` on that data file (`tornFlush dbN.store order j`) and the complete log
SUCCEEDS, for any write orders `o1 o2` of its own two flushes; it keeps the log; and its result is
again a checkpointed database, for the plain database `sdbN` of ALL acknowledged statements
(`Ckpt … sdbN …` contains `AbsV db'.store … sdbN`: every table holds exactly their effects), with the
same catalog description as after a crash in which nothing had been flushed; the allocation frontier
and the catalog root are the live ones; the row-id counter is not behind the live one and not behind
the key of any logged INSERT (`Ckpt.keys`): no row id is handed out twice; the LSN counter is not
behind the live one.

What the hypothesis excludes: a run in which a page was allocated (leaf or internal split, root move,
CREATE TABLE) since the last complete flush - there the real code loses data when the flush is torn
between the pages involved (known finding, class `alloc1`), and the statement is false. -/
theorem C04_torn_flush_without_allocation_recovers {sch : Levels} {db dbN : Engine.DB} {sdb sdbN : Spec.SDB}
    {stmts : List EStmt} {pt : Levels} {tbls : List (Bytes × Levels)} (h : Ckpt sch db sdb pt tbls)
    (run : SpecRun sch db sdb stmts dbN sdbN) (hnf : dbN.store.hdr.nextFree = db.store.hdr.nextFree)
    (order : List Nat) (j : Nat) (o1 o2 : List Nat) :
    ∃ db' tblsL, Engine.recover { store := tornFlush dbN.store order j, wal := dbN.wal } o1 o2 = .ok db' ∧
      db'.wal = dbN.wal ∧ AbsV dbN.store pt sch tblsL sdbN ∧ Ckpt sch db' sdbN (clean pt) (cleanT tblsL) ∧
      db'.store.hdr.nextFree = dbN.store.hdr.nextFree ∧ dbN.store.hdr.lastKey ≤ db'.store.hdr.lastKey ∧
      db'.store.hdr.ptRoot = dbN.store.hdr.ptRoot ∧ dbN.store.hdr.nextLSN ≤ db'.store.hdr.nextLSN :=
  h.torn_flush_round run hnf order j o1 o2

/-- **C04.torn_flush_example** (non-vacuity of the theorem above, every state computed by the model):
`CREATE DATABASE`; `CREATE TABLE t (a INT)` (`tableDB`, checkpointed: `ckpt_tableDB`);
`INSERT INTO t VALUES (5), (6)`; `UPDATE t SET a = 7 WHERE a = 5` - three log records, no allocation; the
flush is torn at ANY point of ANY write order (before the leaf of `t` is written: the data file still has
the empty page of the checkpoint; after it: the page carries LSN 12 and row ids 11, 12 while the header
says `lastKey = 10`, `nextLSN = 10`).  Recovery succeeds and ends checkpointed for the plain database
with the rows `(7)`, `(6)`. -/
theorem C04_torn_flush_example : ∃ db2,
    SpecRun schT tableDB sdbA0
      [.insert tname [] [[.int 5], [.int 6]], .update tname [([97], .lit (.int 7))] (some (condEq 5))] db2 sdbA2 ∧
    db2.store.hdr.nextFree = tableDB.store.hdr.nextFree ∧ db2.wal.length = 3 ∧
    ∀ order j, ∃ dbR tblsR, Engine.recover { store := tornFlush db2.store order j, wal := db2.wal } [] [] = .ok dbR ∧
      dbR.wal = db2.wal ∧ Ckpt schT dbR sdbA2 (clean ptT) (cleanT tblsR) := torn_example

/-- **C04.torn_flush_between_two_dirty_pages_example** (non-vacuity with a data file of pages from two
different moments, every state computed by the model): `CREATE DATABASE`; `CREATE TABLE t (a INT)`;
`CREATE TABLE u (b INT)` (`tableDB2`: `create_table2_eq`, checkpointed: `ckpt_tableDB2`);
`INSERT INTO t VALUES (5)`; `INSERT INTO u VALUES (8)` - two log records, no allocation, two dirty pages:
12288 (leaf of `t`) and 16384 (leaf of `u`).  The flush is torn at ANY point of ANY write order, e.g.
`order = [12288, 16384]`, `j = 1`: the leaf of `t` written, the leaf of `u` not; or `order = [16384, 12288]`,
`j = 1`: the page of the LATER record in the file, the page of the earlier one not.  Recovery succeeds and
ends checkpointed for the plain database with `(5)` in `t` and `(8)` in `u`. -/
theorem C04_torn_flush_between_two_dirty_pages_example :
    evalStmt tableDB [] (.createTable uname bcolsI) = .ok () tableDB2 ∧
    Ckpt schU tableDB2 sdbU0 ptU [(tname, tT), (uname, uT)] ∧
    ∃ db2,
      SpecRun schU tableDB2 sdbU0 [.insert tname [] [[.int 5]], .insert uname [] [[.int 8]]] db2 sdbU2 ∧
      db2.store.hdr.nextFree = tableDB2.store.hdr.nextFree ∧ db2.wal.length = 2 ∧
      (db2.store.mem.filter fun p => p.2.dirty).map (·.1) = [12288, 16384] ∧
      ∀ order j, ∃ dbR tblsR, Engine.recover { store := tornFlush db2.store order j, wal := db2.wal } [] [] = .ok dbR ∧
        dbR.wal = db2.wal ∧ Ckpt schU dbR sdbU2 (clean ptU) (cleanT tblsR) :=
  ⟨create_table2_eq, ckpt_tableDB2, torn_example2⟩

/-- **C04.rounds_with_torn_flushes**: any number of rounds, each `statements ; complete flush`,
`statements ; crash with nothing flushed ; recovery`, or `statements that allocate no page ; flush torn
at any point ; recovery` (`RoundsT`), from a checkpointed database end in a checkpointed database for the
plain database of ALL statements acknowledged so far; and after any such history a further torn flush
(no allocation since the last round) is recovered. -/
theorem C04_rounds_with_torn_flushes {sch : Levels} {db db1 : Engine.DB} {sdb sdb1 : Spec.SDB}
    {pt : Levels} {tbls : List (Bytes × Levels)} (h : Ckpt sch db sdb pt tbls)
    (hist : RoundsT sch db sdb db1 sdb1) :
    (∃ pt1 tbls1, Ckpt sch db1 sdb1 pt1 tbls1) ∧
    ∀ (dbN : Engine.DB) (sdbN : Spec.SDB) (stmts : List EStmt), SpecRun sch db1 sdb1 stmts dbN sdbN →
      dbN.store.hdr.nextFree = db1.store.hdr.nextFree → ∀ (order : List Nat) (j : Nat) (o1 o2 : List Nat),
      ∃ db2, Engine.recover { store := tornFlush dbN.store order j, wal := dbN.wal } o1 o2 = .ok db2 ∧
        RoundsT sch db sdb db2 sdbN ∧ ∃ pt2 tbls2, Ckpt sch db2 sdbN pt2 tbls2 :=
  ⟨roundsT_ckpt hist h, fun _ _ _ run hnf order j o1 o2 => roundsT_torn_recovers h hist run hnf order j o1 o2⟩

/-- non-vacuity: the torn round of `C04_torn_flush_example` is a `RoundsT` history from the checkpointed
`tableDB` -/
example : ∃ db2, RoundsT schT tableDB sdbA0 db2 sdbA2 := by
  obtain ⟨dbN, run, hnf, _, hrec⟩ := torn_example
  obtain ⟨dbR, _, e, _⟩ := hrec [12288] 1
  exact ⟨dbR, .torn .nil run hnf e⟩

/-- **C04.any_mixture_of_boundary_pages_recovers** (`Redo.Image` for the concrete recovery model and real
logs: several flushes, torn anywhere).  `db` is checkpointed; statements take it through the boundary
databases `mids` to `dbN` (`SpecRunsNA`: a chain of `SpecRun`s; the allocation frontier at every boundary
is the one of `db`: no page allocated); `r0` is ANY data file such that at every page offset of the catalog
description of `db` (page table, `sys_schema`, every page of every user table) it holds the page object
that SOME database among `db :: mids` showed at that offset - independently per page: the checkpoint's
page, the page as of any later statement boundary, the final one -, under a header with the allocation
frontier and catalog root of `db` and counters not behind `db`'s (the header of the checkpoint or of
any later complete write).  `Engine.recover` on `r0` with the log of `dbN` succeeds, keeps the log, and
ends checkpointed for the plain database `sdbN` of ALL acknowledged statements; allocation frontier and
catalog root are the live ones, the counters are not behind the live ones.
`C04_torn_flush_without_allocation_recovers` is the case `mids = [dbN]`, every page the checkpoint's or
the final one. -/
theorem C04_any_mixture_of_boundary_pages_recovers {sch : Levels} {db dbN : Engine.DB} {sdb sdbN : Spec.SDB}
    {mids : List Engine.DB} {pt : Levels} {tbls : List (Bytes × Levels)} (h : Ckpt sch db sdb pt tbls)
    (runs : SpecRunsNA sch db sdb mids dbN sdbN) (r0 : Store)
    (hnf0 : r0.dhdr.nextFree = db.store.hdr.nextFree) (hpr0 : r0.dhdr.ptRoot = db.store.hdr.ptRoot)
    (hlk0 : db.store.hdr.lastKey ≤ r0.dhdr.lastKey) (hls0 : db.store.hdr.nextLSN ≤ r0.dhdr.nextLSN)
    (himg : ∀ x ∈ catTrees pt sch tbls, ∀ e ∈ flatten x, ∃ dbm ∈ db :: mids, ∃ n d,
      view dbm.store e.1 = some (n, d) ∧ assocGet r0.disk e.1 = some n)
    (o1 o2 : List Nat) :
    ∃ db' tblsL, Engine.recover { store := r0, wal := dbN.wal } o1 o2 = .ok db' ∧
      db'.wal = dbN.wal ∧ AbsV dbN.store pt sch tblsL sdbN ∧ Ckpt sch db' sdbN (clean pt) (cleanT tblsL) ∧
      db'.store.hdr.nextFree = dbN.store.hdr.nextFree ∧ dbN.store.hdr.lastKey ≤ db'.store.hdr.lastKey ∧
      db'.store.hdr.ptRoot = dbN.store.hdr.ptRoot ∧ dbN.store.hdr.nextLSN ≤ db'.store.hdr.nextLSN :=
  h.image_round runs r0 hnf0 hpr0 hlk0 hls0 himg o1 o2

/-- **C04.mixed_image_example** (non-vacuity of the theorem above, every database computed by the model):
from `tableDB2`: `INSERT INTO t VALUES (5)` (`db1`); `INSERT INTO u VALUES (8)` (`db2`);
`UPDATE t SET a = 7 WHERE a = 5` (`db3`).  The data file `mixedImage db1 db3` has the catalog pages of the
checkpoint, the leaf of `t` as `db1` showed it - neither the checkpoint's (empty) nor the final one (`(7)`) -
and the leaf of `u` as `db3` showed it, under the header of the checkpoint: pages of three moments, a file
no single torn flush leaves.  All hypotheses hold; recovery succeeds and ends checkpointed for the plain
database with `(7)` in `t` and `(8)` in `u`. -/
theorem C04_mixed_image_example : ∃ db1 db2 db3,
    SpecRunsNA schU tableDB2 sdbU0 [db1, db2, db3] db3 sdbU3 ∧ db3.wal.length = 3 ∧
    (∀ x ∈ catTrees ptU schU [(tname, tT), (uname, uT)], ∀ e ∈ flatten x, ∃ dbm ∈ [tableDB2, db1, db2, db3], ∃ n d,
      view dbm.store e.1 = some (n, d) ∧ assocGet (mixedImage db1 db3).disk e.1 = some n) ∧
    ∃ dbR tblsR, Engine.recover { store := mixedImage db1 db3, wal := db3.wal } [] [] = .ok dbR ∧
      dbR.wal = db3.wal ∧ Ckpt schU dbR sdbU3 (clean ptU) (cleanT tblsR) := image_example

/-- **C04.live_run_without_allocation_is_page_local**: a live run of row statements (`LiveRunM`: what
every `SpecRun` is, `spec_run_live`) whose final allocation frontier is the initial one is a history
`Hist` of page-local steps over the frozen skeleton of the catalog description it starts from: one
record per step; an INSERT record appends its cell to the last leaf of its table, an UPDATE / DELETE
record rewrites the cell in the leaf it names; `c j o` is the leaf page at offset `o` after `j` records;
the descriptions along the run are `fillT (c j) tbls`; the final row-id counter is the initial one or
the key of a logged INSERT. -/
theorem C04_live_run_without_allocation_is_page_local (sch : Levels) {s sN : Store}
    {tbls tblsN : List (Bytes × Levels)} {stmts : List RStmt} {logs : List WalRec}
    (run : LiveRunM sch s tbls stmts sN tblsN logs) (pt : Levels)
    (h : Cat s pt sch tbls) (hf : FreshM s tbls) (hnf : sN.hdr.nextFree = s.hdr.nextFree) :
    ∃ c : Nat → Pages, Hist pt sch tbls s.hdr.nextFree sN.hdr.lastKey logs c ∧ fillT (c 0) tbls = tbls ∧
      tblsN = fillT (c logs.length) tbls ∧ Cat sN pt sch tblsN ∧ FreshM sN tblsN ∧
      (sN.hdr.lastKey = s.hdr.lastKey ∨ ∃ r ∈ logs, r.op = c_OpInsert ∧ r.cell = sN.hdr.lastKey) ∧
      s.hdr.lastKey ≤ sN.hdr.lastKey :=
  live_run_hist sch run pt h hf hnf

/-- **C04.replay_over_any_mixture_of_page_versions** (the general form, about `replayAll` itself: every
placement of page writes, as in `Redo.Image`, for real logs).  `H`: a history of page-local steps
(`C04_live_run_without_allocation_is_page_local`) with log `log`; `k o ≤ log.length` arbitrary: the
number of records the page at leaf offset `o` had seen when it was last written - independently per
page: never written, written by a flush torn anywhere, written by an eviction at any moment.  `r0` is a
freshly opened store (`mem = []`) whose data file holds the frozen catalog and, at each leaf offset `o`,
the page as of moment `k o` (`OnDisk … (fillT (img c k) D0)`), with the allocation frontier and catalog
root of the history and ANY row-id counter that, together with the logged INSERT keys, reaches `K`.
The replay of `old ++ log` (`old`: records applied at the start of the history, e.g. the log before the
checkpoint) runs to its end without error; the store then holds the catalog with the leaf pages of the
END of the history (`c log.length`; `ρ` = which of them are dirty); a page left clean is the page of the
data file; the data file is untouched; the counters have passed every LSN and every INSERT key of the
log.  (That the catalog invariant - which bounds every key by the row-id counter - is false of the
store recovery starts from is bridged by `replayAll_raiseKey`: the replay commutes with raising the
counter.) -/
theorem C04_replay_over_any_mixture_of_page_versions {pt sch : Levels} {D0 : List (Bytes × Levels)} {nf K : Nat}
    {log : List WalRec} {c : Nat → Pages} (H : Hist pt sch D0 nf K log c) (hself : PtSelf pt) (k : Nat → Nat)
    (hk : ∀ o, k o ≤ log.length) (old : List WalRec) (hold : ∀ r ∈ old, AppliedC pt sch (fillT (c 0) D0) r)
    (r0 : Store) (hmem : r0.mem = []) (hdisk : OnDisk r0 pt sch (fillT (img c k) D0))
    (hnf : r0.hdr.nextFree = nf) (hpr : rootOff pt = r0.hdr.ptRoot)
    (hK : K ≤ r0.hdr.lastKey ∨ ∃ r ∈ old ++ log, r.op = c_OpInsert ∧ r.cell = K) :
    ∃ (rN : Store) (ρ : Nat → Bool), replayAll (old ++ log) r0 = (rN, none, false) ∧
      Cat rN pt sch (fillT (fun o => ((c log.length o).1, ρ o)) D0) ∧ rN.hdr.nextFree = nf ∧
      (∀ o, ρ o = false → (c log.length o).1 = (c (k o) o).1) ∧
      rN.disk = r0.disk ∧ rN.dhdr = r0.dhdr ∧ MemFiled rN ∧
      (∀ r ∈ old ++ log, r.lsn ≤ rN.hdr.nextLSN) ∧
      (∀ r ∈ old ++ log, r.op = c_OpInsert → r.cell ≤ rN.hdr.lastKey) ∧ r0.hdr.lastKey ≤ rN.hdr.lastKey ∧
      r0.hdr.nextLSN ≤ rN.hdr.nextLSN :=
  torn_image_replay H hself k hk old hold r0 hmem hdisk hnf hpr hK

/-- non-vacuity: the run of `C04_torn_flush_example` is such a history, of three records -/
example : ∃ (db2 : Engine.DB) (logs : List WalRec) (c : Nat → Pages),
    Hist ptT schT [(tname, tT)] tableDB.store.hdr.nextFree db2.store.hdr.lastKey logs c ∧ logs.length = 3 ∧
    db2.wal = logs := torn_hist_example

/-- **C04.replay_does_not_read_the_row_id_counter**: `replayAll` commutes with raising the row-id counter
of the store it starts from: same outcome, same pages, same other counters; the row-id counter of the
result raised by the same amount.  (On a torn image the pages hold row ids beyond the counter of the
header; recovery neither trips over that nor depends on it.) -/
theorem C04_replay_does_not_read_the_row_id_counter (log : List WalRec) (s : Store) (K : Nat) :
    replayAll log (raiseKey s K) = (raiseKey (replayAll log s).1 K, (replayAll log s).2) :=
  replayAll_raiseKey log s K

end Mkdb.Store
