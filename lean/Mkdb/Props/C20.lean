import Mkdb.Proofs.Console
import Mkdb.Proofs.ConsoleEditBytes
/-!
# C20 — the console submits exactly the statements that were typed

Property theorems only.  Helper lemmas and the session invariant are in `Mkdb/Proofs/Console.lean`,
those about the editing keys and the byte level in `Mkdb/Proofs/ConsoleEdit.lean`, `ConsoleEditBytes.lean`.
-/
namespace Mkdb.Console

/-- Enter on an input whose last top-level ';' is followed only by blanks submits exactly
the quote-aware split of the buffer and clears it (cursor at 0); every statement handed over becomes
a history entry (`addHistory`); paste mode and the rest of the state stay. -/
theorem C20_enter_complete (t : Term) (h : (splitStatements t.line).2.all isSpace = true) :
    step t keyEnter = (addHistory { t with line := [], pos := 0 } (splitStatements t.line).1,
      some (splitStatements t.line).1) := by
  have h' : (t.line.foldl feed {}).piece.reverse.all isSpace = true := h
  have := step_enter t
  rw [if_pos h'] at this
  exact this

/-- Enter on an incomplete input submits nothing and replaces the line break by one space - put
where the cursor is (`addKeyToLine`), which is the end of the line when nothing but printable keys
and Enter were typed (`C20_cursor_at_end`). -/
theorem C20_enter_incomplete (t : Term) (h : (splitStatements t.line).2.all isSpace = false) :
    step t keyEnter = (addKeyToLine t 32, none) := by
  have h' : ¬ (t.line.foldl feed {}).piece.reverse.all isSpace = true := by
    intro e
    have : (splitStatements t.line).2.all isSpace = true := e
    rw [h] at this; cases this
  have := step_enter t
  rw [if_neg h'] at this
  exact this

/-- Printable keys and Enter keep the cursor at the end of the line, where `addKeyToLine` appends. -/
theorem C20_cursor_at_end (t : Term) (keys : List Nat) (h : t.pos = t.line.length)
    (hvalid : ∀ k ∈ keys, k = 13 ∨ (isPrintable k = true ∧ k ≠ 13)) :
    (final t keys).pos = (final t keys).line.length ∧
      ∀ k, (addKeyToLine (final t keys) k).line = (final t keys).line ++ [k] := by
  have he : AtEnd (final t keys) :=
    (inv_run keys t (t.line.foldl feed {}) [] ⟨rfl, by simp, [], Blank.nil, by simp⟩ h hvalid).2
  exact ⟨he, fun k => (addKey_atEnd he k).1⟩

/-- A ';' inside a quoted literal never ends a statement: the automaton reports an end only
at top level. -/
theorem C20_semicolon_in_quote (q0 r : Nat) : (qstep (.inq q0) r).2 = false ∧ (qstep (.esc q0) r).2 = false := by
  constructor
  · simp only [qstep]; split <;> (try split) <;> rfl
  · rfl

/-- **C20.split**: a buffer made of well-formed statements (balanced quotes, the only ';'
outside quotes is the last character) separated by blanks splits into exactly those
statements, each without surrounding blanks — a ';' inside a literal does not split. -/
theorem C20_split (w0 : List Nat) (items : List (List Nat × List Nat))
    (hw0 : Blank w0) (hitems : ∀ p ∈ items, WFStmt p.1 ∧ Blank p.2) :
    splitStatements (w0 ++ items.flatMap (fun p => p.1 ++ p.2)) =
      (items.map (·.1), (items.getLast?.map (·.2)).getD w0) :=
  split_wf w0 items hw0 hitems

/-- **C20.session**: for every key sequence of printable keys and Enters, of ANY length, that
ends with a submitting Enter, all submissions together, in order, are the quote-aware split of
everything typed with each Enter read as one space.  (Until repair of the defect found at the
excluded point, this theorem carried the hypothesis `keys.length ≤ 4096`: the terminal dropped every
key beyond 4096 per entry in silence, losing or mutilating statements.) -/
theorem C20_session (keys : List Nat)
    (hvalid : ∀ k ∈ keys, k = 13 ∨ (isPrintable k = true ∧ k ≠ 13))
    (hlast : keys.getLast? = some 13)
    (hrest : Blank (splitStatements (keys.map (fun k => if k = 13 then 32 else k))).2) :
    (run {} keys).flatten = (splitStatements (keys.map (fun k => if k = 13 then 32 else k))).1 :=
  run_eq_split keys hvalid hlast hrest

/-- **C20.submit**: however a list of well-formed statements is typed — blanks or line
breaks between and (outside literals) inside them, several per line or one over many
lines — the console hands the engine exactly those statements, once each, in order, with
every literal intact. -/
theorem C20_submit (keys : List Nat) (w0 : List Nat) (items : List (List Nat × List Nat))
    (hvalid : ∀ k ∈ keys, k = 13 ∨ (isPrintable k = true ∧ k ≠ 13))
    (hlast : keys.getLast? = some 13)
    (hw0 : Blank w0) (hitems : ∀ p ∈ items, WFStmt p.1 ∧ Blank p.2)
    (htext : keys.map (fun k => if k = 13 then 32 else k) =
      w0 ++ items.flatMap (fun p => p.1 ++ p.2)) :
    (run {} keys).flatten = items.map (·.1) :=
  submit_exact keys w0 items hvalid hlast hw0 hitems htext

def codes (s : String) : List Nat := s.toList.map Char.toNat

example : (splitStatements (codes "SELECT 'a;b'; USE d;")).1 = [codes "SELECT 'a;b';", codes "USE d;"] := by decide

/-! ## The editing keys -/

/-- **C20.submission_is_split_of_buffer**: whatever keys came before (editing keys, history, pastes:
any key sequence `before`, from any state `t0`), Enter hands over exactly the quote-aware split of
the line buffer when what follows its last top-level ';' is blank, and nothing otherwise.  No hypotheses. -/
theorem C20_submission_is_split_of_buffer (t0 : Term) (before : List Nat) :
    (step (final t0 before) keyEnter).2 =
      if (splitStatements (final t0 before).line).2.all isSpace
      then some (splitStatements (final t0 before).line).1 else none := by
  by_cases h : (splitStatements (final t0 before).line).2.all isSpace = true
  · rw [C20_enter_complete _ h, if_pos h]
  · rw [C20_enter_incomplete _ (by simpa using h), if_neg h]

/-- The cursor never leaves the line: `pos ≤ len(line)` after every key sequence (so the hypothesis
of `C20_type_then_backspace` holds in every state the editor reaches). -/
theorem C20_cursor_inside_line (keys : List Nat) : (final {} keys).pos ≤ (final {} keys).line.length :=
  posOK_final keys {} (Nat.le_refl _)

/-- **Erase law**: outside paste mode, a printable key followed by backspace gives back the same
state - line, cursor and all the rest - wherever the cursor is, and hands over nothing.  Excluded:
paste mode (there backspace is a character), a cursor outside the line (never reached:
`C20_cursor_inside_line`). -/
theorem C20_type_then_backspace (t : Term) (hpa : t.pasteActive = false)
    (hpos : t.pos ≤ t.line.length) (k : Nat) (hk : isPrintable k = true) :
    step (step t k).1 keyBackspace = (t, none) :=
  type_backspace t hpa hpos hk

example : step (step { line := codes "SELCT", pos := 3 } 69).1 keyBackspace =
    ({ line := codes "SELCT", pos := 3 }, none) :=
  C20_type_then_backspace _ rfl (by decide) 69 (by decide)

/-- Outside paste mode both DEL (127) and ^H (8) are the backspace key. -/
theorem C20_backspace_bytes (rest : List Nat) :
    bytesToKey (127 :: rest) false = some (keyBackspace, rest) ∧
    bytesToKey (8 :: rest) false = some (keyBackspace, rest) := by
  constructor
  · simp [bytesToKey, ctrlKey, keyEscape, keyBackspace, decode1]
  · simp [bytesToKey, ctrlKey, keyBackspace]

/-- **^U** outside paste mode erases everything before the cursor - the whole buffer, which holds
the earlier lines of an unfinished statement too - and keeps what is behind it. -/
theorem C20_ctrlU (t : Term) (hpa : t.pasteActive = false) :
    step t keyCtrlU = ({ t with line := t.line.drop t.pos, pos := 0 }, none) :=
  step_ctrlU t hpa

/-- ... so with the cursor at the end of the line the buffer is empty afterwards. -/
theorem C20_ctrlU_at_end (t : Term) (hpa : t.pasteActive = false) (hend : t.pos = t.line.length) :
    (step t keyCtrlU).1.line = [] ∧ (step t keyCtrlU).1.pos = 0 := by
  rw [C20_ctrlU t hpa]
  simp [hend]

example : (step { line := codes "SELECT 1", pos := 8 } keyCtrlU).1.line = [] :=
  (C20_ctrlU_at_end _ rfl rfl).1

/-- **C20.typed_with_corrections**: a list of well-formed statements typed with any number of pairs
(a wrong printable key, backspace) put in anywhere (`Corrected noisy keys`) is handed over as the clean
list: exactly the statements, once each, in order.  Hypotheses as in `C20_submit`, on the clean keys. -/
theorem C20_typed_with_corrections (noisy keys : List Nat) (w0 : List Nat)
    (items : List (List Nat × List Nat))
    (hc : Corrected noisy keys)
    (hvalid : ∀ k ∈ keys, k = 13 ∨ (isPrintable k = true ∧ k ≠ 13))
    (hlast : keys.getLast? = some 13)
    (hw0 : Blank w0) (hitems : ∀ p ∈ items, WFStmt p.1 ∧ Blank p.2)
    (htext : keys.map (fun k => if k = 13 then 32 else k) =
      w0 ++ items.flatMap (fun p => p.1 ++ p.2)) :
    (run {} noisy).flatten = items.map (·.1) := by
  rw [run_corrected hc {} rfl (Nat.le_refl _) hvalid]
  exact submit_exact keys w0 items hvalid hlast hw0 hitems htext

/-- `US` `X` ⌫ `E d` `q` ⌫ `;` Enter is `USE d;` Enter with two corrections -/
example : Corrected ([85, 83, 88, 127, 69, 32, 100, 113, 127, 59, 13]) (codes "USE d;" ++ [13]) :=
  .key _ (.key _ (.fix 88 (by decide) (.key _ (.key _ (.key _ (.fix 113 (by decide) (.key _ (.key _ .nil))))))))

example : run {} [85, 83, 88, 127, 69, 32, 100, 113, 127, 59, 13] = [[codes "USE d;"]] := by decide

/-! ## Paste mode -/

/-- In paste mode every key except Enter - control characters, backspace, the special key values -
is put into the line at the cursor, verbatim; nothing is handed over. -/
theorem C20_paste_verbatim (t : Term) (hpa : t.pasteActive = true) (k : Nat) (hk : k ≠ keyEnter) :
    step t k = (addKeyToLine t k, none) := by
  rw [step, handleKey_paste t hpa hk]

example : (step { line := [97, 98], pos := 1, pasteActive := true } 127).1.line = [97, 127, 98] := by
  rw [C20_paste_verbatim _ rfl 127 (by decide)]; rfl

/-- A pasted text made of printable keys and Enter gives the same submissions as the same text
typed, from every state. -/
theorem C20_paste_same_as_typed (t : Term) (keys : List Nat)
    (hvalid : ∀ k ∈ keys, k = 13 ∨ (isPrintable k = true ∧ k ≠ 13)) :
    run { t with pasteActive := true } keys = run { t with pasteActive := false } keys :=
  run_setPaste true keys { t with pasteActive := false } hvalid

example : run { pasteActive := true } (codes "USE d;" ++ [13]) = [[codes "USE d;"]] := by decide

/-! ## The byte level -/

/-- **Typed as bytes**: the UTF-8 encoding of a printable key or Enter (a Unicode scalar value:
`validRune k = k`), whatever bytes follow, in and outside paste mode, is decoded by `bytesToKey`
to exactly that key, and the bytes that follow are left.  So a sequence of such keys arrives at
`handleKey` as it was typed, and the key-level theorems speak about what is typed as bytes.
Excluded: ESC and the control bytes (they are editing keys), the special key values. -/
theorem C20_bytes_decode (k : Nat) (hk : k = 13 ∨ isPrintable k = true) (hv : validRune k = k)
    (rest : List Nat) (paste : Bool) : bytesToKey (encodeRune k ++ rest) paste = some (k, rest) :=
  bytesToKey_encode hk hv rest paste

/-- 'é' (two bytes) followed by ';' -/
example : bytesToKey (encodeRune 233 ++ [59]) false = some (233, [59]) :=
  C20_bytes_decode 233 (Or.inr (by decide)) (by decide) [59] false

/-- **Typed as bytes, the session**: for a complete byte stream that is the UTF-8 text of printable
keys and Enters (`TypedKey`: Unicode scalar values; no ESC, no control bytes), the loop of `ReadLine`
calls (`session`: `bytesToKey`, the ^C/^D/paste tests of `readLine`, `handleKey`, the history) hands over
exactly what `run` says for the keys - so `C20_session`, `C20_submit` and the C20Parse theorems
speak about what the console reads from its input. -/
theorem C20_bytes_session (keys : List Nat) (hv : ∀ k ∈ keys, TypedKey k) :
    session (encodeKeys keys) = run {} keys :=
  session_typed keys hv

example : session (encodeKeys (codes "SELECT 'é;';" ++ [13])) = [[codes "SELECT 'é;';"]] := by
  rw [C20_bytes_session _ (by decide)]; decide

/-- the editing keys at the byte level: `SELECT 12` DEL `;` Enter, `ELECT 1;` ^A `S` Enter, and
`SELECT 1;` Enter ^P Enter (the history) -/
example : session (codes "SELECT 12" ++ [127] ++ codes ";" ++ [13]) = [[codes "SELECT 1;"]] := by decide
example : session (codes "ELECT 1;" ++ [1] ++ codes "S" ++ [13]) = [[codes "SELECT 1;"]] := by decide
example : session (codes "SELECT 1;" ++ [13, 16, 13]) = [[codes "SELECT 1;"], [codes "SELECT 1;"]] := by decide

end Mkdb.Console
