import Mkdb.Proofs.Console
/-!
# C20 — the console submits exactly the statements that were typed

Property theorems only.  Helper lemmas and the session invariant are in `Mkdb/Proofs/Console.lean`.
-/
namespace Mkdb.Console

/-- Enter on an input whose last top-level ';' is followed only by blanks submits exactly
the quote-aware split of the buffer and clears it. -/
theorem C20_enter_complete (t : Term) (h : (splitStatements t.line).2.all isSpace = true) :
    step t keyEnter = ({ line := [] }, some (splitStatements t.line).1) := by
  simp [step, keyEnter, h]

/-- Enter on an incomplete input submits nothing and replaces the line break by one space. -/
theorem C20_enter_incomplete (t : Term) (h : (splitStatements t.line).2.all isSpace = false) :
    step t keyEnter = ({ line := t.line ++ [32] }, none) := by
  simp [step, keyEnter, h]

/-- A ';' inside a quoted literal never ends a statement: the automaton reports an end only
at top level. -/
theorem C20_semicolon_in_quote (q0 r : Nat) : (qstep (.inq q0) r).2 = false ∧ (qstep (.esc q0) r).2 = false := by
  constructor
  · simp only [qstep]; split <;> (try split) <;> rfl
  · rfl

/-- **C20.split**: a buffer made of well-formed statements (balanced quotes, the only ';'
outside quotes is the last character) separated by blanks splits into exactly those
statements, each without surrounding blanks — a ';' inside a literal does not split. -/
theorem C20_split (w0 : List Nat) (items : List (List Nat × List Nat))
    (hw0 : Blank w0) (hitems : ∀ p ∈ items, WFStmt p.1 ∧ Blank p.2) :
    splitStatements (w0 ++ items.flatMap (fun p => p.1 ++ p.2)) =
      (items.map (·.1), (items.getLast?.map (·.2)).getD w0) :=
  split_wf w0 items hw0 hitems

/-- **C20.session**: for every key sequence of printable keys and Enters, of ANY length, that
ends with a submitting Enter, all submissions together, in order, are the quote-aware split of
everything typed with each Enter read as one space.  (Until repair of the defect found at the
excluded point, this theorem carried the hypothesis `keys.length ≤ 4096`: the terminal dropped every
key beyond 4096 per entry in silence, losing or mutilating statements.) -/
theorem C20_session (keys : List Nat)
    (hvalid : ∀ k ∈ keys, k = 13 ∨ (isPrintable k = true ∧ k ≠ 13))
    (hlast : keys.getLast? = some 13)
    (hrest : Blank (splitStatements (keys.map (fun k => if k = 13 then 32 else k))).2) :
    (run {} keys).flatten = (splitStatements (keys.map (fun k => if k = 13 then 32 else k))).1 :=
  run_eq_split keys hvalid hlast hrest

/-- **C20.submit**: however a list of well-formed statements is typed — blanks or line
breaks between and (outside literals) inside them, several per line or one over many
lines — the console hands the engine exactly those statements, once each, in order, with
every literal intact. -/
theorem C20_submit (keys : List Nat) (w0 : List Nat) (items : List (List Nat × List Nat))
    (hvalid : ∀ k ∈ keys, k = 13 ∨ (isPrintable k = true ∧ k ≠ 13))
    (hlast : keys.getLast? = some 13)
    (hw0 : Blank w0) (hitems : ∀ p ∈ items, WFStmt p.1 ∧ Blank p.2)
    (htext : keys.map (fun k => if k = 13 then 32 else k) =
      w0 ++ items.flatMap (fun p => p.1 ++ p.2)) :
    (run {} keys).flatten = items.map (·.1) :=
  submit_exact keys w0 items hvalid hlast hw0 hitems htext

def codes (s : String) : List Nat := s.toList.map Char.toNat

example : (splitStatements (codes "SELECT 'a;b'; USE d;")).1 = [codes "SELECT 'a;b';", codes "USE d;"] := by decide

end Mkdb.Console
