import Mkdb.Proofs.Console
import Mkdb.Proofs.ConsoleEditBytes
import Mkdb.Proofs.ConsoleHist2
import Mkdb.Proofs.ConsoleHist3
import Mkdb.Proofs.ConsoleHist4
import Mkdb.Proofs.ConsoleMore4
/-!
# C20 — the console submits exactly the statements that were typed

Property theorems only.  Helper lemmas and the session invariant are in `Mkdb/Proofs/Console.lean`,
those about the editing keys and the byte level in `Mkdb/Proofs/ConsoleEdit.lean`, `ConsoleEditBytes.lean`,
those about nested corrections, ^U, the history and the movement keys in `Mkdb/Proofs/ConsoleHist1.lean` - `ConsoleHist4.lean`,
those about the session on any byte stream, bracketed paste as bytes, ^K ^D ^W, Up and Down in `Mkdb/Proofs/ConsoleMore1.lean` - `ConsoleMore4.lean`.
-/
namespace Mkdb.Console

/-- Enter on an input whose last top-level ';' is followed only by blanks submits exactly
the quote-aware split of the buffer and clears it (cursor at 0); every statement handed over becomes
a history entry (`addHistory`); paste mode and the rest of the state stay. -/
theorem C20_enter_complete (t : Term) (h : (splitStatements t.line).2.all isSpace = true) :
    step t keyEnter = (addHistory { t with line := [], pos := 0 } (splitStatements t.line).1,
      some (splitStatements t.line).1) := by
  have h' : (t.line.foldl feed {}).piece.reverse.all isSpace = true := h
  have := step_enter t
  rw [if_pos h'] at this
  exact this

/-- Enter on an incomplete input submits nothing and replaces the line break by one space - put
where the cursor is (`addKeyToLine`), which is the end of the line when nothing but printable keys
and Enter were typed (`C20_cursor_at_end`). -/
theorem C20_enter_incomplete (t : Term) (h : (splitStatements t.line).2.all isSpace = false) :
    step t keyEnter = (addKeyToLine t 32, none) := by
  have h' : ¬ (t.line.foldl feed {}).piece.reverse.all isSpace = true := by
    intro e
    have : (splitStatements t.line).2.all isSpace = true := e
    rw [h] at this; cases this
  have := step_enter t
  rw [if_neg h'] at this
  exact this

/-- Printable keys and Enter keep the cursor at the end of the line, where `addKeyToLine` appends. -/
theorem C20_cursor_at_end (t : Term) (keys : List Nat) (h : t.pos = t.line.length)
    (hvalid : ∀ k ∈ keys, k = 13 ∨ (isPrintable k = true ∧ k ≠ 13)) :
    (final t keys).pos = (final t keys).line.length ∧
      ∀ k, (addKeyToLine (final t keys) k).line = (final t keys).line ++ [k] := by
  have he : AtEnd (final t keys) :=
    (inv_run keys t (t.line.foldl feed {}) [] ⟨rfl, by simp, [], Blank.nil, by simp⟩ h hvalid).2
  exact ⟨he, fun k => (addKey_atEnd he k).1⟩

/-- A ';' inside a quoted literal never ends a statement: the automaton reports an end only
at top level. -/
theorem C20_semicolon_in_quote (q0 r : Nat) : (qstep (.inq q0) r).2 = false ∧ (qstep (.esc q0) r).2 = false := by
  constructor
  · simp only [qstep]; split <;> (try split) <;> rfl
  · rfl

/-- **C20.split**: a buffer made of well-formed statements (balanced quotes, the only ';'
outside quotes is the last character) separated by blanks splits into exactly those
statements, each without surrounding blanks — a ';' inside a literal does not split. -/
theorem C20_split (w0 : List Nat) (items : List (List Nat × List Nat))
    (hw0 : Blank w0) (hitems : ∀ p ∈ items, WFStmt p.1 ∧ Blank p.2) :
    splitStatements (w0 ++ items.flatMap (fun p => p.1 ++ p.2)) =
      (items.map (·.1), (items.getLast?.map (·.2)).getD w0) :=
  split_wf w0 items hw0 hitems

/-- **C20.session**: for every key sequence of printable keys and Enters, of ANY length, that
ends with a submitting Enter, all submissions together, in order, are the quote-aware split of
everything typed with each Enter read as one space.  (Until repair of the defect found at the
excluded point, this theorem carried the hypothesis `keys.length ≤ 4096`: the terminal dropped every
key beyond 4096 per entry in silence, losing or mutilating statements.) -/
theorem C20_session (keys : List Nat)
    (hvalid : ∀ k ∈ keys, k = 13 ∨ (isPrintable k = true ∧ k ≠ 13))
    (hlast : keys.getLast? = some 13)
    (hrest : Blank (splitStatements (keys.map (fun k => if k = 13 then 32 else k))).2) :
    (run {} keys).flatten = (splitStatements (keys.map (fun k => if k = 13 then 32 else k))).1 :=
  run_eq_split keys hvalid hlast hrest

/-- **C20.submit**: however a list of well-formed statements is typed — blanks or line
breaks between and (outside literals) inside them, several per line or one over many
lines — the console hands the engine exactly those statements, once each, in order, with
every literal intact. -/
theorem C20_submit (keys : List Nat) (w0 : List Nat) (items : List (List Nat × List Nat))
    (hvalid : ∀ k ∈ keys, k = 13 ∨ (isPrintable k = true ∧ k ≠ 13))
    (hlast : keys.getLast? = some 13)
    (hw0 : Blank w0) (hitems : ∀ p ∈ items, WFStmt p.1 ∧ Blank p.2)
    (htext : keys.map (fun k => if k = 13 then 32 else k) =
      w0 ++ items.flatMap (fun p => p.1 ++ p.2)) :
    (run {} keys).flatten = items.map (·.1) :=
  submit_exact keys w0 items hvalid hlast hw0 hitems htext

def codes (s : String) : List Nat := s.toList.map Char.toNat

example : (splitStatements (codes "SELECT 'a;b'; USE d;")).1 = [codes "SELECT 'a;b';", codes "USE d;"] := by decide

/-! ## The editing keys -/

/-- **C20.submission_is_split_of_buffer**: whatever keys came before (editing keys, history, pastes:
any key sequence `before`, from any state `t0`), Enter hands over exactly the quote-aware split of
the line buffer when what follows its last top-level ';' is blank, and nothing otherwise.  No hypotheses. -/
theorem C20_submission_is_split_of_buffer (t0 : Term) (before : List Nat) :
    (step (final t0 before) keyEnter).2 =
      if (splitStatements (final t0 before).line).2.all isSpace
      then some (splitStatements (final t0 before).line).1 else none := by
  by_cases h : (splitStatements (final t0 before).line).2.all isSpace = true
  · rw [C20_enter_complete _ h, if_pos h]
  · rw [C20_enter_incomplete _ (by simpa using h), if_neg h]

/-- The cursor never leaves the line: `pos ≤ len(line)` after every key sequence (so the hypothesis
of `C20_type_then_backspace` holds in every state the editor reaches). -/
theorem C20_cursor_inside_line (keys : List Nat) : (final {} keys).pos ≤ (final {} keys).line.length :=
  posOK_final keys {} (Nat.le_refl _)

/-- **Erase law**: outside paste mode, a printable key followed by backspace gives back the same
state - line, cursor and all the rest - wherever the cursor is, and hands over nothing.  Excluded:
paste mode (there backspace is a character), a cursor outside the line (never reached:
`C20_cursor_inside_line`). -/
theorem C20_type_then_backspace (t : Term) (hpa : t.pasteActive = false)
    (hpos : t.pos ≤ t.line.length) (k : Nat) (hk : isPrintable k = true) :
    step (step t k).1 keyBackspace = (t, none) :=
  type_backspace t hpa hpos hk

example : step (step { line := codes "SELCT", pos := 3 } 69).1 keyBackspace =
    ({ line := codes "SELCT", pos := 3 }, none) :=
  C20_type_then_backspace _ rfl (by decide) 69 (by decide)

/-- Outside paste mode both DEL (127) and ^H (8) are the backspace key. -/
theorem C20_backspace_bytes (rest : List Nat) :
    bytesToKey (127 :: rest) false = some (keyBackspace, rest) ∧
    bytesToKey (8 :: rest) false = some (keyBackspace, rest) := by
  constructor
  · simp [bytesToKey, ctrlKey, keyEscape, keyBackspace, decode1]
  · simp [bytesToKey, ctrlKey, keyBackspace]

/-- **^U** outside paste mode erases everything before the cursor - the whole buffer, which holds
the earlier lines of an unfinished statement too - and keeps what is behind it. -/
theorem C20_ctrlU (t : Term) (hpa : t.pasteActive = false) :
    step t keyCtrlU = ({ t with line := t.line.drop t.pos, pos := 0 }, none) :=
  step_ctrlU t hpa

/-- ... so with the cursor at the end of the line the buffer is empty afterwards. -/
theorem C20_ctrlU_at_end (t : Term) (hpa : t.pasteActive = false) (hend : t.pos = t.line.length) :
    (step t keyCtrlU).1.line = [] ∧ (step t keyCtrlU).1.pos = 0 := by
  rw [C20_ctrlU t hpa]
  simp [hend]

example : (step { line := codes "SELECT 1", pos := 8 } keyCtrlU).1.line = [] :=
  (C20_ctrlU_at_end _ rfl rfl).1

/-- **C20.typed_with_corrections**: a list of well-formed statements typed with any number of pairs
(a wrong printable key, backspace) put in anywhere (`Corrected noisy keys`) is handed over as the clean
list: exactly the statements, once each, in order.  Hypotheses as in `C20_submit`, on the clean keys. -/
theorem C20_typed_with_corrections (noisy keys : List Nat) (w0 : List Nat)
    (items : List (List Nat × List Nat))
    (hc : Corrected noisy keys)
    (hvalid : ∀ k ∈ keys, k = 13 ∨ (isPrintable k = true ∧ k ≠ 13))
    (hlast : keys.getLast? = some 13)
    (hw0 : Blank w0) (hitems : ∀ p ∈ items, WFStmt p.1 ∧ Blank p.2)
    (htext : keys.map (fun k => if k = 13 then 32 else k) =
      w0 ++ items.flatMap (fun p => p.1 ++ p.2)) :
    (run {} noisy).flatten = items.map (·.1) := by
  rw [run_corrected hc {} rfl (Nat.le_refl _) hvalid]
  exact submit_exact keys w0 items hvalid hlast hw0 hitems htext

/-- `US` `X` ⌫ `E d` `q` ⌫ `;` Enter is `USE d;` Enter with two corrections -/
example : Corrected ([85, 83, 88, 127, 69, 32, 100, 113, 127, 59, 13]) (codes "USE d;" ++ [13]) :=
  .key _ (.key _ (.fix 88 (by decide) (.key _ (.key _ (.key _ (.fix 113 (by decide) (.key _ (.key _ .nil))))))))

example : run {} [85, 83, 88, 127, 69, 32, 100, 113, 127, 59, 13] = [[codes "USE d;"]] := by decide

/-! ## Paste mode -/

/-- In paste mode every key except Enter - control characters, backspace, the special key values -
is put into the line at the cursor, verbatim; nothing is handed over. -/
theorem C20_paste_verbatim (t : Term) (hpa : t.pasteActive = true) (k : Nat) (hk : k ≠ keyEnter) :
    step t k = (addKeyToLine t k, none) := by
  rw [step, handleKey_paste t hpa hk]

example : (step { line := [97, 98], pos := 1, pasteActive := true } 127).1.line = [97, 127, 98] := by
  rw [C20_paste_verbatim _ rfl 127 (by decide)]; rfl

/-- A pasted text made of printable keys and Enter gives the same submissions as the same text
typed, from every state. -/
theorem C20_paste_same_as_typed (t : Term) (keys : List Nat)
    (hvalid : ∀ k ∈ keys, k = 13 ∨ (isPrintable k = true ∧ k ≠ 13)) :
    run { t with pasteActive := true } keys = run { t with pasteActive := false } keys :=
  run_setPaste true keys { t with pasteActive := false } hvalid

example : run { pasteActive := true } (codes "USE d;" ++ [13]) = [[codes "USE d;"]] := by decide

/-! ## The byte level -/

/-- **Typed as bytes**: the UTF-8 encoding of a printable key or Enter (a Unicode scalar value:
`validRune k = k`), whatever bytes follow, in and outside paste mode, is decoded by `bytesToKey`
to exactly that key, and the bytes that follow are left.  So a sequence of such keys arrives at
`handleKey` as it was typed, and the key-level theorems speak about what is typed as bytes.
Excluded: ESC and the control bytes (they are editing keys), the special key values. -/
theorem C20_bytes_decode (k : Nat) (hk : k = 13 ∨ isPrintable k = true) (hv : validRune k = k)
    (rest : List Nat) (paste : Bool) : bytesToKey (encodeRune k ++ rest) paste = some (k, rest) :=
  bytesToKey_encode hk hv rest paste

/-- 'é' (two bytes) followed by ';' -/
example : bytesToKey (encodeRune 233 ++ [59]) false = some (233, [59]) :=
  C20_bytes_decode 233 (Or.inr (by decide)) (by decide) [59] false

/-- **Typed as bytes, the session**: for a complete byte stream that is the UTF-8 text of printable
keys and Enters (`TypedKey`: Unicode scalar values; no ESC, no control bytes), the loop of `ReadLine`
calls (`session`: `bytesToKey`, the ^C/^D/paste tests of `readLine`, `handleKey`, the history) hands over
exactly what `run` says for the keys - so `C20_session`, `C20_submit` and the C20Parse theorems
speak about what the console reads from its input. -/
theorem C20_bytes_session (keys : List Nat) (hv : ∀ k ∈ keys, TypedKey k) :
    session (encodeKeys keys) = run {} keys :=
  session_typed keys hv

example : session (encodeKeys (codes "SELECT 'é;';" ++ [13])) = [[codes "SELECT 'é;';"]] := by
  rw [C20_bytes_session _ (by decide)]; decide

/-- the editing keys at the byte level: `SELECT 12` DEL `;` Enter, `ELECT 1;` ^A `S` Enter, and
`SELECT 1;` Enter ^P Enter (the history) -/
example : session (codes "SELECT 12" ++ [127] ++ codes ";" ++ [13]) = [[codes "SELECT 1;"]] := by decide
example : session (codes "ELECT 1;" ++ [1] ++ codes "S" ++ [13]) = [[codes "SELECT 1;"]] := by decide
example : session (codes "SELECT 1;" ++ [13, 16, 13]) = [[codes "SELECT 1;"], [codes "SELECT 1;"]] := by decide

/-! ## Nested corrections, ^U -/

/-- A block of `n` printable keys followed by `n` backspaces (`w1 w2 ⌫ ⌫`) is a balanced sequence
(`Noise`: a backspace erases the last printable key of the sequence not erased yet, every key of the
sequence is erased); so are balanced sequences nested in or following each other. -/
theorem C20_correction_block (ws : List Nat) (h : ∀ w ∈ ws, isPrintable w = true) :
    Noise (ws ++ List.replicate ws.length keyBackspace) :=
  noise_block ws h

example : Noise [88, 89, 127, 127] := C20_correction_block [88, 89] (by decide)

/-- **Nested corrections change nothing.**  A key sequence with balanced sequences of printable keys and
backspaces put in anywhere, any number of times (`CorrectedN noisy clean`; backspace is what both DEL and
^H decode to, `C20_backspace_bytes`), hands over exactly what the clean sequence of printable keys and
Enters does, and ends in the same state (line, cursor, history, all of it) - from every state outside
paste mode whose cursor is inside the line.  Excluded: paste mode (there backspace is a character), a
cursor outside the line (never reached: `C20_cursor_inside_line`). -/
theorem C20_nested_corrections_same_run (noisy clean : List Nat) (hc : CorrectedN noisy clean) (t : Term)
    (hpa : t.pasteActive = false) (hpos : t.pos ≤ t.line.length)
    (hvalid : ∀ k ∈ clean, k = 13 ∨ (isPrintable k = true ∧ k ≠ 13)) :
    run t noisy = run t clean ∧ final t noisy = final t clean :=
  run_correctedN hc t hpa hpos hvalid

/-- `US` `XY` ⌫ ⌫ `E d` `q` `r` ⌫ `s` ⌫ ⌫ `;` Enter is `USE d;` Enter: a block of two, and a nested one -/
example : CorrectedN ([85, 83, 88, 89, 127, 127, 69, 32, 100, 113, 114, 127, 115, 127, 127, 59, 13])
    (codes "USE d;" ++ [13]) :=
  .key _ (.key _ (.noise (m := [88, 89, 127, 127]) (C20_correction_block [88, 89] (by decide))
    (.key _ (.key _ (.key _ (.noise (m := [113, 114, 127, 115, 127, 127])
      (.wrap 113 (by decide) (m := [114, 127, 115, 127])
        (.append (.wrap 114 (by decide) .nil) (.wrap 115 (by decide) .nil)))
      (.key _ (.key _ .nil))))))))

/-- **C20.typed_with_nested_corrections**: a list of well-formed statements typed with any number of
corrections - blocks of wrong printable keys erased again by as many backspaces, nested and repeated
anywhere (`CorrectedN noisy keys`) - is handed over as the clean list: exactly the statements, once each,
in order.  Hypotheses as in `C20_submit`, on the clean keys. -/
theorem C20_typed_with_nested_corrections (noisy keys : List Nat) (w0 : List Nat)
    (items : List (List Nat × List Nat))
    (hc : CorrectedN noisy keys)
    (hvalid : ∀ k ∈ keys, k = 13 ∨ (isPrintable k = true ∧ k ≠ 13))
    (hlast : keys.getLast? = some 13)
    (hw0 : Blank w0) (hitems : ∀ p ∈ items, WFStmt p.1 ∧ Blank p.2)
    (htext : keys.map (fun k => if k = 13 then 32 else k) =
      w0 ++ items.flatMap (fun p => p.1 ++ p.2)) :
    (run {} noisy).flatten = items.map (·.1) := by
  rw [(run_correctedN hc {} rfl (Nat.le_refl _) hvalid).1]
  exact submit_exact keys w0 items hvalid hlast hw0 hitems htext

example : run {} [85, 83, 88, 89, 127, 127, 69, 32, 100, 113, 114, 127, 115, 127, 127, 59, 13] =
    [[codes "USE d;"]] := by decide

/-- **^U after typing**: outside paste mode, whatever printable keys were typed just before ^U are gone
with it - the state after them and ^U is the state after ^U alone (everything before the cursor erased);
nothing is handed over.  With the cursor at the beginning of the line - in particular on an empty line,
as after a submission - the state is exactly the one before the keys. -/
theorem C20_ctrlU_wipes_typed (ws : List Nat) (t : Term) (hpa : t.pasteActive = false)
    (hpos : t.pos ≤ t.line.length) (h : ∀ w ∈ ws, isPrintable w = true) :
    run t (ws ++ [keyCtrlU]) = [] ∧
    final t (ws ++ [keyCtrlU]) = { t with line := t.line.drop t.pos, pos := 0 } ∧
    (t.pos = 0 → final t (ws ++ [keyCtrlU]) = t) :=
  ⟨(typed_then_ctrlU ws t hpa hpos h).1, (typed_then_ctrlU ws t hpa hpos h).2,
    fun h0 => (typed_then_ctrlU_id ws t hpa h0 h).2⟩

example : final {} (codes "SELEKT 1;" ++ [keyCtrlU]) = {} :=
  (C20_ctrlU_wipes_typed (codes "SELEKT 1;") {} rfl (Nat.le_refl _) (by decide)).2.2 rfl

/-- **A mistyped line wiped by ^U** is as if never typed: after printable keys and Enters that leave the
line empty (`pre`; e.g. nothing, or whole statements ending with a submitting Enter), printable keys
followed by ^U change no submission of what is typed afterwards. -/
theorem C20_wiped_line_same_run (pre junk keys : List Nat)
    (hpre : ∀ k ∈ pre, k = 13 ∨ (isPrintable k = true ∧ k ≠ 13))
    (hempty : (final {} pre).line = []) (hjunk : ∀ w ∈ junk, isPrintable w = true) :
    run {} (pre ++ junk ++ keyCtrlU :: keys) = run {} (pre ++ keys) :=
  run_wiped pre junk keys hpre hempty hjunk

/-- **C20.wiped_line_retyped**: statements typed (`pre`, leaving an empty line), then a whole mistyped
line wiped by ^U, then typed again correctly: exactly the well-formed statements of `pre ++ keys` are
handed over, once each, in order - nothing of the wiped line.  Hypotheses as in `C20_submit` on
`pre ++ keys`. -/
theorem C20_wiped_line_retyped (pre junk keys : List Nat) (w0 : List Nat)
    (items : List (List Nat × List Nat))
    (hempty : (final {} pre).line = []) (hjunk : ∀ w ∈ junk, isPrintable w = true)
    (hvalid : ∀ k ∈ pre ++ keys, k = 13 ∨ (isPrintable k = true ∧ k ≠ 13))
    (hlast : (pre ++ keys).getLast? = some 13)
    (hw0 : Blank w0) (hitems : ∀ p ∈ items, WFStmt p.1 ∧ Blank p.2)
    (htext : (pre ++ keys).map (fun k => if k = 13 then 32 else k) =
      w0 ++ items.flatMap (fun p => p.1 ++ p.2)) :
    (run {} (pre ++ junk ++ keyCtrlU :: keys)).flatten = items.map (·.1) := by
  rw [run_wiped pre junk keys (fun k hk => hvalid k (List.mem_append.mpr (Or.inl hk))) hempty hjunk]
  exact submit_exact _ w0 items hvalid hlast hw0 hitems htext

/-- `USE a;` Enter `USE bb;` ^U `USE b;` Enter -/
example : run {} ((codes "USE a;" ++ [13]) ++ codes "USE bb;" ++ keyCtrlU :: (codes "USE b;" ++ [13])) =
    run {} ((codes "USE a;" ++ [13]) ++ (codes "USE b;" ++ [13])) :=
  C20_wiped_line_same_run _ _ _ (by decide) (by decide) (by decide)

example : run {} ((codes "USE a;" ++ [13]) ++ codes "USE bb;" ++ keyCtrlU :: (codes "USE b;" ++ [13])) =
    [[codes "USE a;"], [codes "USE b;"]] := by decide

/-! ## The history -/

/-- Every statement the splitter returns - so every statement the console hands over, whatever was
typed, pasted or edited (`C20_submission_is_split_of_buffer`) - is well formed: it ends with its only
top-level ';', its quotes are balanced, it begins with no blank; and alone in the buffer it splits into
itself with nothing left.  No hypotheses. -/
theorem C20_split_outputs_wellformed (l : List Nat) :
    ∀ s ∈ (splitStatements l).1, WFStmt s ∧ splitStatements s = ([s], []) :=
  fun s hs => ⟨split_outputs_wf l s hs, split_single (split_outputs_wf l s hs)⟩

/-- **What the history holds**: after printable keys and Enters that are Unicode scalar values
(`TypedKey`; a value that is none would be stored as U+FFFD), the ring holds the statements handed over,
one entry per statement, the most recent first, at most 100; the editor is not inside the history
(`historyIndex = -1`). -/
theorem C20_history_holds_submissions (keys : List Nat) (hv : ∀ k ∈ keys, TypedKey k) :
    (final {} keys).history = (run {} keys).flatten.reverse.take 100 ∧ (final {} keys).historyIndex = -1 := by
  obtain ⟨g, hh, _⟩ := good_run keys {} good_init hv
  exact ⟨by rw [hh]; simp, g.idx⟩

example : (final {} (codes "USE a; USE b;" ++ [13])).history = [codes "USE b;", codes "USE a;"] := by
  rw [(C20_history_holds_submissions _ (by decide)).1]; decide

/-- **C20.recall_resubmits_exactly**: after any sequence of typed keys (printable keys and Enters,
Unicode scalar values) that handed over the statements `s_1 … s_n` in all, pressing Up `k` times
(`1 ≤ k ≤ n`, `k ≤ 100`, the size of the ring) and Enter hands over exactly `[s_(n-k+1)]` - the `k`-th most
recent statement, text intact, once, alone - and nothing else; whatever was in the line before the first Up
(an unfinished input is kept aside as `historyPending`) is not handed over.  Excluded: key values that are
no Unicode scalar values (possible only in paste mode; the entry then holds U+FFFD), `k` beyond the
entries there are (`Up` then stays at the oldest entry). -/
theorem C20_recall_resubmits_exactly (keys : List Nat) (hv : ∀ k ∈ keys, TypedKey k) (k : Nat)
    (hk1 : 1 ≤ k) (hkn : k ≤ (run {} keys).flatten.length) (hk100 : k ≤ 100) :
    run {} (keys ++ List.replicate k keyUp ++ [keyEnter]) =
      run {} keys ++ [[(run {} keys).flatten[(run {} keys).flatten.length - k]]] :=
  recall keys hv k hk1 hkn hk100

/-- `USE a; USE b;` Enter `USE c;` Enter, then Up Up Up Enter: `USE a;` again; with an unfinished `SEL`
in the line before the Ups: the same -/
example : run {} (codes "USE a; USE b;" ++ [13] ++ codes "USE c;" ++ [13] ++ List.replicate 3 keyUp ++ [keyEnter]) =
    run {} (codes "USE a; USE b;" ++ [13] ++ codes "USE c;" ++ [13]) ++ [[codes "USE a;"]] :=
  C20_recall_resubmits_exactly _ (by decide) 3 (by decide) (by decide) (by decide)

example : run {} (codes "USE a; USE b;" ++ [13] ++ codes "USE c;" ++ [13] ++ codes "SEL" ++ [keyUp, keyUp, 13]) =
    [[codes "USE a;", codes "USE b;"], [codes "USE c;"], [codes "USE b;"]] := by decide

/-! ## The movement keys -/

/-- **Movement changes no text**: outside paste mode the keys Left, Right, Home, End, Alt-Left, Alt-Right
and ^L (`isMove`) hand over nothing and change nothing but the cursor position, which stays inside the
line when it was. -/
theorem C20_movement_keeps_text (t : Term) (hpa : t.pasteActive = false) (k : Nat) (hk : isMove k = true) :
    ∃ p, step t k = ({ t with pos := p }, none) ∧ (t.pos ≤ t.line.length → p ≤ t.line.length) := by
  obtain ⟨p, hs⟩ := step_move t hpa hk
  refine ⟨p, hs, fun h => ?_⟩
  have := posOK_step t h k
  rw [hs] at this
  exact this

example : ∃ p, step { line := codes "SELECT 1", pos := 8 } keyAltLeft = ({ line := codes "SELECT 1", pos := p }, none) ∧
    (8 ≤ (codes "SELECT 1").length → p ≤ (codes "SELECT 1").length) :=
  C20_movement_keeps_text { line := codes "SELECT 1", pos := 8 } rfl keyAltLeft (by decide)

example : (step { line := codes "SELECT 1", pos := 8 } keyAltLeft).1.pos = 7 := by decide

/-- **Edits change nothing**: a key sequence with, put in anywhere and any number of times, corrections
(balanced sequences of printable keys and backspaces) and blocks of movement keys each closed by End
(`Edited noisy clean`; ^E decodes to End) hands over exactly what the clean sequence of printable keys and
Enters does - from every state outside paste mode with the cursor at the end of the line.  Excluded: a
movement block not closed by End before the next key (the key then goes in where the cursor is: that is
editing, not noise), paste mode. -/
theorem C20_edits_same_run (noisy clean : List Nat) (hc : Edited noisy clean) (t : Term)
    (hpa : t.pasteActive = false) (hend : t.pos = t.line.length)
    (hvalid : ∀ k ∈ clean, k = 13 ∨ (isPrintable k = true ∧ k ≠ 13)) :
    run t noisy = run t clean :=
  run_edited hc t hpa hend hvalid

/-- **C20.typed_with_edits**: a list of well-formed statements typed with corrections and with cursor
movements each closed by End before typing goes on is handed over as the clean list: exactly the
statements, once each, in order.  Hypotheses as in `C20_submit`, on the clean keys. -/
theorem C20_typed_with_edits (noisy keys : List Nat) (w0 : List Nat)
    (items : List (List Nat × List Nat))
    (hc : Edited noisy keys)
    (hvalid : ∀ k ∈ keys, k = 13 ∨ (isPrintable k = true ∧ k ≠ 13))
    (hlast : keys.getLast? = some 13)
    (hw0 : Blank w0) (hitems : ∀ p ∈ items, WFStmt p.1 ∧ Blank p.2)
    (htext : keys.map (fun k => if k = 13 then 32 else k) =
      w0 ++ items.flatMap (fun p => p.1 ++ p.2)) :
    (run {} noisy).flatten = items.map (·.1) := by
  rw [run_edited hc {} rfl rfl hvalid]
  exact submit_exact keys w0 items hvalid hlast hw0 hitems htext

/-- `USE` Home Alt-Right End ` d` `x` ⌫ Left Left End `;` Enter Left is `USE d;` Enter -/
example : Edited ([85, 83, 69, keyHome, keyAltRight, keyEnd, 32, 100, 120, 127, keyLeft, keyLeft, keyEnd, 59, 13,
    keyLeft]) (codes "USE d;" ++ [13]) :=
  .key _ (.key _ (.key _ (.move (ms := [keyHome, keyAltRight]) (by decide)
    (.key _ (.key _ (.noise (m := [120, 127]) (.wrap 120 (by decide) .nil)
      (.move (ms := [keyLeft, keyLeft]) (by decide)
        (.key _ (.key _ (.tail (ms := [keyLeft]) (by decide)))))))))))

example : run {} [85, 83, 69, keyHome, keyAltRight, keyEnd, 32, 100, 120, 127, keyLeft, keyLeft, keyEnd, 59, 13,
    keyLeft] = [[codes "USE d;"]] := by decide

/-! ## The editing keys as bytes -/

/-- **Editing keys as bytes**: outside paste mode the bytes a terminal sends for an editing key (`keyBytes`:
DEL, ^U, ^L, ^W, ^K, `ESC [ A/B/C/D/H/F` for the arrows and Home/End, `ESC [ 1 ; 3 D/C` for Alt-Left/Right),
whatever bytes follow, are decoded by `bytesToKey` to exactly that key, and the bytes that follow are left. -/
theorem C20_edit_bytes_decode (k : Nat) (hk : isEditKey k = true) (rest : List Nat) :
    bytesToKey (keyBytes k ++ rest) false = some (k, rest) :=
  editKey_bytes hk rest

example : bytesToKey ([27, 91, 65] ++ [13]) false = some (keyUp, [13]) := C20_edit_bytes_decode keyUp (by decide) [13]

/-- **Typed and edited as bytes, the session**: for a complete byte stream that is the bytes of typed keys
(printable keys and Enters, Unicode scalar values) and editing keys (`EditKey`: backspace, ^U, ^W, ^K, ^L,
arrows, Home/End, Alt-arrows), the loop of `ReadLine` calls hands over exactly what `run` says for the
keys - so the theorems about corrections, ^U, recall from the history and cursor movement speak about what
the console reads from its input.  Excluded: ^C, ^D, ESC alone, bracketed paste (see `C20_paste_*`). -/
theorem C20_bytes_session_edited (keys : List Nat) (hv : ∀ k ∈ keys, EditKey k) :
    session (keysBytes keys) = run {} keys :=
  session_edit keys hv

/-- `USX` DEL `E d;` Enter `ESC [ A` Enter: `USE d;` twice -/
example : session (codes "USX" ++ [127] ++ codes "E d;" ++ [13, 27, 91, 65, 13]) =
    run {} (codes "USX" ++ [keyBackspace] ++ codes "E d;" ++ [13, keyUp, 13]) :=
  C20_bytes_session_edited (codes "USX" ++ [keyBackspace] ++ codes "E d;" ++ [13, keyUp, 13]) (by decide)

example : session (codes "USX" ++ [127] ++ codes "E d;" ++ [13, 27, 91, 65, 13]) =
    [[codes "USE d;"], [codes "USE d;"]] := by decide

/-! ## Bracketed paste as bytes -/

/-- **The fuel of the session does not matter**: `sessionFrom` (the loop of `ReadLine` calls) gives the same
lines with every fuel above the number of bytes left - `bytesToKey` consumes at least one byte per key, for
ANY bytes.  (So the `sessionFrom (rest.length + 1) …` of the theorems below is `sessionFrom` with any
sufficient fuel.) -/
theorem C20_session_fuel_irrelevant (F F' : Nat) (t : Term) (bytes : List Nat) (h : bytes.length < F)
    (h' : bytes.length < F') : sessionFrom F t bytes = sessionFrom F' t bytes :=
  sessionFrom_fuel F F' t bytes h h'

example : sessionFrom 9 {} (codes "USE d;" ++ [13]) = sessionFrom 100 {} (codes "USE d;" ++ [13]) :=
  C20_session_fuel_irrelevant 9 100 {} _ (by decide) (by decide)

/-- **Typed text, then anything**: outside paste mode, the UTF-8 text of printable keys and Enters (`TypedKey`)
followed by ANY bytes `rest` hands over what `run` says for the keys, and then `rest` is read from the state
the keys leave (`final t keys`).  Generalises `C20_bytes_session` (there `rest = []`, `t = {}`). -/
theorem C20_typed_bytes_then (keys : List Nat) (t : Term) (rest : List Nat) (hpa : t.pasteActive = false)
    (hv : ∀ k ∈ keys, TypedKey k) :
    sessionFrom ((encodeKeys keys ++ rest).length + 1) t (encodeKeys keys ++ rest) =
      run t keys ++ sessionFrom (rest.length + 1) (final t keys) rest :=
  sess_typed keys _ _ t rest hpa hv (Nat.lt_succ_self _) (Nat.lt_succ_self _)

example : sessionFrom ((encodeKeys (codes "USE d;" ++ [13]) ++ [4, 65]).length + 1) {}
    (encodeKeys (codes "USE d;" ++ [13]) ++ [4, 65]) =
    run {} (codes "USE d;" ++ [13]) ++ sessionFrom 3 (final {} (codes "USE d;" ++ [13])) [4, 65] :=
  C20_typed_bytes_then _ {} [4, 65] rfl (by decide)

/-- **A paste as bytes, from any state**: outside paste mode, the byte stream `ESC[200~` (`pasteStartSeq`),
the UTF-8 text of printable keys and Enters, `ESC[201~` (`pasteEndSeq`), then ANY bytes `rest`: the lines
handed over are those of the text typed (`run t keys`: a pasted line comes with `ErrPasteIndicator`, which
the console loop since repair edcd8de treats like any other line), and `rest` is read outside paste mode from
the state the typed text would have left (`final t keys`).  Proved in full: the paste may hold complete
lines, an unfinished one, or begin in the middle of a line.  Excluded: pasted bytes that are no printable keys
or Enters (in paste mode control bytes and ESC sequences other than `ESC[201~` go into the line verbatim:
`C20_paste_verbatim`), text that is no Unicode scalar values. -/
theorem C20_pasted_bytes_from (keys : List Nat) (t : Term) (rest : List Nat) (hpa : t.pasteActive = false)
    (hv : ∀ k ∈ keys, TypedKey k) :
    sessionFrom ((pasteStartSeq ++ encodeKeys keys ++ pasteEndSeq ++ rest).length + 1) t
        (pasteStartSeq ++ encodeKeys keys ++ pasteEndSeq ++ rest) =
      run t keys ++ sessionFrom (rest.length + 1) (final t keys) rest := by
  have e : pasteStartSeq ++ encodeKeys keys ++ pasteEndSeq ++ rest =
      pasteStartSeq ++ (encodeKeys keys ++ (pasteEndSeq ++ rest)) := by simp only [List.append_assoc]
  rw [e]
  exact sess_paste keys _ _ t rest hpa hv (Nat.lt_succ_self _) (Nat.lt_succ_self _)

/-- **C20.pasted_bytes_session**: the console started on the byte stream `ESC[200~` text `ESC[201~` `rest`
(text: printable keys and Enters, Unicode scalar values) hands over exactly what it hands over when the text
is typed (`run {} keys`, so `C20_session` / `C20_submit` apply), and then reads `rest` - any bytes: typed text,
editing keys, another paste - outside paste mode from the state the typed text leaves.  This is "typed or
pasted" of the property at the level the program reads its input. -/
theorem C20_pasted_bytes_session (keys : List Nat) (rest : List Nat) (hv : ∀ k ∈ keys, TypedKey k) :
    session (pasteStartSeq ++ encodeKeys keys ++ pasteEndSeq ++ rest) =
      run {} keys ++ sessionFrom (rest.length + 1) (final {} keys) rest :=
  C20_pasted_bytes_from keys {} rest rfl hv

/-- ... in particular a paste alone gives what the text typed gives -/
theorem C20_pasted_bytes_alone (keys : List Nat) (hv : ∀ k ∈ keys, TypedKey k) :
    session (pasteStartSeq ++ encodeKeys keys ++ pasteEndSeq) = run {} keys := by
  have h := C20_pasted_bytes_session keys [] hv
  rw [List.append_nil, sessionFrom_nil, List.append_nil] at h
  exact h

/-- two statements pasted in one piece, the second over two lines -/
example : session (pasteStartSeq ++ encodeKeys (codes "USE é; SELECT" ++ [13] ++ codes "1;" ++ [13]) ++ pasteEndSeq) =
    [[codes "USE é;", codes "SELECT 1;"]] := by
  rw [C20_pasted_bytes_alone _ (by decide)]; decide

/-- **Typed, pasted, typed**: text typed, then a paste, then text typed again - each of printable keys and
Enters; the paste may begin and end in the middle of a line - is handed over as the whole text typed. -/
theorem C20_pasted_among_typed (pre keys post : List Nat) (hpre : ∀ k ∈ pre, TypedKey k)
    (hv : ∀ k ∈ keys, TypedKey k) (hpost : ∀ k ∈ post, TypedKey k) :
    session (encodeKeys pre ++ (pasteStartSeq ++ encodeKeys keys ++ pasteEndSeq ++ encodeKeys post)) =
      run {} (pre ++ keys ++ post) := by
  have hpa : (final {} pre).pasteActive = false := final_valid_paste pre {} (fun k hk => (hpre k hk).1)
  have hpa2 : (final (final {} pre) keys).pasteActive = false := by
    rw [final_valid_paste keys _ (fun k hk => (hv k hk).1)]; exact hpa
  have h3 := sess_typed post ((encodeKeys post ++ []).length + 1) 1 (final (final {} pre) keys) [] hpa2 hpost
    (Nat.lt_succ_self _) (by decide)
  rw [List.append_nil, sessionFrom_nil, List.append_nil] at h3
  unfold session
  rw [sess_typed pre _ _ {} _ rfl hpre (Nat.lt_succ_self _) (Nat.lt_succ_self _),
    C20_pasted_bytes_from keys _ _ hpa hv, h3, List.append_assoc pre, run_append, run_append keys]

/-- `SELECT ` typed, `'a;b'` pasted, `;` Enter typed -/
example : session (encodeKeys (codes "SELECT ") ++ (pasteStartSeq ++ encodeKeys (codes "'a;b'") ++ pasteEndSeq ++
    encodeKeys (codes ";" ++ [13]))) = [[codes "SELECT 'a;b';"]] := by
  rw [C20_pasted_among_typed _ _ _ (by decide) (by decide) (by decide)]; decide

/-! ## ^K, ^D, ^W -/

/-- **^K at the end of the line** (outside paste mode, nothing behind the cursor) changes nothing and hands
over nothing. -/
theorem C20_delete_line_at_end (t : Term) (hpa : t.pasteActive = false) (hend : t.pos = t.line.length) :
    step t keyDeleteLine = (t, none) :=
  step_deleteLine_atEnd t hpa (by omega)

/-- **^D at the end of the line** (outside paste mode, nothing behind the cursor) changes nothing and hands
over nothing - as a key of `handleKey`.  In the loop of `readLine` ^D on an EMPTY line ends the console
(`C20_ctrlD_byte`). -/
theorem C20_ctrlD_at_end (t : Term) (hpa : t.pasteActive = false) (hend : t.pos = t.line.length) :
    step t keyCtrlD = (t, none) :=
  step_ctrlD_atEnd t hpa (by omega)

example : step { line := codes "SELECT 1", pos := 8 } keyDeleteLine = ({ line := codes "SELECT 1", pos := 8 }, none) :=
  C20_delete_line_at_end _ rfl rfl
example : step { line := codes "SELECT 1", pos := 8 } keyCtrlD = ({ line := codes "SELECT 1", pos := 8 }, none) :=
  C20_ctrlD_at_end _ rfl rfl

/-- **The byte ^D**, outside paste mode, whatever bytes follow: on an empty line it ends the console (nothing
that follows is handed over); with the cursor at the end of a line that is not empty it is skipped. -/
theorem C20_ctrlD_byte (t : Term) (rest : List Nat) (hpa : t.pasteActive = false) :
    (t.line = [] → sessionFrom ((4 :: rest).length + 1) t (4 :: rest) = []) ∧
    (t.line ≠ [] → t.pos = t.line.length →
      sessionFrom ((4 :: rest).length + 1) t (4 :: rest) = sessionFrom (rest.length + 1) t rest) :=
  ⟨fun hl => sess_ctrlD_empty _ t rest hpa hl (Nat.lt_succ_self _),
   fun hl hend => sess_ctrlD_nonempty _ _ t rest hpa hl (by omega) (Nat.lt_succ_self _) (Nat.lt_succ_self _)⟩

example : session ([4] ++ codes "USE d;" ++ [13]) = [] := (C20_ctrlD_byte {} _ rfl).1 rfl
example : session (codes "USE d" ++ [4] ++ codes ";" ++ [13]) = [[codes "USE d;"]] := by decide

/-- **^K and ^D after typed text are noise**: from a state outside paste mode with the cursor at the end,
after printable keys and Enters (`a`), any number of ^K and ^D keys change no submission of what is typed
afterwards and leave the same state.  Excluded: the cursor moved back before (then they delete text), and
at the byte level ^D on an empty line (`C20_ctrlD_byte`). -/
theorem C20_delete_line_ctrlD_same_run (a ks b : List Nat) (t : Term) (hpa : t.pasteActive = false)
    (hend : t.pos = t.line.length)
    (ha : ∀ k ∈ a, k = 13 ∨ (isPrintable k = true ∧ k ≠ 13))
    (hks : ∀ k ∈ ks, k = keyDeleteLine ∨ k = keyCtrlD) :
    run t (a ++ ks ++ b) = run t (a ++ b) ∧ final t (a ++ ks ++ b) = final t (a ++ b) :=
  run_endNoise a ks b t hpa hend ha hks

example : run {} (codes "USE" ++ [keyDeleteLine, keyCtrlD, keyDeleteLine] ++ (codes " d;" ++ [13])) =
    run {} (codes "USE" ++ (codes " d;" ++ [13])) :=
  (C20_delete_line_ctrlD_same_run _ _ _ {} rfl rfl (by decide) (by decide)).1

/-- **C20.delete_word_erases_the_last_word**: outside paste mode, with the cursor at the end of a line that
ends with a space which is not its first key (`t.line = pre ++ [32]`, `pre` not empty), a word `w` (not empty,
printable keys other than the space) typed and then ^W gives back exactly the state before the word: the word
is erased, the space before it STAYS (`countToLeftWord` stops behind the space), nothing is handed over.
Excluded: a space at index 0 of the line (`C20_delete_word_quirk`); blanks other than U+0020 (tab, NBSP:
`countToLeftWord` knows only `' '`, they are part of the word). -/
theorem C20_delete_word_erases_the_last_word (t : Term) (pre w : List Nat) (hpa : t.pasteActive = false)
    (hend : t.pos = t.line.length) (hl : t.line = pre ++ [32]) (hpre : pre ≠ []) (hne : w ≠ [])
    (hw : ∀ c ∈ w, isPrintable c = true ∧ c ≠ 32) :
    run t (w ++ [keyDeleteWord]) = [] ∧ final t (w ++ [keyDeleteWord]) = t :=
  word_then_deleteWord t pre w hpa hend hl hpre hne hw

example : final { line := codes "SELECT ", pos := 7 } (codes "12" ++ [keyDeleteWord]) = { line := codes "SELECT ", pos := 7 } :=
  (C20_delete_word_erases_the_last_word _ (codes "SELECT") (codes "12") rfl rfl rfl (by decide) (by decide)
    (by decide)).2

/-- **The quirk of ^W** (as in x/term): the loop of `countToLeftWord` that looks for the space before the word
runs `for pos > 0` and never looks at index 0 - a space that is the FIRST key of the line is erased together
with the word after it (` ab` ^W leaves the empty line, not ` `); everywhere else the space stays (`a ab` ^W
leaves `a `).  No statement is lost or changed by it: the space is a blank outside any word. -/
theorem C20_delete_word_quirk :
    (final {} (codes " ab" ++ [keyDeleteWord])).line = [] ∧ (final {} (codes " ")).line = codes " " ∧
    (final {} (codes "a ab" ++ [keyDeleteWord])).line = codes "a " := by decide

/-! ## Up and Down -/

/-- **C20.up_then_down_restores_the_typed_line**: on a line typed but not yet submitted - outside paste mode,
outside the history (`historyIndex = -1`), the line holding Unicode scalar values only (typed text does;
`C20_up_then_down_general` without), cursor at the end - Up pressed `j` times (`1 ≤ j ≤` the number of
history entries) and then Down `j` times hands over nothing and gives back the same state: `line`, `pos`,
history, `historyIndex = -1`; only `historyPending` (where the first Up put the line aside) now holds the line. -/
theorem C20_up_then_down_restores_the_typed_line (j : Nat) (t : Term) (hpa : t.pasteActive = false)
    (hi : t.historyIndex = -1) (hend : t.pos = t.line.length) (hv : ∀ c ∈ t.line, validRune c = c)
    (hj1 : 1 ≤ j) (hj : j ≤ t.history.length) :
    run t (List.replicate j keyUp ++ List.replicate j keyDown) = [] ∧
      final t (List.replicate j keyUp ++ List.replicate j keyDown) = { t with historyPending := t.line } := by
  rw [← afterUpDown_valid t hv hend]
  exact ups_downs j t hpa hi hj hj1

example : final { line := codes "SEL", pos := 3, history := [codes "USE b;", codes "USE a;"] }
      (List.replicate 2 keyUp ++ List.replicate 2 keyDown) =
    { line := codes "SEL", pos := 3, history := [codes "USE b;", codes "USE a;"], historyPending := codes "SEL" } :=
  (C20_up_then_down_restores_the_typed_line 2 _ rfl rfl rfl (by decide) (by decide) (by decide)).2

/-- after `USE a;` Enter and an unfinished `SEL`: Up Down, then `ECT 1;` Enter submits `SELECT 1;` -/
example : run {} (codes "USE a;" ++ [13] ++ codes "SEL" ++ [keyUp, keyDown] ++ codes "ECT 1;" ++ [13]) =
    [[codes "USE a;"], [codes "SELECT 1;"]] := by decide

/-- **Up then Down, in general**: wherever the cursor was and whatever the line holds, Up `j` times then Down
`j` times from outside the history gives `afterUpDown t`: the line as `[]rune(string(line))` (a key value that
is no Unicode scalar value - it can be in the line only after a paste - comes back as U+FFFD), the cursor at
the END of the line (not where it was), `historyPending` that line, everything else as before. -/
theorem C20_up_then_down_general (j : Nat) (t : Term) (hpa : t.pasteActive = false)
    (hi : t.historyIndex = -1) (hj1 : 1 ≤ j) (hj : j ≤ t.history.length) :
    run t (List.replicate j keyUp ++ List.replicate j keyDown) = [] ∧
      final t (List.replicate j keyUp ++ List.replicate j keyDown) = afterUpDown t :=
  ups_downs j t hpa hi hj hj1

/-- the cursor was at 1 and is at the end afterwards; the key value 0xd807 in the line comes back as U+FFFD -/
example : final { line := [97, 0xd807, 98], pos := 1, history := [codes "USE a;"] } [keyUp, keyDown] =
    { line := [97, 0xfffd, 98], pos := 3, history := [codes "USE a;"], historyPending := [97, 0xfffd, 98] } :=
  (C20_up_then_down_general 1 _ rfl rfl (by decide) (by decide)).2

/-- **Down undoes Up inside the history too**: at entry `m` of the history (line = that entry, cursor at its
end), Up `j` times - there are that many older entries - then Down `j` times gives back exactly the same
state. -/
theorem C20_up_then_down_inside_history (j : Nat) (t : Term) (m : Nat) (h : InHist t m)
    (hlen : m + j < t.history.length) :
    run t (List.replicate j keyUp ++ List.replicate j keyDown) = [] ∧
      final t (List.replicate j keyUp ++ List.replicate j keyDown) = t :=
  ups_downs_inHist j t m h hlen

example : InHist { line := codes "USE b;", pos := 6, history := [codes "USE b;", codes "USE a;"], historyIndex := 0 } 0 :=
  ⟨rfl, rfl, rfl, rfl⟩

/-- **Down outside the history** changes nothing. -/
theorem C20_down_outside_history (t : Term) (hpa : t.pasteActive = false) (hi : t.historyIndex = -1) :
    step t keyDown = (t, none) :=
  step_down_out t hpa hi

example : step { line := codes "SEL", pos := 3 } keyDown = ({ line := codes "SEL", pos := 3 }, none) :=
  C20_down_outside_history _ rfl rfl

/-- **C20.up_beyond_oldest_changes_nothing**: outside paste mode, when there is no entry older than the one
shown (`nthPrevious history (historyIndex + 1) = none`: the editor is at the oldest entry, or the history is
empty), Up - any number of times - hands over nothing and changes nothing: line, cursor, position in the
history all stay. -/
theorem C20_up_beyond_oldest_changes_nothing (j : Nat) (t : Term) (hpa : t.pasteActive = false)
    (h : nthPrevious t.history (t.historyIndex + 1) = none) :
    run t (List.replicate j keyUp) = [] ∧ final t (List.replicate j keyUp) = t :=
  ups_beyond j t hpa h

example : final { line := codes "SEL", pos := 2 } (List.replicate 3 keyUp) = { line := codes "SEL", pos := 2 } :=
  (C20_up_beyond_oldest_changes_nothing 3 _ rfl (by decide)).2

/-- **Up past the oldest entry, then Enter**: after typed keys that handed over `n` statements (`1 ≤ n ≤ 100`),
Up pressed `n + extra` times and Enter hands over the OLDEST statement again - the presses beyond the oldest
entry do nothing.  (Complements `C20_recall_resubmits_exactly`, which needs `k ≤ n`.) -/
theorem C20_recall_beyond_oldest (keys : List Nat) (hv : ∀ k ∈ keys, TypedKey k) (extra : Nat)
    (hn1 : 1 ≤ (run {} keys).flatten.length) (hn100 : (run {} keys).flatten.length ≤ 100) :
    run {} (keys ++ List.replicate ((run {} keys).flatten.length + extra) keyUp ++ [keyEnter]) =
      run {} keys ++ [[(run {} keys).flatten[0]]] := by
  obtain ⟨g, hh, _⟩ := good_run keys {} good_init hv
  have hh' : (final {} keys).history.length = (run {} keys).flatten.length := by
    rw [hh]; simp only [List.append_nil, List.length_take, List.length_reverse]; omega
  obtain ⟨r, p, hhist, hidx, _⟩ := ups (run {} keys).flatten.length (final {} keys) 0 g.paste
    (by rw [g.idx]; rfl) (by omega)
  have hnone : nthPrevious (final (final {} keys) (List.replicate (run {} keys).flatten.length keyUp)).history
      ((final (final {} keys) (List.replicate (run {} keys).flatten.length keyUp)).historyIndex + 1) = none := by
    rw [hhist, hidx, nthPrevious_nat, List.getElem?_eq_none (by omega)]
  have hrec := recall keys hv (run {} keys).flatten.length hn1 (Nat.le_refl _) hn100
  simp only [Nat.sub_self] at hrec
  rw [← hrec, List.append_assoc, List.append_assoc, run_append, run_append keys, run_ups_extra _ _ _ _ p hnone]

example : run {} (codes "USE a;" ++ [13] ++ codes "USE b;" ++ [13] ++ List.replicate (2 + 3) keyUp ++ [keyEnter]) =
    run {} (codes "USE a;" ++ [13] ++ codes "USE b;" ++ [13]) ++ [[codes "USE a;"]] :=
  C20_recall_beyond_oldest (codes "USE a;" ++ [13] ++ codes "USE b;" ++ [13]) (by decide) 3 (by decide) (by decide)

end Mkdb.Console
