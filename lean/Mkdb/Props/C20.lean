import Mkdb.Model.Console
/-!
# C20 — the console submits exactly the statements that were typed

Property theorems only.  (Session-level theorems — every typing of every statement list —
are added from `Mkdb/Proofs/Console.lean` when present.)
-/
namespace Mkdb.Console

/-- Enter on an input whose last top-level ';' is followed only by blanks submits exactly
the quote-aware split of the buffer and clears it. -/
theorem C20_enter_complete (t : Term) (h : (splitStatements t.line).2.all isSpace = true) :
    step t keyEnter = ({ line := [] }, some (splitStatements t.line).1) := by
  simp [step, keyEnter, h]

/-- Enter on an incomplete input submits nothing and replaces the line break by one space. -/
theorem C20_enter_incomplete (t : Term) (h : (splitStatements t.line).2.all isSpace = false) :
    step t keyEnter = ({ line := t.line ++ [32] }, none) := by
  simp [step, keyEnter, h]

/-- A ';' inside a quoted literal never ends a statement: the automaton reports an end only
at top level. -/
theorem C20_semicolon_in_quote (q0 r : Nat) : (qstep (.inq q0) r).2 = false ∧ (qstep (.esc q0) r).2 = false := by
  constructor
  · simp only [qstep]; split <;> (try split) <;> rfl
  · rfl

def codes (s : String) : List Nat := s.toList.map Char.toNat

example : (splitStatements (codes "SELECT 'a;b'; USE d;")).1 = [codes "SELECT 'a;b';", codes "USE d;"] := by decide

end Mkdb.Console
