import Mkdb.Proofs.Csv
import Mkdb.Proofs.CsvEngine4
/-!
# C19 — CSV import stores every accepted record faithfully

Property theorems only.  Quantifier: every destination schema, mapping and record stream
(records the CSV reader rejects are `none`).  The first part is about the importer's own model, in which
the table is a list of rows; the second part (`…_on_the_engine`) ties it to the engine model and the plain
database: the same statements about `Engine.evalInsert` on a database that satisfies the invariant `DbInv`.
-/
namespace Mkdb.Csv
open Mkdb.Tuple

/-- **C19.import**: the table after an import is the table before it followed by the
converted accepted records, in input order — one row per accepted record, none for a
rejected one.  Each record is judged on its own. -/
theorem C19_import (cfg : Cfg) (types : List DataType) (table : List (List Val))
    (recs : List (Option (List Bytes))) :
    importAll cfg types table recs = table ++ recs.filterMap (importRecord cfg types) := by
  induction recs generalizing table with
  | nil => simp [importAll]
  | cons r rest ih =>
    simp only [importAll, List.filterMap_cons]
    cases h : importRecord cfg types r with
    | none => simp only [ih]
    | some row => simp only [ih, List.append_assoc, List.cons_append, List.nil_append]

/-- **C19.bad_record_harmless**: a rejected record neither prevents, alters nor duplicates
the others: removing it from the input gives the same table. -/
theorem C19_bad_record_harmless (cfg : Cfg) (types : List DataType) (table : List (List Val))
    (before after : List (Option (List Bytes))) (bad : Option (List Bytes))
    (hbad : importRecord cfg types bad = none) :
    importAll cfg types table (before ++ bad :: after) = importAll cfg types table (before ++ after) := by
  simp only [C19_import, List.filterMap_append, List.filterMap_cons, hbad]

/-- **C19.one_row_each**: the number of rows added equals the number of accepted records. -/
theorem C19_one_row_each (cfg : Cfg) (types : List DataType) (table : List (List Val))
    (recs : List (Option (List Bytes))) :
    (importAll cfg types table recs).length =
      table.length + (recs.filter fun r => (importRecord cfg types r).isSome).length := by
  rw [C19_import, List.length_append]
  congr 1
  induction recs with
  | nil => rfl
  | cons r rest ih =>
    simp only [List.filterMap_cons, List.filter_cons]
    cases h : importRecord cfg types r with
    | none => simpa using ih
    | some row => simpa using ih

/-- **C19.null_marker**: the `\N` marker becomes NULL whatever the column type; anything
else destined for an INT/BIGINT column must be a decimal integer, for a BOOLEAN column one of
1/0/true/false/t/f (any case); a VARCHAR column takes the bytes as they are. -/
theorem C19_conv_field (ty : DataType) (f : Bytes) :
    (f = nullMarker → convField ty f = some .null) ∧
    (f ≠ nullMarker → convField ty f =
      match ty with
      | .int => (Sql.atoi f).map .int
      | .bigint => (Sql.atoi f).map .int
      | .boolean => (boolWord f).map .bool
      | .varchar => some (.str f)) := by
  constructor
  · intro h; simp [convField, h]
  · intro h
    have : (f == nullMarker) = false := by simpa using h
    simp only [convField, this, Bool.false_eq_true, ↓reduceIte]
    cases ty <;> rfl

/-- **C19.convert**: an accepted record is stored as exactly one row with one value per
schema column; the column that is the i-th destination column holds the conversion (to
that column's type) of the record's field number `srcCols[i]`, every column that is not a
destination column is NULL.  For all schemas with distinct column names, all mappings
naming each destination once, all records. -/
theorem C19_convert (cfg : Cfg) (types : List DataType) (rec : List Bytes) (row : List Val)
    (hschema : (cfg.schema.map (·.name)).Nodup)
    (hdst : cfg.dstCols.Nodup)
    (htypes : colTypes cfg.schema cfg.dstCols = some types)
    (hlen : cfg.srcCols.length = cfg.dstCols.length)
    (hfields : ∀ f ∈ rec, f.length < 2 ^ 32)
    (h : importRecord cfg types (some rec) = some row) :
    row.length = cfg.schema.length ∧
    ∀ (k : Nat) (fd : FieldDef), cfg.schema[k]? = some fd →
      (∀ (i : Nat), cfg.dstCols[i]? = some fd.name →
          ∃ idx f v, cfg.srcCols[i]? = some idx ∧ rec[idx]? = some f ∧ convField fd.ty f = some v ∧ row[k]? = some v) ∧
      (fd.name ∉ cfg.dstCols → row[k]? = some .null) :=
  convert_spec cfg types rec row hschema hdst htypes hlen hfields h

example : importRecord ⟨[⟨"a", .bigint, 0⟩, ⟨"b", .varchar, 255⟩], ["b", "a"], [1, 0]⟩ [.varchar, .bigint]
    (some [[49, 50, 51], [120]]) = some [.int 123, .str [120]] := by decide


/-! ## The import on the engine model and the plain database

The real program calls `engine.EvaluateInsert` with a one-row statement per accepted record, handing it Go
VALUES (`int64`, `bool`, `string`, `nil`), not SQL text.  `importOnDb` (Proofs/CsvEngine2) is that loop on the
engine model: `Engine.evalInsert` on `Tuple.Val`s (NULL included - a parsed statement has no NULL literal,
so `evalStmt` would not do), going on after an error with the database the error left.  Column names are
`String`s in the importer's model (hence valid UTF-8); the engine model and the plain model take their
bytes (`colBytes`) and decode them again (`Engine.bytesToName` / `Spec.nameStr`): a round trip. -/
section engine
open Mkdb.Store Mkdb.Tree

/-- **C19.insert_row_is_the_plain_insert**: the importer model's local single-row INSERT (`Csv.insertRow`:
row codec, name check, size limit) and the plain model's row construction agree.  On a table whose columns
have distinct names (every table of a database in use: `DbInv.cols_nodup`), for a NON-EMPTY list of column
names (`String`s, i.e. valid UTF-8: the plain model is handed their bytes, `colBytes`, and decodes them
again) and values a Go program can hold, `Csv.insertRow` accepts exactly when the column list passes the
plain model's test (`Spec.namesOK`: only columns of the table, none twice - `Spec.rowOf` alone does not
look at that) and `Spec.rowOf` builds a row; and it is the same row.  So they agree on duplicate
destination columns (both refuse), on a column list shorter than the schema (unnamed columns NULL), and at
the size limit (400 bytes accepted, 401 refused, by both).  Excluded by `hne`: the EMPTY column list, on
which they differ - `C19_insert_row_empty_column_list_gap`. -/
theorem C19_insert_row_is_the_plain_insert (tb : Spec.STable) (cols : List String) (vals row : List Val)
    (hnd : (tb.cols.map (·.name)).Nodup) (hvals : ∀ v ∈ vals, ValidVal v) (hne : cols ≠ []) :
    insertRow tb.cols cols vals = some row ↔
      Spec.namesOK tb cols = true ∧ Spec.rowOf tb (cols.map colBytes) vals = some row :=
  insertRow_iff_rowOf tb cols vals row hnd hvals hne

/-- non-vacuity: table `(a BIGINT, b VARCHAR(255), c BOOLEAN)`, columns `b, a`, values `'x', 123` -/
example : ((⟨[116], exCfg.schema, []⟩ : Spec.STable).cols.map (·.name)).Nodup ∧
    (∀ v ∈ [Val.str [120], .int 123], ValidVal v) ∧ exCfg.dstCols ≠ [] ∧
    insertRow exCfg.schema exCfg.dstCols [.str [120], .int 123] = some [.int 123, .str [120], .null] := by
  refine ⟨by decide, ?_, by decide, by decide⟩
  intro v hv
  simp only [List.mem_cons, List.not_mem_nil, or_false] at hv
  rcases hv with rfl | rfl
  · show ([120] : Bytes).length < 2 ^ 32; decide
  · exact ⟨by decide, by decide⟩

/-- **C19.insert_row_is_the_plain_insert_statement**: the plain model's one-row `INSERT INTO t (cols)
VALUES (vals)` is `Csv.insertRow`: refused together, accepted together, and the plain database afterwards is
the old one with `Csv.insertRow`'s row appended to the table (`addRows`).  Hypotheses as above. -/
theorem C19_insert_row_is_the_plain_insert_statement {sdb : Spec.SDB} {table : Bytes} {tb : Spec.STable}
    (hf : Spec.findTable sdb table = some tb) (cols : List String) (vals : List Val)
    (hnd : (tb.cols.map (·.name)).Nodup) (hvals : ∀ v ∈ vals, ValidVal v) (hne : cols ≠ []) :
    Spec.specInsert sdb table (cols.map colBytes) [vals] =
      (insertRow tb.cols cols vals).map fun row => addRows sdb table [row] :=
  specInsert_one_iff hf cols vals hnd hvals hne

/-- non-vacuity: `INSERT INTO t (a) VALUES (5)` on the plain database with the one empty table `t (a INT)` -/
example : Spec.findTable sdbA0 tname = some ⟨tname, schemaA, []⟩ ∧
    ((⟨tname, schemaA, []⟩ : Spec.STable).cols.map (·.name)).Nodup ∧ (∀ v ∈ [Val.int 5], ValidVal v) ∧
    (["a"] : List String) ≠ [] ∧
    insertRow schemaA ["a"] [.int 5] = some [.int 5] := by
  refine ⟨rfl, by decide, ?_, by decide, by decide⟩
  intro v hv
  simp only [List.mem_singleton] at hv
  subst hv
  exact ⟨by decide, by decide⟩

/-- **C19.insert_row_empty_column_list_gap** (a gap of the importer's model, found by this comparison): with
the EMPTY destination column list `Csv.insertRow` names no column and stores a row of NULLs, while
`RelationService.Insert` (storage/relation.go, `len(cols) == 0`), the engine model and `Spec.rowOf` fill in
ALL the columns of the table and refuse the row for its number of values.  Not reachable from the command
line - `strings.Split` never returns an empty list and an empty `-src-cols` fails `strconv.Atoi` - so it is
a gap of the model `Csv.insertRow` (whose `Cfg` allows `dstCols = []`), not a defect of the program. -/
theorem C19_insert_row_empty_column_list_gap :
    insertRow [⟨"a", .int, 0⟩] [] [] = some [.null] ∧
    Spec.rowOf ⟨[116], [⟨"a", .int, 0⟩], []⟩ ([].map colBytes) [] = none :=
  insertRow_nocols_differs

/-- **C19.import_on_the_engine** (the conclusion of `C19_import`, now about the database).  Let the
database satisfy the invariant `DbInv` for a plain database `sdb` in which the destination table exists with
the columns `cfg.schema`.  Side conditions, explicit: a non-empty destination column list (`hne`, see the
gap above); CSV fields that are strings a Go program can hold (`FieldsFit`: below 2^32 bytes - with it every
converted value fits its Go type, the literal part of `StmtRoom`); the fuel / size room of each accepted
one-row INSERT in the database reached at that point (`ImportRoom`, the room part of `StmtRoom`; met whenever
there is room at the start, `C19_import_room_from_sizes`).  Then the import loop on the engine model
never crashes; it sends an error event exactly for the records `importRecord` rejects (`true` in the list);
the database at the end satisfies `DbInv` for the plain database with the rows of the accepted records
appended to the table (`addRows`): the table holds its old rows followed by
`recs.filterMap (importRecord cfg types)`, every other table is untouched; and a reader (`Fetch`, the source
of every SELECT - `C17_contents_are_what_a_reader_sees`) sees the table with its declared columns and
exactly the rows `importAll` computes from the old rows (by `C19_import`: the old rows followed by the
accepted records' rows, in input order) - now, after the flush, after eviction and reload, and after
restart (`ReadsDurably`) - and every other table as before. -/
theorem C19_import_on_the_engine (cfg : Cfg) (types : List DataType) (table : Bytes)
    (recs : List (Option (List Bytes)))
    (db : Engine.DB) (sdb : Spec.SDB) (pt sch : Levels) (tbls : List (Bytes × Levels)) (tb : Spec.STable)
    (h : DbInv db sdb pt sch tbls) (hfind : Spec.findTable sdb table = some tb) (hcols : tb.cols = cfg.schema)
    (hne : cfg.dstCols ≠ []) (hfit : FieldsFit recs) (hroom : ImportRoom cfg types table db recs) :
    ∃ db' pt' tbls',
      importOnDb cfg types table db recs = some (db', recs.map fun r => (importRecord cfg types r).isNone) ∧
      DbInv db' (addRows sdb table (recs.filterMap (importRecord cfg types))) pt' sch tbls' ∧
      Spec.findTable (addRows sdb table (recs.filterMap (importRecord cfg types))) table =
        some { tb with rows := tb.rows ++ (recs.filterMap (importRecord cfg types)).map fun v => ⟨none, v⟩ } ∧
      (∀ t, t ≠ table → Spec.findTable (addRows sdb table (recs.filterMap (importRecord cfg types))) t =
        Spec.findTable sdb t) ∧
      ReadsDurably db' table cfg.schema (importAll cfg types (tb.rows.map (·.vals)) recs) ∧
      (∀ t tb', t ≠ table → Spec.findTable sdb t = some tb' →
        ReadsDurably db' t tb'.cols (tb'.rows.map (·.vals))) :=
  import_on_engine cfg types table recs db sdb pt sch tbls tb h hfind hcols hne hfit hroom

/-- non-vacuity: the database `CREATE DATABASE; CREATE TABLE t (a INT)` leaves (`tableDB`, computed by the
model), destination column `a` fed from field 0, the records `5`, `2147483648`, `7` -/
example : DbInv tableDB sdbA0 ptT schT [(tname, tT)] ∧
    Spec.findTable sdbA0 tname = some ⟨tname, schemaA, []⟩ ∧
    (⟨tname, schemaA, []⟩ : Spec.STable).cols = exCfgT.schema ∧ exCfgT.dstCols ≠ [] ∧ FieldsFit recs3 ∧
    ImportRoom exCfgT [.int] tname tableDB recs3 :=
  ⟨dbFlushed_tableDB.inv, rfl, rfl, by decide, recs3_fit, recs3_room⟩

/-- **C19.import_room_from_sizes**: the side condition `ImportRoom` holds whenever the table has room at the
start (`RoomFor`: the store abstracts to some plain database under a catalog description in which the
table's tree is as many levels and leaves short of the fuel of the descents and scans (64, 100000) as
there are records, and the allocation frontier is that many times 64 pages below 2^63) - whatever the
records, the mapping, and the outcome of each record.  A sufficient condition only: it covers every fresh
table and every import of up to about 60 records; for longer imports `ImportRoom` has to be established
along the run, as `HistOK` for histories of statements. -/
theorem C19_import_room_from_sizes (cfg : Cfg) (types : List DataType) (table : Bytes)
    (recs : List (Option (List Bytes))) (db : Engine.DB) (hfit : FieldsFit recs)
    (hroom : RoomFor db table recs.length) : ImportRoom cfg types table db recs :=
  importRoom_of_sizes cfg types table recs db hfit hroom

/-- non-vacuity: `tableDB` has room for three one-row INSERTs into `t` -/
example : FieldsFit recs3 ∧ RoomFor tableDB tname recs3.length := ⟨recs3_fit, roomFor_tableDB⟩

/-- **C19.bad_record_harmless_on_the_engine** (`C19_bad_record_harmless`, on the database): run the import
with a record `importRecord` rejects in the input, and without it, from the same database (hypotheses of
`C19_import_on_the_engine` for both inputs).  Neither run crashes; the error events are the same except for
the one of the bad record; both runs end in databases that satisfy the invariant for THE SAME plain database;
and a reader sees the same rows in the table after both - the old rows followed by the rows of the other
records' accepted ones, in input order - durably.  The bad record neither prevents, alters nor duplicates
the others. -/
theorem C19_bad_record_harmless_on_the_engine (cfg : Cfg) (types : List DataType) (table : Bytes)
    (before after : List (Option (List Bytes))) (bad : Option (List Bytes))
    (db : Engine.DB) (sdb : Spec.SDB) (pt sch : Levels) (tbls : List (Bytes × Levels)) (tb : Spec.STable)
    (h : DbInv db sdb pt sch tbls) (hfind : Spec.findTable sdb table = some tb) (hcols : tb.cols = cfg.schema)
    (hne : cfg.dstCols ≠ []) (hfit : FieldsFit (before ++ bad :: after))
    (hroom1 : ImportRoom cfg types table db (before ++ bad :: after))
    (hroom2 : ImportRoom cfg types table db (before ++ after))
    (hbad : importRecord cfg types bad = none) :
    ∃ db1 pt1 tbls1 db2 pt2 tbls2 sdb' errsB errsA rows,
      importOnDb cfg types table db (before ++ bad :: after) = some (db1, errsB ++ true :: errsA) ∧
      importOnDb cfg types table db (before ++ after) = some (db2, errsB ++ errsA) ∧
      errsB.length = before.length ∧
      DbInv db1 sdb' pt1 sch tbls1 ∧ DbInv db2 sdb' pt2 sch tbls2 ∧
      ReadsDurably db1 table cfg.schema rows ∧ ReadsDurably db2 table cfg.schema rows ∧
      rows = tb.rows.map (·.vals) ++ (before ++ after).filterMap (importRecord cfg types) :=
  bad_record_harmless_on_engine cfg types table before after bad db sdb pt sch tbls tb h hfind hcols hne hfit
    hroom1 hroom2 hbad

/-- non-vacuity: on `tableDB`, the record `2147483648` (an int64 the INT column refuses: rejected BY THE
ENGINE, not by the conversion) between the records `5` and `7` -/
example : FieldsFit ([some [[53]]] ++ some [[50, 49, 52, 55, 52, 56, 51, 54, 52, 56]] :: [some [[55]]]) ∧
    ImportRoom exCfgT [.int] tname tableDB
      ([some [[53]]] ++ some [[50, 49, 52, 55, 52, 56, 51, 54, 52, 56]] :: [some [[55]]]) ∧
    ImportRoom exCfgT [.int] tname tableDB ([some [[53]]] ++ [some [[55]]]) ∧
    importRecord exCfgT [.int] (some [[50, 49, 52, 55, 52, 56, 51, 54, 52, 56]]) = none :=
  ⟨recs3_fit, recs3_room,
    importRoom_of_sizes exCfgT [.int] tname _ tableDB
      (fun rec hm => recs3_fit rec (by
        simp only [List.cons_append, List.nil_append, List.mem_cons, List.not_mem_nil, or_false] at hm
        simp only [recs3, List.mem_cons, List.not_mem_nil, or_false]
        rcases hm with h | h
        · exact .inl h
        · exact .inr (.inr h)))
      (roomFor_tableDB.mono (by decide)),
    by decide⟩

/-- **C19.accepted_records_in_input_order** (on the database): after the import a reader sees, durably, a
table with one row more per accepted record and none for a rejected one; the old rows are where they
were, unchanged; and the row of every accepted record sits after them at the position given by the number
of accepted records BEFORE it in the input - so accepted records appear in input order, each exactly once.
Hypotheses of `C19_import_on_the_engine`. -/
theorem C19_accepted_records_in_input_order (cfg : Cfg) (types : List DataType) (table : Bytes)
    (recs : List (Option (List Bytes)))
    (db : Engine.DB) (sdb : Spec.SDB) (pt sch : Levels) (tbls : List (Bytes × Levels)) (tb : Spec.STable)
    (h : DbInv db sdb pt sch tbls) (hfind : Spec.findTable sdb table = some tb) (hcols : tb.cols = cfg.schema)
    (hne : cfg.dstCols ≠ []) (hfit : FieldsFit recs) (hroom : ImportRoom cfg types table db recs) :
    ∃ db' rows,
      importOnDb cfg types table db recs = some (db', recs.map fun r => (importRecord cfg types r).isNone) ∧
      ReadsDurably db' table cfg.schema rows ∧
      rows.length = tb.rows.length + (recs.filter fun r => (importRecord cfg types r).isSome).length ∧
      (∀ (k : Nat) (row : List Val), (tb.rows.map (·.vals))[k]? = some row → rows[k]? = some row) ∧
      ∀ (l1 l2 : List (Option (List Bytes))) (r : Option (List Bytes)) (row : List Val),
        recs = l1 ++ r :: l2 → importRecord cfg types r = some row →
        rows[tb.rows.length + (l1.filter fun r => (importRecord cfg types r).isSome).length]? = some row :=
  accepted_in_input_order cfg types table recs db sdb pt sch tbls tb h hfind hcols hne hfit hroom

/-- non-vacuity: the same input as for `C19_import_on_the_engine`; the accepted record `7` has one accepted
record before it and lands at position 0 + 1 -/
example : DbInv tableDB sdbA0 ptT schT [(tname, tT)] ∧ FieldsFit recs3 ∧
    ImportRoom exCfgT [.int] tname tableDB recs3 ∧
    recs3 = [some [[53]], some [[50, 49, 52, 55, 52, 56, 51, 54, 52, 56]]] ++ some [[55]] :: [] ∧
    importRecord exCfgT [.int] (some [[55]]) = some [.int 7] :=
  ⟨dbFlushed_tableDB.inv, recs3_fit, recs3_room, rfl, by decide⟩

/-- **C19.import_example_on_tableDB** (non-vacuity, computed by the kernel on the database the model
computes for `CREATE DATABASE; CREATE TABLE t (a INT)`): the records `5`, `2147483648`, `7` for the column
`a`.  `csvToSql` converts all three (the second is an int64); `Csv.insertRow` - and the engine, with
`ErrIntOutOfRange` (`recs3ErrCheck`) - refuse the second.  Kernel evaluation of the loop on the engine model
(`recs3Check`): error events `[false, true, false]`, `Fetch` of `t` then returns the column `a` and the rows
`(5)`, `(7)`, the log holds two records.  And `C19_import_on_the_engine` applies (all its hypotheses
hold): the same outcome, read back durably. -/
theorem C19_import_example_on_tableDB :
    recs3.map (recordVals exCfgT [.int]) = [some [.int 5], some [.int 2147483648], some [.int 7]] ∧
    recs3.map (importRecord exCfgT [.int]) = [some [.int 5], none, some [.int 7]] ∧
    recs3Check = true ∧ recs3ErrCheck = true ∧
    ∃ db', importOnDb exCfgT [.int] tname tableDB recs3 = some (db', [false, true, false]) ∧
      ReadsDurably db' tname schemaA [[.int 5], [.int 7]] :=
  ⟨recs3_vals, recs3_rows, recs3_check.1, recs3_check.2, recs3_import⟩

end engine

end Mkdb.Csv
