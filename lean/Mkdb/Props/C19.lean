import Mkdb.Proofs.Csv
/-!
# C19 — CSV import stores every accepted record faithfully

Property theorems only.  Quantifier: every destination schema, mapping and record stream
(records the CSV reader rejects are `none`).
-/
namespace Mkdb.Csv
open Mkdb.Tuple

/-- **C19.import**: the table after an import is the table before it followed by the
converted accepted records, in input order — one row per accepted record, none for a
rejected one.  Each record is judged on its own. -/
theorem C19_import (cfg : Cfg) (types : List DataType) (table : List (List Val))
    (recs : List (Option (List Bytes))) :
    importAll cfg types table recs = table ++ recs.filterMap (importRecord cfg types) := by
  induction recs generalizing table with
  | nil => simp [importAll]
  | cons r rest ih =>
    simp only [importAll, List.filterMap_cons]
    cases h : importRecord cfg types r with
    | none => simp only [ih]
    | some row => simp only [ih, List.append_assoc, List.cons_append, List.nil_append]

/-- **C19.bad_record_harmless**: a rejected record neither prevents, alters nor duplicates
the others: removing it from the input gives the same table. -/
theorem C19_bad_record_harmless (cfg : Cfg) (types : List DataType) (table : List (List Val))
    (before after : List (Option (List Bytes))) (bad : Option (List Bytes))
    (hbad : importRecord cfg types bad = none) :
    importAll cfg types table (before ++ bad :: after) = importAll cfg types table (before ++ after) := by
  simp only [C19_import, List.filterMap_append, List.filterMap_cons, hbad]

/-- **C19.one_row_each**: the number of rows added equals the number of accepted records. -/
theorem C19_one_row_each (cfg : Cfg) (types : List DataType) (table : List (List Val))
    (recs : List (Option (List Bytes))) :
    (importAll cfg types table recs).length =
      table.length + (recs.filter fun r => (importRecord cfg types r).isSome).length := by
  rw [C19_import, List.length_append]
  congr 1
  induction recs with
  | nil => rfl
  | cons r rest ih =>
    simp only [List.filterMap_cons, List.filter_cons]
    cases h : importRecord cfg types r with
    | none => simpa using ih
    | some row => simpa using ih

/-- **C19.null_marker**: the `\N` marker becomes NULL whatever the column type; anything
else destined for an INT/BIGINT column must be a decimal integer, for a BOOLEAN column one of
1/0/true/false/t/f (any case); a VARCHAR column takes the bytes as they are. -/
theorem C19_conv_field (ty : DataType) (f : Bytes) :
    (f = nullMarker → convField ty f = some .null) ∧
    (f ≠ nullMarker → convField ty f =
      match ty with
      | .int => (Sql.atoi f).map .int
      | .bigint => (Sql.atoi f).map .int
      | .boolean => (boolWord f).map .bool
      | .varchar => some (.str f)) := by
  constructor
  · intro h; simp [convField, h]
  · intro h
    have : (f == nullMarker) = false := by simpa using h
    simp only [convField, this, Bool.false_eq_true, ↓reduceIte]
    cases ty <;> rfl

/-- **C19.convert**: an accepted record is stored as exactly one row with one value per
schema column; the column that is the i-th destination column holds the conversion (to
that column's type) of the record's field number `srcCols[i]`, every column that is not a
destination column is NULL.  For all schemas with distinct column names, all mappings
naming each destination once, all records. -/
theorem C19_convert (cfg : Cfg) (types : List DataType) (rec : List Bytes) (row : List Val)
    (hschema : (cfg.schema.map (·.name)).Nodup)
    (hdst : cfg.dstCols.Nodup)
    (htypes : colTypes cfg.schema cfg.dstCols = some types)
    (hlen : cfg.srcCols.length = cfg.dstCols.length)
    (hfields : ∀ f ∈ rec, f.length < 2 ^ 32)
    (h : importRecord cfg types (some rec) = some row) :
    row.length = cfg.schema.length ∧
    ∀ (k : Nat) (fd : FieldDef), cfg.schema[k]? = some fd →
      (∀ (i : Nat), cfg.dstCols[i]? = some fd.name →
          ∃ idx f v, cfg.srcCols[i]? = some idx ∧ rec[idx]? = some f ∧ convField fd.ty f = some v ∧ row[k]? = some v) ∧
      (fd.name ∉ cfg.dstCols → row[k]? = some .null) :=
  convert_spec cfg types rec row hschema hdst htypes hlen hfields h

example : importRecord ⟨[⟨"a", .bigint, 0⟩, ⟨"b", .varchar, 255⟩], ["b", "a"], [1, 0]⟩ [.varchar, .bigint]
    (some [[49, 50, 51], [120]]) = some [.int 123, .str [120]] := by decide

end Mkdb.Csv
