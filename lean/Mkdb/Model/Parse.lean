import Mkdb.Model.Ast
/-!
Model of sql/parser.go, production by production, over the remaining token list (the Go
index `cur` is the number of tokens consumed).  Every Go construct that can panic is an
explicit `.panic site` result; running out of `fuel` is the fourth outcome `.fuel`
(C09 proves neither is reachable).
-/
namespace Mkdb.Sql
open Mkdb.Scan Mkdb.Generated

inductive PErr where
  | syntax | unexpected | negLimit | negOffset | invalidGroupBy | ambiguousGroupBy
  | avgArg | atoi | tokenVal
deriving Repr, DecidableEq

inductive R (α : Type) where
  | ok (a : α) (rest : List Token)
  | err (e : PErr)
  | panic (site : String)
  | fuel
deriving Repr

abbrev P (α : Type) := List Token → R α

@[inline] def P.pure {α} (a : α) : P α := fun ts => .ok a ts
@[inline] def P.bind {α β} (m : P α) (f : α → P β) : P β := fun ts =>
  match m ts with
  | .ok a rest => f a rest
  | .err e => .err e
  | .panic s => .panic s
  | .fuel => .fuel

instance : Monad P where
  pure := P.pure
  bind := P.bind

def fail {α} (e : PErr) : P α := fun _ => .err e
def panic {α} (site : String) : P α := fun _ => .panic site
def outOfFuel {α} : P α := fun _ => .fuel

def eofToken : Token := ⟨t_EOF, []⟩

/-- `p.Cur()` -/
def curTok : P Token := fun ts => .ok (ts.headD eofToken) ts
/-- `p.Advance()` -/
def advance : P Unit := fun ts => .ok () ts.tail
/-- `p.HasNext()`: `cur < len(tokens)-1` -/
def hasNext : P Bool := fun ts => .ok (decide (ts.length > 1)) ts

/-- `p.match(types...)`; returns the matched token (what `p.Prev()` is afterwards). -/
def matchTy (tys : List Int) : P (Option Token) := fun ts =>
  match ts with
  | t :: rest => if tys.contains t.ty then .ok (some t) rest else .ok none ts
  | [] => .ok none ts

def curIs (tys : List Int) : P Bool := fun ts => .ok (tys.contains (ts.headD eofToken).ty) ts

/-- `p.requireMatch(types...)` -/
def requireMatch (tys : List Int) : P Token := do
  match ← matchTy tys with
  | some t => pure t
  | none => fail .unexpected

def literalTys : List Int :=
  (List.range (t_literal_end - t_literal_start - 1).toNat).map fun (i : Nat) => t_literal_start + 1 + Int.ofNat i

def digitsVal : List UInt8 → Nat → Option Nat
  | [], acc => some acc
  | b :: rest, acc => if 48 ≤ b.toNat ∧ b.toNat ≤ 57 then digitsVal rest (acc * 10 + (b.toNat - 48)) else none

/-- `strconv.Atoi` on a 64-bit platform. -/
def atoi (text : Bytes) : Option Int :=
  let (neg, ds) : Bool × Bytes := match text with
    | 43 :: rest => (false, rest)
    | 45 :: rest => (true, rest)
    | _ => (false, text)
  if ds.isEmpty then none else
  match digitsVal ds 0 with
  | none => none
  | some n =>
    let v : Int := if neg then -(n : Int) else n
    if v < -9223372036854775808 ∨ v > 9223372036854775807 then none else some v

/-- `Token.Val()` -/
def tokenVal (t : Token) : Except PErr Lit :=
  if t.ty == t_STR then .ok (.str t.text)
  else if t.ty == t_INT then
    match atoi t.text with
    | some i => .ok (.int i)
    | none => .error .atoi
  else if t.ty == t_TRUE then .ok (.bool true)
  else if t.ty == t_FALSE then .ok (.bool false)
  else .error .tokenVal

/-- `p.requireInt()`: the error of `Token.Val` is returned before `val.(int64)`. -/
def requireInt : P Int := do
  let t ← requireMatch [t_INT]
  match tokenVal t with
  | .ok (.int i) => pure i
  | .ok _ => panic "requireInt: val.(int64)"
  | .error e => fail e

/-- `p.ColumnReference()` -/
def columnReference : P (Option ColRef) := do
  match ← matchTy [t_IDENT] with
  | none => pure none
  | some first =>
    if ← curIs [t_DOT] then
      advance
      let second ← requireMatch [t_IDENT]
      pure (some ⟨first.text, second.text⟩)
    else pure (some ⟨[], first.text⟩)

/-- `p.ValueExpression()` -/
def valueExpression : P VExpr := do
  match ← matchTy literalTys with
  | some t =>
    match tokenVal t with
    | .ok l => pure (.lit l)
    | .error e => fail e
  | none =>
    match ← columnReference with
    | some c => pure (.col c)
    | none => fail .unexpected

def compOps : List Int := [t_EQ, t_NEQ, t_LT, t_GT, t_LTE, t_GTE]

/-- `p.Predicate()` / `p.ComparisonPredicate()` -/
def predicate : P Cond := do
  let lhs ← valueExpression
  match ← matchTy compOps with
  | none => pure (.val lhs)
  | some op =>
    let rhs ← valueExpression
    pure (.pred ⟨lhs, op.ty, rhs⟩)

mutual
/-- `p.AndCondition()` -/
def andCond : Nat → P Cond
  | 0 => outOfFuel
  | f+1 => do
    let ret ← predicate
    andLoop f ret
/-- the `for p.match(AND)` loop of `AndCondition` -/
def andLoop : Nat → Cond → P Cond
  | 0, _ => outOfFuel
  | f+1, ret => do
    match ← matchTy [t_AND] with
    | none => pure ret
    | some _ =>
      match ret with
      | .pred p =>
        let rhs ← andCond f
        andLoop f (.and p rhs)
      | _ => fail .syntax   -- `lhs, ok := ret.(Predicate); if !ok { return nil, syntaxErr(p.Prev()) }`
end

mutual
/-- `p.OrCondition()` -/
def orCond : Nat → P Cond
  | 0 => outOfFuel
  | f+1 => do
    let ret ← andCond f
    orLoop f ret
/-- the `for p.match(OR)` loop of `OrCondition` -/
def orLoop : Nat → Cond → P Cond
  | 0, _ => outOfFuel
  | f+1, ret => do
    match ← matchTy [t_OR] with
    | none => pure ret
    | some _ =>
      let rhs ← orCond f
      orLoop f (.or ret rhs)
end

def commaFollows : P Bool := do
  match ← matchTy [t_COMMA] with
  | some _ => pure true
  | none => pure false

/-- Loops of the shape `for { x := body; append; if !cont { break } }`: `body` returns the
element and whether the loop continues. -/
def sepLoop {α} : Nat → P (α × Bool) → P (List α)
  | 0, _ => outOfFuel
  | f+1, body => do
    let (a, cont) ← body
    if cont then
      let rest ← sepLoop f body
      pure (a :: rest)
    else pure [a]

/-- Loops of the shape `for p.match(X) { …; append; if !p.match(COMMA) { break } }`. -/
def guardedLoop {α} : Nat → List Int → (Token → P (α × Bool)) → P (List α)
  | 0, _, _ => outOfFuel
  | f+1, tys, body => do
    match ← matchTy tys with
    | none => pure []
    | some t =>
      let (a, cont) ← body t
      if cont then
        let rest ← guardedLoop f tys body
        pure (a :: rest)
      else pure [a]

/-- `p.SetFunctionSpecification()` -/
def setFunction : P (Option SelItem) := do
  match ← matchTy [t_COUNT] with
  | some _ =>
    let _ ← requireMatch [t_LPAREN]
    let item ← (do
      match ← columnReference with
      | some c => pure (SelItem.count (some c))
      | none =>
        let _ ← requireMatch [t_ASTRSK]
        pure (SelItem.count none))
    let _ ← requireMatch [t_RPAREN]
    pure (some item)
  | none =>
    match ← matchTy [t_AVG] with
    | some _ =>
      let _ ← requireMatch [t_LPAREN]
      match ← columnReference with
      | none => fail .avgArg
      | some c =>
        let _ ← requireMatch [t_RPAREN]
        pure (some (SelItem.avg c))
    | none => pure none

/-- `p.DerivedColumn()` -/
def derivedColumn (f : Nat) : P SelItem := do
  match ← setFunction with
  | some s => pure s
  | none =>
    let c ← orCond f
    pure (.expr c)

/-- `p.SelectList()` -/
def selectList (f : Nat) : P (List DerivedCol) := do
  match ← matchTy [t_ASTRSK] with
  | some _ => pure [⟨.star, []⟩]
  | none =>
    sepLoop f (do
      let item ← derivedColumn f
      match ← matchTy [t_AS] with
      | some _ =>
        if !(← curIs [t_IDENT]) then
          let _ ← requireMatch [t_IDENT]   -- fails: the error is returned
          pure ()
      | none => pure ()
      let alias ← matchTy [t_IDENT]
      let dc : DerivedCol := ⟨item, match alias with | some a => a.text | none => []⟩
      pure (dc, ← commaFollows))

/-- `p.TableName()` -/
def tableName : P TableName := do
  let n ← requireMatch [t_IDENT]
  let a ← matchTy [t_IDENT]
  pure ⟨n.text, a.map (·.text)⟩

/-- the `for p.curType(JOIN, LEFT, RIGHT, INNER)` loop of `FromClause` -/
def joinLoop : Nat → TableRef → P TableRef
  | 0, _ => outOfFuel
  | f+1, lhs => do
    if ← curIs [t_JOIN, t_LEFT, t_RIGHT, t_INNER] then
      let jt ← (do
        match ← matchTy [t_LEFT] with
        | some _ => pure JoinType.left
        | none =>
          match ← matchTy [t_RIGHT] with
          | some _ => pure JoinType.right
          | none =>
            let _ ← matchTy [t_INNER]
            pure JoinType.inner)
      let _ ← requireMatch [t_JOIN]
      let rhs ← tableName
      let _ ← requireMatch [t_ON]
      let on ← orCond f
      joinLoop f (.join lhs jt rhs on)
    else pure lhs

/-- `p.FromClause()` -/
def fromClause (f : Nat) : P (Option TableRef) := do
  match ← matchTy [t_FROM] with
  | none => pure none
  | some _ =>
    let tn ← tableName
    let tr ← joinLoop f (.table tn)
    pure (some tr)

/-- `p.WhereClause()` -/
def whereClause (f : Nat) : P (Option Cond) := do
  match ← matchTy [t_WHERE] with
  | none => pure none
  | some _ =>
    let c ← orCond f
    pure (some c)

/-- the loop of `GroupByClause`: columns separated by an optional comma; a comma must be
followed by a column.  `afterComma` = a column was read and the previous token is a comma. -/
def groupByLoop : Nat → Bool → P (List ColRef)
  | 0, _ => outOfFuel
  | f+1, afterComma => do
    match ← columnReference with
    | none => if afterComma then fail .unexpected else pure []
    | some c =>
      let comma ← commaFollows
      let rest ← groupByLoop f comma
      pure (c :: rest)

/-- `p.GroupByClause()` -/
def groupByClause (f : Nat) : P (List ColRef) := do
  match ← matchTy [t_GROUP] with
  | none => pure []
  | some _ =>
    let _ ← requireMatch [t_BY]
    groupByLoop f false

/-- `ColumnReference.Equals` -/
def ColRef.equals (v rhs : ColRef) : Bool :=
  if v.qual.isEmpty != rhs.qual.isEmpty then false
  else if v.qual != rhs.qual then false
  else v.name == rhs.name

/-- `DerivedColumn.Matches` -/
def DerivedCol.matches (d : DerivedCol) (rhs : ColRef) : Bool :=
  match d.item with
  | .expr (.val (.col lhs)) =>
    -- (an alias is an output name: only an unqualified reference can mean it)
    lhs.equals rhs || (d.alias == rhs.name && rhs.qual.isEmpty) || (lhs.name == rhs.name && rhs.qual.isEmpty)
  | _ => false

def DerivedCol.isColRef (d : DerivedCol) : Bool :=
  match d.item with
  | .expr (.val (.col _)) => true
  | _ => false

def hasAggr (sl : List DerivedCol) : Bool :=
  sl.any fun d => match d.item with | .count _ => true | .avg _ => true | _ => false

/-- `validateGroupByFields` -/
def validateGroupBy (sl : List DerivedCol) (gb : List ColRef) : Except PErr Unit :=
  if !hasAggr sl && gb.isEmpty then .ok ()
  else if sl.any (fun d => d.isColRef && !(gb.any fun g => d.matches g)) then .error .invalidGroupBy
  else if gb.any (fun g => (sl.filter fun d => d.isColRef && d.matches g).length > 1) then .error .ambiguousGroupBy
  else .ok ()

/-- `p.SortSpecificationList()` -/
def sortSpecList (f : Nat) : P (List SortSpec) := do
  match ← matchTy [t_ORDER] with
  | none => pure []
  | some _ =>
    let _ ← requireMatch [t_BY]
    sepLoop f (do
      match ← columnReference with
      | none => fail .unexpected
      | some c =>
        let dir ← matchTy [t_ASC, t_DESC]
        let desc := match dir with | some t => t.ty == t_DESC | none => false
        pure (⟨c, desc⟩, ← commaFollows))

/-- the `for p.match(LIMIT, OFFSET)` loop of `LimitOffsetClause` -/
def limitLoop : Nat → LimitOffset → P LimitOffset
  | 0, _ => outOfFuel
  | f+1, lc => do
    match ← matchTy [t_LIMIT, t_OFFSET] with
    | none => pure lc
    | some t =>
      if t.ty == t_LIMIT && !lc.limitActive then
        let n ← requireInt
        limitLoop f { lc with limitActive := true, limit := n }
      else if t.ty == t_OFFSET && !lc.offsetActive then
        let n ← requireInt
        limitLoop f { lc with offsetActive := true, offset := n }
      else limitLoop f lc

/-- `p.LimitOffsetClause()` -/
def limitOffsetClause (f : Nat) : P LimitOffset := do
  let lc ← limitLoop f {}
  if lc.limit < 0 then fail .negLimit
  else if lc.offset < 0 then fail .negOffset
  else pure lc

/-- `p.Select()` -/
def parseSelect (f : Nat) : P Select := do
  let sl ← selectList f
  let from_ ← fromClause f
  match from_ with
  | none =>
    if ← hasNext then
      let _ ← requireMatch [t_FROM]
      -- unreachable: FROM was just seen not to be the current token
      fail .unexpected
    else
      match validateGroupBy sl [] with
      | .error e => fail e
      | .ok () =>
        let ob ← sortSpecList f
        let lim ← limitOffsetClause f
        pure { list := sl, orderBy := ob, lim := lim }
  | some tr =>
    let w ← whereClause f
    let gb ← groupByClause f
    match validateGroupBy sl gb with
    | .error e => fail e
    | .ok () =>
      let ob ← sortSpecList f
      let lim ← limitOffsetClause f
      pure { list := sl, from_ := some tr, where_ := w, groupBy := gb, orderBy := ob, lim := lim }

/-- `p.TableElements()` -/
def tableElements (f : Nat) : P (List ColDef) := do
  let _ ← requireMatch [t_LPAREN]
  let cols ← guardedLoop f [t_IDENT] (fun nameTok => do
    let cur ← curTok
    advance
    let ty ← (do
      if cur.ty == t_T_INT then pure ColType.int
      else if cur.ty == t_T_BIGINT then pure ColType.bigint
      else if cur.ty == t_T_VARCHAR then
        let _ ← requireMatch [t_LPAREN]
        let n ← requireInt
        let _ ← requireMatch [t_RPAREN]
        pure (ColType.varchar n)
      else if cur.ty == t_T_BOOL then pure ColType.boolean
      else fail .syntax)
    pure (⟨nameTok.text, ty⟩, ← commaFollows))
  let _ ← requireMatch [t_RPAREN]
  pure cols

/-- `p.Create()` -/
def parseCreate (f : Nat) : P Stmt := do
  let cur ← curTok
  advance
  if cur.ty == t_DATABASE then
    let n ← requireMatch [t_IDENT]
    pure (.createDatabase n.text)
  else if cur.ty == t_TABLE then
    let name ← matchTy [t_IDENT]
    let cols ← tableElements f
    pure (.createTable (match name with | some n => n.text | none => []) cols)
  else fail .syntax

/-- `p.Insert()` -/
def parseInsert (f : Nat) : P Stmt := do
  let _ ← requireMatch [t_INTO]
  let tbl ← requireMatch [t_IDENT]
  let cols ← (do
    match ← matchTy [t_LPAREN] with
    | none => pure []
    | some _ =>
      let cs ← guardedLoop f [t_IDENT] (fun t => do pure (t.text, ← commaFollows))
      let _ ← requireMatch [t_RPAREN]
      pure cs)
  let _ ← requireMatch [t_VALUES]
  let rows ← guardedLoop f [t_LPAREN] (fun _ => do
    let vals ← guardedLoop f literalTys (fun t => do
      match tokenVal t with
      | .error e => fail e
      | .ok l => pure (l, ← commaFollows))
    let _ ← requireMatch [t_RPAREN]
    pure (vals, ← commaFollows))
  pure (.insert tbl.text cols rows)

/-- `p.Update()` -/
def parseUpdate (f : Nat) : P Stmt := do
  let tbl ← requireMatch [t_IDENT]
  let _ ← requireMatch [t_SET]
  let sets ← guardedLoop f [t_IDENT] (fun col => do
    let _ ← requireMatch [t_EQ]
    let v ← valueExpression
    pure ((col.text, v), ← commaFollows))
  let w ← whereClause f
  pure (.update tbl.text sets w)

/-- `p.Delete()` -/
def parseDelete (f : Nat) : P Stmt := do
  let _ ← requireMatch [t_FROM]
  let tbl ← requireMatch [t_IDENT]
  let w ← whereClause f
  pure (.delete tbl.text w)

def asciiLower (b : Bytes) : Bytes := b.map fun c => if 65 ≤ c.toNat ∧ c.toNat ≤ 90 then c + 32 else c

/-- `p.Show()` -/
def parseShow : P Stmt := do
  let cur ← curTok
  advance
  if cur.ty == t_DATABASE then pure .showDatabases
  else if cur.ty == t_IDENT && asciiLower cur.text == "databases".toUTF8.toList then pure .showDatabases
  else fail .syntax

/-- `p.parseStatement()` -/
def parseStmt (f : Nat) : P Stmt := do
  let cur ← curTok
  advance
  if cur.ty == t_CREATE then parseCreate f
  else if cur.ty == t_SELECT then do let s ← parseSelect f; pure (.select s)
  else if cur.ty == t_INSERT then parseInsert f
  else if cur.ty == t_UPDATE then parseUpdate f
  else if cur.ty == t_USE then do let n ← requireMatch [t_IDENT]; pure (.use n.text)
  else if cur.ty == t_DELETE then parseDelete f
  else if cur.ty == t_SHOW then parseShow
  else fail .syntax

/-- Outcome of `engine.parseSQL`. -/
inductive Outcome where
  | ok (s : Stmt)
  | err (e : PErr)
  | panic (site : String)
  | fuel
deriving Repr

/-- `for p.match(SEMICOLON) {}`: the semicolons that may close a statement -/
def dropSemis : List Token → List Token
  | [] => []
  | t :: rest => if t.ty == t_SEMICOLON then dropSemis rest else t :: rest

/-- the end-of-input test of `Parser.Parse`: behind the statement and its closing semicolons the
parser stands on the EOF token (or past the last token) -/
def atEnd (rest : List Token) : Bool := ((dropSemis rest).headD eofToken).ty == t_EOF

/-- `Parser.Parse` as called by `engine.parseSQL`: one statement (`parseStmt`, the Go
`parseStatement`), closing semicolons, end of input - anything else is a syntax error. -/
def parseTokens (ts : List Token) : Outcome :=
  match parseStmt (ts.length + 2) ts with
  | .ok s rest => if atEnd rest then .ok s else .err .syntax
  | .err e => .err e
  | .panic s => .panic s
  | .fuel => .fuel

def parseSQL (input : Input) : Outcome :=
  match scanSQL input with
  | .ok ts => parseTokens ts
  | .fuel => .fuel

end Mkdb.Sql
