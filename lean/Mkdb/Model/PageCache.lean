import Mkdb.Model.LRU
/-!
The page cache in front of the data file (storage/page.go `fileStore.fetch`, `update`/`markDirty`,
`flushPages`, over storage/lru.go), with page *contents*, for C16: what the engine reads through a
cache of any capacity is what it would read with an unbounded one.

`items` is the recency list (most recently used first) of resident pages with their content and
dirty bit; `disk` is the data file.  Eviction is exactly `LRUCache.set`'s: the coldest clean entry,
refusal (`ErrCacheFull`, here `none`) when every resident page is dirty.  A change to a page is
fetch + in-place change + `markDirty`; a flush writes every dirty page and marks it clean.
-/
namespace Mkdb.PageCache

structure Ent (α : Type) where
  key   : Nat
  val   : α
  dirty : Bool

structure St (α : Type) where
  cap   : Nat
  items : List (Ent α)
  disk  : Nat → α

variable {α : Type}

def find? (l : List (Ent α)) (k : Nat) : Option (Ent α) := l.find? fun e => e.key == k
def remove (l : List (Ent α)) (k : Nat) : List (Ent α) := l.filter fun e => !(e.key == k)

/-- remove the coldest (last) clean entry; `none` when all are dirty -/
def evict : List (Ent α) → Option (List (Ent α))
  | [] => none
  | e :: rest =>
    match evict rest with
    | some rest' => some (e :: rest')
    | none => if e.dirty then none else some rest

/-- the key / dirty-bit view of the recency list, as in the LRU model of C15 (`id` := the key) -/
def proj (l : List (Ent α)) : List LRU.Entry := l.map fun e => ⟨e.key, e.key, e.dirty⟩

/-- `LRUCache.set` of a page that is not resident -/
def insertNew (s : St α) (e : Ent α) : Option (St α) :=
  if s.items.length == s.cap then
    match evict s.items with
    | none => none                                   -- ErrCacheFull
    | some items' => some { s with items := e :: items' }
  else some { s with items := e :: s.items }

/-- `fileStore.fetch`: a hit moves the page to the front; a miss reads the file and caches a clean copy -/
def fetch (s : St α) (k : Nat) : Option (St α × α) :=
  match find? s.items k with
  | some e => some ({ s with items := e :: remove s.items k }, e.val)
  | none =>
    match insertNew s ⟨k, s.disk k, false⟩ with
    | some s' => some (s', s.disk k)
    | none => none

/-- change a page: fetch it, change the resident copy in place, mark it dirty -/
def write (s : St α) (k : Nat) (f : α → α) : Option (St α) :=
  match fetch s k with
  | none => none
  | some (s', _) =>
    some { s' with items := s'.items.map fun e => if e.key == k then { e with val := f e.val, dirty := true } else e }

/-- `flushPages`: every dirty page goes to the file and becomes clean -/
def flush (s : St α) : St α :=
  { s with
    disk := fun k => match find? s.items k with
      | some e => if e.dirty then e.val else s.disk k
      | none => s.disk k
    items := s.items.map fun e => { e with dirty := false } }

inductive Op (α : Type) where
  | fetch (k : Nat)
  | write (k : Nat) (f : α → α)
  | flush

/-- one operation; `none` = the cache refused (`ErrCacheFull`); the output is what a fetch returned -/
def step (s : St α) : Op α → Option (St α × Option α)
  | .fetch k => (fetch s k).map fun (s', v) => (s', some v)
  | .write k f => (write s k f).map fun s' => (s', none)
  | .flush => some (flush s, none)

def run (s : St α) : List (Op α) → Option (St α × List (Option α))
  | [] => some (s, [])
  | op :: rest =>
    match step s op with
    | none => none
    | some (s', o) =>
      match run s' rest with
      | none => none
      | some (s'', os) => some (s'', o :: os)

/-- the reference: no cache at all, one current content per page -/
def refStep (m : Nat → α) : Op α → (Nat → α) × Option α
  | .fetch k => (m, some (m k))
  | .write k f => (fun k' => if k' = k then f (m k) else m k', none)
  | .flush => (m, none)

def refRun (m : Nat → α) : List (Op α) → (Nat → α) × List (Option α)
  | [] => (m, [])
  | op :: rest =>
    let (m', o) := refStep m op
    let (m'', os) := refRun m' rest
    (m'', o :: os)

/-- the logical content of page `k`: the resident copy, else the file -/
def view (s : St α) (k : Nat) : α :=
  match find? s.items k with
  | some e => e.val
  | none => s.disk k

/-- resident keys are distinct, the cache is within its capacity, and a clean resident page equals its
disk image ("only clean pages are evictable, so an evicted page equals its disk image") -/
def Inv (s : St α) : Prop :=
  ((s.items.map (·.key)).Nodup) ∧ s.items.length ≤ s.cap ∧
  ∀ e ∈ s.items, e.dirty = false → s.disk e.key = e.val

/-! ### the flush as the code does it: it changes the recency order

`fileStore.flushPagesLocked` ranges over the cache's Go map - in an order that is arbitrary and differs
from run to run - and for every dirty page calls `update`, which ends in `setCache` = `LRUCache.set` of
a resident key = `MoveToFront`, and then `markClean`.  After a flush every page that was dirty is at the
front of the recency list, the page visited LAST in front; the pages that were clean follow in their old
relative order.  `flush` above is the idealisation that keeps the order; `flushOrd` is the code. -/

/-- `markClean` -/
def clean (e : Ent α) : Ent α := { e with dirty := false }

/-- one turn of the loop of `flushPagesLocked` at page `k`: a resident dirty page is written,
moved to the front (`update` → `setCache` → `MoveToFront`) and marked clean; anything else is skipped -/
def visit (l : List (Ent α)) (k : Nat) : List (Ent α) :=
  match find? l k with
  | some e => if e.dirty then clean e :: remove l k else l
  | none => l

/-- `flushPagesLocked` when the map iteration meets the keys in the order `order` (first visited
first; so the LAST key of `order` ends up in front).  Total in `order`: a key that is not resident, not
dirty, or was met before is skipped (as the loop skips clean pages; a Go map has each key once); dirty
pages that `order` does not name are visited after the named ones, coldest first (they go in front of the
named ones and keep their relative order).  The code visits every dirty page, so its behaviours are
exactly the `order`s that enumerate the dirty resident keys; completing the other `order`s instead of
demanding an enumeration keeps every theorem free of a side condition on `order` and adds no
behaviour (`flushOrd_complete_order` in Proofs/FlushOrder3: every `order` gives the state of one that
enumerates the dirty keys).  Disk and dirty bits are those of `flush`. -/
def flushOrd (s : St α) (order : List Nat) : St α :=
  let v := order.foldl visit s.items
  { s with
    disk := (flush s).disk
    items := (v.filter fun e => e.dirty).map clean ++ v.filter fun e => !e.dirty }

/-- `Op` with the flush of the code: the order of the map iteration is a parameter of the operation -/
inductive OpF (α : Type) where
  | fetch (k : Nat)
  | write (k : Nat) (f : α → α)
  | flushOrd (order : List Nat)

/-- the operation with the iteration order forgotten -/
def OpF.toOp : OpF α → Op α
  | .fetch k => .fetch k
  | .write k f => .write k f
  | .flushOrd _ => .flush

def stepF (s : St α) : OpF α → Option (St α × Option α)
  | .fetch k => (fetch s k).map fun (s', v) => (s', some v)
  | .write k f => (write s k f).map fun s' => (s', none)
  | .flushOrd order => some (flushOrd s order, none)

def runF (s : St α) : List (OpF α) → Option (St α × List (Option α))
  | [] => some (s, [])
  | op :: rest =>
    match stepF s op with
    | none => none
    | some (s', o) =>
      match runF s' rest with
      | none => none
      | some (s'', os) => some (s'', o :: os)

end Mkdb.PageCache
