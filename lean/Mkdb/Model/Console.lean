/-!
Model of cmd/console/go_terminal.go as far as C20 needs it: `handleKey` for printable keys
and Enter (`keyEnter`), with the statement splitter `splitStatements`.
Keys are code points; the line buffer is a list of code points.
-/
namespace Mkdb.Console

def keyEnter : Nat := 13

/-- `isPrintable` and not one of the keys `handleKey` treats specially. -/
def isPrintable (k : Nat) : Bool := k ≥ 32 && !(0xd800 ≤ k && k ≤ 0xdbff) && k != 127

/-- Unicode White_Space code points that can be in the buffer (what `strings.TrimSpace` trims). -/
def isSpace (k : Nat) : Bool :=
  k == 32 || k == 0x85 || k == 0xA0 || k == 0x1680 || (0x2000 ≤ k && k ≤ 0x200A) ||
  k == 0x2028 || k == 0x2029 || k == 0x202F || k == 0x205F || k == 0x3000 ||
  (9 ≤ k && k ≤ 13)

def trimLeft : List Nat → List Nat
  | [] => []
  | c :: rest => if isSpace c then trimLeft rest else c :: rest

def trim (l : List Nat) : List Nat := (trimLeft (trimLeft l).reverse).reverse

/-- Quote state of the splitter: outside, inside a quote, inside after a backslash. -/
inductive Q where
  | top
  | inq (q : Nat)
  | esc (q : Nat)
deriving Repr, DecidableEq

/-- One rune of `splitStatements`: new quote state and whether a statement ends here. -/
def qstep (q : Q) (r : Nat) : Q × Bool :=
  match q with
  | .esc q0 => (.inq q0, false)
  | .inq q0 =>
    if r == 92 && q0 != 96 then (.esc q0, false)
    else if r == q0 then (.top, false)
    else (.inq q0, false)
  | .top =>
    if r == 39 || r == 34 || r == 96 then (.inq r, false)
    else if r == 59 then (.top, true)
    else (.top, false)

/-- State of the `for cur, r := range line` loop of `splitStatements`: quote state, the
current piece `line[begin:cur]` (reversed) and the statements found so far (reversed). -/
structure S where
  q     : Q := .top
  piece : List Nat := []
  done  : List (List Nat) := []
deriving Repr

/-- one iteration of the loop -/
def feed (s : S) (r : Nat) : S :=
  let (q', ends) := qstep s.q r
  if ends then { q := q', piece := [], done := trim (r :: s.piece).reverse :: s.done }
  else { q := q', piece := r :: s.piece, done := s.done }

/-- `splitStatements`: the statements (each trimmed, ending with its top-level ';') and the
rest after the last top-level ';'. -/
def splitStatements (line : List Nat) : List (List Nat) × List Nat :=
  let s := line.foldl feed {}
  (s.done.reverse, s.piece.reverse)

structure Term where
  line : List Nat := []
deriving Repr

/-- `handleKey`: the new state and, when Enter completes the input, the submitted statements. -/
def step (t : Term) (k : Nat) : Term × Option (List (List Nat)) :=
  if k == keyEnter then
    let (stmts, rest) := splitStatements t.line
    if rest.all isSpace then ({ line := [] }, some stmts)
    else ({ line := t.line ++ [32] }, none)
  else if isPrintable k then
    -- (no limit on the length of an entry: a key dropped in silence loses or mutilates a statement)
    ({ line := t.line ++ [k] }, none)
  else (t, none)

/-- All submissions of a key sequence, in order. -/
def run : Term → List Nat → List (List (List Nat))
  | _, [] => []
  | t, k :: ks =>
    match step t k with
    | (t', some s) => s :: run t' ks
    | (t', none) => run t' ks

end Mkdb.Console
