/-!
Model of the line editor of cmd/console/go_terminal.go.

* Key level: `handleKey` for every key of its `switch` (backspace, Alt-left/right, left/right,
  Home/End, up/down = history, delete word, delete to end of line, ^D, ^U, clear screen, Enter,
  printable keys), `addKeyToLine` (insertion at the cursor), `eraseNPreviousChars`,
  `countToLeftWord`/`countToRightWord`, bracketed-paste mode (every key except Enter is added
  to the line with no `isPrintable` test), the history ring (`stRingBuffer`, 100 entries) with
  `historyIndex`/`historyPending`, and the statement splitter `splitStatements`.
  `step` is `handleKey` followed by what `readLine` does with a completed line (every statement
  handed over becomes a history entry).
* Byte level: `bytesToKey` (all branches, paste flag), `utf8.FullRune`/`utf8.DecodeRune` as far as
  `bytesToKey` uses them, and the loop of `readLine`/`ReadLine` over a COMPLETE byte stream
  (`keyLoop`, `session`): ^C and ^D on an empty line end the console (`io.EOF`), `ESC[200~` /
  `ESC[201~` switch paste mode, a line that was pasted as a whole comes with `ErrPasteIndicator`.

Keys are numbers: code points, and for the special keys the values of the Go constants
(`keyUnknown = 0xd800 + iota` with `iota = 6` at that line of the const block).  The line buffer
is a list of keys.

NOT modelled (display only, no influence on `line`, `pos` or what is handed over): the output queue
(`queue`, `outBuf`), the cursor bookkeeping (`cursorX`, `cursorY`, `maxLine`, `posLastLF`,
`moveCursorToPos`, `advanceCursor`, `writeLine`, `clearLineToRight`), `echo` (always true in the
console), `AutoCompleteCallback` (nil in the console: cmd/console/main.go never sets it).
The 256-byte `inBuf` is not modelled: the stream is complete, and where a read ends changes no key
(every decision of `bytesToKey` needs only the bytes up to the end of the sequence; a sequence cut
by the end of a read is parsed again when more bytes are there).  Excluded point, a defect of the
code: ESC followed by 255 or more bytes none of which is a letter or `~` fills `inBuf`; `readLine`
then reads into an empty slice forever.

A statement handed over is modelled as the list of runes of its slice of the line; the conversion
`string(line[begin:cur+1])` (a rune that is no Unicode scalar value - a special key value that got
into the line in paste mode - becomes U+FFFD) is `validRune`: applied where the code converts a
string back to runes (history entries, `historyPending`), and by the driver when it prints.
-/
namespace Mkdb.Console

def keyCtrlC : Nat := 3
def keyCtrlD : Nat := 4
def keyCtrlU : Nat := 21
def keyEnter : Nat := 13
def keyEscape : Nat := 27
def keyBackspace : Nat := 127
def keyUnknown : Nat := 0xd806
def keyUp : Nat := 0xd807
def keyDown : Nat := 0xd808
def keyLeft : Nat := 0xd809
def keyRight : Nat := 0xd80a
def keyAltLeft : Nat := 0xd80b
def keyAltRight : Nat := 0xd80c
def keyHome : Nat := 0xd80d
def keyEnd : Nat := 0xd80e
def keyDeleteWord : Nat := 0xd80f
def keyDeleteLine : Nat := 0xd810
def keyClearScreen : Nat := 0xd811
def keyPasteStart : Nat := 0xd812
def keyPasteEnd : Nat := 0xd813

/-- `isPrintable` and not one of the keys `handleKey` treats specially. -/
def isPrintable (k : Nat) : Bool := k ≥ 32 && !(0xd800 ≤ k && k ≤ 0xdbff) && k != 127

/-- Unicode White_Space code points that can be in the buffer (what `strings.TrimSpace` trims). -/
def isSpace (k : Nat) : Bool :=
  k == 32 || k == 0x85 || k == 0xA0 || k == 0x1680 || (0x2000 ≤ k && k ≤ 0x200A) ||
  k == 0x2028 || k == 0x2029 || k == 0x202F || k == 0x205F || k == 0x3000 ||
  (9 ≤ k && k ≤ 13)

def trimLeft : List Nat → List Nat
  | [] => []
  | c :: rest => if isSpace c then trimLeft rest else c :: rest

def trim (l : List Nat) : List Nat := (trimLeft (trimLeft l).reverse).reverse

/-- Quote state of the splitter: outside, inside a quote, inside after a backslash. -/
inductive Q where
  | top
  | inq (q : Nat)
  | esc (q : Nat)
deriving Repr, DecidableEq

/-- One rune of `splitStatements`: new quote state and whether a statement ends here. -/
def qstep (q : Q) (r : Nat) : Q × Bool :=
  match q with
  | .esc q0 => (.inq q0, false)
  | .inq q0 =>
    if r == 92 && q0 != 96 then (.esc q0, false)
    else if r == q0 then (.top, false)
    else (.inq q0, false)
  | .top =>
    if r == 39 || r == 34 || r == 96 then (.inq r, false)
    else if r == 59 then (.top, true)
    else (.top, false)

/-- State of the `for cur, r := range line` loop of `splitStatements`: quote state, the
current piece `line[begin:cur]` (reversed) and the statements found so far (reversed). -/
structure S where
  q     : Q := .top
  piece : List Nat := []
  done  : List (List Nat) := []
deriving Repr

/-- one iteration of the loop -/
def feed (s : S) (r : Nat) : S :=
  let (q', ends) := qstep s.q r
  if ends then { q := q', piece := [], done := trim (r :: s.piece).reverse :: s.done }
  else { q := q', piece := r :: s.piece, done := s.done }

/-- `splitStatements`: the statements (each trimmed, ending with its top-level ';') and the
rest after the last top-level ';'. -/
def splitStatements (line : List Nat) : List (List Nat) × List Nat :=
  let s := line.foldl feed {}
  (s.done.reverse, s.piece.reverse)

/-- `[]rune(string(r))` for one rune: what is no Unicode scalar value becomes U+FFFD. -/
def validRune (k : Nat) : Nat := if (0xd800 ≤ k && k ≤ 0xdfff) || k > 0x10ffff then 0xfffd else k

/-- The editor state.  `history`: the entries of the ring, the most recent first (`stRingBuffer`
with `max = 100`: `NthPreviousEntry n` is `history[n]?`).  `historyIndex` as in the code
(`-1`: not in the history). -/
structure Term where
  line : List Nat := []
  pos : Nat := 0
  pasteActive : Bool := false
  history : List (List Nat) := []
  historyIndex : Int := -1
  historyPending : List Nat := []
deriving Repr

/-- `addKeyToLine`: insert at the cursor. -/
def addKeyToLine (t : Term) (k : Nat) : Term :=
  { t with line := t.line.take t.pos ++ k :: t.line.drop t.pos, pos := t.pos + 1 }

/-- `eraseNPreviousChars` -/
def eraseNPreviousChars (t : Term) (n : Nat) : Term :=
  let n := min n t.pos
  { t with line := t.line.take (t.pos - n) ++ t.line.drop t.pos, pos := t.pos - n }

/-- first loop of `countToLeftWord`: `for pos > 0 { if line[pos] != ' ' { break }; pos-- }` -/
def skipSpacesLeft (line : List Nat) : Nat → Nat
  | 0 => 0
  | p + 1 => if line.getD (p + 1) 0 != 32 then p + 1 else skipSpacesLeft line p

/-- second loop: `for pos > 0 { if line[pos] == ' ' { pos++; break }; pos-- }` -/
def wordStartLeft (line : List Nat) : Nat → Nat
  | 0 => 0
  | p + 1 => if line.getD (p + 1) 0 == 32 then p + 2 else wordStartLeft line p

def countToLeftWord (t : Term) : Nat :=
  if t.pos == 0 then 0 else t.pos - wordStartLeft t.line (skipSpacesLeft t.line (t.pos - 1))

/-- `countToRightWord`: over the non-spaces from the cursor on, then over the spaces. -/
def countToRightWord (t : Term) : Nat :=
  let suf := t.line.drop t.pos
  suf.length - ((suf.dropWhile (· != 32)).dropWhile (· == 32)).length

/-- `stRingBuffer.NthPreviousEntry` -/
def nthPrevious (h : List (List Nat)) (n : Int) : Option (List Nat) :=
  if n < 0 then none else h[n.toNat]?

/-- `setLine(runes, len(runes))` -/
def setLine (t : Term) (l : List Nat) : Term := { t with line := l, pos := l.length }

/-- `handleKey`: the new state and, when Enter completes the input, the statements. -/
def handleKey (t : Term) (k : Nat) : Term × Option (List (List Nat)) :=
  if t.pasteActive && k != keyEnter then (addKeyToLine t k, none)
  else if k == keyBackspace then
    (if t.pos == 0 then t else eraseNPreviousChars t 1, none)
  else if k == keyAltLeft then ({ t with pos := t.pos - countToLeftWord t }, none)
  else if k == keyAltRight then ({ t with pos := t.pos + countToRightWord t }, none)
  else if k == keyLeft then ({ t with pos := t.pos - 1 }, none)
  else if k == keyRight then (if t.pos == t.line.length then t else { t with pos := t.pos + 1 }, none)
  else if k == keyHome then ({ t with pos := 0 }, none)
  else if k == keyEnd then ({ t with pos := t.line.length }, none)
  else if k == keyUp then
    match nthPrevious t.history (t.historyIndex + 1) with
    | none => (t, none)
    | some e =>
      (setLine { t with
          historyPending := if t.historyIndex == -1 then t.line.map validRune else t.historyPending,
          historyIndex := t.historyIndex + 1 } e, none)
  else if k == keyDown then
    if t.historyIndex == -1 then (t, none)
    else if t.historyIndex == 0 then (setLine { t with historyIndex := -1 } t.historyPending, none)
    else
      match nthPrevious t.history (t.historyIndex - 1) with
      | some e => (setLine { t with historyIndex := t.historyIndex - 1 } e, none)
      | none => (t, none)
  else if k == keyDeleteWord then (eraseNPreviousChars t (countToLeftWord t), none)
  else if k == keyDeleteLine then ({ t with line := t.line.take t.pos }, none)
  else if k == keyCtrlD then
    (if t.pos < t.line.length then eraseNPreviousChars { t with pos := t.pos + 1 } 1 else t, none)
  else if k == keyCtrlU then (eraseNPreviousChars t t.pos, none)
  else if k == keyClearScreen then (t, none)
  else if k == keyEnter then
    let (stmts, rest) := splitStatements t.line
    if rest.all isSpace then ({ t with line := [], pos := 0 }, some stmts)
    else (addKeyToLine t 32, none)   -- the line break becomes a space, AT THE CURSOR
  else if isPrintable k then
    -- (no limit on the length of an entry: a key dropped in silence loses or mutilates a statement)
    (addKeyToLine t k, none)
  else (t, none)

/-- `readLine` after a completed line: `for _, l := range line { t.historyIndex = -1; t.history.Add(l) }`
(nothing happens, `historyIndex` stays, when no statement is handed over). -/
def addHistory (t : Term) (stmts : List (List Nat)) : Term :=
  stmts.foldl (fun t l => { t with historyIndex := -1, history := (l.map validRune :: t.history).take 100 }) t

/-- One key: `handleKey`, and the history entries of a completed line. -/
def step (t : Term) (k : Nat) : Term × Option (List (List Nat)) :=
  match handleKey t k with
  | (t', some s) => (addHistory t' s, some s)
  | (t', none) => (t', none)

/-- All submissions of a key sequence, in order. -/
def run : Term → List Nat → List (List (List Nat))
  | _, [] => []
  | t, k :: ks =>
    match step t k with
    | (t', some s) => s :: run t' ks
    | (t', none) => run t' ks

/-! ## Byte level -/

/-- UTF-8 encoding of a rune as Go's `string(rune)` / `[]byte(string(runes))` gives it. -/
def encodeRune (c0 : Nat) : List Nat :=
  let c := validRune c0
  if c < 0x80 then [c]
  else if c < 0x800 then [0xC0 + c / 64, 0x80 + c % 64]
  else if c < 0x10000 then [0xE0 + c / 4096, 0x80 + c / 64 % 64, 0x80 + c % 64]
  else [0xF0 + c / 262144, 0x80 + c / 4096 % 64, 0x80 + c / 64 % 64, 0x80 + c % 64]

/-- The table `first` of unicode/utf8 with `acceptRanges`: length of the sequence a first byte
announces (1: ASCII, 0: invalid) and the range of the second byte. -/
def utf8Class (b : Nat) : Nat × Nat × Nat :=
  if b < 0x80 then (1, 0, 0)
  else if b < 0xC2 then (0, 0, 0)
  else if b < 0xE0 then (2, 0x80, 0xBF)
  else if b == 0xE0 then (3, 0xA0, 0xBF)
  else if b == 0xED then (3, 0x80, 0x9F)
  else if b < 0xF0 then (3, 0x80, 0xBF)
  else if b == 0xF0 then (4, 0x90, 0xBF)
  else if b < 0xF4 then (4, 0x80, 0xBF)
  else if b == 0xF4 then (4, 0x80, 0x8F)
  else (0, 0, 0)

def isCont (b : Nat) : Bool := 0x80 ≤ b && b ≤ 0xBF

/-- `utf8.FullRune` and `utf8.DecodeRune`: `none` when the bytes are the beginning of a rune that
is not complete; a byte that begins no rune is U+FFFD of width 1. -/
def decodeRune : List Nat → Option (Nat × List Nat)
  | [] => none
  | b0 :: r =>
    let (sz, lo, hi) := utf8Class b0
    if sz == 1 then some (b0, r)
    else if sz == 0 then some (0xfffd, r)
    else
      match r with
      | [] => none
      | b1 :: r1 =>
        if b1 < lo || hi < b1 then some (0xfffd, r)
        else if sz == 2 then some (b0 % 32 * 64 + b1 % 64, r1)
        else
          match r1 with
          | [] => none
          | b2 :: r2 =>
            if !isCont b2 then some (0xfffd, r)
            else if sz == 3 then some (b0 % 16 * 4096 + b1 % 64 * 64 + b2 % 64, r2)
            else
              match r2 with
              | [] => none
              | b3 :: r3 =>
                if !isCont b3 then some (0xfffd, r)
                else some (b0 % 8 * 262144 + b1 % 64 * 4096 + b2 % 64 * 64 + b3 % 64, r3)

/-- the control bytes `bytesToKey` translates outside paste mode -/
def ctrlKey (b : Nat) : Option Nat :=
  if b == 1 then some keyHome else if b == 2 then some keyLeft else if b == 5 then some keyEnd
  else if b == 6 then some keyRight else if b == 8 then some keyBackspace
  else if b == 11 then some keyDeleteLine else if b == 12 then some keyClearScreen
  else if b == 23 then some keyDeleteWord else if b == 14 then some keyDown
  else if b == 16 then some keyUp else none

/-- `ESC [ c` -/
def csiKey (c : Nat) : Option Nat :=
  if c == 65 then some keyUp else if c == 66 then some keyDown else if c == 67 then some keyRight
  else if c == 68 then some keyLeft else if c == 72 then some keyHome else if c == 70 then some keyEnd
  else none

/-- `[a-zA-Z~]` -/
def isSeqEnd (c : Nat) : Bool := (97 ≤ c && c ≤ 122) || (65 ≤ c && c ≤ 90) || c == 126

/-- the bytes after the first `[a-zA-Z~]` -/
def afterSeqEnd : List Nat → Option (List Nat)
  | [] => none
  | c :: r => if isSeqEnd c then some r else afterSeqEnd r

def pasteStartSeq : List Nat := [27, 91, 50, 48, 48, 126]
def pasteEndSeq : List Nat := [27, 91, 50, 48, 49, 126]

/-- `bytesToKey`: the key and the remaining bytes; `none`: nothing consumed (no bytes, or an
incomplete sequence). -/
def bytesToKey (b : List Nat) (paste : Bool) : Option (Nat × List Nat) :=
  match b with
  | [] => none
  | b0 :: r =>
    match (if paste then none else ctrlKey b0) with
    | some k => some (k, r)
    | none =>
      if b0 != keyEscape then decodeRune b
      else
        match (if paste then none else
                match r with
                | 91 :: c :: r' => (csiKey c).map (fun k => (k, r'))
                | _ => none) with
        | some x => some x
        | none =>
          if !paste && b.length ≥ 6 && b.take 5 == [27, 91, 49, 59, 51] && b.getD 5 0 == 67 then
            some (keyAltRight, b.drop 6)
          else if !paste && b.length ≥ 6 && b.take 5 == [27, 91, 49, 59, 51] && b.getD 5 0 == 68 then
            some (keyAltLeft, b.drop 6)
          else if !paste && b.take 6 == pasteStartSeq then some (keyPasteStart, b.drop 6)
          else if paste && b.take 6 == pasteEndSeq then some (keyPasteEnd, b.drop 6)
          else (afterSeqEnd b).map (fun rest => (keyUnknown, rest))

/-- How one `ReadLine` ends. -/
inductive Outcome where
  | line (stmts : List (List Nat))     -- `err == nil`
  | pasted (stmts : List (List Nat))   -- the statements together with `ErrPasteIndicator`
  | eof                                -- `io.EOF`: ^C, ^D on an empty line, or the stream is at its end
deriving Repr

/-- The loop of `readLine` on what is left of the stream (`fuel`: at least the number of bytes):
the state after it, the bytes left (`remainder`), how it ended.  `lip` is `lineIsPasted`. -/
def keyLoop : Nat → Term → Bool → List Nat → Term × List Nat × Outcome
  | 0, t, _, rest => (t, rest, .eof)
  | fuel + 1, t, lip, rest =>
    match bytesToKey rest t.pasteActive with
    | none => (t, rest, .eof)
    | some (key, after) =>
      if !t.pasteActive then
        if key == keyCtrlD && t.line.isEmpty then (t, after, .eof)
        else if key == keyCtrlC then (t, after, .eof)
        else if key == keyPasteStart then
          keyLoop fuel { t with pasteActive := true } (lip || t.line.isEmpty) after
        else
          match step t key with
          | (t', some s) => (t', after, .line s)
          | (t', none) => keyLoop fuel t' false after
      else if key == keyPasteEnd then keyLoop fuel { t with pasteActive := false } lip after
      else
        match step t key with
        | (t', some s) => (t', after, if lip then .pasted s else .line s)
        | (t', none) => keyLoop fuel t' lip after

/-- `ReadLine` on what is left of the stream. -/
def readLine (t : Term) (bytes : List Nat) : Term × List Nat × Outcome :=
  keyLoop (bytes.length + 1) t t.pasteActive bytes

/-- The loop `for { lines, err := t.ReadLine(); ... }` of the console (cmd/console/main.go
`runTerminal`: `io.EOF` ends it; `ErrPasteIndicator` comes with a valid line and only says that the line
was pasted - its statements are executed like any others since repair edcd8de, before which a pasted line
ended the console with its statements dropped) on a complete byte stream: the lines handed over. -/
def sessionFrom : Nat → Term → List Nat → List (List (List Nat))
  | 0, _, _ => []
  | fuel + 1, t, bytes =>
    match readLine t bytes with
    | (t', rest, .line s) => s :: sessionFrom fuel t' rest
    | (t', rest, .pasted s) => s :: sessionFrom fuel t' rest
    | _ => []

def session (bytes : List Nat) : List (List (List Nat)) := sessionFrom (bytes.length + 1) {} bytes

end Mkdb.Console
