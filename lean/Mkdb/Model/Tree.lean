import Mkdb.Model.Page
import Mkdb.Generated.Consts
/-!
The B+ tree *as the engine can build it*, in the proof-friendly **levels** representation.
Row ids only ever arrive in ascending order (`lastKey+1`, or replayed ids), so only the
rightmost spine of a tree changes: a tree is its leaves left to right plus, bottom-up, the
levels of internal nodes (the top level is a singleton; no internal level = the root is a
leaf).  `insertAppend` is `BTree.insertKey` for a key larger than every stored key, including
leaf split, separator bubbling, internal split, root growth, page allocation order, LSN
stamping and dirty marking.  `flatten` is the page heap; `ofHeap` reads a tree back from a heap.

The heap-level model (`Mkdb.Store`) is the one compared with the implementation; every insert
it performs is cross-checked against `insertAppend` (see `Store.ghostCheck`), and the C01/C11
theorems are proved about this representation.
-/
namespace Mkdb.Tree
open Mkdb.Page Mkdb.Generated

structure Levels where
  leaves : List (Leaf × Bool)              -- left to right, with dirty bit
  inner  : List (List (Internal × Bool))   -- bottom-up; each level left to right
deriving Repr, DecidableEq

/-- the cells of a tree in key order (what a scan sees, tombstones included) -/
def cells (t : Levels) : List LeafCell := t.leaves.flatMap (·.1.cells)

/-- all pages of the tree -/
def flatten (t : Levels) : List (Nat × Node × Bool) :=
  t.leaves.map (fun p => (p.1.off, Node.leaf p.1, p.2)) ++
  t.inner.flatMap fun lvl => lvl.map fun p => (p.1.off, Node.internal p.1, p.2)

def rootOff (t : Levels) : Nat :=
  match t.inner.getLast? with
  | some lvl => (lvl.head?.map (·.1.off)).getD 0
  | none => (t.leaves.head?.map (·.1.off)).getD 0

inductive InsErr where
  | keyExists | rowTooLarge | notAppend | malformed
deriving Repr, DecidableEq

/-- replace the last element of a list -/
def setLast {α} (l : List α) (a : α) : List α := l.dropLast ++ [a]

/-- Propagate a split upwards: `(sep, newChild)` is appended to the last node of each level in
turn; a node that becomes full is split at its midpoint; when the levels are exhausted a new
root is allocated.  Returns the new levels and the next free offset. -/
def bubble (lsn : Nat) : List (List (Internal × Bool)) → Nat → Nat → Nat → Nat →
    List (List (Internal × Bool)) × Nat
  -- args: levels (bottom-up) · separator key · offset of the left child (old root if a new root is needed)
  --       · offset of the new right child · next free offset
  | [], sep, leftOff, newChild, nextFree =>
    -- the split node was the root: new root [sep → left | right = newChild]
    ([[(⟨nextFree, lsn, newChild, [⟨sep, leftOff⟩]⟩, true)]], nextFree + c_pageSize)
  | lvl :: rest, sep, _, newChild, nextFree =>
    match lvl.getLast? with
    | none => ([], nextFree)     -- malformed (never for a well-formed tree)
    | some (p, _) =>
      -- appendInternalCell(sep, parent.rightOffset); parent.right = newChild; markDirty
      let p1 : Internal := { p with cells := p.cells ++ [⟨sep, p.right⟩], right := newChild, lsn := lsn }
      if p1.cells.length < c_maxInternalNodeCells then (setLast lvl (p1, true) :: rest, nextFree)
      else
        let mid := p1.cells.length / 2
        let midCell := (p1.cells[mid]?).getD ⟨0, 0⟩
        let newOff := nextFree
        let right : Internal := ⟨newOff, lsn, p1.right, p1.cells.drop (mid + 1)⟩
        let left : Internal := { p1 with cells := p1.cells.take mid, right := midCell.child }
        let (rest', nf) := bubble lsn rest midCell.key left.off newOff (nextFree + c_pageSize)
        ((setLast lvl (left, true) ++ [(right, true)]) :: rest', nf)

/-- `BTree.insertKey` for a key beyond the last one. -/
def insertAppend (t : Levels) (key lsn : Nat) (value : Bytes) (nextFree : Nat) : Except InsErr (Levels × Nat) :=
  match t.leaves.getLast? with
  | none => .error .malformed
  | some (last, _) =>
    if (cells t).any (fun c => c.key == key) then .error .keyExists
    else if value.length > c_maxValueSize then .error .rowTooLarge
    else if (last.cells.getLast?.map (·.key)).getD 0 ≥ key && !last.cells.isEmpty then .error .notAppend
    else
      let l1 : Leaf := { last with cells := last.cells ++ [⟨key, false, value⟩], lsn := lsn }
      if l1.cells.length < c_maxLeafNodeCells then
        .ok ({ t with leaves := setLast t.leaves (l1, true) }, nextFree)
      else
        let mid := l1.cells.length / 2
        let moved := l1.cells.drop mid
        let newOff := nextFree
        let left : Leaf := { l1 with cells := l1.cells.take mid, hasR := true, rSib := newOff }
        let right : Leaf := ⟨newOff, lsn, true, false, last.off, 0, moved⟩
        let sep := (moved.head?.map (·.key)).getD 0
        let (inner', nf) := bubble lsn t.inner sep left.off newOff (nextFree + c_pageSize)
        .ok ({ leaves := setLast t.leaves (left, true) ++ [(right, true)], inner := inner' }, nf)

/-- `updateCell` + `markDirty` on the leaf holding `key` (the page-local change of UPDATE, of the
catalog re-pointing and of log replay) -/
def setVal (t : Levels) (key lsn : Nat) (value : Bytes) : Levels :=
  { t with leaves := t.leaves.map fun (l, d) =>
      if l.cells.any (fun c => c.key == key) then
        ({ l with cells := l.cells.map (fun c => if c.key == key then { c with val := value } else c), lsn := lsn }, true)
      else (l, d) }

/-- `MarkDeleted`: the tombstone flag of the cell `key` -/
def setDeleted (t : Levels) (key lsn : Nat) : Levels :=
  { t with leaves := t.leaves.map fun (l, d) =>
      if l.cells.any (fun c => c.key == key) then
        ({ l with cells := l.cells.map (fun c => if c.key == key then { c with deleted := true } else c), lsn := lsn }, true)
      else (l, d) }

/-- what `scanRight` hands to its callback: the live cells, left to right -/
def live (t : Levels) : List LeafCell := (cells t).filter fun c => !c.deleted

/-- `findCell`'s routing rule in one internal node: the child left of the first separator above the key,
else the rightmost child -/
def routeChild (n : Internal) (key : Nat) : Nat :=
  match n.cells.find? (fun c => key < c.key) with
  | some c => c.child
  | none => n.right

/-- point lookup from the root: walk the levels top-down by `routeChild`, then search the leaf -/
def routeOff (t : Levels) (key : Nat) : Nat :=
  t.inner.reverse.foldl (fun off lvl =>
    match lvl.find? (fun p => p.1.off == off) with
    | some p => routeChild p.1 key
    | none => off) (rootOff t)

def lookup (t : Levels) (key : Nat) : Option LeafCell :=
  match t.leaves.find? (fun p => p.1.off == routeOff t key) with
  | some p => p.1.cells.find? (fun c => c.key == key)
  | none => none

/-- read the tree rooted at `root` back from a page heap (`none` if it is not a tree of uniform depth) -/
def ofHeap (get : Nat → Option (Node × Bool)) : Nat → Nat → Option Levels
  | 0, _ => none
  | fuel+1, root =>
    -- descend level by level
    let rec go (fuel : Nat) (offs : List Nat) (acc : List (List (Internal × Bool))) : Option Levels :=
      match fuel with
      | 0 => none
      | fuel+1 =>
        match offs.mapM get with
        | none => none
        | some nodes =>
          if nodes.all (fun n => match n.1 with | .leaf _ => true | _ => false) then
            some { leaves := nodes.filterMap fun n => match n.1 with | .leaf l => some (l, n.2) | _ => none,
                   inner := acc }
          else if nodes.all (fun n => match n.1 with | .internal _ => true | _ => false) then
            let ints := nodes.filterMap fun n => match n.1 with | .internal i => some (i, n.2) | _ => none
            go fuel (ints.flatMap fun p => p.1.cells.map (·.child) ++ [p.1.right]) (ints :: acc)
          else none
    go fuel [root] []

end Mkdb.Tree
