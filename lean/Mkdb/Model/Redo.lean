/-!
The redo rule of start-up recovery (`WALBatch.replay` in storage/wal.go), abstracted to what it
relies on: every page carries the LSN of its last change (`markDirty(lsn)` / `btreeNode.encode`), every
log record carries its LSN and the page it changed, and replay skips a record whose LSN is not
newer than the page it finds (`if row.LSN <= node.getLastLSN() { continue }`).

A record is modelled as a *page-local* change `f` of the page content.  That is what UPDATE and
DELETE records, catalog re-pointing records and INSERT records that do not split a page are; an
insert that splits touches several pages and allocates new ones, which this abstraction does not
describe (the concrete model `Mkdb.Engine.recover` does, and is compared with the implementation
on crash images).
-/
namespace Mkdb.Redo

structure Pg (α : Type) where
  lsn : Nat
  val : α

structure Rec (α : Type) where
  lsn  : Nat
  page : Nat
  f    : α → α

abbrev Pages (α : Type) := Nat → Pg α

/-- a statement applies its change to the cached page and stamps the page with the record's LSN -/
def apply {α} (r : Rec α) (ps : Pages α) : Pages α :=
  fun p => if p = r.page then ⟨r.lsn, r.f (ps p).val⟩ else ps p

/-- replay of one record: skipped when the page is at least as new -/
def redo {α} (r : Rec α) (ps : Pages α) : Pages α :=
  if r.lsn ≤ (ps r.page).lsn then ps else apply r ps

/-- the cache after the statements that wrote `log` -/
def run {α} (log : List (Rec α)) (ps : Pages α) : Pages α := log.foldl (fun s r => apply r s) ps

/-- `WALBatch.replay` -/
def replay {α} (log : List (Rec α)) (ps : Pages α) : Pages α := log.foldl (fun s r => redo r s) ps

/-- LSNs are handed out in increasing order (`fileStore.incrLSN`) and are newer than every page of the
state the log starts from -/
def LogOK {α} (log : List (Rec α)) (init : Pages α) : Prop :=
  (log.map (·.lsn)).Pairwise (· < ·) ∧ ∀ r ∈ log, ∀ p, (init p).lsn < r.lsn

/-- A data file in which every page is the cached page as of *some* earlier moment of the history:
page `p` was last written after the first `k p` records (never: `k p = 0`).  Covers every flush
schedule and every torn flush, because pages are written one at a time. -/
def Image {α} (log : List (Rec α)) (init : Pages α) (k : Nat → Nat) : Pages α :=
  fun p => run (log.take (k p)) init p

end Mkdb.Redo
