import Mkdb.Model.Store
import Mkdb.Model.Exec
/-!
Model of the statement level (engine/insert.go, update.go, delete.go, create.go), of the
write-ahead log (storage/wal.go `wal.flush`, `wal.read`, `WALBatch.replay`) and of start-up
recovery (`InitStorage`).  A database is the store plus the durable log.
-/
namespace Mkdb.Engine
open Mkdb.Store Mkdb.Page Mkdb.Tuple Mkdb.Generated Mkdb.Sql

structure DB where
  store : Store := {}
  wal   : List WalRec := []     -- complete records in the log file
deriving Repr

inductive StmtErr where
  | store (e : SErr)
  | exec (e : Exec.EErr)
  | unsupported          -- "can't set field value from another field"
deriving Repr

inductive Res (α : Type) where
  | ok (a : α) (db : DB)
  | err (e : StmtErr) (db : DB)
  | panic (site : String)
  | unmodelled (what : String)
  | fuel
deriving Repr

def liftS {α} (db : DB) (m : SM α) (k : α → Store → Res β) : Res β :=
  match m db.store with
  | .ok a s => k a s
  | .err e s => .err (.store e) { db with store := s }
  | .panic p => .panic p
  | .unmodelled w => .unmodelled w
  | .fuel => .fuel

def litToVal : Lit → Val
  | .int i => .int i
  | .str s => .str s
  | .bool b => .bool b

def bytesToName (b : Bytes) : String := nameOfBytes b

/-- `EvaluateInsert`: rows one by one; the batch reaches the log only if every row succeeded. -/
def evalInsert (db : DB) (table : Bytes) (cols : List Bytes) (rows : List (List Val)) : Res Nat :=
  let rec go (s : Store) (batch : List WalRec) (n : Nat) : List (List Val) → Res Nat
    | [] => .ok n { store := s, wal := db.wal ++ batch }
    | r :: rest =>
      match insert table (cols.map bytesToName) r s with
      | .ok logs s' => go s' (batch ++ logs) (n + 1) rest
      | .err e s' => .err (.store e) { db with store := s' }
      | .panic p => .panic p
      | .unmodelled w => .unmodelled w
      | .fuel => .fuel
  go db.store [] 0 rows

/-- rows of a table as the executor sees them: row ids, values, fields without table id -/
def fetchForExec (db : DB) (table : Bytes) (k : List (Nat × List Val) → List Exec.Field → Store → Res β) : Res β :=
  liftS db (fetchTable table) fun (rows, schema) s =>
    k rows (schema.map fun fd => ⟨[], fd.name.toUTF8.toList⟩) s

def filterIds (where_ : Option Cond) (fields : List Exec.Field) (rows : List (Nat × List Val)) :
    Exec.X (List (Nat × List Val)) :=
  match where_ with
  | none => .ok rows
  | some c =>
    let rec go : List (Nat × List Val) → Exec.X (List (Nat × List Val))
      | [] => .ok []
      | r :: rest =>
        match Exec.evaluate c fields r.2 with
        | .ok v => (match go rest with
          | .ok tl => .ok (if v == .bool true then r :: tl else tl)
          | e => e)
        | .err e => .err e
        | .panic p => .panic p
    go rows

/-- the SET columns of `EvaluateUpdate`, in order: `Fields.LookupFieldIdx` (no such column:
`fieldNotFound`, several: `fieldAmbiguous`), then a column that was set before (`fieldAmbiguous`) -/
def checkSetColumns (fields : List Exec.Field) (seen : List Bytes) : List Bytes → Option Store.SErr
  | [] => none
  | c :: rest =>
    let n := (fields.filter fun f => f.column == c).length
    if n == 0 then some .fieldNotFound
    else if n > 1 then some .fieldAmbiguous
    else if seen.contains c then some .fieldAmbiguous
    else checkSetColumns fields (seen ++ [c]) rest

/-- `EvaluateUpdate` -/
def evalUpdate (db : DB) (table : Bytes) (sets : List (Bytes × VExpr)) (where_ : Option Cond) : Res Unit :=
  if sets.any (fun p => match p.2 with | .col _ => true | _ => false) then .err .unsupported db else
  fetchForExec db table fun rows fields s =>
    match checkSetColumns fields [] (sets.map (·.1)) with
    | some e => .err (.store e) { db with store := s }
    | none =>
    match filterIds where_ fields rows with
    | .err e => .err (.exec e) { db with store := s }
    | .panic p => .panic p
    | .ok sel =>
      let cols := sets.map fun p => bytesToName p.1
      let src := sets.map fun p => match p.2 with | .lit l => litToVal l | .col _ => Val.null
      let rec go (s : Store) (batch : List WalRec) : List (Nat × List Val) → Res Unit
        | [] => .ok () { store := s, wal := db.wal ++ batch }
        | r :: rest =>
          match update table r.1 cols src s with
          | .ok logs s' => go s' (batch ++ logs) rest
          | .err e s' => .err (.store e) { db with store := s' }
          | .panic p => .panic p
          | .unmodelled w => .unmodelled w
          | .fuel => .fuel
      go s [] sel

/-- `EvaluateDelete` -/
def evalDelete (db : DB) (table : Bytes) (where_ : Option Cond) : Res Nat :=
  fetchForExec db table fun rows fields s =>
    match filterIds where_ fields rows with
    | .err e => .err (.exec e) { db with store := s }
    | .panic p => .panic p
    | .ok sel =>
      let rec go (s : Store) (batch : List WalRec) (n : Nat) : List (Nat × List Val) → Res Nat
        | [] => .ok n { store := s, wal := db.wal ++ batch }
        | r :: rest =>
          match markDeleted table r.1 s with
          | .ok logs s' => go s' (batch ++ logs) (n + 1) rest
          | .err e s' => .err (.store e) { db with store := s' }
          | .panic p => .panic p
          | .unmodelled w => .unmodelled w
          | .fuel => .fuel
      go s [] 0 sel

def colTypeToField (c : ColDef) : FieldDef :=
  match c.ty with
  | .int => ⟨bytesToName c.name, .int, 0⟩
  | .bigint => ⟨bytesToName c.name, .bigint, 0⟩
  | .varchar n => ⟨bytesToName c.name, .varchar, n⟩
  | .boolean => ⟨bytesToName c.name, .boolean, 0⟩

/-- `EvaluateCreateTable` -/
def evalCreateTable (db : DB) (name : Bytes) (cols : List ColDef) (flushOrder : List Nat) (doFlush : Bool := true) : Res Unit :=
  liftS db (createTable (cols.map colTypeToField) name flushOrder doFlush) fun _ s => .ok () { db with store := s }

/-- the timer's (or Close's) page flush -/
def flush (db : DB) (order : List Nat) : Res Unit :=
  liftS db (flushPages order) fun _ s => .ok () { db with store := s }

/-- Outcome of `InitStorage` for one database. -/
inductive RecRes where
  | ok (db : DB)
  | err (what : String) (db : DB)     -- `InitStorage` returns an error (the deferred close still flushed)
  | panic (site : String)
  | unmodelled (what : String)
  | fuel
deriving Repr

/-- one record of `WALBatch.replay`; `none` = keep going, `some r` = stop with that result -/
def replayOne (r : WalRec) (s : Store) : Store × Option String × Bool :=
  -- returns (store, error message if the replay aborts with an error, aborted-silently flag)
  -- the row-id counter is raised by every logged insert, before the page-LSN test: also by a record
  -- that is skipped below because its page already reached the data file (the header may not have)
  let s := { s with hdr := { s.hdr with nextLSN := max s.hdr.nextLSN r.lsn,
                                        lastKey := if r.op == c_OpInsert then max s.hdr.lastKey r.cell else s.hdr.lastKey } }
  match fetch r.page s with
  | .ok node s1 =>
    if r.lsn ≤ nodeLSN node then (s1, none, false)
    else if r.op == c_OpInsert then
      match insertKey ⟨nodeOff node⟩ r.cell r.lsn r.val s1 with
      | .ok bt s2 =>
        let s3 := { s2 with hdr := { s2.hdr with lastKey := max s2.hdr.lastKey r.cell } }
        if bt.root != nodeOff node then
          match repointPageTable (nodeOff node) bt.root r.lsn s3 with
          | .ok _ s4 => (s4, none, false)
          | .err _ s4 => (s4, some "replay insert: repoint", false)
          | .panic p => (s3, some ("panic:" ++ p), false)
          | .unmodelled w => (s3, some ("unmodelled:" ++ w), false)
          | .fuel => (s3, some "hang", false)
        else (s3, none, false)
      | .err .keyExists s2 => ({ s2 with hdr := { s2.hdr with lastKey := max s2.hdr.lastKey r.cell } }, none, false)
      | .err _ s2 => (s2, some "replay insert", false)
      | .panic p => (s1, some ("panic:" ++ p), false)
      | .unmodelled w => (s1, some ("unmodelled:" ++ w), false)
      | .fuel => (s1, some "hang", false)
    else if r.op == c_OpUpdate then
      match node with
      | .internal n =>
        -- `updateCell` on an internal node: the key lookup runs over the separators; a hit indexes the (empty) leaf cells
        if r.val.length > c_maxValueSize || !(n.cells.any fun c => c.key == r.cell) then (s1, none, true)
        else (s1, some "panic:updateCell on internal node", false)
      | .leaf l =>
        if r.val.length > c_maxValueSize || !(l.cells.any fun c => c.key == r.cell) then (s1, none, true)
        else
          let l' : Leaf := { l with cells := l.cells.map (fun c => if c.key == r.cell then { c with val := r.val } else c), lsn := r.lsn }
          ({ s1 with mem := assocSet s1.mem l.off ⟨.leaf l', true⟩ }, none, false)
    else if r.op == c_OpDelete then
      match node with
      | .internal n =>
        -- `findCellOffsetByKey` runs over the separators: a miss is the error, a hit indexes the (empty) leaf cells
        if n.cells.any fun c => c.key == r.cell then (s1, some "panic:delete on internal node", false)
        else (s1, some "replay delete: cell not found", false)
      | .leaf l =>
        if !(l.cells.any fun c => c.key == r.cell) then (s1, some "replay delete: cell not found", false)
        else
          let l' : Leaf := { l with cells := l.cells.map (fun c => if c.key == r.cell then { c with deleted := true } else c), lsn := r.lsn }
          ({ s1 with mem := assocSet s1.mem l.off ⟨.leaf l', true⟩ }, none, false)
    -- the `switch` has no default: a record with any other operation code changes no page (the LSN
    -- counter was raised above, the page was fetched) and the replay goes on
    else (s1, none, false)
  | _ => (s, some "fetch", false)

def replayAll : List WalRec → Store → Store × Option String × Bool
  | [], s => (s, none, false)
  | r :: rest, s =>
    match replayOne r s with
    | (s', none, false) => replayAll rest s'
    | res => res

/-- `InitStorage` for one database: read the log, replay, flush; the deferred `fs.close()`
flushes once more on every path. `order1`/`order2` are the observed page write orders. -/
def recover (db : DB) (order1 order2 : List Nat) : RecRes :=
  let s0 := reopen db.store
  match replayAll db.wal s0 with
  | (s, some msg, _) =>
    if msg.startsWith "panic:" then .panic msg
    else if msg.startsWith "unmodelled:" then .unmodelled msg
    else if msg == "hang" then .fuel
    else
      match flushPages order2 s with
      | .ok _ s' => .err msg { db with store := s' }
      | _ => .panic "flush"
  | (s, none, true) =>
    -- `return nil` in the middle of the replay: no final LSN bump, only the deferred flush
    match flushPages order2 s with
    | .ok _ s' => .ok { db with store := s' }
    | _ => .panic "flush"
  | (s, none, false) =>
    let s := { s with hdr := { s.hdr with nextLSN := s.hdr.nextLSN + 1 } }
    match flushPages order1 s with
    | .ok _ s1 =>
      match flushPages order2 s1 with
      | .ok _ s2 => .ok { db with store := s2 }
      | _ => .panic "flush"
    | _ => .panic "flush"

/-- the cache right before the flush that ends recovery writes its first page (`none` when recovery
does not get that far) - the state a second crash, inside that flush, tears -/
def recoverPre (db : DB) : Option Store :=
  match replayAll db.wal (reopen db.store) with
  | (s, some msg, _) =>
    if msg.startsWith "panic:" || msg.startsWith "unmodelled:" || msg == "hang" then none else some s
  | (s, none, true) => some s
  | (s, none, false) => some { s with hdr := { s.hdr with nextLSN := s.hdr.nextLSN + 1 } }

end Mkdb.Engine
