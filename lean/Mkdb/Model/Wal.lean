import Mkdb.Model.Bin
/-!
Byte-level model of the write-ahead log file (storage/wal.go): `WALEntry.encode/decode`,
the framing written by `wal.flush` (4-byte little-endian length, then the record) and the reader
`wal.read`, which stops at the end of the file, at a zero length, or at a record that is cut
short (the torn tail a crash leaves; it is truncated away so that later records are appended right
after the last complete one).
-/
namespace Mkdb.Wal
open Mkdb.Bin

structure Rec where
  op   : Nat      -- uint8
  lsn  : Nat      -- uint64
  page : Nat      -- uint64
  cell : Nat      -- uint32
  val  : Bytes
deriving Repr, DecidableEq

/-- `WALEntry.encode` -/
def encodeRec (r : Rec) : Bytes :=
  encU8 r.op ++ encU64 r.lsn ++ encU64 r.page ++ encU32 r.cell ++ encU32 r.val.length ++ r.val

/-- one iteration of `wal.flush`: length prefix, then the body -/
def frame (r : Rec) : Bytes := encU32 (encodeRec r).length ++ encodeRec r

/-- the log file after `wal.flush` of these records onto an empty file -/
def encodeLog (rs : List Rec) : Bytes := rs.flatMap frame

/-- `WALEntry.decode` on the bytes of one frame body.  `buf.Read` into the value buffer delivers what
is there (the rest of the buffer stays zero); an empty buffer with a non-empty request is `io.EOF`. -/
def decodeRec (bs : Bytes) : Option Rec :=
  match decU8 bs with
  | none => none
  | some (op, b1) =>
  match decU64 b1 with
  | none => none
  | some (lsn, b2) =>
  match decU64 b2 with
  | none => none
  | some (page, b3) =>
  match decU32 b3 with
  | none => none
  | some (cell, b4) =>
  match decU32 b4 with
  | none => none
  | some (n, b5) =>
    if n == 0 then some ⟨op, lsn, page, cell, []⟩
    else if b5.isEmpty then none
    else some ⟨op, lsn, page, cell, b5.take n ++ List.replicate (n - b5.length) 0⟩

inductive ReadRes where
  | ok (recs : List Rec) (goodLen : Nat) (torn : Bool)
  | err (recs : List Rec)            -- a complete frame whose body does not decode
deriving Repr, DecidableEq

/-- `wal.read`; `fuel` bounds the number of frames (every frame consumes at least 4 bytes) -/
def readLoop : Nat → Bytes → List Rec → Nat → ReadRes
  | 0, _, acc, good => .ok acc good false
  | fuel+1, bs, acc, good =>
    if bs.isEmpty then .ok acc good false            -- io.EOF on the length
    else match decU32 bs with
      | none => .ok acc good true                    -- io.ErrUnexpectedEOF on the length: torn
      | some (len, rest) =>
        if len == 0 then .ok acc good false
        else if rest.length < len then .ok acc good true       -- body cut short: torn
        else match decodeRec (rest.take len) with
          | none => .err acc
          | some r => readLoop fuel (rest.drop len) (acc ++ [r]) (good + 4 + len)

def readLog (bs : Bytes) : ReadRes := readLoop (bs.length + 1) bs [] 0

/-- the file `wal.read` leaves behind: a torn tail is cut off -/
def afterRead (bs : Bytes) : Bytes :=
  match readLog bs with
  | .ok _ good true => bs.take good
  | _ => bs

/-- the fields fit their wire types (always true of records the engine builds) -/
def Rec.wf (r : Rec) : Prop :=
  r.op < 256 ∧ r.lsn < 2 ^ 64 ∧ r.page < 2 ^ 64 ∧ r.cell < 2 ^ 32 ∧ r.val.length < 2 ^ 32 - 25

end Mkdb.Wal
