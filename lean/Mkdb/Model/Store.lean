import Mkdb.Model.Page
import Mkdb.Model.Tuple
import Mkdb.Model.Tree
/-!
Model of the storage engine: storage/page.go (`fileStore`: cache + data file + header,
`fetch/append/update/flushPages/save/open`), storage/btree.go (`insert`, `insertKey`,
`insertLeaf`, `insertInternal`, `findCell`, `scanRight`, `scanLeft`), `btreeNode.split`,
and storage/relation.go (`getRelationFileOffset`, `getRelationSchema`, `CreateTable`,
`Insert`, `Update`, `MarkDeleted`, `Fetch`, catalog maintenance).

Pages are addressed by file offset, exactly as in the code; pointer mutation becomes
"write the node back under its offset".  The page cache is unbounded here (the default
capacity of 10000 pages is never reached by the workloads compared; eviction is C15/C16).
Only the branch of `insertLeaf` taken for ascending keys is modelled: the other branch
(`insertInternalCell`, sibling re-linking) is the outcome `.unmodelled`, and so is an append to a
leaf that has a right sibling (the leaf object may have been split since it was loaded: then the
code computes a wrong physical slot, see `insertLeaf`).
-/
namespace Mkdb.Store
open Mkdb.Page Mkdb.Tuple Mkdb.Generated

/-- in-memory page: logical node + dirty bit -/
structure MNode where
  node  : Node
  dirty : Bool
deriving Repr, DecidableEq

structure Header where
  lastKey  : Nat := 0
  ptRoot   : Nat := 0
  nextFree : Nat := 0
  nextLSN  : Nat := 0
deriving Repr, DecidableEq

/-- a write-ahead log record -/
structure WalRec where
  op   : Nat        -- OpInsert / OpUpdate / OpDelete
  lsn  : Nat
  page : Nat
  cell : Nat
  val  : Bytes
deriving Repr, DecidableEq

structure Store where
  hdr  : Header := {}                 -- in-memory copy of the header fields
  mem  : List (Nat × MNode) := []     -- page cache (offset → page object)
  disk : List (Nat × Node) := []      -- data file pages (decoded)
  dhdr : Header := {}                 -- header as last written to the data file
  ghost : Nat := 0                    -- inserts on which the levels model (`Tree.insertAppend`) disagreed
deriving Repr

inductive SErr where
  | tableNotExist | tableAlreadyExist | colCountMismatch | typeMismatch | intOutOfRange | rowTooLarge
  | keyExists | decode | cellNotFound | pageTableEntryMissing
  | fieldNotFound | fieldAmbiguous
deriving Repr, DecidableEq

/-- result of a storage operation; errors keep the state reached (the Go code mutates in place) -/
inductive SRes (α : Type) where
  | ok (a : α) (s : Store)
  | err (e : SErr) (s : Store)
  | panic (site : String)
  | unmodelled (what : String)
  | fuel
deriving Repr

abbrev SM (α : Type) := Store → SRes α

instance : Monad SM where
  pure a := fun s => .ok a s
  bind m f := fun s => match m s with
    | .ok a s' => f a s'
    | .err e s' => .err e s'
    | .panic p => .panic p
    | .unmodelled w => .unmodelled w
    | .fuel => .fuel

def throw {α} (e : SErr) : SM α := fun s => .err e s
def panicS {α} (site : String) : SM α := fun _ => .panic site
def unmodelledS {α} (w : String) : SM α := fun _ => .unmodelled w
def outOfFuel {α} : SM α := fun _ => .fuel
def getS : SM Store := fun s => .ok s s
def modifyS (f : Store → Store) : SM Unit := fun s => .ok () (f s)

def assocGet {β} (l : List (Nat × β)) (k : Nat) : Option β := (l.find? fun p => p.1 == k).map (·.2)
def assocSet {β} (l : List (Nat × β)) (k : Nat) (v : β) : List (Nat × β) :=
  if l.any (fun p => p.1 == k) then l.map (fun p => if p.1 == k then (k, v) else p) else l ++ [(k, v)]

def nodeOff : Node → Nat
  | .leaf l => l.off
  | .internal n => n.off

def nodeLSN : Node → Nat
  | .leaf l => l.lsn
  | .internal n => n.lsn

def setLSN (n : Node) (lsn : Nat) : Node :=
  match n with
  | .leaf l => .leaf { l with lsn := lsn }
  | .internal i => .internal { i with lsn := lsn }

def setOff (n : Node) (off : Nat) : Node :=
  match n with
  | .leaf l => .leaf { l with off := off }
  | .internal i => .internal { i with off := off }

/-- the page a read beyond the end of the file (or of a never written page) decodes to -/
def zeroPage : Node := .internal ⟨0, 0, 0, []⟩

/-- `fileStore.fetch`: cache, else the disk image (cached under the offset stored *in* the page) -/
def fetch (off : Nat) : SM Node := fun s =>
  match assocGet s.mem off with
  | some m => .ok m.node s
  | none =>
    let n := (assocGet s.disk off).getD zeroPage
    .ok n { s with mem := assocSet s.mem (nodeOff n) ⟨n, false⟩ }

/-- write a page object back (keeps its dirty bit unless told otherwise) -/
def putNode (n : Node) (dirty : Option Bool := none) : SM Unit := fun s =>
  let d := match dirty with
    | some d => d
    | none => (assocGet s.mem (nodeOff n)).map (·.dirty) |>.getD false
  .ok () { s with mem := assocSet s.mem (nodeOff n) ⟨n, d⟩ }

/-- `markDirty(lsn)` on the page object at `off` -/
def markDirty (off : Nat) (lsn : Nat) : SM Unit := fun s =>
  match assocGet s.mem off with
  | some m => .ok () { s with mem := assocSet s.mem off ⟨setLSN m.node lsn, true⟩ }
  | none => .panic "markDirty: page object not resident"

/-- `fileStore.append`: give the node the next free offset and cache it -/
def appendNode (n : Node) (dirty : Bool) : SM Nat := fun s =>
  let off := s.hdr.nextFree
  .ok off { s with mem := assocSet s.mem off ⟨setOff n off, dirty⟩,
                    hdr := { s.hdr with nextFree := s.hdr.nextFree + c_pageSize } }

def keysOfLeaf (l : Leaf) : List Nat := l.cells.map (·.key)
def keysOfInternal (n : Internal) : List Nat := n.cells.map (·.key)

/-- `findCellOffsetByKey` on ascending keys: insertion point and whether the key is there -/
def findPos (keys : List Nat) (k : Nat) : Nat × Bool :=
  let pos := (keys.takeWhile fun x => x < k).length
  (pos, keys[pos]? == some k)

def isFullLeaf (l : Leaf) : Bool := l.cells.length ≥ c_maxLeafNodeCells
def isFullInternal (n : Internal) : Bool := n.cells.length ≥ c_maxInternalNodeCells

/-- B-tree handle: only the root offset is state (`BTree.rootOffset`) -/
structure BT where
  root : Nat

/-- What a level reports to its caller: the (possibly new) root of the handle. -/
abbrev RootOff := Nat

/-- `insertLeaf(parent, cur, key, lsn, value)`; `parent` = offset of the parent internal node. -/
def insertLeaf (parent : Option Nat) (cur : Leaf) (key lsn : Nat) (value : Bytes) (root : RootOff) : SM RootOff := do
  let (pos, found) := findPos (keysOfLeaf cur) key
  if found then throw .keyExists else
  if value.length > c_maxValueSize then throw .rowTooLarge else
  if pos != cur.cells.length then unmodelledS "insertLeafCell: not at the end of the leaf" else
  -- `btreeNode.split` truncates only `offsets`: the moved cells stay in `leafCells`, and `insertLeafCell`
  -- takes `len(n.leafCells)` as the physical slot.  A leaf object that was split and is still resident
  -- gets offsets like `0,1,2,3,9` on its next append (the page no longer decodes).  The model has no
  -- physical slots; a leaf with a right sibling may be such an object (conservative: a reloaded one is not)
  if cur.hasR then unmodelledS "insertLeafCell: append to a leaf that was split (physical slot)" else
  let cur1 : Leaf := { cur with cells := cur.cells ++ [⟨key, false, value⟩], lsn := lsn }
  putNode (.leaf cur1) (some true)
  if !isFullLeaf cur1 then pure root else
  -- split: the upper half moves to a new leaf (key, value and deleted flag)
  let mid := cur1.cells.length / 2
  let moved := cur1.cells.drop mid
  let newOff ← appendNode (.leaf ⟨0, 0, false, false, 0, 0, moved⟩) false
  let newKey := (moved.head?.map (·.key)).getD 0
  let cur2 : Leaf := { cur1 with cells := cur1.cells.take mid, hasR := true, rSib := newOff }
  putNode (.leaf cur2)
  let newLeaf : Leaf := ⟨newOff, 0, true, false, cur.off, 0, moved⟩
  putNode (.leaf newLeaf)
  match parent with
  | none =>
    let pOff ← appendNode (.internal ⟨0, 0, newOff, [⟨newKey, cur.off⟩]⟩) false
    markDirty newOff lsn
    markDirty cur.off lsn
    markDirty pOff lsn
    pure pOff
  | some pOff =>
    let p ← fetch pOff
    match p with
    | .leaf _ => panicS "insertLeaf: parent is a leaf"
    | .internal pn =>
      match pn.cells.getLast? with
      | none => panicS "getRightmostKey: empty internal node"
      | some last =>
        if newKey > last.key then
          putNode (.internal { pn with cells := pn.cells ++ [⟨newKey, pn.right⟩], right := newOff })
          markDirty newOff lsn
          markDirty cur.off lsn
          markDirty pOff lsn
          pure root
        else unmodelledS "insertLeaf: split of a leaf that is not the rightmost"

/-- `insertInternal(parent, cur, key, lsn, value)`.
An internal node object that was split and is still resident has the same defect as a leaf
(`appendInternalCell` takes `len(offsets)` as the slot, the cell goes to the end of `internalCells`:
the separator is lost).  No guard of its own here: a separator is appended to a node only after an
append to a leaf below it, i.e. (guard in `insertLeaf`) to a leaf without right sibling; the left half
of an internal split has only left halves below it - every leaf there has a right sibling - and
never gets a child without one (new leaves come from splitting such a leaf). -/
def insertInternal : Nat → Option Nat → Internal → Nat → Nat → Bytes → RootOff → SM RootOff
  | 0, _, _, _, _, _, _ => outOfFuel
  | fuel+1, parent, cur, key, lsn, value, root => do
    let (pos, found) := findPos (keysOfInternal cur) key
    if found then throw .keyExists else
    let childOff := match cur.cells[pos]? with | some c => c.child | none => cur.right
    let child ← fetch childOff
    let root1 ← match child with
      | .leaf l => insertLeaf (some cur.off) l key lsn value root
      | .internal i => insertInternal fuel (some cur.off) i key lsn value root
    -- re-read this node: the child level may have appended a separator to it
    let me ← fetch cur.off
    match me with
    | .leaf _ => panicS "insertInternal: node became a leaf"
    | .internal cur1 =>
      if !isFullInternal cur1 then pure root1 else
      let mid := cur1.cells.length / 2
      let moved := cur1.cells.drop (mid + 1)
      let midCell := (cur1.cells[mid]?).getD ⟨0, 0⟩
      let newOff ← appendNode (.internal ⟨0, 0, cur1.right, moved⟩) false
      putNode (.internal { cur1 with cells := cur1.cells.take mid, right := midCell.child })
      match parent with
      | none =>
        let pOff ← appendNode (.internal ⟨0, 0, newOff, [⟨midCell.key, cur1.off⟩]⟩) false
        markDirty newOff lsn
        markDirty pOff lsn
        pure pOff
      | some pOff =>
        let p ← fetch pOff
        match p with
        | .leaf _ => panicS "insertInternal: parent is a leaf"
        | .internal pn =>
          putNode (.internal { pn with cells := pn.cells ++ [⟨midCell.key, pn.right⟩], right := newOff })
          markDirty newOff lsn
          markDirty pOff lsn
          pure root1

def treeFuel : Nat := 64

/-- `BTree.insertKey` on the page heap -/
def insertKeyHeap (bt : BT) (key lsn : Nat) (value : Bytes) : SM BT := do
  let pg ← fetch bt.root
  let r ← match pg with
    | .leaf l => insertLeaf none l key lsn value bt.root
    | .internal i => insertInternal treeFuel none i key lsn value bt.root
  pure ⟨r⟩

/-- the page at `off` as the engine sees it: the cached object, else the disk image (clean) -/
def view (s : Store) (off : Nat) : Option (Node × Bool) :=
  match assocGet s.mem off with
  | some m => some (m.node, m.dirty)
  | none => (assocGet s.disk off).map fun n => (n, false)

/-- Does the levels model (`Tree.insertAppend`, about which C01/C11 are proved) describe this
insert?  Read the tree out of the heap before the insert, run `insertAppend`, and compare every
page of the result, the root and the allocation frontier with the heap after the insert. -/
def ghostAgrees (pre : Store) (bt : BT) (key lsn : Nat) (value : Bytes) (res : SRes BT) : Bool :=
  match Tree.ofHeap (view pre) 64 bt.root with
  | none => match res with | .ok _ _ => false | _ => true     -- not a tree: the heap insert must not succeed silently
  | some lv =>
    match Tree.insertAppend lv key lsn value pre.hdr.nextFree, res with
    | .ok (lv', nf), .ok bt' post =>
      nf == post.hdr.nextFree && Tree.rootOff lv' == bt'.root &&
      (Tree.flatten lv').all fun (off, n, d) => view post off == some (n, d)
    | .error .keyExists, .err .keyExists _ => true
    | .error .rowTooLarge, .err .rowTooLarge _ => true
    | .error .notAppend, .unmodelled _ => true
    | _, .panic _ => true      -- corrupt pages (crash images): outside the levels model
    | _, .fuel => true
    | _, _ => false

/-- `BTree.insertKey`, cross-checked against the levels model -/
def insertKey (bt : BT) (key lsn : Nat) (value : Bytes) : SM BT := fun s =>
  let res := insertKeyHeap bt key lsn value s
  if ghostAgrees s bt key lsn value res then res
  else match res with
    | .ok a s' => .ok a { s' with ghost := s'.ghost + 1 }
    | .err e s' => .err e { s' with ghost := s'.ghost + 1 }
    | r => r

/-- `BTree.insert`: the key and LSN counters advance even when the insertion fails. -/
def btInsert (bt : BT) (value : Bytes) : SM (BT × Nat × Nat) := fun s =>
  let key := s.hdr.lastKey + 1
  let lsn := s.hdr.nextLSN
  let bump (s' : Store) : Store := { s' with hdr := { s'.hdr with lastKey := s'.hdr.lastKey + 1, nextLSN := s'.hdr.nextLSN + 1 } }
  match insertKey bt key lsn value s with
  | .ok bt' s' => .ok (bt', key, lsn) (bump s')
  | .err e s' => .err e (bump s')
  | .panic p => .panic p
  | .unmodelled w => .unmodelled w
  | .fuel => .fuel

/-- descend to the leftmost leaf (`scanRight`'s first loop) -/
def leftmostLeaf : Nat → Nat → SM Leaf
  | 0, _ => outOfFuel
  | fuel+1, off => do
    let pg ← fetch off
    match pg with
    | .leaf l => pure l
    | .internal n =>
      match n.cells.head? with
      | some c => leftmostLeaf fuel c.child
      | none => panicS "scanRight: internal node without cells"

/-- `scanRight`: all live cells, left to right, each with the offset of its leaf -/
def scanLeaves : Nat → Leaf → SM (List (LeafCell × Nat))
  | 0, _ => outOfFuel
  | fuel+1, l => do
    let here := (l.cells.filter fun c => !c.deleted).map fun c => (c, l.off)
    if l.hasR then
      let nxt ← fetch l.rSib
      match nxt with
      | .leaf r => do
        let rest ← scanLeaves fuel r
        pure (here ++ rest)
      | .internal n =>
        -- the loop does not look at the node kind: an internal node has no sibling flag, and
        -- indexing its (missing) leaf cells panics unless it has no cells at all (a zero page)
        if n.cells.isEmpty then pure here else panicS "scanRight: sibling is an internal node"
    else pure here

def scanFuel : Nat := 100000

def scanRight (root : Nat) : SM (List (LeafCell × Nat)) := do
  let l ← leftmostLeaf treeFuel root
  scanLeaves scanFuel l

/-- `findCell`: route by separators, then look the key up in the leaf -/
def findLeaf : Nat → Nat → Nat → SM Leaf
  | 0, _, _ => outOfFuel
  | fuel+1, off, key => do
    let pg ← fetch off
    match pg with
    | .leaf l => pure l
    | .internal n =>
      let child := match n.cells.find? (fun c => key < c.key) with | some c => c.child | none => n.right
      findLeaf fuel child key

def pageTableSchema : List FieldDef := [⟨"table_name", .varchar, 255⟩, ⟨"file_offset", .bigint, 0⟩]
def schemaTableSchema : List FieldDef :=
  [⟨"table_name", .varchar, 255⟩, ⟨"field_name", .varchar, 255⟩, ⟨"field_type", .int, 0⟩, ⟨"field_length", .int, 255⟩]

def decodeRow (sch : List FieldDef) (bs : Bytes) : SM Vals := fun s =>
  match decodeTuple sch bs [] with
  | .ok m => .ok m s
  | .error _ => .err .decode s

def encodeRow (sch : List FieldDef) (m : Vals) : SM Bytes := fun s =>
  match encodeTuple sch m with
  | .ok b => .ok b s
  | .error .typeMismatch => .err .typeMismatch s
  | .error .intOutOfRange => .err .intOutOfRange s
  | .error .decode => .err .decode s

def strOf (s : String) : Val := .str s.toUTF8.toList

/-- first element satisfying a monadic test (`scanRight` with `StopScanning`) -/
def findFirstM {α β} (f : α → SM (Option β)) : List α → SM (Option β)
  | [] => pure none
  | a :: rest => do
    match ← f a with
    | some b => pure (some b)
    | none => findFirstM f rest

/-- `getRelationFileOffset` -/
def relationOffset (name : Bytes) : SM Nat := do
  let s ← getS
  let cells ← scanRight s.hdr.ptRoot
  let hit ← findFirstM (fun (c : LeafCell × Nat) => do
    let m ← decodeRow pageTableSchema c.1.val
    if get m "table_name" == .str name then
      match get m "file_offset" with
      | .int i => pure (some i.toNat)
      | _ => panicS "getRelationFileOffset: file_offset.(int64)"
    else pure none) cells
  match hit with
  | some off => pure off
  | none => throw .tableNotExist

def mapS {α β} (f : α → SM β) : List α → SM (List β)
  | [] => pure []
  | a :: rest => do
    let b ← f a
    let tl ← mapS f rest
    pure (b :: tl)

def typeOfCode (i : Int) : DataType :=
  -- `DataType(int64)` truncates to uint8; used for the known codes only (`knownTypeCode`)
  match (i % 256).toNat with
  | 0 => .int | 1 => .varchar | 2 => .boolean | _ => .bigint

/-- is the (truncated) field type one of the four the engine knows?  `getRelationSchema` keeps any byte;
`FieldDef.Validate` and `Tuple.Decode` panic on another one ("unsupported validation type" / "unsupported
data type") when they meet a value of such a column that is not NULL, and go through when it is NULL -/
def knownTypeCode (i : Int) : Bool := (i % 256).toNat ≤ 3

def nameOfBytes (b : Bytes) : String := (String.fromUTF8? (ByteArray.mk b.toArray)).getD ""

/-- `getRelationSchema` -/
def relationSchema (name : Bytes) : SM (List FieldDef) := do
  let off ← relationOffset "sys_schema".toUTF8.toList
  let cells ← scanRight off
  let rows ← mapS (fun (c : LeafCell × Nat) => decodeRow schemaTableSchema c.1.val) cells
  let mine := rows.filter fun m => get m "table_name" == .str name
  mapS (fun m =>
    match get m "field_name", get m "field_length", get m "field_type" with
    | .str n, .int len, .int ty =>
      -- `DataType` here has the four known types only: a schema with another type byte (the code returns
      -- it, and panics later or not, depending on the values) is not predicted
      if !knownTypeCode ty then unmodelledS "getRelationSchema: field type the engine does not know"
      else pure (⟨nameOfBytes n, typeOfCode ty, len⟩ : FieldDef)
    | _, _, _ => panicS "getRelationSchema: type assertion") mine

/-- replace the value of the cell `key` in the leaf at `off` (`updateCell` + `markDirty`) -/
def updateCellAt (off key : Nat) (value : Bytes) (lsn : Nat) : SM Unit := do
  if value.length > c_maxValueSize then throw .rowTooLarge else
  let pg ← fetch off
  match pg with
  | .internal _ => panicS "updateCell: not a leaf"
  | .leaf l =>
    if !(l.cells.any fun c => c.key == key) then throw .cellNotFound else
    putNode (.leaf { l with cells := l.cells.map fun c => if c.key == key then { c with val := value } else c })
    markDirty off lsn

/-- `updatePageTable`: re-point the catalog entry of `name`; returns the log record -/
def updatePageTable (newRoot : Nat) (name : Bytes) : SM (List WalRec) := do
  let s ← getS
  let cells ← scanRight s.hdr.ptRoot
  let hit ← findFirstM (fun (c : LeafCell × Nat) => do
    let m ← decodeRow pageTableSchema c.1.val
    if get m "table_name" == .str name then pure (some (c, m)) else pure none) cells
  match hit with
  | none => throw .pageTableEntryMissing
  | some (c, m) =>
    let m' : Vals := ("file_offset", .int newRoot) :: m
    let buf ← encodeRow pageTableSchema m'
    let s ← getS
    let lsn := s.hdr.nextLSN
    updateCellAt c.2 c.1.key buf lsn
    modifyS fun s => { s with hdr := { s.hdr with nextLSN := s.hdr.nextLSN + 1 } }
    pure [⟨c_OpUpdate, lsn, c.2, c.1.key, buf⟩]

/-- `repointPageTable` (recovery): the catalog entry naming root `old` names `new` instead -/
def repointPageTable (old new lsn : Nat) : SM Unit := do
  let s ← getS
  let cells ← scanRight s.hdr.ptRoot
  let hit ← findFirstM (fun (c : LeafCell × Nat) => do
    let m ← decodeRow pageTableSchema c.1.val
    if get m "file_offset" == .int old then pure (some (c, m)) else pure none) cells
  match hit with
  | none => pure ()
  | some (c, m) =>
    let buf ← encodeRow pageTableSchema (("file_offset", .int new) :: m)
    updateCellAt c.2 c.1.key buf lsn

/-- `checkColumns`: in list order, the first name that is not a column of the relation
(`fieldNotFound`) or was named before (`fieldAmbiguous`) -/
def checkColumnsFrom (schema : List FieldDef) (seen : List String) : List String → Option SErr
  | [] => none
  | c :: rest =>
    if !(schema.any fun fd => fd.name == c) then some .fieldNotFound
    else if seen.contains c then some .fieldAmbiguous
    else checkColumnsFrom schema (seen ++ [c]) rest

def checkColumns (schema : List FieldDef) (cols : List String) : Option SErr := checkColumnsFrom schema [] cols

/-- `RelationService.Insert` -/
def insert (table : Bytes) (cols : List String) (vals : List Val) : SM (List WalRec) := do
  let off ← relationOffset table
  let _ ← fetch off
  let schema ← relationSchema table
  let cols := if cols.isEmpty then schema.map (·.name) else cols
  if cols.length != vals.length then throw .colCountMismatch else
  match checkColumns schema cols with
  | some e => throw e
  | none =>
  let m : Vals := (cols.zip vals).reverse
  let buf ← encodeRow schema m
  let (bt, id, lsn) ← btInsert ⟨off⟩ buf
  let rec1 : WalRec := ⟨c_OpInsert, lsn, off, id, buf⟩
  if bt.root != off then
    let logs ← updatePageTable bt.root table
    pure (rec1 :: logs)
  else pure [rec1]

/-- `RelationService.Update` (one row id; the scan runs over the whole table) -/
def update (table : Bytes) (rowId : Nat) (cols : List String) (src : List Val) : SM (List WalRec) := do
  let off ← relationOffset table
  let _ ← fetch off
  let schema ← relationSchema table
  match checkColumns schema cols with
  | some e => throw e
  | none =>
  let cells ← scanRight off
  let logs ← mapS (fun (c : LeafCell × Nat) => do
    if c.1.key != rowId then pure [] else
    let m ← decodeRow schema c.1.val
    let m' : Vals := (cols.zip src).reverse ++ m
    let buf ← encodeRow schema m'
    let s ← getS
    let lsn := s.hdr.nextLSN
    updateCellAt c.2 c.1.key buf lsn
    modifyS fun s => { s with hdr := { s.hdr with nextLSN := s.hdr.nextLSN + 1 } }
    pure [(⟨c_OpUpdate, lsn, c.2, c.1.key, buf⟩ : WalRec)]) cells
  pure logs.flatten

/-- `RelationService.MarkDeleted` -/
def markDeleted (table : Bytes) (rowId : Nat) : SM (List WalRec) := do
  let off ← relationOffset table
  let _ ← fetch off
  let l ← findLeaf treeFuel off rowId
  match l.cells.find? (fun c => c.key == rowId) with
  | none => throw .cellNotFound
  | some c =>
    if c.deleted then throw .cellNotFound else
    let s ← getS
    let lsn := s.hdr.nextLSN
    let pg ← fetch l.off
    match pg with
    | .internal _ => panicS "MarkDeleted: not a leaf"
    | .leaf l1 =>
      putNode (.leaf { l1 with cells := l1.cells.map fun x => if x.key == rowId then { x with deleted := true } else x })
      markDirty l.off lsn
      modifyS fun s => { s with hdr := { s.hdr with nextLSN := s.hdr.nextLSN + 1 } }
      pure [⟨c_OpDelete, lsn, l.off, rowId, []⟩]

/-- `RelationService.Fetch`: row ids and rows in scan order, with the column names -/
def fetchTable (table : Bytes) : SM (List (Nat × List Val) × List FieldDef) := do
  let off ← relationOffset table
  let schema ← relationSchema table
  let _ ← fetch off
  let cells ← scanRight off
  let rows ← mapS (fun (c : LeafCell × Nat) => do
    let m ← decodeRow schema c.1.val
    pure (c.1.key, schema.map fun fd => get m fd.name)) cells
  pure (rows, schema)

/-- `fileStore.flushPages`: every dirty resident page in the given order, then the header.
`order` is the write order observed in the implementation (Go map iteration). -/
def flushPages (order : List Nat) : SM Unit := fun s =>
  let dirtyOffs := (s.mem.filter fun p => p.2.dirty).map (·.1)
  let ord := (order.filter fun o => dirtyOffs.contains o) ++ (dirtyOffs.filter fun o => !order.contains o)
  let s' := ord.foldl (fun (s : Store) off =>
    match assocGet s.mem off with
    | some m => { s with disk := assocSet s.disk (nodeOff m.node) m.node, mem := assocSet s.mem off ⟨m.node, false⟩ }
    | none => s) s
  .ok () { s' with dhdr := s'.hdr }

/-- `insertPageTable` (used by CREATE TABLE): no log record -/
def insertPageTable (pageOff : Nat) (name : Bytes) : SM Unit := do
  let buf ← encodeRow pageTableSchema [("table_name", .str name), ("file_offset", .int pageOff)]
  let s ← getS
  let _ ← fetch s.hdr.ptRoot
  let (bt, _, _) ← btInsert ⟨s.hdr.ptRoot⟩ buf
  let s ← getS
  if bt.root != s.hdr.ptRoot then modifyS fun s => { s with hdr := { s.hdr with ptRoot := bt.root } } else pure ()

/-- `insertSchemaTable`: one catalog row per column; a root move is recorded in `sys_pages` -/
def insertSchemaRows : List FieldDef → Bytes → Nat → SM Unit
  | [], _, _ => pure ()
  | fd :: rest, name, root => do
    let buf ← encodeRow schemaTableSchema
      [("table_name", .str name), ("field_name", strOf fd.name),
       ("field_type", .int (match fd.ty with | .int => 0 | .varchar => 1 | .boolean => 2 | .bigint => 3)),
       ("field_length", .int fd.len)]
    let (bt, _, _) ← btInsert ⟨root⟩ buf
    if bt.root != root then
      let _ ← updatePageTable bt.root "sys_schema".toUTF8.toList
      insertSchemaRows rest name bt.root
    else insertSchemaRows rest name root

/-- `checkCatalogRows`: the `sys_pages` row and the `sys_schema` rows of a new table are encoded
before anything is changed; the first that fails to encode or does not fit a page cell is the error -/
def checkCatalogRows (fields : List FieldDef) (name : Bytes) : Option SErr :=
  let rows : List (List FieldDef × Vals) :=
    (pageTableSchema, [("table_name", Val.str name), ("file_offset", Val.int 0)]) ::
    fields.map fun fd => (schemaTableSchema,
      [("table_name", Val.str name), ("field_name", strOf fd.name),
       ("field_type", Val.int (match fd.ty with | .int => 0 | .varchar => 1 | .boolean => 2 | .bigint => 3)),
       ("field_length", Val.int fd.len)])
  rows.findSome? fun (sch, m) =>
    match encodeTuple sch m with
    | .ok b => if b.length > c_maxValueSize then some .rowTooLarge else none
    | .error .typeMismatch => some .typeMismatch
    | .error .intOutOfRange => some .intOutOfRange
    | .error .decode => some .decode

/-- the per-column checks of `createTable`, column by column: a length the catalog cannot hold
(`intOutOfRange`), then a name an earlier column has (`fieldAmbiguous`) -/
def checkFieldsFrom (seen : List String) : List FieldDef → Option SErr
  | [] => none
  | fd :: rest =>
    if fd.len > 2147483647 || fd.len < -2147483648 then some .intOutOfRange
    else if seen.contains fd.name then some .fieldAmbiguous
    else checkFieldsFrom (seen ++ [fd.name]) rest

/-- `RelationService.CreateTable` (the flush's page write order is supplied) -/
def createTable (fields : List FieldDef) (name : Bytes) (flushOrder : List Nat) (doFlush : Bool := true) : SM Unit := fun s =>
  match relationOffset name s with
  | .err .tableNotExist s1 =>
    match checkFieldsFrom [] fields with
    | some e => .err e s1
    | none =>
    match checkCatalogRows fields name with
    | some e => .err e s1
    | none =>
    (do
      let pgOff ← appendNode (.leaf ⟨0, 0, false, false, 0, 0, []⟩) true
      insertPageTable pgOff name
      let schemaRoot ← relationOffset "sys_schema".toUTF8.toList
      let _ ← fetch schemaRoot
      insertSchemaRows fields name schemaRoot
      if doFlush then flushPages flushOrder else pure ()) s1
  | .ok _ s1 => .err .tableAlreadyExist s1
  | .err _ s1 => .err .tableAlreadyExist s1
  | .panic p => .panic p
  | .unmodelled w => .unmodelled w
  | .fuel => .fuel

/-- `CreateDB`: a fresh data file with the two catalog tables -/
def createDB (flushOrder : List Nat) : SM Unit := do
  modifyS fun _ => { hdr := { nextFree := c_pageSize }, dhdr := { nextFree := c_pageSize } }
  let p1 ← appendNode (.leaf ⟨0, 0, false, false, 0, 0, []⟩) true
  modifyS fun s => { s with hdr := { s.hdr with ptRoot := p1 } }
  insertPageTable p1 "sys_pages".toUTF8.toList
  let p2 ← appendNode (.leaf ⟨0, 0, false, false, 0, 0, []⟩) true
  insertPageTable p2 "sys_schema".toUTF8.toList
  let sroot ← relationOffset "sys_schema".toUTF8.toList
  let _ ← fetch sroot
  insertSchemaRows pageTableSchema "sys_pages".toUTF8.toList sroot
  let sroot ← relationOffset "sys_schema".toUTF8.toList
  let _ ← fetch sroot
  insertSchemaRows schemaTableSchema "sys_schema".toUTF8.toList sroot
  flushPages flushOrder
  -- `defer rs.Close()`: a second flush (nothing is dirty any more)
  flushPages []

/-- the data file after a flush was interrupted before its `j`-th page write: the first `j` pages of
the observed write order are on disk, the header is still the old one -/
def tornFlush (s : Store) (order : List Nat) (j : Nat) : Store :=
  let written := order.take j
  let disk' := written.foldl (fun d off =>
    match assocGet s.mem off with
    | some m => assocSet d (nodeOff m.node) m.node
    | none => d) s.disk
  { hdr := s.dhdr, mem := [], disk := disk', dhdr := s.dhdr, ghost := s.ghost }

/-- open a database from its data file: empty cache, header read from disk (`fileStore.open`) -/
def reopen (s : Store) : Store := { hdr := s.dhdr, mem := [], disk := s.disk, dhdr := s.dhdr, ghost := s.ghost }

end Mkdb.Store
