import Mkdb.Model.Tuple
import Mkdb.Model.Parse
import Mkdb.Generated.Consts
/-!
Model of cmd/csvimport/main.go: `colDataTypes`, `csvToSql`, and the per-record loop of
`doBatchInsert` (one single-row INSERT per accepted record).  The model starts from the
record stream `encoding/csv` yields (trusted); a record the reader rejects is `none`.
The INSERT itself is the row codec of `Mkdb.Tuple` plus the page's row-size limit; the
table is the list of accepted rows (what `SELECT *` returns, see C01).
-/
namespace Mkdb.Csv
open Mkdb.Tuple Mkdb.Generated

structure Cfg where
  schema  : List FieldDef
  dstCols : List String
  srcCols : List Nat
deriving Repr

/-- `colDataTypes`: type of each destination column from the catalog (a Go map keyed by
column name: for a duplicated name the last definition wins); `none` = "didn't find column". -/
def colTypes (schema : List FieldDef) (dst : List String) : Option (List DataType) :=
  dst.mapM fun c => (schema.reverse.find? fun fd => fd.name == c).map (·.ty)

def nullMarker : Bytes := [92, 78]   -- `\N`

def asciiLower (b : Bytes) : Bytes := b.map fun c => if 65 ≤ c.toNat ∧ c.toNat ≤ 90 then c + 32 else c

def boolWord (b : Bytes) : Option Bool :=
  let l := asciiLower b
  if l == [49] || l == "true".toUTF8.toList || l == [116] then some true
  else if l == [48] || l == "false".toUTF8.toList || l == [102] then some false
  else none

/-- one field of `csvToSql` -/
def convField (ty : DataType) (f : Bytes) : Option Val :=
  if f == nullMarker then some .null
  else match ty with
    | .int => (Sql.atoi f).map .int
    | .bigint => (Sql.atoi f).map .int
    | .boolean => (boolWord f).map .bool
    | .varchar => some (.str f)

/-- `csvToSql`: `none` = the record is reported as malformed. -/
def csvToSql (types : List DataType) (srcCols : List Nat) (rec : List Bytes) : Option (List Val) :=
  (srcCols.zip types).mapM fun (idx, ty) =>
    match rec[idx]? with
    | some f => convField ty f
    | none => none

/-- The single-row INSERT: `Tuple.Encode` (validation) and the row size limit; the stored
row is what `Tuple.Decode` gives back, column by column. -/
def insertRow (schema : List FieldDef) (cols : List String) (vals : List Val) : Option (List Val) :=
  if cols.length != vals.length then none else
  -- `checkColumns` (since repair 2046ccc): every name is a column of the table, none is named twice
  if !(cols.all fun c => schema.any fun fd => fd.name == c) || cols.eraseDups.length != cols.length then none else
  let m : Vals := (cols.zip vals).reverse
  match encodeTuple schema m with
  | .error _ => none
  | .ok bs =>
    if bs.length > c_maxValueSize then none else
    match decodeTuple schema bs [] with
    | .ok back => some (schema.map fun fd => get back fd.name)
    | .error _ => none

/-- One iteration of the loop in `doBatchInsert`; `none` = an error event, no row. -/
def importRecord (cfg : Cfg) (types : List DataType) (rec : Option (List Bytes)) : Option (List Val) :=
  match rec with
  | none => none                                   -- csv.ParseError
  | some r =>
    let maxIdx := cfg.srcCols.foldl max 0
    if maxIdx ≥ r.length then none                 -- "column %d not present"
    else match csvToSql types cfg.srcCols r with
      | none => none
      | some vals => insertRow cfg.schema cfg.dstCols vals

/-- The table after the import: accepted rows appended in input order. -/
def importAll (cfg : Cfg) (types : List DataType) (table : List (List Val)) : List (Option (List Bytes)) → List (List Val)
  | [] => table
  | r :: rest =>
    match importRecord cfg types r with
    | some row => importAll cfg types (table ++ [row]) rest
    | none => importAll cfg types table rest

end Mkdb.Csv
