import Mkdb.Generated.Locks
/-!
Model of the synchronisation between the session goroutine and the page flusher
(storage/page.go `fileStore.mtx`, `flushPages`, the ticker goroutine of `newFileStore`;
storage/relation.go `StartTxn/EndTxn`; engine `Evaluate*`).

The reader/writer lock is its abstract state (reader count, writer bit); each thread is a
small program counter.  A statement is *bracketed* when the extracted facts say its
evaluator takes the shared lock before touching pages and releases it after its log append.
-/
namespace Mkdb.Lock

/-- where the session goroutine is inside a statement -/
inductive SessPc where
  | idle
  | locked      -- shared lock held, nothing changed yet
  | changed     -- first page change made (still inside the statement)
  | logged      -- log append complete, lock not yet released
deriving Repr, DecidableEq

/-- where the flusher goroutine is -/
inductive FlushPc where
  | waiting
  | holding (written : Nat)   -- exclusive lock held, `written` pages written so far
deriving Repr, DecidableEq

structure St where
  readers   : Nat := 0
  writer    : Bool := false
  sess      : SessPc := .idle
  flush     : FlushPc := .waiting
  bracketed : Bool := true    -- does the statement in progress hold the shared lock?
deriving Repr, DecidableEq

/-- a scheduler choice -/
inductive Act where
  | sessBegin (bracketed : Bool)   -- StartTxn (RLock) — or, for an unbracketed statement, nothing
  | sessChange                     -- a page / cache mutation
  | sessLog                        -- the log append
  | sessEnd                        -- EndTxn (RUnlock)
  | flushBegin                     -- timer tick: Lock
  | flushWrite                     -- one page write (or the header write)
  | flushEnd                       -- Unlock
deriving Repr, DecidableEq

/-- one step; `none` = the action is not enabled (the thread blocks / is elsewhere) -/
def step (s : St) : Act → Option St
  | .sessBegin b =>
    if s.sess != .idle then none
    else if b then (if s.writer then none else some { s with readers := s.readers + 1, sess := .locked, bracketed := true })
    else some { s with sess := .locked, bracketed := false }
  | .sessChange => if s.sess == .locked || s.sess == .changed then some { s with sess := .changed } else none
  | .sessLog => if s.sess == .changed || s.sess == .locked then some { s with sess := .logged } else none
  | .sessEnd =>
    if s.sess == .idle then none
    else some { s with sess := .idle, readers := if s.bracketed then s.readers - 1 else s.readers }
  | .flushBegin =>
    if s.flush != .waiting then none
    else if s.writer || s.readers > 0 then none
    else some { s with writer := true, flush := .holding 0 }
  | .flushWrite => match s.flush with
    | .holding k => some { s with flush := .holding (k + 1) }
    | .waiting => none
  | .flushEnd => match s.flush with
    | .holding _ => some { s with writer := false, flush := .waiting }
    | .waiting => none

/-- run a schedule, skipping actions that are not enabled -/
def run (s : St) (acts : List Act) : St :=
  acts.foldl (fun s a => (step s a).getD s) s

def insideStatement (s : St) : Bool := s.sess != .idle
def flusherActive (s : St) : Bool := match s.flush with | .holding _ => true | .waiting => false

/-- the lock invariant: the lock state is determined by where the two threads are -/
def Inv (s : St) : Prop :=
  s.writer = flusherActive s ∧
  s.readers = (if insideStatement s && s.bracketed then 1 else 0) ∧
  (flusherActive s = true → s.readers = 0)

end Mkdb.Lock
