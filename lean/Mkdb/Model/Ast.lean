import Mkdb.Model.Scan
/-! AST of sql/parser.go (positions of tokens are not part of the model). -/
namespace Mkdb.Sql
open Mkdb.Scan

inductive Lit where
  | int (i : Int)
  | str (b : Bytes)
  | bool (b : Bool)
deriving Repr, DecidableEq

structure ColRef where
  qual : Bytes
  name : Bytes
deriving Repr, DecidableEq

/-- `ValueExpression`: a literal or a column reference. -/
inductive VExpr where
  | lit (l : Lit)
  | col (c : ColRef)
deriving Repr, DecidableEq

structure Pred where
  lhs : VExpr
  op  : Int       -- token type of the comparison operator
  rhs : VExpr
deriving Repr, DecidableEq

/-- What `OrCondition` can return. -/
inductive Cond where
  | val (v : VExpr)                 -- a bare value expression
  | pred (p : Pred)                 -- `Predicate`
  | and (l : Pred) (r : Cond)       -- `BooleanTerm{LHS Predicate, RHS interface{}}`
  | or (l : Cond) (r : Cond)        -- `SearchCondition{LHS, RHS interface{}}`
deriving Repr, DecidableEq

inductive SelItem where
  | star
  | count (c : Option ColRef)
  | avg (c : ColRef)
  | expr (c : Cond)
deriving Repr, DecidableEq

structure DerivedCol where
  item  : SelItem
  alias : Bytes := []
deriving Repr, DecidableEq

structure TableName where
  name  : Bytes
  alias : Option Bytes
deriving Repr, DecidableEq

inductive JoinType where
  | left | right | inner
deriving Repr, DecidableEq

inductive TableRef where
  | table (t : TableName)
  | join (l : TableRef) (jt : JoinType) (r : TableName) (on : Cond)
deriving Repr, DecidableEq

structure SortSpec where
  key  : ColRef
  desc : Bool
deriving Repr, DecidableEq

structure LimitOffset where
  limitActive  : Bool := false
  offsetActive : Bool := false
  limit  : Int := 0
  offset : Int := 0
deriving Repr, DecidableEq

structure Select where
  list    : List DerivedCol
  from_   : Option TableRef := none
  where_  : Option Cond := none
  groupBy : List ColRef := []
  orderBy : List SortSpec := []
  lim     : LimitOffset := {}
deriving Repr, DecidableEq

inductive ColType where
  | int | bigint | varchar (len : Int) | boolean
deriving Repr, DecidableEq

structure ColDef where
  name : Bytes
  ty   : ColType
deriving Repr, DecidableEq

inductive Stmt where
  | createDatabase (name : Bytes)
  | createTable (name : Bytes) (cols : List ColDef)
  | select (s : Select)
  | insert (table : Bytes) (cols : List Bytes) (rows : List (List Lit))
  | update (table : Bytes) (sets : List (Bytes × VExpr)) (where_ : Option Cond)
  | delete (table : Bytes) (where_ : Option Cond)
  | use (db : Bytes)
  | showDatabases
deriving Repr, DecidableEq

end Mkdb.Sql
