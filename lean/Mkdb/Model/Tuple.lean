import Mkdb.Model.Bin
/-!
Model of storage/relation.go: `FieldDef.Validate`, `Tuple.Encode`, `Tuple.Decode`.

Go's `map[string]interface{}` is an association list with most-recent-first lookup
(so duplicate column names behave as in the code: the last write wins); a missing key and
an explicit `nil` are both `Val.null`.  Go strings are byte strings.
-/
namespace Mkdb.Tuple
open Mkdb.Bin

inductive DataType where
  | int | varchar | boolean | bigint
deriving Repr, DecidableEq

inductive Val where
  | int (i : Int)        -- Go int64
  | str (b : Bytes)      -- Go string
  | bool (b : Bool)
  | null
deriving Repr, DecidableEq

structure FieldDef where
  name : String
  ty   : DataType
  len  : Int := 0
deriving Repr, DecidableEq

abbrev Vals := List (String × Val)

def get (m : Vals) (k : String) : Val :=
  match m.find? (fun p => p.1 == k) with
  | some (_, v) => v
  | none => .null

inductive TErr where
  | typeMismatch | intOutOfRange | decode
deriving Repr, DecidableEq

def validate (fd : FieldDef) (v : Val) : Except TErr Unit :=
  match fd.ty, v with
  | .int, .int i => if i > 2147483647 ∨ i < -2147483648 then .error .intOutOfRange else .ok ()
  | .bigint, .int _ => .ok ()
  | .varchar, .str _ => .ok ()
  | .boolean, .bool _ => .ok ()
  | _, _ => .error .typeMismatch

/-- One column of `Tuple.Encode`: NULL marker byte, then the typed payload. -/
def encField (fd : FieldDef) (v : Val) : Except TErr Bytes :=
  match v with
  | .null => .ok (encBool true)
  | _ =>
    match validate fd v with
    | .error e => .error e
    | .ok () =>
      match fd.ty, v with
      | .int, .int i => .ok (encBool false ++ encI 4 i)
      | .bigint, .int i => .ok (encBool false ++ encI 8 i)
      | .boolean, .bool b => .ok (encBool false ++ encBool b)
      | .varchar, .str s => .ok (encBool false ++ encU32 s.length ++ s)
      | _, _ => .error .typeMismatch

def encodeTuple : List FieldDef → Vals → Except TErr Bytes
  | [], _ => .ok []
  | fd :: rest, vals =>
    match encField fd (get vals fd.name) with
    | .error e => .error e
    | .ok b =>
      match encodeTuple rest vals with
      | .error e => .error e
      | .ok bs => .ok (b ++ bs)

/-- One column of `Tuple.Decode`: `none` for a NULL (the map entry is left as it is). -/
def decField (fd : FieldDef) (bs : Bytes) : Except TErr (Option Val × Bytes) :=
  match decBool bs with
  | none => .error .decode
  | some (true, rest) => .ok (none, rest)
  | some (false, rest) =>
    match fd.ty with
    | .int => match decI 4 rest with
      | some (i, r) => .ok (some (.int i), r)
      | none => .error .decode
    | .bigint => match decI 8 rest with
      | some (i, r) => .ok (some (.int i), r)
      | none => .error .decode
    | .boolean => match decBool rest with
      | some (b, r) => .ok (some (.bool b), r)
      | none => .error .decode
    | .varchar => match decU32 rest with
      | none => .error .decode
      | some (n, r) => match readN n r with
        | some (s, r') => .ok (some (.str s), r')
        | none => .error .decode

def decodeTuple : List FieldDef → Bytes → Vals → Except TErr Vals
  | [], _, m => .ok m
  | fd :: rest, bs, m =>
    match decField fd bs with
    | .error e => .error e
    | .ok (none, bs') => decodeTuple rest bs' m
    | .ok (some v, bs') => decodeTuple rest bs' ((fd.name, v) :: m)

/-- A value a Go program can hold: int64 range, string shorter than 4 GiB. -/
def ValidVal : Val → Prop
  | .int i => -9223372036854775808 ≤ i ∧ i ≤ 9223372036854775807
  | .str s => s.length < 2 ^ 32
  | _ => True

end Mkdb.Tuple
