import Mkdb.Model.Engine
import Mkdb.Generated.Lower
/-!
Model of engine/session.go (`Session.ExecQuery`) over several databases: CREATE DATABASE,
USE, SHOW DATABASES and the dispatch of DDL/DML to the selected database.  Database
names are compared in lower-cased form (storage/file.go: `strings.ToLower`, Unicode aware).  One relation service is open at
a time: USE of another database closes (flushes) the previous one.
-/
namespace Mkdb.Session
open Mkdb.Engine Mkdb.Store Mkdb.Sql

structure Sess where
  dbs : List (String × DB) := []     -- by canonical (lower-case) name
  cur : Option String := none
deriving Repr

inductive Out where
  | ok
  | err (kind : String)
  | panic
  | rows (names : List String)       -- SHOW DATABASES
deriving Repr

/-- the second component of the first pair of `ps` whose first component is `r`; `r` if there is none -/
def lookPairs (r : Nat) : List (Nat × Nat) → Nat
  | [] => r
  | p :: ps => if Nat.beq p.1 r then p.2 else lookPairs r ps

/-- look `r` up in the first list whose bound (its largest first component) is not below `r` -/
def lookChunks (r : Nat) : List (Nat × List (Nat × Nat)) → Nat
  | [] => r
  | c :: cs => if Nat.ble r c.1 then lookPairs r c.2 else lookChunks r cs

/-- `unicode.ToLower` of the Go library (simple case mapping), from the generated table
`Mkdb/Generated/Lower.lean`: every code point the library maps to another one is listed there with
its image (`lowerPairsList`, cut into short lists: `lowerChunks`); every other one is mapped to itself.
(`DbNames1.lowerRune_listed` / `lowerRune_moved`: this is the listed image on every listed code point
and moves no other.) -/
def lowerRune (r : Nat) : Nat := lookChunks r Mkdb.Generated.lowerChunks

/-- is `lo ≤ c ≤ hi` (a continuation byte in the range the first byte allows) -/
def inRange (c : UInt8) (lo hi : Nat) : Bool := decide (lo ≤ c.toNat) && decide (c.toNat ≤ hi)

/-- `utf8.DecodeRuneInString` (unicode/utf8: tables `first` and `acceptRanges`) on the bytes
`b0 :: rest`: the code point and its width.  A byte that starts no well-formed sequence - a
continuation or unused byte, a sequence cut short, an overlong form (C0, C1, E0 80-9F, F0 80-8F), a
surrogate (ED A0-BF), a value above U+10FFFF (F4 90-BF, F5-FF) - is U+FFFD of width 1. -/
def decodeRune (b0 : UInt8) (rest : Bytes) : Nat × Nat :=
  let x := b0.toNat
  if x < 0x80 then (x, 1)
  else if x < 0xC2 then (0xFFFD, 1)
  else if x < 0xE0 then
    match rest with
    | b1 :: _ =>
      if inRange b1 0x80 0xBF then ((x - 0xC0) * 64 + (b1.toNat - 0x80), 2) else (0xFFFD, 1)
    | _ => (0xFFFD, 1)
  else if x < 0xF0 then
    match rest with
    | b1 :: b2 :: _ =>
      if inRange b1 (if x = 0xE0 then 0xA0 else 0x80) (if x = 0xED then 0x9F else 0xBF) && inRange b2 0x80 0xBF then
        ((x - 0xE0) * 4096 + (b1.toNat - 0x80) * 64 + (b2.toNat - 0x80), 3)
      else (0xFFFD, 1)
    | _ => (0xFFFD, 1)
  else if x < 0xF5 then
    match rest with
    | b1 :: b2 :: b3 :: _ =>
      if inRange b1 (if x = 0xF0 then 0x90 else 0x80) (if x = 0xF4 then 0x8F else 0xBF) && inRange b2 0x80 0xBF
          && inRange b3 0x80 0xBF then
        ((x - 0xF0) * 262144 + (b1.toNat - 0x80) * 4096 + (b2.toNat - 0x80) * 64 + (b3.toNat - 0x80), 4)
      else (0xFFFD, 1)
    | _ => (0xFFFD, 1)
  else (0xFFFD, 1)

/-- the code points a Go `range` loop over the string sees (`strings.Map`): `skip` bytes of the
sequence decoded last are still to be passed over -/
def decodeGo : Nat → Bytes → List Char
  | _, [] => []
  | skip + 1, _ :: rest => decodeGo skip rest
  | 0, b0 :: rest => Char.ofNat (decodeRune b0 rest).1 :: decodeGo ((decodeRune b0 rest).2 - 1) rest

def lowerChar (c : Char) : Char := Char.ofNat (lowerRune c.toNat)

/-- `strings.ToLower` (storage/file.go, engine/session.go): the name decoded as UTF-8 - every byte
that is part of no well-formed sequence reads as U+FFFD -, every code point mapped by
`unicode.ToLower`, encoded again.  (For a pure-ASCII name Go takes a byte-wise path with the same
result.)  The result is the directory name: the identity of the database. -/
def lowered (b : Bytes) : List Char := (decodeGo 0 b).map lowerChar

def canon (b : Bytes) : String := String.ofList (lowered b)

/-- the bytes of the lowered name (`(canon b).toUTF8`: `DbNames1.toUTF8_canon`) -/
def canonBytes (b : Bytes) : Bytes := (lowered b).flatMap String.utf8EncodeChar

/-- `checkDBName` (storage/file.go): the LOWER-CASED name is used as one path element below the data
directory - not the directory itself or its parent, at most 255 bytes, no path separator or NUL -/
def validDbName (b : Bytes) : Bool :=
  let n := canonBytes b
  n != [46] && n != [46, 46] && decide (n.length ≤ 255) && !(n.any fun c => c == 47 || c == 0)

def getDB (s : Sess) (n : String) : Option DB := (s.dbs.find? (·.1 == n)).map (·.2)
def setDB (s : Sess) (n : String) (db : DB) : Sess :=
  { s with dbs := if s.dbs.any (·.1 == n) then s.dbs.map (fun p => if p.1 == n then (n, db) else p) else s.dbs ++ [(n, db)] }

def insertSortedStr (k : String) : List String → List String
  | [] => [k]
  | x :: xs => if k ≤ x then k :: x :: xs else x :: insertSortedStr k xs

def sortedNames (s : Sess) : List String := s.dbs.foldl (fun acc p => insertSortedStr p.1 acc) []

def stmtErr : StmtErr → String
  | .store .tableNotExist => "tableNotExist" | .store .tableAlreadyExist => "tableAlreadyExist"
  | .store .colCountMismatch => "colCountMismatch" | .store .typeMismatch => "typeMismatch"
  | .store .intOutOfRange => "intOutOfRange" | .store .rowTooLarge => "rowTooLarge"
  | .store .keyExists => "keyExists" | .store .decode => "decode" | .store .cellNotFound => "cellNotFound"
  | .store .pageTableEntryMissing => "pageTableEntryMissing"
  | .store .fieldNotFound => "fieldNotFound" | .store .fieldAmbiguous => "fieldAmbiguous"
  | .exec .tableNotExist => "tableNotExist" | .exec .fieldNotFound => "fieldNotFound" | .exec .fieldAmbiguous => "fieldAmbiguous"
  | .exec .incompat => "incompat" | .exec .nothingToCompare => "nothingToCompare" | .exec .nothingToEvaluate => "nothingToEvaluate"
  | .exec .nonBoolJoin => "nonBoolJoin" | .exec .sortFieldNotFound => "sortFieldNotFound" | .exec .avgNonInteger => "avgNonInteger"
  | .exec .groupByNotSelected => "groupByNotSelected"
  | .unsupported => "unsupported"

/-- what `EvaluateSelect` reads of a table: `RelationService.Fetch` - the declared column names (the
executor adds the table id: alias or name) and the rows without their row ids; an error value of
`Fetch` (unknown table, a row that does not decode) is "no such table" to the executor -/
def fetchOfDB (db : DB) (name : Bytes) : Option Exec.Table :=
  match fetchTable name db.store with
  | .ok (rows, schema) _ => some ⟨schema.map fun fd => fd.name.toUTF8.toList, rows.map (·.2)⟩
  | _ => none

def onCurrent (s : Sess) (f : DB → Res α) : Sess × Out :=
  match s.cur with
  | none => (s, .err "noDbSelected")
  | some n =>
    match getDB s n with
    | none => (s, .panic)
    | some db =>
      match f db with
      | .ok _ db' => (setDB s n db', .ok)
      | .err e db' => (setDB s n db', .err (stmtErr e))
      | _ => (s, .panic)

/-- `Session.ExecQuery` on a parsed statement -/
def exec (s : Sess) : Stmt → Sess × Out
  | .createDatabase name =>
    let n := canon name
    if !validDbName name then (s, .err "invalidDbName") else
    if name.isEmpty then (s, .err "noDbSelected") else      -- `dbFilePath("")`: ErrDBNotSelected
    if (getDB s n).isSome then (s, .err "dbExists") else
    match createDB [] {} with
    | .ok _ st => (setDB s n { store := reopen st, wal := [] }, .ok)
    | _ => (s, .panic)
  | .use name =>
    let n := canon name
    if !validDbName name then (s, .err "invalidDbName") else
    if name.isEmpty then (s, .err "noDbSelected") else
    if (getDB s n).isNone then (s, .err "dbNotExist")
    else
      -- the previously selected database is closed (flushed); selecting the current one again changes nothing
      let s1 : Sess := match s.cur with
        | some c => if c == n then s else
            (match getDB s c with
             | some db => (match flush db [] with | .ok _ db' => setDB s c { db' with store := reopen db'.store } | _ => s)
             | none => s)
        | none => s
      ({ s1 with cur := some n }, .ok)
  | .showDatabases => (s, .rows (sortedNames s))
  | .createTable name cols => onCurrent s fun db => evalCreateTable db name cols []
  | .insert t cols rows => onCurrent s fun db => evalInsert db t cols (rows.map fun r => r.map litToVal)
  | .update t sets w => onCurrent s fun db => evalUpdate db t sets w
  | .delete t w => onCurrent s fun db => evalDelete db t w
  | .select q =>
    -- `EvaluateSelect` on the selected database: rows (not modelled at this level: the executor runs
    -- of C05-C07 compare them) or an error value; it changes nothing
    match s.cur with
    | none => (s, .err "noDbSelected")
    | some n =>
      match getDB s n with
      | none => (s, .panic)
      | some db =>
        match Exec.evaluateSelect (fetchOfDB db) q with
        | .ok _ => (s, .ok)
        | .err e => (s, .err (stmtErr (.exec e)))
        | .panic _ => (s, .panic)

/-- close the session (flush the selected database), run start-up recovery on every database -/
def restart (s : Sess) : Option Sess :=
  let closed : Sess := match s.cur with
    | some c => (match getDB s c with
      | some db => (match flush db [] with | .ok _ db' => setDB s c db' | _ => s)
      | none => s)
    | none => s
  let rec go : List (String × DB) → Option (List (String × DB))
    | [] => some []
    | (n, db) :: rest =>
      match recover db [] [] with
      | .ok db' => (go rest).map fun tl => (n, { db' with store := reopen db'.store }) :: tl
      | _ => none
  (go closed.dbs).map fun dbs => { dbs := dbs, cur := none }

/-- start-up recovery of every database (`InitStorage`), as in `restart` -/
def recoverEvery : List (String × DB) → Option (List (String × DB))
  | [] => some []
  | (n, db) :: rest =>
    match recover db [] [] with
    | .ok db' => (recoverEvery rest).map fun tl => (n, { db' with store := reopen db'.store }) :: tl
    | _ => none

/-- the process dies (the cache of the selected database is dropped, nothing is flushed: the data file
is what the page flushes so far left, the log holds every acknowledged statement), then start-up recovery
of every database.  Correspondence only: the theorems about crashes are per database (C02-C04). -/
def crashRestart (s : Sess) : Option Sess :=
  let dropped : Sess := match s.cur with
    | some c => (match getDB s c with
      | some db => setDB s c { db with store := reopen db.store }
      | none => s)
    | none => s
  (recoverEvery dropped.dbs).map fun dbs => { dbs := dbs, cur := none }

end Mkdb.Session
