import Mkdb.Model.Engine
/-!
Model of engine/session.go (`Session.ExecQuery`) over several databases: CREATE DATABASE,
USE, SHOW DATABASES and the dispatch of DDL/DML to the selected database.  Database
names are compared in lower-cased form (storage/file.go).  One relation service is open at
a time: USE of another database closes (flushes) the previous one.
-/
namespace Mkdb.Session
open Mkdb.Engine Mkdb.Store Mkdb.Sql

structure Sess where
  dbs : List (String × DB) := []     -- by canonical (lower-case) name
  cur : Option String := none
deriving Repr

inductive Out where
  | ok
  | err (kind : String)
  | panic
  | rows (names : List String)       -- SHOW DATABASES
deriving Repr

def canon (b : Bytes) : String := (nameOfBytes b).toLower

/-- `checkDBName` (storage/file.go): the lower-cased name is used as one path element below the data
directory - not the directory itself or its parent, no path separator or NUL, at most 255 bytes -/
def validDbName (b : Bytes) : Bool :=
  -- (lower-casing changes none of this for ASCII; a name whose Unicode lower-casing changes its byte
  -- length around the limit is outside the model)
  b != [46] && b != [46, 46] && decide (b.length ≤ 255) && !(b.any fun c => c == 47 || c == 0)

def getDB (s : Sess) (n : String) : Option DB := (s.dbs.find? (·.1 == n)).map (·.2)
def setDB (s : Sess) (n : String) (db : DB) : Sess :=
  { s with dbs := if s.dbs.any (·.1 == n) then s.dbs.map (fun p => if p.1 == n then (n, db) else p) else s.dbs ++ [(n, db)] }

def insertSortedStr (k : String) : List String → List String
  | [] => [k]
  | x :: xs => if k ≤ x then k :: x :: xs else x :: insertSortedStr k xs

def sortedNames (s : Sess) : List String := s.dbs.foldl (fun acc p => insertSortedStr p.1 acc) []

def stmtErr : StmtErr → String
  | .store .tableNotExist => "tableNotExist" | .store .tableAlreadyExist => "tableAlreadyExist"
  | .store .colCountMismatch => "colCountMismatch" | .store .typeMismatch => "typeMismatch"
  | .store .intOutOfRange => "intOutOfRange" | .store .rowTooLarge => "rowTooLarge"
  | .store .keyExists => "keyExists" | .store .decode => "decode" | .store .cellNotFound => "cellNotFound"
  | .store .pageTableEntryMissing => "pageTableEntryMissing"
  | .store .fieldNotFound => "fieldNotFound" | .store .fieldAmbiguous => "fieldAmbiguous"
  | .exec .tableNotExist => "tableNotExist" | .exec .fieldNotFound => "fieldNotFound" | .exec .fieldAmbiguous => "fieldAmbiguous"
  | .exec .incompat => "incompat" | .exec .nothingToCompare => "nothingToCompare" | .exec .nothingToEvaluate => "nothingToEvaluate"
  | .exec .nonBoolJoin => "nonBoolJoin" | .exec .sortFieldNotFound => "sortFieldNotFound" | .exec .avgNonInteger => "avgNonInteger"
  | .exec .groupByNotSelected => "groupByNotSelected"
  | .unsupported => "unsupported"

/-- what `EvaluateSelect` reads of a table: `RelationService.Fetch` - the declared column names (the
executor adds the table id: alias or name) and the rows without their row ids; an error value of
`Fetch` (unknown table, a row that does not decode) is "no such table" to the executor -/
def fetchOfDB (db : DB) (name : Bytes) : Option Exec.Table :=
  match fetchTable name db.store with
  | .ok (rows, schema) _ => some ⟨schema.map fun fd => fd.name.toUTF8.toList, rows.map (·.2)⟩
  | _ => none

def onCurrent (s : Sess) (f : DB → Res α) : Sess × Out :=
  match s.cur with
  | none => (s, .err "noDbSelected")
  | some n =>
    match getDB s n with
    | none => (s, .panic)
    | some db =>
      match f db with
      | .ok _ db' => (setDB s n db', .ok)
      | .err e db' => (setDB s n db', .err (stmtErr e))
      | _ => (s, .panic)

/-- `Session.ExecQuery` on a parsed statement -/
def exec (s : Sess) : Stmt → Sess × Out
  | .createDatabase name =>
    let n := canon name
    if !validDbName name then (s, .err "invalidDbName") else
    if name.isEmpty then (s, .err "noDbSelected") else      -- `dbFilePath("")`: ErrDBNotSelected
    if (getDB s n).isSome then (s, .err "dbExists") else
    match createDB [] {} with
    | .ok _ st => (setDB s n { store := reopen st, wal := [] }, .ok)
    | _ => (s, .panic)
  | .use name =>
    let n := canon name
    if !validDbName name then (s, .err "invalidDbName") else
    if name.isEmpty then (s, .err "noDbSelected") else
    if (getDB s n).isNone then (s, .err "dbNotExist")
    else
      -- the previously selected database is closed (flushed); selecting the current one again changes nothing
      let s1 : Sess := match s.cur with
        | some c => if c == n then s else
            (match getDB s c with
             | some db => (match flush db [] with | .ok _ db' => setDB s c { db' with store := reopen db'.store } | _ => s)
             | none => s)
        | none => s
      ({ s1 with cur := some n }, .ok)
  | .showDatabases => (s, .rows (sortedNames s))
  | .createTable name cols => onCurrent s fun db => evalCreateTable db name cols []
  | .insert t cols rows => onCurrent s fun db => evalInsert db t cols (rows.map fun r => r.map litToVal)
  | .update t sets w => onCurrent s fun db => evalUpdate db t sets w
  | .delete t w => onCurrent s fun db => evalDelete db t w
  | .select q =>
    -- `EvaluateSelect` on the selected database: rows (not modelled at this level: the executor runs
    -- of C05-C07 compare them) or an error value; it changes nothing
    match s.cur with
    | none => (s, .err "noDbSelected")
    | some n =>
      match getDB s n with
      | none => (s, .panic)
      | some db =>
        match Exec.evaluateSelect (fetchOfDB db) q with
        | .ok _ => (s, .ok)
        | .err e => (s, .err (stmtErr (.exec e)))
        | .panic _ => (s, .panic)

/-- close the session (flush the selected database), run start-up recovery on every database -/
def restart (s : Sess) : Option Sess :=
  let closed : Sess := match s.cur with
    | some c => (match getDB s c with
      | some db => (match flush db [] with | .ok _ db' => setDB s c db' | _ => s)
      | none => s)
    | none => s
  let rec go : List (String × DB) → Option (List (String × DB))
    | [] => some []
    | (n, db) :: rest =>
      match recover db [] [] with
      | .ok db' => (go rest).map fun tl => (n, { db' with store := reopen db'.store }) :: tl
      | _ => none
  (go closed.dbs).map fun dbs => { dbs := dbs, cur := none }

end Mkdb.Session
