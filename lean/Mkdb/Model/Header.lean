import Mkdb.Model.Bin
import Mkdb.Model.Store
/-!
The file header as bytes: `fileStore.save` writes `lastKey` (uint32), `pageTableRoot`, `nextFreeOffset`,
`_nextLSN` (uint64 each), little-endian, 28 bytes at offset 0 of the data file; `fileStore.open` reads
them back with `binary.Read` in the same order (an end of file inside or before a field is the error
that makes `OpenRelation` / `InitStorage` fail).  The field order and widths are the regenerated layout
facts `layout.fileStore.save` / `layout.fileStore.open`.  Core only.
-/
namespace Mkdb.Header
open Mkdb.Bin Mkdb.Store

/-- `fileStore.save`: the bytes written at offset 0 -/
def encode (h : Header) : Bytes :=
  encU32 h.lastKey ++ encU64 h.ptRoot ++ encU64 h.nextFree ++ encU64 h.nextLSN

/-- `fileStore.open`: the four `binary.Read` calls on the file; `none` = an error (end of file) -/
def decode (bs : Bytes) : Option Header :=
  match decU32 bs with
  | none => none
  | some (lk, r1) =>
    match decU64 r1 with
    | none => none
    | some (pt, r2) =>
      match decU64 r2 with
      | none => none
      | some (nf, r3) =>
        match decU64 r3 with
        | none => none
        | some (lsn, _) => some ⟨lk, pt, nf, lsn⟩

/-- the values the fixed-width fields can hold -/
def Fits (h : Header) : Prop :=
  h.lastKey < 2 ^ 32 ∧ h.ptRoot < 2 ^ 64 ∧ h.nextFree < 2 ^ 64 ∧ h.nextLSN < 2 ^ 64

instance (h : Header) : Decidable (Fits h) := by unfold Fits; infer_instance

/-- what `save` really stores of counters as natural numbers: each field wrapped to its width -/
def wrap (h : Header) : Header :=
  ⟨h.lastKey % 2 ^ 32, h.ptRoot % 2 ^ 64, h.nextFree % 2 ^ 64, h.nextLSN % 2 ^ 64⟩

end Mkdb.Header
