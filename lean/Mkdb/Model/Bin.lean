/-!
Little-endian fixed-width integers as `encoding/binary` writes and reads them
(`binary.Write/Read(…, binary.LittleEndian, …)` on uint8/16/32/64, int32/64, bool), and the
`bytes.Buffer` reading primitives the decoders use.
-/
namespace Mkdb

abbrev Bytes := List UInt8

namespace Bin

/-- `k` little-endian bytes of `n` (low `8k` bits). -/
def encLE : Nat → Nat → Bytes
  | 0, _ => []
  | k+1, n => (n % 256).toUInt8 :: encLE k (n / 256)

/-- Read `k` little-endian bytes; `none` when fewer than `k` bytes remain
(`io.ErrUnexpectedEOF` / `io.EOF` in Go). -/
def decLE : Nat → Bytes → Option (Nat × Bytes)
  | 0, bs => some (0, bs)
  | _+1, [] => none
  | k+1, b :: bs =>
    match decLE k bs with
    | some (v, rest) => some (b.toNat + 256 * v, rest)
    | none => none

def encU8 (n : Nat) : Bytes := encLE 1 n
def encU16 (n : Nat) : Bytes := encLE 2 n
def encU32 (n : Nat) : Bytes := encLE 4 n
def encU64 (n : Nat) : Bytes := encLE 8 n
def encBool (b : Bool) : Bytes := [if b then 1 else 0]

def decU8 := decLE 1
def decU16 := decLE 2
def decU32 := decLE 4
def decU64 := decLE 8

/-- `binary.Read` into a `bool`: any non-zero byte is `true`. -/
def decBool : Bytes → Option (Bool × Bytes)
  | [] => none
  | b :: bs => some (b != 0, bs)

/-- Two's complement: `binary.Write` of an `int32` / `int64`. -/
def encI (k : Nat) (i : Int) : Bytes := encLE k (i % (256 ^ k : Nat)).toNat

def decI (k : Nat) (bs : Bytes) : Option (Int × Bytes) :=
  match decLE k bs with
  | some (v, rest) => some (if v < 256 ^ k / 2 then (v : Int) else (v : Int) - (256 ^ k : Nat), rest)
  | none => none

/-- `bytes.Buffer.Read(p)` with `len(p) = n`: an empty request succeeds, an empty buffer is
`io.EOF`, otherwise up to `n` bytes are delivered without error. -/
def readN (n : Nat) (bs : Bytes) : Option (Bytes × Bytes) :=
  if n == 0 then some ([], bs)
  else if bs.isEmpty then none
  else some (bs.take n, bs.drop n)

/-- `bytes.Buffer.Next(n)`. -/
def skipN (n : Nat) (bs : Bytes) : Bytes := bs.drop n

end Bin
end Mkdb
