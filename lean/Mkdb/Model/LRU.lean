/-
Model of storage/lru.go (LRUCache.set / LRUCache.get) together with the
dirty flag of the page an entry points to (storage/page.go markDirty/markClean).

The Go cache is a doubly linked recency list plus an index map.  The model is the
recency list only, most recently used first; the index map is the function
`find?` over that list (the map and the list always hold the same entries, which the
correspondence check observes through `len(cache)` vs list length).
-/
namespace Mkdb.LRU

structure Entry where
  key   : Nat
  id    : Nat      -- identity of the page object stored under the key
  dirty : Bool
deriving Repr, DecidableEq, BEq

structure Cache where
  cap   : Nat
  items : List Entry   -- most recently used first
deriving Repr

def Cache.empty (cap : Nat) : Cache := { cap := cap, items := [] }

def find? (items : List Entry) (k : Nat) : Option Entry :=
  items.find? (fun e => e.key == k)

def remove (items : List Entry) (k : Nat) : List Entry :=
  items.filter (fun e => !(e.key == k))

/-- Remove the coldest (last) clean entry: `cur := list.Back(); for … cur = cur.Prev()`. -/
def evict : List Entry → Option (List Entry)
  | [] => none
  | e :: rest =>
    match evict rest with
    | some rest' => some (e :: rest')
    | none => if e.dirty then none else some rest

/-- The entry `evict` removes. -/
def victim : List Entry → Option Entry
  | [] => none
  | e :: rest =>
    match victim rest with
    | some v => some v
    | none => if e.dirty then none else some e

/-- `LRUCache.set`. -/
def Cache.set (c : Cache) (k id : Nat) (d : Bool) : Cache × Bool :=
  match find? c.items k with
  | some _ => ({ c with items := ⟨k, id, d⟩ :: remove c.items k }, true)
  | none =>
    if c.items.length == c.cap then
      match evict c.items with
      | none => (c, false)
      | some items' => ({ c with items := ⟨k, id, d⟩ :: items' }, true)
    else ({ c with items := ⟨k, id, d⟩ :: c.items }, true)

/-- `LRUCache.get`. -/
def Cache.get (c : Cache) (k : Nat) : Cache × Option Entry :=
  match find? c.items k with
  | some e => ({ c with items := e :: remove c.items k }, some e)
  | none => (c, none)

/-- markDirty / markClean on the page resident under `k` (no recency change). -/
def Cache.flip (c : Cache) (k : Nat) (d : Bool) : Cache :=
  { c with items := c.items.map (fun e => if e.key == k then { e with dirty := d } else e) }

inductive Op where
  | set (k id : Nat) (d : Bool)
  | get (k : Nat)
  | flip (k : Nat) (d : Bool)
deriving Repr

inductive Out where
  | setOk | setRefused
  | hit (id : Nat) (dirty : Bool) | miss
  | flipped
deriving Repr, DecidableEq

def step (c : Cache) : Op → Cache × Out
  | .set k id d => let (c', ok) := c.set k id d; (c', if ok then .setOk else .setRefused)
  | .get k => match c.get k with
    | (c', some e) => (c', .hit e.id e.dirty)
    | (c', none) => (c', .miss)
  | .flip k d => (c.flip k d, .flipped)

def run (c : Cache) (ops : List Op) : Cache := ops.foldl (fun c op => (step c op).1) c

end Mkdb.LRU
