import Mkdb.Model.Bin
import Mkdb.Generated.Tokens
/-!
Model of the SQL scanner: sql/go_scanner.go (`Scanner.Scan` with the mode `GoTokens`, as
`NewTokenScanner` configures it) and sql/scanner.go (`tokenScanner.Cur/Next`, `Token.Val`).

Input is the rune sequence `Scanner.next` delivers: each rune with its source bytes and,
for non-ASCII runes, the facts `unicode.IsLetter`, `unicode.IsDigit`, `unicode.ToUpper`
supplied from outside (trusted base: UTF-8 decoding and the Unicode tables).
Scanner error *messages* go to stderr in Go and are not modelled; scanning continues.
-/
namespace Mkdb.Scan
open Mkdb.Generated

structure Rune where
  code   : Nat
  bytes  : Bytes
  letter : Bool      -- unicode.IsLetter
  digit  : Bool      -- unicode.IsDigit
  upper  : Nat       -- unicode.ToUpper
deriving Repr, DecidableEq

abbrev Input := List Rune

def isWs (c : Nat) : Bool := c == 9 || c == 10 || c == 11 || c == 12 || c == 13 || c == 32
def isDecimal (c : Nat) : Bool := 48 ≤ c && c ≤ 57
def lower (c : Nat) : Nat := c ||| 32
def isHex (c : Nat) : Bool := isDecimal c || (97 ≤ lower c && lower c ≤ 102)
def isIdentRune (r : Rune) (first : Bool) : Bool :=
  r.code == 95 || r.letter || (r.digit && !first)

def digitVal (c : Nat) : Nat :=
  if isDecimal c then c - 48
  else if 97 ≤ lower c && lower c ≤ 102 then lower c - 97 + 10
  else 16

/-- `scanIdentifier`: the first rune is known to be fine; consume ident runes. -/
def scanIdentTail : Input → Input
  | [] => []
  | r :: rest => if isIdentRune r false then scanIdentTail rest else r :: rest

/-- `digits`: `{ digit | '_' }` (hex digits when `base > 10`). -/
def digits (hex : Bool) : Input → Input
  | [] => []
  | r :: rest =>
    if (if hex then isHex r.code else isDecimal r.code) || r.code == 95 then digits hex rest
    else r :: rest

def curCode : Input → Option Nat
  | [] => none
  | r :: _ => some r.code

/-- `scanNumber(ch, seenDot)`; returns (isFloat, rest).  `l` starts at the first digit
(or, when `seenDot`, at the first digit after the '.'). -/
def scanNumber (l : Input) (seenDot : Bool) : Bool × Input :=
  if seenDot then
    let l1 := digits false l
    -- exponent
    match l1 with
    | r :: rest =>
      if lower r.code == 101 || lower r.code == 112 then
        let l2 := match rest with
          | s :: rest' => if s.code == 43 || s.code == 45 then rest' else rest
          | [] => rest
        (true, digits false l2)
      else (true, l1)
    | [] => (true, l1)
  else
    -- integer part
    let (hex, l0) : Bool × Input :=
      match l with
      | z :: rest =>
        if z.code == 48 then
          match rest with
          | p :: rest' =>
            if lower p.code == 120 then (true, rest')
            else if lower p.code == 111 then (false, rest')
            else if lower p.code == 98 then (false, rest')
            else (false, rest)
          | [] => (false, rest)
        else (false, l)
      | [] => (false, l)
    let l1 := digits hex l0
    let (isF1, l2) : Bool × Input :=
      match l1 with
      | d :: rest => if d.code == 46 then (true, digits hex rest) else (false, l1)
      | [] => (false, l1)
    match l2 with
    | r :: rest =>
      if lower r.code == 101 || lower r.code == 112 then
        let l3 := match rest with
          | s :: rest' => if s.code == 43 || s.code == 45 then rest' else rest
          | [] => rest
        (true, digits false l3)
      else (isF1, l2)
    | [] => (isF1, l2)

/-- State of `scanString` while inside the literal. -/
inductive SState where
  | normal
  | afterBackslash
  | escDigits (n : Nat) (base : Nat)
deriving Repr

/-- `scanString(quote)` from the rune after the opening quote up to (not including) the
closing quote, or up to the newline / end of input that leaves it unterminated.  Returns
(terminated, rest) where `rest` starts at the closing quote / the newline / is empty. -/
def scanStringBody (quote : Nat) : SState → Input → Bool × Input
  | _, [] => (false, [])
  | .normal, r :: rest =>
    if r.code == quote then (true, r :: rest)
    else if r.code == 10 then (false, r :: rest)
    else if r.code == 92 then scanStringBody quote .afterBackslash rest
    else scanStringBody quote .normal rest
  | .afterBackslash, r :: rest =>
    -- scanEscape: the rune after the backslash
    let c := r.code
    if c == 97 || c == 98 || c == 102 || c == 110 || c == 114 || c == 116 || c == 118 || c == 92 || c == quote then
      scanStringBody quote .normal rest
    else if 48 ≤ c && c ≤ 55 then scanStringBody quote (.escDigits 2 8) rest  -- the first octal digit is this rune
    else if c == 120 then scanStringBody quote (.escDigits 2 16) rest
    else if c == 117 then scanStringBody quote (.escDigits 4 16) rest
    else if c == 85 then scanStringBody quote (.escDigits 8 16) rest
    else
      -- "invalid char escape": nothing consumed, the loop goes on with this rune
      if c == quote then (true, r :: rest)
      else if c == 10 then (false, r :: rest)
      else if c == 92 then scanStringBody quote .afterBackslash rest
      else scanStringBody quote .normal rest
  | .escDigits n base, r :: rest =>
    if n > 0 && digitVal r.code < base then scanStringBody quote (.escDigits (n - 1) base) rest
    else
      if r.code == quote then (true, r :: rest)
      else if r.code == 10 then (false, r :: rest)
      else if r.code == 92 then scanStringBody quote .afterBackslash rest
      else scanStringBody quote .normal rest

/-- `scanRawString` body: up to (not including) the closing back quote. -/
def scanRawBody : Input → Input
  | [] => []
  | r :: rest => if r.code == 96 then r :: rest else scanRawBody rest

def lineComment : Input → Input
  | [] => []
  | r :: rest => if r.code == 10 then r :: rest else lineComment rest

/-- general comment body; `prevStar` = the previous rune was '*'; `none` when the input ends inside
the comment ("comment not terminated") -/
def blockComment (prevStar : Bool) : Input → Option Input
  | [] => none
  | r :: rest =>
    if prevStar && r.code == 47 then some rest
    else blockComment (r.code == 42) rest

/-- Kinds of scanner tokens (`Scan`'s return value). -/
inductive Kind where
  | eof | ident | delimIdent | int | float | string | rawString
  | char (c : Nat)
  | openComment          -- the input ended inside a `/*` comment
deriving Repr, DecidableEq

def skipWs : Input → Input
  | [] => []
  | r :: rest => if isWs r.code then skipWs rest else r :: rest

/-- `Scanner.Scan`.  Returns the kind, the token's runes and the remaining input.
`fuel` bounds the `goto redo` after a skipped comment. -/
def scanTok : Nat → Input → Option (Kind × Input × Input)
  | 0, _ => none
  | fuel+1, l0 =>
    let l := skipWs l0
    let done (k : Kind) (rest : Input) : Option (Kind × Input × Input) :=
      some (k, l.take (l.length - rest.length), rest)
    match l with
    | [] => some (.eof, [], [])
    | r :: rest =>
      if isIdentRune r true then done .ident (scanIdentTail rest)
      else if isDecimal r.code then
        let (isF, rest') := scanNumber l false
        done (if isF then .float else .int) rest'
      else if r.code == 34 then
        let (_, rest') := scanStringBody 34 .normal rest
        done .delimIdent rest'.tail
      else if r.code == 39 then
        let (_, rest') := scanStringBody 39 .normal rest
        done .string rest'.tail
      else if r.code == 46 then
        match rest with
        | d :: _ =>
          if isDecimal d.code then
            let (_, rest') := scanNumber rest true
            done .float rest'
          else done (.char 46) rest
        | [] => done (.char 46) rest
      else if r.code == 47 then
        match rest with
        | c :: rest' =>
          if c.code == 47 then scanTok fuel (lineComment rest')
          else if c.code == 42 then
            match blockComment false rest' with
            | some rest'' => scanTok fuel rest''
            | none => some (.openComment, [], [])
          else done (.char 47) rest
        | [] => done (.char 47) rest
      else if r.code == 96 then
        done .rawString (scanRawBody rest).tail
      else done (.char r.code) rest

/-- A SQL token: the Go `TokenType` value and the text. -/
structure Token where
  ty   : Int
  text : Bytes
deriving Repr, DecidableEq

def textOf (rs : Input) : Bytes := rs.flatMap (·.bytes)

/-- the token text with its ASCII letters folded to upper case, as code points - what `keywordOf`
(sql/scanner.go) looks up: a word with a rune outside ASCII is no keyword, whatever Unicode case
mapping would make of it (`strings.ToUpper` maps the dotless i to I and the long s to S: before the
repair `lımıt` and `ſet` were keywords).  The `upper` field of a rune is no longer consulted. -/
def upperCodes (rs : Input) : List Nat := rs.map fun r => if 97 ≤ r.code ∧ r.code ≤ 122 then r.code - 32 else r.code

def strCodes (s : String) : List Nat := s.toList.map Char.toNat

/-- The `keywords` map built by `init()`: text of every token type strictly between
`reserved_word_start` and `reserved_word_end` that has an entry in `Tokens`. -/
def keywordOf (up : List Nat) : Option Int :=
  match tokenTable.find? (fun e => decide (t_reserved_word_start < e.2.1) && decide (e.2.1 < t_reserved_word_end)
      && e.2.2 != "" && strCodes e.2.2 == up) with
  | some e => some e.2.1
  | none => none

/-- Outcome of turning scanner tokens into SQL tokens. -/
inductive ScanRes where
  | ok (ts : List Token)
  | fuel
deriving Repr

/-- number of consecutive backslashes at the end of `b` -/
def trailingBackslashes (b : Bytes) : Nat := (b.reverse.takeWhile (· == 92)).length

/-- `unquote`: strip the quotes of a quoted token; `none` when the token is not terminated
by its opening quote (end of input / line came first, or the last quote is escaped). -/
def stripQuotes (b : Bytes) : Option Bytes :=
  if b.length < 2 then none
  else if b.getLast? != b.head? then none
  else
    let inner := (b.drop 1).take (b.length - 2)
    if trailingBackslashes inner % 2 == 1 then none else some inner

/-- The loop `for ts.Next() { tl.Add(ts.Cur()) }` of `parseSQL`. -/
def scanAll : Nat → Input → List Token → ScanRes
  | 0, _, _ => .fuel
  | fuel+1, l, acc =>
    match scanTok (fuel+1) l with
    | none => .fuel
    | some (.eof, _, _) => .ok acc.reverse
    -- a comment that is never closed swallowed the rest of the input: one ILLEGAL token in its place,
    -- so that the parser refuses the statement (like an unterminated literal)
    | some (.openComment, _, _) => .ok ((⟨t_ILLEGAL, [47, 42]⟩ :: acc).reverse)
    | some (.ident, rs, rest) =>
      let ty := match keywordOf (upperCodes rs) with | some k => k | none => t_IDENT
      scanAll fuel rest (⟨ty, textOf rs⟩ :: acc)
    | some (.int, rs, rest) => scanAll fuel rest (⟨t_INT, textOf rs⟩ :: acc)
    | some (.delimIdent, rs, rest) =>
      match stripQuotes (textOf rs) with
      | none => scanAll fuel rest (⟨t_ILLEGAL, textOf rs⟩ :: acc)
      | some t => scanAll fuel rest (⟨t_IDENT, t⟩ :: acc)
    | some (k, rs, rest) =>
      match keywordOf (upperCodes rs) with
      | some kw =>
        -- two-character operators: `ts.s.Peek() == '='` looks at the very next rune
        let nextIsEq := match rest with | r :: _ => r.code == 61 | [] => false
        if (kw == t_BANG || kw == t_GT || kw == t_LT) && nextIsEq then
          let ty := if kw == t_BANG then t_NEQ else if kw == t_GT then t_GTE else t_LTE
          -- `ts.Next()` scans (and drops) the '=' token
          match scanTok (fuel+1) rest with
          | none => .fuel
          | some (_, _, rest') => scanAll fuel rest' (⟨ty, textOf rs⟩ :: acc)
        else scanAll fuel rest (⟨kw, textOf rs⟩ :: acc)
      | none =>
        if k == .string then
          match stripQuotes (textOf rs) with
          | none => scanAll fuel rest (⟨t_ILLEGAL, textOf rs⟩ :: acc)
          | some t => scanAll fuel rest (⟨t_STR, t⟩ :: acc)
        else scanAll fuel rest (⟨t_STR, textOf rs⟩ :: acc)

/-- Drop a leading byte order mark (`Peek` on the very first character). -/
def dropBOM : Input → Input
  | r :: rest => if r.code == 0xFEFF then rest else r :: rest
  | [] => []

def scanSQL (l : Input) : ScanRes := scanAll (l.length + 2) (dropBOM l) []

end Mkdb.Scan
