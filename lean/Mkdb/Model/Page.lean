import Mkdb.Model.Bin
import Mkdb.Generated.Consts
/-!
Model of the page codec in storage/page.go: `encodeLeaf`, `encodeInternal`, `decodeLeaf`,
`decodeInternal` and the kind dispatch in `fileStore.fetch`.

A node is modelled by its *logical* content: the cells in offset-array order.  The engine
produces identity offset arrays `[0, 1, …, n-1]` (appends, splits that truncate the array,
decodes) as long as no cell is added to a node object that was split before and has not been
reloaded since: `btreeNode.split` truncates `offsets` only, the moved cells stay in `leafCells` /
`internalCells`, and the next `insertLeafCell` on that object takes `len(leafCells)` as the slot
(offsets `0,1,2,3,9`: the page no longer decodes), the next `appendInternalCell` takes
`len(offsets)` as the slot while the cell goes to the end of `internalCells` (the slot shows the
stale middle cell, the new separator is lost).  With ascending keys that does not happen - an
append goes to the rightmost leaf and its ancestors, which after a split are the NEW nodes - and
`Store.insertLeaf` gives `.unmodelled` for an append to a leaf with a right sibling instead of
predicting an identity array (Mkdb/Props/C11.lean, `C11_append_never_meets_a_split_node`).  The
heap dumps compared by the correspondence check include the array, so a node with any other
array would be seen.  Layout constants come from `Mkdb.Generated` (regenerated from the source
on every run).
-/
namespace Mkdb.Page
open Mkdb.Bin Mkdb.Generated

structure LeafCell where
  key     : Nat
  deleted : Bool
  val     : Bytes
deriving Repr, DecidableEq

structure ICell where
  key   : Nat
  child : Nat
deriving Repr, DecidableEq

structure Leaf where
  off  : Nat
  lsn  : Nat
  hasL : Bool
  hasR : Bool
  lSib : Nat
  rSib : Nat
  cells : List LeafCell
deriving Repr, DecidableEq

structure Internal where
  off   : Nat
  lsn   : Nat
  right : Nat
  cells : List ICell
deriving Repr, DecidableEq

inductive Node where
  | leaf (l : Leaf)
  | internal (n : Internal)
deriving Repr, DecidableEq

/-- Result of an encode: bytes, or the explicit `panic("page size is not …")`. -/
inductive Enc where
  | ok (b : Bytes)
  | panic
deriving Repr, DecidableEq

def encLeafCell (c : LeafCell) : Bytes :=
  encU32 c.key ++ encBool c.deleted ++ encU32 c.val.length ++ c.val

def encICell (c : ICell) : Bytes := encU32 c.key ++ encU64 c.child

def encOffsets (n : Nat) : Bytes := (List.range n).flatMap encU16

def leafHeader (l : Leaf) : Bytes :=
  encU8 c_LeafNode ++ encU64 l.off ++ encU64 l.lsn ++ encBool l.hasL ++ encBool l.hasR ++
  encU64 l.lSib ++ encU64 l.rSib ++ encU32 l.cells.length ++ encOffsets l.cells.length

def internalHeader (n : Internal) : Bytes :=
  encU8 c_InternalNode ++ encU64 n.off ++ encU64 n.lsn ++ encU64 n.right ++
  encU32 n.cells.length ++ encOffsets n.cells.length

/-- `freeSize := uint16(pageSize - buf.Len() - bufFooter.Len() - 2)`, the gap, the footer,
and the final length check. -/
def finishPage (hdr footer : Bytes) : Enc :=
  let free : Int := (c_pageSize : Int) - hdr.length - footer.length - 2
  let free16 := (free % 65536).toNat
  let page := hdr ++ encU16 free16 ++ List.replicate free16 0 ++ footer
  if page.length = c_pageSize then .ok page else .panic

def encodeLeaf (l : Leaf) : Enc := finishPage (leafHeader l) (l.cells.flatMap encLeafCell)
def encodeInternal (n : Internal) : Enc := finishPage (internalHeader n) (n.cells.flatMap encICell)

def encode : Node → Enc
  | .leaf l => encodeLeaf l
  | .internal n => encodeInternal n

/-- Result of a decode: a node, an error value, or a runtime panic (index out of range,
"invalid node type value"). -/
inductive Dec where
  | ok (n : Node) (offs : List Nat)   -- the node and the offset array as read
  | err
  | panic
deriving Repr, DecidableEq

def decOffsets : Nat → Bytes → Option (List Nat × Bytes)
  | 0, bs => some ([], bs)
  | n+1, bs =>
    match decU16 bs with
    | none => none
    | some (o, bs') =>
      match decOffsets n bs' with
      | none => none
      | some (os, rest) => some (o :: os, rest)

def decLeafCell (bs : Bytes) : Option (LeafCell × Bytes) :=
  match decU32 bs with
  | none => none
  | some (key, b1) =>
  match decBool b1 with
  | none => none
  | some (del, b2) =>
  match decU32 b2 with
  | none => none
  | some (sz, b3) =>
  match readN sz b3 with
  | none => none
  | some (v, b4) => some (⟨key, del, v⟩, b4)

def decLeafCells : Nat → Bytes → Option (List LeafCell × Bytes)
  | 0, bs => some ([], bs)
  | n+1, bs =>
    match decLeafCell bs with
    | none => none
    | some (c, bs') =>
      match decLeafCells n bs' with
      | none => none
      | some (cs, rest) => some (c :: cs, rest)

def decICell (bs : Bytes) : Option (ICell × Bytes) :=
  match decU32 bs with
  | none => none
  | some (key, b1) =>
  match decU64 b1 with
  | none => none
  | some (ch, b2) => some (⟨key, ch⟩, b2)

def decICells : Nat → Bytes → Option (List ICell × Bytes)
  | 0, bs => some ([], bs)
  | n+1, bs =>
    match decICell bs with
    | none => none
    | some (c, bs') =>
      match decICells n bs' with
      | none => none
      | some (cs, rest) => some (c :: cs, rest)

/-- how many cells decode from the front of the buffer (at most `n`) -/
def countLeafCells : Nat → Bytes → Nat
  | 0, _ => 0
  | n+1, bs => match decLeafCell bs with
    | none => 0
    | some (_, bs') => 1 + countLeafCells n bs'

def countICells : Nat → Bytes → Nat
  | 0, _ => 0
  | n+1, bs => match decICell bs with
    | none => 0
    | some (_, bs') => 1 + countICells n bs'

/-- The decoders store each cell as soon as it is read (`cells[offsets[i]] = cell`): when the cells
run out before `count` of them were read, an offset beyond the slice among the cells already read
has panicked first; otherwise the read error is returned. -/
def shortCells (offs : List Nat) (count decoded : Nat) : Dec :=
  if (offs.take decoded).any (fun o => decide (count ≤ o)) then .panic else .err

/-- `cells[offsets[i]] = cell_i` followed by reading the cells back in offset order.
`none` = index out of range.  For the identity array this is the cell list itself. -/
def place {α : Type} (offs : List Nat) (cs : List α) : Option (List α) :=
  if offs = List.range cs.length then some cs
  else if offs.any (fun o => decide (cs.length ≤ o)) then none
  else
    -- logical cell i is the last cell written to slot offs[i]
    some ((List.range offs.length).filterMap fun i =>
      match offs[i]? with
      | none => none
      | some o =>
        match ((List.range offs.length).reverse.find? fun j => offs[j]? == some o) with
        | some j => cs[j]?
        | none => none)

def decodeLeaf (bs : Bytes) : Dec :=
  match decU8 bs with
  | none => .err
  | some (kind, b0) =>
  if kind ≠ c_LeafNode then .err else
  match decU64 b0 with
  | none => .err
  | some (off, b1) =>
  match decU64 b1 with
  | none => .err
  | some (lsn, b2) =>
  match decBool b2 with
  | none => .err
  | some (hasL, b3) =>
  match decBool b3 with
  | none => .err
  | some (hasR, b4) =>
  match decU64 b4 with
  | none => .err
  | some (lSib, b5) =>
  match decU64 b5 with
  | none => .err
  | some (rSib, b6) =>
  match decU32 b6 with
  | none => .err
  | some (count, b7) =>
  match decOffsets count b7 with
  | none => .err
  | some (offs, b8) =>
  match decU16 b8 with
  | none => .err
  | some (free, b9) =>
  match decLeafCells count (skipN free b9) with
  | none => shortCells offs count (countLeafCells count (skipN free b9))
  | some (cs, _) =>
  match place offs cs with
  | none => .panic
  | some cells => .ok (.leaf ⟨off, lsn, hasL, hasR, lSib, rSib, cells⟩) offs

def decodeInternal (bs : Bytes) : Dec :=
  match decU8 bs with
  | none => .err
  | some (kind, b0) =>
  if kind ≠ c_InternalNode then .err else
  match decU64 b0 with
  | none => .err
  | some (off, b1) =>
  match decU64 b1 with
  | none => .err
  | some (lsn, b2) =>
  match decU64 b2 with
  | none => .err
  | some (right, b3) =>
  match decU32 b3 with
  | none => .err
  | some (count, b4) =>
  match decOffsets count b4 with
  | none => .err
  | some (offs, b5) =>
  match decU16 b5 with
  | none => .err
  | some (free, b6) =>
  match decICells count (skipN free b6) with
  | none => shortCells offs count (countICells count (skipN free b6))
  | some (cs, _) =>
  match place offs cs with
  | none => .panic
  | some cells => .ok (.internal ⟨off, lsn, right, cells⟩) offs

/-- `fileStore.fetch`: the first byte selects the decoder. -/
def decodePage (bs : Bytes) : Dec :=
  match bs with
  | [] => .panic
  | b :: _ =>
    if b.toNat = c_InternalNode then decodeInternal bs
    else if b.toNat = c_LeafNode then decodeLeaf bs
    else .panic

/-- Well-formedness: what the engine can produce (capacity, value size, field widths). -/
def WFLeafCell (c : LeafCell) : Prop := c.key < 2 ^ 32 ∧ c.val.length ≤ c_maxValueSize

def WFLeaf (l : Leaf) : Prop :=
  l.off < 2 ^ 64 ∧ l.lsn < 2 ^ 64 ∧ l.lSib < 2 ^ 64 ∧ l.rSib < 2 ^ 64 ∧
  l.cells.length ≤ c_maxLeafNodeCells ∧ ∀ c ∈ l.cells, WFLeafCell c

def WFICell (c : ICell) : Prop := c.key < 2 ^ 32 ∧ c.child < 2 ^ 64

def WFInternal (n : Internal) : Prop :=
  n.off < 2 ^ 64 ∧ n.lsn < 2 ^ 64 ∧ n.right < 2 ^ 64 ∧
  n.cells.length ≤ c_maxInternalNodeCells ∧ ∀ c ∈ n.cells, WFICell c

def WF : Node → Prop
  | .leaf l => WFLeaf l
  | .internal n => WFInternal n

end Mkdb.Page
