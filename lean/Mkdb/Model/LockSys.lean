import Mkdb.Generated.Locks
/-!
Model of the whole synchronisation discipline around one open database (property C13 and the
start-up / shutdown glue around it): the goroutine that opens the store and runs statements
(`storage.OpenRelation`, `engine.Evaluate*`, `RelationService.CreateTable`), the page flusher
goroutine (`fileStore.startFlusher`, `flushPages`) and the goroutine that closes the session
(`Session.Close` from the signal handler: `RelationService.Close`).

`Model/Lock.lean` is the two-thread core (DML statement against timer tick).  This model adds what
the second campaign found outside that core: the flusher running before the header was read, the
flusher left behind by a failed open, `Close` closing the log beside a running statement, `Close`
or a tick between the two halves of CREATE TABLE.

The discipline is a parameter (`Cfg`): each field is one fact the extractor re-derives from the Go
source on every run (`Generated.lockCfg`).  With every field `true` no schedule reaches a bad event
(`Proofs/LockSys.lean`); with any single field `false` some schedule does (the counterexamples in
`Props/C13.lean`), so each extracted fact is needed.
-/
namespace Mkdb.LockSys

/-- the synchronisation discipline of the code, as extracted facts -/
structure Cfg where
  bracketed          : Bool   -- every DML/SELECT evaluator opens with StartTxn (shared lock); defer EndTxn
  logInside          : Bool   -- the log append happens before EndTxn
  createLocked       : Bool   -- CREATE TABLE: catalog change and its flush are ONE exclusive section
  flushExclusive     : Bool   -- flushPages holds the exclusive lock for its whole body; nothing else writes the file
  closeLogInsideLock : Bool   -- Close closes the log only after it holds the exclusive lock
  flusherAfterHeader : Bool   -- the flusher goroutine is started as the last step of open(), after the header reads
  failedOpenStops    : Bool   -- an OpenRelation that fails after open() stops the flusher it started
deriving Repr, DecidableEq

def Cfg.good (c : Cfg) : Bool :=
  c.bracketed && c.logInside && c.createLocked && c.flushExclusive && c.closeLogInsideLock &&
  c.flusherAfterHeader && c.failedOpenStops

/-- the goroutine that opens the database and then runs statements -/
inductive SPc where
  | closed          -- no store (before OpenRelation, or after an open that failed)
  | fileOpen        -- newFileStore returned: file open, header fields still zero
  | headerRead      -- open() has read the header (and, in the repaired code, started the flusher)
  | idle            -- OpenRelation returned; between statements
  | locked          -- DML: StartTxn done, nothing changed yet
  | changed         -- DML: first page change made
  | unlockedEarly   -- DML (only if the log append is outside the bracket): lock released, log append pending
  | logged          -- DML: log append complete, EndTxn pending
  | cLocked         -- CREATE TABLE: exclusive lock held, nothing changed yet
  | cChanged        -- CREATE TABLE: catalog changed, flush pending (lock held)
  | cBetween        -- CREATE TABLE (only if it is two sections): changed, lock released, flush pending
  | cFlushing       -- CREATE TABLE: its own flush is writing pages (lock held)
deriving Repr, DecidableEq

inductive FPc where
  | none            -- no flusher goroutine
  | waiting         -- in its select (or blocked in Lock: no effect on shared state)
  | holding         -- inside flushPages (exclusive lock held if `flushExclusive`)
  | stopped         -- told to stop: gone
deriving Repr, DecidableEq

inductive KPc where
  | none            -- Close not called
  | stopped         -- stopFlusher done
  | holding         -- exclusive lock held
  | done            -- pages flushed, files closed, lock released
deriving Repr, DecidableEq

/-- what must never happen -/
inductive Bad where
  | writeInsideStatement     -- a page/header write by another goroutine while a statement is between its lock and its release
  | writeDuringCreate        -- ... while CREATE TABLE is between its change and the end of its own flush
  | appendOnClosedLog        -- a statement reaches its log append after Close closed the log
  | writeBeforeHeaderRead    -- the flusher writes (the header!) before open() has read it
  | flusherLeftBehind        -- a flusher goroutine outlives its store (failed open)
  | changeDuringFlush        -- a statement changes pages while a flush is walking the cache
deriving Repr, DecidableEq

structure St where
  readers : Nat := 0
  writer  : Bool := false
  sess    : SPc := .closed
  flush   : FPc := .none
  closer  : KPc := .none
  walOpen : Bool := true
  bad     : Option Bad := none
deriving Repr, DecidableEq

inductive Act where
  -- opening
  | oNew | oRead | oOk | oFail
  -- a DML / SELECT statement
  | sBegin | sChange | sLog | sEnd
  -- CREATE TABLE
  | cBegin | cChange | cRelease | cRelock | cWrite | cEnd
  -- the flusher
  | fBegin | fWrite | fEnd
  -- Close
  | kStop | kCloseLog | kLock | kWrite | kEnd
deriving Repr, DecidableEq

def inDml : SPc → Bool
  | .locked | .changed | .logged => true
  | _ => false

def inCreate : SPc → Bool
  | .cChanged | .cBetween => true
  | _ => false

def flag (s : St) (b : Bad) : St := { s with bad := match s.bad with | none => some b | some x => some x }

/-- a page or header write by the flusher or by Close -/
def otherWrites (s : St) : St :=
  if s.sess == .fileOpen then flag s .writeBeforeHeaderRead
  else if inDml s.sess || s.sess == .unlockedEarly then flag s .writeInsideStatement
  else if inCreate s.sess then flag s .writeDuringCreate
  else s

def lockFree (s : St) : Bool := !s.writer && s.readers == 0

/-- one step; `none` = not enabled (the goroutine is elsewhere, or blocks) -/
def step (c : Cfg) (s : St) : Act → Option St
  -- OpenRelation: newFileStore; open() = header reads (+ flusher start); newWal ok / fails
  | .oNew =>
    if s.sess == .closed && s.flush == .none && s.closer == .none then
      some { s with sess := .fileOpen, flush := if c.flusherAfterHeader then .none else .waiting }
    else none
  | .oRead =>
    if s.sess == .fileOpen then
      some { s with sess := .headerRead, flush := if c.flusherAfterHeader then .waiting else s.flush }
    else none
  | .oOk => if s.sess == .headerRead then some { s with sess := .idle } else none
  | .oFail =>
    if s.sess == .headerRead && s.flush != .holding then
      if c.failedOpenStops then some { s with sess := .closed, flush := .stopped }
      else some (flag { s with sess := .closed } .flusherLeftBehind)
    else none
  -- DML
  | .sBegin =>
    if s.sess == .idle && s.closer != .done then
      if c.bracketed then (if s.writer then none else some { s with sess := .locked, readers := s.readers + 1 })
      else some { s with sess := .locked }
    else none
  | .sChange =>
    if s.sess == .locked || s.sess == .changed then
      let s' := { s with sess := .changed }
      some (if s.flush == .holding || s.closer == .holding then flag s' .changeDuringFlush else s')
    else none
  | .sLog =>
    if (c.logInside && (s.sess == .locked || s.sess == .changed)) || (!c.logInside && s.sess == .unlockedEarly) then
      let s' := { s with sess := if c.logInside then .logged else .idle }
      some (if s.walOpen then s' else flag s' .appendOnClosedLog)
    else none
  | .sEnd =>
    -- EndTxn: after the log append; straight from `locked`/`changed` when the statement is refused
    -- (or, if the append is outside the bracket, before it)
    if s.sess == .logged || s.sess == .locked || s.sess == .changed then
      let early := !c.logInside && s.sess == .changed
      some { s with sess := if early then .unlockedEarly else .idle,
                    readers := if c.bracketed then s.readers - 1 else s.readers }
    else none
  -- CREATE TABLE
  | .cBegin =>
    if s.sess == .idle && s.closer != .done && lockFree s then some { s with sess := .cLocked, writer := true } else none
  | .cChange => if s.sess == .cLocked then some { s with sess := .cChanged } else none
  | .cRelease => if !c.createLocked && s.sess == .cChanged then some { s with sess := .cBetween, writer := false } else none
  | .cRelock => if s.sess == .cBetween && lockFree s then some { s with sess := .cFlushing, writer := true } else none
  | .cWrite =>
    if (c.createLocked && s.sess == .cChanged) || s.sess == .cFlushing then some { s with sess := .cFlushing } else none
  | .cEnd =>
    -- the flush is done (or the statement was refused before it changed anything)
    if s.sess == .cFlushing || s.sess == .cLocked then some { s with sess := .idle, writer := false } else none
  -- the flusher: tick, Lock, writes, Unlock
  | .fBegin =>
    if s.flush == .waiting then
      if c.flushExclusive then (if lockFree s then some { s with flush := .holding, writer := true } else none)
      else some { s with flush := .holding }
    else none
  | .fWrite => if s.flush == .holding then some (otherWrites s) else none
  | .fEnd =>
    if s.flush == .holding then some { s with flush := .waiting, writer := if c.flushExclusive then false else s.writer }
    else none
  -- Close: stopFlusher (waits for a flush in progress); [log]; Lock; log; flush; Unlock
  | .kStop =>
    if s.closer == .none && (s.sess != .closed && s.sess != .fileOpen && s.sess != .headerRead) && s.flush != .holding then
      some { s with closer := .stopped, flush := if s.flush == .none then .none else .stopped }
    else none
  | .kCloseLog =>
    if (c.closeLogInsideLock && s.closer == .holding) || (!c.closeLogInsideLock && s.closer == .stopped) then
      some { s with walOpen := false }
    else none
  | .kLock => if s.closer == .stopped && lockFree s then some { s with closer := .holding, writer := true } else none
  | .kWrite => if s.closer == .holding then some (otherWrites s) else none
  | .kEnd => if s.closer == .holding && !s.walOpen then some { s with closer := .done, writer := false } else none

/-- run a schedule, skipping actions that are not enabled -/
def run (c : Cfg) (s : St) (acts : List Act) : St := acts.foldl (fun s a => (step c s a).getD s) s

/-- the discipline the extractor finds in the current source -/
def sourceCfg : Cfg :=
  { bracketed := Generated.lockBrackets.all (·.2) && Generated.lockTxnIsSharedLock,
    logInside := Generated.lockLogAppendInsideBracket,
    createLocked := Generated.lockCreateTableLocked,
    flushExclusive := Generated.lockFlushExclusive && Generated.lockPageWritesOnlyInFlush,
    closeLogInsideLock := Generated.lockCloseLogInsideLock,
    flusherAfterHeader := Generated.lockFlusherAfterHeaderRead && Generated.lockFlusherOnlyAfterOpen,
    failedOpenStops := Generated.lockFailedOpenStopsFlusher }

end Mkdb.LockSys
