/-!
# `btreeNode.findCellOffsetByKey` - the loop itself (storage/page.go)

```go
low := 0
high := len(n.offsets) - 1
for low <= high {
    mid := low + (high-low)/2
    midVal := n.cellKey(n.offsets[mid])
    switch {
    case midVal == key: return mid, true
    case midVal < key:  low = mid + 1
    default:            high = mid - 1
    }
}
return low, false
```

`low`, `high`, `mid` are Go `int`s (`high` is -1 on an empty node), modelled as `Int`; `keys` is the
key of every cell in slot order (`n.cellKey(n.offsets[i])`).  Indexing outside the slot array is a
Go panic: the outcome `.panic`.  The heap model (`Mkdb.Store.findPos`) states the RESULT of this
search on ascending keys; `Mkdb/Proofs/BSearch.lean` proves the loop computes it.  Core only.
-/
namespace Mkdb.BSearch

inductive Res where
  | ret (pos : Nat) (found : Bool)
  | panic
deriving DecidableEq, Repr

def loop (keys : List Nat) (k : Nat) (low high : Int) : Res :=
  if low ≤ high then
    let mid := low + (high - low) / 2
    if mid < 0 then .panic else
    match keys[mid.toNat]? with
    | none => .panic
    | some v =>
      if v = k then .ret mid.toNat true
      else if v < k then loop keys k (mid + 1) high
      else loop keys k low (mid - 1)
  else if low < 0 then .panic else .ret low.toNat false
termination_by (high - low + 1).toNat
decreasing_by all_goals omega

/-- `findCellOffsetByKey(key)` on a node whose cells carry `keys` in slot order -/
def search (keys : List Nat) (k : Nat) : Res := loop keys k 0 ((keys.length : Int) - 1)

/-- what the heap model assumes of it (`Mkdb.Store.findPos`, repeated here to stay import-free):
the number of keys below `k`, and whether the key at that position is `k` -/
def spec (keys : List Nat) (k : Nat) : Nat × Bool :=
  let pos := (keys.takeWhile fun x => x < k).length
  (pos, keys[pos]? == some k)

end Mkdb.BSearch
