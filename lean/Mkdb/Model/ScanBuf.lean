/-!
Model of the buffered reading of the SQL scanner: `Scanner.next` of sql/go_scanner.go
(a copy of Go's text/scanner), together with `utf8.FullRune` / `utf8.DecodeRune` and the
`io.Reader` it reads from.

The Go scanner keeps `srcBuf [bufLen+1]byte`, `srcPos`, `srcEnd`, the sentinel byte
`utf8.RuneSelf` at `srcBuf[srcEnd]`, and for the token text `tokBuf`, `tokPos`, `tokEnd`,
`lastCharLen`.  The model keeps the *contents* that these indices delimit:

* `win`     = `srcBuf[srcPos:srcEnd]`       (the unread bytes in the buffer)
* `tok`     = `srcBuf[tokPos:srcPos]` if `tokPos >= 0`, `none` if `tokPos < 0`
* `last`    = `srcBuf[srcPos-lastCharLen:srcPos]` (the bytes of the character read last)
* `tokBuf`  = the content of `tokBuf`
* the reader: the bytes it has not delivered yet (`rest`), and an adversary (`sched`, indexed
  by the number of `Read` calls made so far) that chooses how many bytes each `Read` returns
  and whether the `Read` that delivers the last bytes reports `io.EOF` at once.
-/
namespace Mkdb.ScanBuf

abbrev Bytes := List UInt8

def runeSelf : Nat := 0x80
def runeError : Nat := 0xFFFD
def utfMax : Nat := 4
def bufLen : Nat := 1024

/-! ## unicode/utf8 -/

/-- What `first[p0]` of unicode/utf8 says about a lead byte: ASCII (`as`), invalid (`xx`), or a
sequence of 2 / 3 / 4 bytes whose second byte must lie in `lo..hi` (`acceptRanges[x>>4]`). -/
inductive Lead where
  | ascii
  | invalid
  | two (lo hi : Nat)
  | three (lo hi : Nat)
  | four (lo hi : Nat)
deriving Repr, DecidableEq

/-- The table `first` of unicode/utf8, by ranges. -/
def lead (b : UInt8) : Lead :=
  let n := b.toNat
  if n < 0x80 then .ascii               -- as
  else if n < 0xC2 then .invalid        -- xx (continuation bytes, C0, C1)
  else if n < 0xE0 then .two 0x80 0xBF  -- s1
  else if n = 0xE0 then .three 0xA0 0xBF  -- s2
  else if n < 0xED then .three 0x80 0xBF  -- s3
  else if n = 0xED then .three 0x80 0x9F  -- s4 (no surrogates)
  else if n < 0xF0 then .three 0x80 0xBF  -- s3
  else if n = 0xF0 then .four 0x90 0xBF   -- s5
  else if n < 0xF4 then .four 0x80 0xBF   -- s6
  else if n = 0xF4 then .four 0x80 0x8F   -- s7
  else .invalid                           -- xx

/-- `lo <= b && b <= hi` -/
def inR (lo hi : Nat) (b : UInt8) : Bool := lo ≤ b.toNat && b.toNat ≤ hi
/-- `locb <= b && b <= hicb` -/
def cont (b : UInt8) : Bool := inR 0x80 0xBF b

def val2 (b0 b1 : UInt8) : Nat := ((b0.toNat &&& 0x1F) <<< 6) ||| (b1.toNat &&& 0x3F)
def val3 (b0 b1 b2 : UInt8) : Nat :=
  ((b0.toNat &&& 0x0F) <<< 12) ||| ((b1.toNat &&& 0x3F) <<< 6) ||| (b2.toNat &&& 0x3F)
def val4 (b0 b1 b2 b3 : UInt8) : Nat :=
  ((b0.toNat &&& 0x07) <<< 18) ||| ((b1.toNat &&& 0x3F) <<< 12) ||| ((b2.toNat &&& 0x3F) <<< 6)
    ||| (b3.toNat &&& 0x3F)

/-- `utf8.DecodeRune`: (rune, width).  `(RuneError, 0)` for no bytes, `(RuneError, 1)` for an
invalid or incomplete encoding. -/
def decodeRune : Bytes → Nat × Nat
  | [] => (runeError, 0)
  | b0 :: t =>
    match lead b0 with
    | .ascii => (b0.toNat, 1)
    | .invalid => (runeError, 1)
    | .two lo hi =>
      match t with
      | b1 :: _ => if inR lo hi b1 then (val2 b0 b1, 2) else (runeError, 1)
      | _ => (runeError, 1)
    | .three lo hi =>
      match t with
      | b1 :: b2 :: _ =>
        if !inR lo hi b1 then (runeError, 1)
        else if !cont b2 then (runeError, 1)
        else (val3 b0 b1 b2, 3)
      | _ => (runeError, 1)
    | .four lo hi =>
      match t with
      | b1 :: b2 :: b3 :: _ =>
        if !inR lo hi b1 then (runeError, 1)
        else if !cont b2 then (runeError, 1)
        else if !cont b3 then (runeError, 1)
        else (val4 b0 b1 b2 b3, 4)
      | _ => (runeError, 1)

/-- `utf8.FullRune`: do the bytes begin with a complete encoding of a rune?  An invalid
encoding counts as a full rune (it will decode as an error rune of width 1). -/
def fullRune : Bytes → Bool
  | [] => false
  | b0 :: t =>
    match lead b0 with
    | .ascii => true
    | .invalid => true
    | .two _ _ =>
      match t with
      | [] => false
      | _ :: _ => true
    | .three lo hi =>
      match t with
      | [] => false
      | [b1] => !inR lo hi b1
      | _ :: _ :: _ => true
    | .four lo hi =>
      match t with
      | [] => false
      | [b1] => !inR lo hi b1
      | [b1, b2] => !inR lo hi b1 || !cont b2
      | _ :: _ :: _ :: _ => true

/-! ## the reader and the scanner state -/

/-- What the adversary decides for one `Read` call: how many bytes it would like to return
(`n`; clipped to at least 1, to the free space and to what is left), and whether a `Read` that
returns the last bytes of the input reports `io.EOF` together with them (`eofWithData`; both
behaviours are allowed for an `io.Reader`). -/
structure Choice where
  n : Nat
  eofWithData : Bool
deriving Repr

structure St where
  win    : Bytes                 -- srcBuf[srcPos:srcEnd]
  tokBuf : Bytes                 -- tokBuf
  tok    : Option Bytes          -- srcBuf[tokPos:srcPos] if tokPos >= 0
  last   : Bytes                 -- srcBuf[srcPos-lastCharLen:srcPos]
  rest   : Bytes                 -- what the reader has not delivered yet
  sched  : Nat → Choice          -- the adversary
  reads  : Nat                   -- number of Read calls so far

/-- `Scanner.Init(src)`: empty buffer (sentinel at 0), `tokPos = -1`, `lastCharLen = 0`. -/
def init (input : Bytes) (sched : Nat → Choice) : St :=
  { win := [], tokBuf := [], tok := none, last := [], rest := input, sched := sched, reads := 0 }

/-- The source bytes that `next` has not consumed yet. -/
def pending (st : St) : Bytes := st.win ++ st.rest

/-- `s.srcBuf[s.srcPos]`, which is the sentinel when `srcPos == srcEnd`. -/
def headOrSentinel : Bytes → Nat
  | [] => runeSelf
  | b :: _ => b.toNat

/-- How many bytes one `Read(srcBuf[i:bufLen])` returns when `left > 0` bytes remain. -/
def readCount (c : Choice) (i left : Nat) : Nat := min (max c.n 1) (min (bufLen - i) left)

/-- "save away token text if any": `tokBuf.Write(srcBuf[tokPos:srcPos]); tokPos = 0`
(after the move to the front of the buffer `srcPos` is 0 too). -/
def saveTok (st : St) : St :=
  match st.tok with
  | some t => { st with tokBuf := st.tokBuf ++ t, tok := some [] }
  | none => st

set_option linter.unusedVariables false in
/-- The loop `for s.srcPos+utf8.UTFMax > s.srcEnd && !utf8.FullRune(s.srcBuf[s.srcPos:s.srcEnd])`
of `next`.  Result: `true` = the function returned `EOF` from inside the loop.
Terminates because every `Read` delivers at least one byte or ends the loop. -/
def refill (st : St) : Bool × St :=
  if h : st.win.length < utfMax ∧ fullRune st.win = false then
    let st1 := saveTok st
    if hr : st.rest = [] then
      -- n = 0, err = io.EOF
      if st.win = [] then (true, { st1 with last := [], reads := st.reads + 1 })
      else (false, { st1 with reads := st.reads + 1 })
    else
      let c := st.sched st.reads
      let n := readCount c st.win.length st.rest.length
      let st2 : St := { st1 with win := st.win ++ st.rest.take n, rest := st.rest.drop n,
                                 reads := st.reads + 1 }
      if st2.rest = [] ∧ c.eofWithData = true then (false, st2)   -- n > 0, err = io.EOF: break
      else refill st2
  else (false, st)
termination_by st.rest.length
decreasing_by
  have h1 : 0 < st.rest.length := List.length_pos_iff.mpr hr
  have h2 : st.win.length < utfMax := h.1
  simp only [List.length_drop, readCount, utfMax, bufLen] at h2 ⊢
  omega

/-- `s.srcPos += width; s.lastCharLen = width` -/
def advance (st : St) (w : Nat) : St :=
  { st with win := st.win.drop w, tok := st.tok.map (· ++ st.win.take w), last := st.win.take w }

/-- `Scanner.next`: (rune or `none` for EOF, width, new state). -/
def next (st : St) : Option Nat × Nat × St :=
  if runeSelf ≤ headOrSentinel st.win then
    -- uncommon case: not ASCII or not enough bytes
    match refill st with
    | (true, st1) => (none, 0, st1)
    | (false, st1) =>
      -- at least one byte
      let ch := headOrSentinel st1.win
      if runeSelf ≤ ch then
        let d := decodeRune st1.win
        -- (RuneError, 1) takes the early return in Go; it advances in the same way
        (some d.1, d.2, advance st1 d.2)
      else (some ch, 1, advance st1 1)
  else (some (headOrSentinel st.win), 1, advance st 1)

/-- the state after `k` calls of `next` -/
def nexts : Nat → St → St
  | 0, st => st
  | k + 1, st => nexts k (next st).2.2

/-- `Scan`: "start collecting token text": `tokBuf.Reset(); tokPos = srcPos - lastCharLen`. -/
def startToken (st : St) : St := { st with tokBuf := [], tok := some st.last }

/-- `Next()` and the comment skipping of `Scan`: `tokPos = -1`. -/
def dropToken (st : St) : St := { st with tok := none }

/-- `Scan`: `tokEnd = srcPos - lastCharLen`, followed by `TokenText()`:
`""` if `tokPos < 0`, else `tokBuf ++ srcBuf[tokPos:max tokPos tokEnd]`. -/
def tokenText (st : St) : Bytes :=
  match st.tok with
  | none => []
  | some t => st.tokBuf ++ t.take (t.length - st.last.length)

/-- Call `next` until it returns EOF; the (rune, width) pairs in order.  `fuel` bounds the
number of calls; `nextAll` supplies one more than the number of unread bytes, and
`Proofs/ScanBuf` shows that the run ends with EOF before the fuel does. -/
def nextAllFuel : Nat → St → List (Nat × Nat)
  | 0, _ => []
  | fuel + 1, st =>
    match next st with
    | (none, _, _) => []
    | (some r, w, st') => (r, w) :: nextAllFuel fuel st'

def nextAll (st : St) : List (Nat × Nat) := nextAllFuel ((pending st).length + 1) st

/-! ## reading without a buffer -/

theorem decodeRune_width_pos (b : UInt8) (t : Bytes) : 1 ≤ (decodeRune (b :: t)).2 := by
  simp only [decodeRune]
  repeat' split
  all_goals simp

/-- Decode the whole input directly: `DecodeRune` on what is left, again and again. -/
def decodeAll (bs : Bytes) : List (Nat × Nat) :=
  match bs with
  | [] => []
  | b :: t => decodeRune (b :: t) :: decodeAll ((b :: t).drop (decodeRune (b :: t)).2)
termination_by bs.length
decreasing_by
  have := decodeRune_width_pos b t
  simp only [List.length_drop, List.length_cons]
  omega

end Mkdb.ScanBuf
