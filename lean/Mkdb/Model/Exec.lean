import Mkdb.Model.Parse
import Mkdb.Model.Tuple
/-!
Model of engine/select.go: `EvaluateSelect` (nested-loop join, filter, project, aggregate,
sort, offset, limit), the expression evaluator and the column lookups of
storage/relation.go (`Fields.LookupFieldIdx`, `LookupColIdxByID`).
Unchecked type assertions and index expressions of the Go code are explicit `.panic`
outcomes.  `sort.Slice` is modelled as a stable insertion sort (trusted base: it returns
*some* permutation sorted w.r.t. the comparator; comparisons with the implementation are
made insensitive to the order of ties).
-/
namespace Mkdb.Exec
open Mkdb.Sql Mkdb.Tuple

abbrev Val := Mkdb.Tuple.Val

structure Field where
  tableId : Bytes
  column  : Bytes
deriving Repr, DecidableEq

abbrev Row := List Val

structure Table where
  cols : List Bytes
  rows : List Row
deriving Repr

inductive EErr where
  | tableNotExist | fieldNotFound | fieldAmbiguous | incompat | nothingToCompare | nothingToEvaluate
  | nonBoolJoin | sortFieldNotFound | avgNonInteger | groupByNotSelected
deriving Repr, DecidableEq

inductive X (α : Type) where
  | ok (a : α)
  | err (e : EErr)
  | panic (site : String)
deriving Repr

instance : Monad X where
  pure := .ok
  bind m f := match m with
    | .ok a => f a
    | .err e => .err e
    | .panic s => .panic s

/-- `Fields.LookupFieldIdx`: unqualified name; a second match is `ErrFieldAmbiguous`. -/
def lookupFieldIdx (fields : List Field) (name : Bytes) : X Nat :=
  match (List.range fields.length).filter (fun i => (fields[i]?.map (·.column)) == some name) with
  | [] => .err .fieldNotFound
  | [i] => .ok i
  | _ => .err .fieldAmbiguous

/-- `Fields.LookupColIdxByID`: first field with that table id and name. -/
def lookupColIdxByID (fields : List Field) (tid name : Bytes) : X Nat :=
  match (List.range fields.length).find? (fun i => fields[i]? == some ⟨tid, name⟩) with
  | some i => .ok i
  | none => .err .fieldNotFound

/-- `findColumnInFieldList` -/
def findColumn (c : ColRef) (fields : List Field) : X Nat :=
  if c.qual.isEmpty then lookupFieldIdx fields c.name else lookupColIdxByID fields c.qual c.name

def litVal : Lit → Val
  | .int i => .int i
  | .str s => .str s
  | .bool b => .bool b

/-- `evalPrimary` -/
def evalPrimary (v : VExpr) (fields : List Field) (row : Row) : X Val :=
  match v with
  | .lit l => .ok (litVal l)
  | .col c => do
    let idx ← findColumn c fields
    match row[idx]? with
    | some x => pure x
    | none => .panic "evalPrimary: row.Vals[idx]"

def strLt (a b : Bytes) : Bool := decide (a.map (·.toNat) < b.map (·.toNat))

/-- `evalComparisonPredicate` -/
def evalPred (p : Pred) (fields : List Field) (row : Row) : X Bool := do
  let lhs ← evalPrimary p.lhs fields row
  let rhs ← evalPrimary p.rhs fields row
  let ordered (ifIntStr : Int → Int → Bool) (sIf : Bytes → Bytes → Bool) (dflt : EErr) : X Bool :=
    match lhs, rhs with
    | .int a, .int b => .ok (ifIntStr a b)
    | .int _, _ => .err .incompat
    | .str a, .str b => .ok (sIf a b)
    | .str _, _ => .err .incompat
    | _, _ => .err dflt
  if p.op == Generated.t_EQ then pure (lhs == rhs)
  else if p.op == Generated.t_NEQ then pure (lhs != rhs)
  -- NULL is neither smaller nor greater than anything (a NULL that outer-join padding put there included)
  else if lhs == .null || rhs == .null then pure false
  else if p.op == Generated.t_GT then ordered (fun a b => a > b) (fun a b => strLt b a) .nothingToCompare
  else if p.op == Generated.t_GTE then ordered (fun a b => a ≥ b) (fun a b => !strLt a b) .incompat
  else if p.op == Generated.t_LT then ordered (fun a b => a < b) (fun a b => strLt a b) .nothingToCompare
  else if p.op == Generated.t_LTE then ordered (fun a b => a ≤ b) (fun a b => !strLt b a) .incompat
  else .err .nothingToCompare

/-- `evaluate` (with `evalOr`, `evalAnd`) -/
def evaluate : Cond → List Field → Row → X Val
  | .val (.lit l), _, _ => .ok (litVal l)
  | .val (.col _), _, _ => .err .nothingToEvaluate
  | .pred p, fields, row => do let b ← evalPred p fields row; pure (.bool b)
  | .and p r, fields, row => do
    let lhs ← evalPred p fields row
    let rhs ← evaluate r fields row
    match rhs with
    | .bool b => pure (.bool (lhs && b))
    | _ => .err .incompat
  | .or l r, fields, row => do
    let lhs ← evaluate l fields row
    let rhs ← evaluate r fields row
    match lhs, rhs with
    | .bool a, .bool b => pure (.bool (a || b))
    | _, _ => .err .incompat

/-- `filterRows` -/
def filterRows (c : Cond) (fields : List Field) : List Row → X (List Row)
  | [] => .ok []
  | r :: rest => do
    let v ← evaluate c fields r
    let tl ← filterRows c fields rest
    pure (if v == .bool true then r :: tl else tl)

/-- inner loop of a join: the right rows matching one left row (in right order) -/
def joinMatches (on : Cond) (fields : List Field) (mk : Row → Row) : List Row → X (List Row)
  | [] => .ok []
  | r :: rest => do
    let row := mk r
    let v ← evaluate on fields row
    match v with
    | .bool b =>
      let tl ← joinMatches on fields mk rest
      pure (if b then row :: tl else tl)
    | _ => .err .nonBoolJoin

def joinOuter (on : Cond) (fields : List Field) (outer inner : List Row) (mk : Row → Row → Row)
    (pad : Option (Row → Row)) : X (List Row) :=
  match outer with
  | [] => .ok []
  | o :: rest => do
    let ms ← joinMatches on fields (mk o) inner
    let tl ← joinOuter on fields rest inner mk pad
    pure ((if ms.isEmpty then (match pad with | some p => [p o] | none => []) else ms) ++ tl)

/-- `nestedLoopJoin` on a plain table: `rm.Fetch` and the table id (alias if present) -/
def fetchTable (fetch : Bytes → Option Table) (t : TableName) : X (List Row × List Field) :=
  match fetch t.name with
  | none => .err .tableNotExist
  | some tbl =>
    let tid := match t.alias with | some a => a | none => t.name
    .ok (tbl.rows, tbl.cols.map fun c => ⟨tid, c⟩)

/-- `nestedLoopJoin` -/
def nestedLoopJoin (fetch : Bytes → Option Table) : TableRef → X (List Row × List Field)
  | .table t => fetchTable fetch t
  | .join l jt r on => do
    let (lRows, lFields) ← nestedLoopJoin fetch l
    let (rRows, rFields) ← fetchTable fetch r
    -- a table id (alias, else name) is used once in a FROM clause: otherwise a qualified reference
    -- would name a column on both sides
    if (match rFields.head? with | some f0 => lFields.any (·.tableId == f0.tableId) | none => false) then
      X.err .fieldAmbiguous
    else
    let fields := lFields ++ rFields
    let nulls (n : Nat) : Row := List.replicate n .null
    let rows ← match jt with
      | .inner => joinOuter on fields lRows rRows (fun lr rr => lr ++ rr) none
      | .left => joinOuter on fields lRows rRows (fun lr rr => lr ++ rr) (some fun lr => lr ++ nulls rFields.length)
      | .right => joinOuter on fields rRows lRows (fun rr lr => lr ++ rr) (some fun rr => nulls lFields.length ++ rr)
    pure (rows, fields)

def isStar (sl : List DerivedCol) : Bool :=
  match sl with
  | d :: _ => d.item == .star
  | [] => false

def colRefString (c : ColRef) : Bytes := if c.qual.isEmpty then c.name else c.qual ++ [46] ++ c.name

/-- one projected value of `projectColumns` -/
def projectItem (item : SelItem) (fields : List Field) (row : Row) : X Val :=
  match item with
  | .star => .err .nothingToEvaluate   -- an asterisk is only special in the first position
  | .avg c => do
    let idx ← findColumn c fields
    match row[idx]? with
    | some (.int i) => pure (.int i)
    | some _ => .err .avgNonInteger
    | none => .panic "projectColumns: row.Vals[idx]"
  | .count none => pure (.int 1)
  | .count (some c) => do
    let idx ← findColumn c fields
    match row[idx]? with
    | some .null => pure (.int 0)
    | some _ => pure (.int 1)
    | none => .panic "projectColumns: row.Vals[idx]"
  | .expr (.val (.col c)) => do
    let idx ← findColumn c fields
    match row[idx]? with
    | some x => pure x
    | none => .panic "projectColumns: row.Vals[idx]"
  | .expr c => evaluate c fields row

def itemColumns (item : SelItem) : List ColRef :=
  match item with
  | .avg c => [c]
  | .count (some c) => [c]
  | .expr (.val (.col c)) => [c]
  | _ => []

def mapX {α β} (f : α → X β) : List α → X (List β)
  | [] => .ok []
  | a :: rest => do
    let b ← f a
    let tl ← mapX f rest
    pure (b :: tl)

/-- header of one select-list element -/
def headerOf (d : DerivedCol) (fields : List Field) : X Field := do
  let base : Field ← match d.item with
    | .avg c => pure ⟨[], "avg(".toUTF8.toList ++ colRefString c ++ [41]⟩
    | .count (some c) => pure ⟨[], "count(".toUTF8.toList ++ colRefString c ++ [41]⟩
    | .count none => pure ⟨[], "count(*)".toUTF8.toList⟩
    | .expr (.val (.col c)) => do
      let idx ← findColumn c fields
      match fields[idx]? with
      | some f => pure f
      | none => .panic "projectColumns: qfields[idx]"
    | _ => pure ⟨[], [63]⟩
  pure (if d.alias.isEmpty then base else { base with column := d.alias })

/-- `projectColumns` -/
def projectColumns (sl : List DerivedCol) (fields : List Field) (rows : List Row) :
    X (List Row × List Field) :=
  -- `selectList[0]` of an empty select list (a hand-built statement: the parser builds none)
  if sl.isEmpty then .panic "projectColumns: selectList[0]" else
  if isStar sl then .ok (rows, fields) else do
  -- the lookup table is built (and its errors raised) before any row is touched
  let _ ← mapX (fun d => mapX (fun c => findColumn c fields) (itemColumns d.item)) sl
  let rows' ← mapX (fun row => mapX (fun d => projectItem d.item fields row) sl) rows
  let hdr ← mapX (fun d => headerOf d fields) sl
  pure (rows', hdr)

/-- the rounded quotient of `aggregateRows` for `den > 0`, in exact integer arithmetic (`math/big`
since repair a5d183b; before it `math.Round(float64(num) / float64(den))`, which agreed only for
|num| < 2^53): nearest integer, halves away from zero. -/
def roundDiv (sum : Int) (n : Nat) : Int :=
  if n == 0 then 0 else
  let q := sum.natAbs / n
  let r := sum.natAbs % n
  let m : Int := if 2 * r ≥ n then q + 1 else q
  if sum < 0 then -m else m

/-- `avg := round((avg * (count-1) + x) / count)` row by row, as `aggregateRows` computes it -/
def runningAvg (xs : List Int) : Int :=
  (xs.foldl (fun (acc : Int × Nat) x => (roundDiv (acc.1 * acc.2 + x) (acc.2 + 1), acc.2 + 1)) ((0 : Int), 0)).1

/-- index in the select list of the column a GROUP BY reference designates -/
def groupIdx (sl : List DerivedCol) (g : ColRef) : Option Nat :=
  (List.range sl.length).find? fun i => match sl[i]? with | some d => d.isColRef && d.matches g | none => false

structure Group where
  key  : List Val
  rows : List Row

def addToGroups (key : List Val) (row : Row) : List Group → List Group
  | [] => [⟨key, [row]⟩]
  | g :: rest => if g.key == key then { g with rows := g.rows ++ [row] } :: rest else g :: addToGroups key row rest

def aggCell (item : SelItem) (colIdx : Nat) (g : Group) : X Val :=
  match item with
  | .count _ => pure (.int (g.rows.foldl (fun acc r => acc + (match r[colIdx]? with | some (.int i) => i | _ => 0)) 0))
  | .avg _ =>
    -- the cumulative average of the code: rounded after every row
    let xs := g.rows.map fun r => (match r[colIdx]? with | some (.int i) => i | _ => 0)
    pure (.int (runningAvg xs))
  | _ => match g.rows.head? with
    | some r => (match r[colIdx]? with | some v => pure v | none => .panic "aggregateRows: Vals[colIdx]")
    | none => .panic "aggregateRows: empty group"

/-- `row.Vals[colIdx].(int64)` -/
def intAt (colIdx : Nat) (r : Row) : X Int :=
  match r[colIdx]? with
  | some (.int i) => .ok i
  | some _ => .panic "aggregateRows: Vals[colIdx].(int64)"
  | none => .panic "aggregateRows: Vals[colIdx]"

/-- `int64` arithmetic wraps (the cells added here are any integers of the table, not the 0 / 1 of a
projected COUNT) -/
def wrap64 (i : Int) : Int := (i + 9223372036854775808) % 18446744073709551616 - 9223372036854775808

/-- the row `aggregateRows` keeps for a group when `projectColumns` left the rows unprojected (a select
list that starts with `*`): the first row of the group, `out`, in which the cell at the POSITION IN THE
SELECT LIST of every COUNT / AVG is overwritten.  COUNT touches no cell of a group of one row (`this is
the first row, don't increment`) and from the second row on adds `Vals[colIdx].(int64)` of the group row
and of the row; AVG reads `Vals[colIdx].(int64)` of every row, the first included; any other element
(the `*` itself too) touches nothing.  A cell that is missing or holds no integer is a panic. -/
def aggStarRow (g : Group) : List (Nat × DerivedCol) → Row → X Row
  | [], out => .ok out
  | (colIdx, d) :: rest, out =>
    match d.item with
    | .count _ =>
      if g.rows.length ≤ 1 then aggStarRow g rest out
      else do
        let xs ← mapX (intAt colIdx) g.rows
        aggStarRow g rest (out.set colIdx (.int (wrap64 (xs.foldl (· + ·) 0))))
    | .avg _ => do
      let xs ← mapX (intAt colIdx) g.rows
      aggStarRow g rest (out.set colIdx (.int (runningAvg xs)))
    | _ => aggStarRow g rest out

/-- the grouping loop of `aggregateRows` on unprojected rows (select list `*, …`: hand-built, the parser
builds `*` alone, which does not get here): `groupKey` indexes `row.Vals[idx]` at the select-list
positions of the GROUP BY columns - past the end of a row it panics -, then one row per group. -/
def aggregateStar (sl : List DerivedCol) (idxs : List Nat) (rows : List Row) : X (List Row) :=
  if rows.any (fun r => idxs.any fun i => r.length ≤ i) then .panic "aggregateRows: groupKey row.Vals[idx]"
  else
    let groups := rows.foldl (fun gs r => addToGroups (idxs.map fun i => (r[i]?).getD .null) r gs) []
    mapX (fun g => aggStarRow g ((List.range sl.length).zip sl) (g.rows.headD [])) groups

/-- `aggregateRows` (rows are the projected rows: one value per select-list element, an integer under
every COUNT / AVG, so that no `Vals[colIdx]` of the loop can fail - except after a select list that
starts with `*`, whose rows `projectColumns` passes on as they are: `aggregateStar`) -/
def aggregateRows (sl : List DerivedCol) (groupBy : List ColRef) (rows : List Row) : X (List Row) :=
  if !hasAggr sl && groupBy.isEmpty then .ok rows
  else if groupBy.isEmpty && rows.isEmpty then
    (do
      let r ← mapX (fun (d : DerivedCol) => match d.item with
        | .count _ => pure (Val.int 0)
        | .avg _ => pure (Val.int 0)
        | .expr c => evaluate c [] []
        | .star => X.err .nothingToEvaluate) sl
      pure [r])
  else do
    let idxs ← mapX (fun g => match groupIdx sl g with | some i => pure i | none => X.err .groupByNotSelected) groupBy
    if isStar sl then aggregateStar sl idxs rows else
    let groups := rows.foldl (fun gs r => addToGroups (idxs.map fun i => (r[i]?).getD .null) r gs) []
    mapX (fun g => mapX (fun (p : Nat × DerivedCol) => aggCell p.2.item p.1 g) ((List.range sl.length).zip sl)) groups

inductive Ord' where | lt | eq | gt
deriving DecidableEq

/-- comparison of two values of one sort key (NULL sorts first) -/
def cmpVal (a b : Val) : X Ord' :=
  if a == b then .ok .eq else
  match a, b with
  | .null, _ => .ok .lt
  | _, .null => .ok .gt
  | .int x, .int y => .ok (if x < y then .lt else .gt)
  | .str x, .str y => .ok (if strLt x y then .lt else .gt)
  | .bool x, .bool y => .ok (if !x && y then .lt else .gt)
  | _, _ => .panic "sortColumns: mixed types"

/-- the `less` function of `sortColumns`: row `a` strictly before row `b` -/
def rowLess (keys : List (Nat × Bool)) (a b : Row) : Bool :=
  match keys with
  | [] => false
  | (i, desc) :: rest =>
    let x := (a[i]?).getD .null
    let y := (b[i]?).getD .null
    if x == y then rowLess rest a b
    else match cmpVal x y with
      | .ok .lt => !desc
      | .ok .gt => desc
      | _ => false

def insertSorted (keys : List (Nat × Bool)) (r : Row) : List Row → List Row
  | [] => [r]
  | x :: rest => if rowLess keys x r then x :: insertSorted keys r rest else r :: x :: rest

def sortRows (keys : List (Nat × Bool)) (rows : List Row) : List Row :=
  rows.foldr (fun r acc => insertSorted keys r acc) []

/-- `sortFields`: the header a sort key is resolved against - an aliased column is an output name, not
a column of its table, so a qualified key `t.b` does not find the alias `b` of another column -/
def sortFields (sl : List DerivedCol) (hdr : List Field) : List Field :=
  if sl.length != hdr.length then hdr   -- SELECT *
  else (sl.zip hdr).map fun p => if p.1.alias.isEmpty then p.2 else ⟨[], p.2.column⟩

/-- `sortColumns`: resolve the keys against the *output* header, then sort. -/
def sortColumns (ob : List SortSpec) (hdr : List Field) (rows : List Row) : X (List Row) := do
  let keys ← mapX (fun (s : SortSpec) => match findColumn s.key hdr with
    | .ok i => X.ok (i, s.desc)
    | .err .fieldNotFound => .err .sortFieldNotFound
    | .err e => .err e
    | .panic p => .panic p) ob
  -- a pair of values the comparator cannot order is a panic in Go
  let bad := rows.any fun a => rows.any fun b => keys.any fun (i, _) =>
    match cmpVal ((a[i]?).getD .null) ((b[i]?).getD .null) with | .panic _ => true | _ => false
  if bad then .panic "sortColumns: no comparison available" else pure (sortRows keys rows)

/-- `offset` then `limit` as `EvaluateSelect` applies them: `rows[offset:]` unless `offset >= len(rows)`,
`rows[0:limit]` unless `limit > len(rows)` - with a negative bound (a hand-built statement: the parser
refuses one) the slice expression is out of range, whatever the rows -/
def cutRows (lim : LimitOffset) (rows : List Row) : X (List Row) :=
  if lim.offsetActive && lim.offset < 0 then .panic "offset: rows[offset:]"
  else if lim.limitActive && lim.limit < 0 then .panic "limit: rows[0:limit]"
  else
    let rows := if lim.offsetActive then rows.drop lim.offset.toNat else rows
    .ok (if lim.limitActive then rows.take lim.limit.toNat else rows)

/-- `EvaluateSelect` -/
def evaluateSelect (fetch : Bytes → Option Table) (q : Select) : X (List Row × List Field) :=
  match q.from_ with
  | none => projectColumns q.list [] [[]]
  | some tr => do
    let (rows, fields) ← nestedLoopJoin fetch tr
    let rows ← match q.where_ with
      | some c => filterRows c fields rows
      | none => pure rows
    let (rows, hdr) ← projectColumns q.list fields rows
    let rows ← aggregateRows q.list q.groupBy rows
    let rows ← sortColumns q.orderBy (sortFields q.list hdr) rows
    let rows ← cutRows q.lim rows
    pure (rows, hdr)

end Mkdb.Exec
