import Mkdb.Model.Exec
import Mkdb.Model.Tuple
import Mkdb.Generated.Consts
/-!
The plain in-memory model of C01: a database is a list of tables; a table is its declared
columns and its rows in insertion order.  INSERT appends valid rows, UPDATE rewrites the
rows its WHERE selects, DELETE removes them; a statement that would be refused (unknown
table, wrong arity, wrong type, INT out of range, row over the size limit) changes
nothing (C14).
-/
namespace Mkdb.Spec
open Mkdb.Tuple Mkdb.Sql

structure SRow where
  id   : Option Nat      -- row id once it has been observed
  vals : List Val
deriving Repr

structure STable where
  name : Bytes
  cols : List FieldDef
  rows : List SRow
deriving Repr

abbrev SDB := List STable

def findTable (db : SDB) (n : Bytes) : Option STable := db.find? (·.name == n)

def nameStr (b : Bytes) : String := (String.fromUTF8? (ByteArray.mk b.toArray)).getD ""

/-- the values a row will hold, or `none` when the row is refused -/
def rowOf (t : STable) (cols : List Bytes) (vals : List Val) : Option (List Val) :=
  let cs := if cols.isEmpty then t.cols.map (·.name) else cols.map nameStr
  if cs.length != vals.length then none else
  let m : Vals := (cs.zip vals).reverse
  match encodeTuple t.cols m with
  | .error _ => none
  | .ok bs => if bs.length > Generated.c_maxValueSize then none else some (t.cols.map fun fd => get m fd.name)

/-- the names of a column list are columns of the table, each named once (an INSERT column list, the
SET columns of an UPDATE) -/
def namesOK (t : STable) (names : List String) : Bool :=
  names.all (fun c => t.cols.any (·.name == c)) && names.eraseDups.length == names.length

def specInsert (db : SDB) (table : Bytes) (cols : List Bytes) (rows : List (List Val)) : Option SDB := do
  let t ← findTable db table
  -- (a statement with rows only: an empty VALUES list is not in the grammar)
  if !rows.isEmpty && !namesOK t (cols.map nameStr) then none else
  let newRows ← rows.mapM (rowOf t cols)
  pure (db.map fun x => if x.name == table then { x with rows := x.rows ++ newRows.map fun v => ⟨none, v⟩ } else x)

def fieldsOfTable (t : STable) : List Exec.Field := t.cols.map fun fd => ⟨[], fd.name.toUTF8.toList⟩

/-- rows selected by a WHERE; `none` when the condition cannot be evaluated on some row -/
def selects (t : STable) (w : Option Cond) : Option (List Bool) :=
  match w with
  | none => some (t.rows.map fun _ => true)
  | some c => t.rows.mapM fun r =>
      match Exec.evaluate c (fieldsOfTable t) r.vals with
      | .ok v => some (v == .bool true)
      | _ => none

def litVal : Lit → Val
  | .int i => .int i | .str s => .str s | .bool b => .bool b

def specUpdate (db : SDB) (table : Bytes) (sets : List (Bytes × VExpr)) (w : Option Cond) : Option SDB := do
  let t ← findTable db table
  if sets.any (fun p => match p.2 with | .col _ => true | _ => false) then none else
  if !namesOK t (sets.map fun p => nameStr p.1) then none else
  let sel ← selects t w
  let assign (vals : List Val) : Option (List Val) :=
    let m : Vals := (sets.map fun p => (nameStr p.1, match p.2 with | .lit l => litVal l | .col _ => Val.null)).reverse ++
      (t.cols.map (·.name)).zip vals
    match encodeTuple t.cols m with
    | .error _ => none
    | .ok bs => if bs.length > Generated.c_maxValueSize then none else some (t.cols.map fun fd => get m fd.name)
  let rows' ← (t.rows.zip sel).mapM fun (r, s) => if s then (assign r.vals).map (fun v => { r with vals := v }) else some r
  pure (db.map fun x => if x.name == table then { x with rows := rows' } else x)

def specDelete (db : SDB) (table : Bytes) (w : Option Cond) : Option SDB := do
  let t ← findTable db table
  let sel ← selects t w
  pure (db.map fun x => if x.name == table then
    { x with rows := (t.rows.zip sel).filterMap fun (r, s) => if s then none else some r } else x)

def colField (c : ColDef) : FieldDef :=
  match c.ty with
  | .int => ⟨nameStr c.name, .int, 0⟩
  | .bigint => ⟨nameStr c.name, .bigint, 0⟩
  | .varchar n => ⟨nameStr c.name, .varchar, n⟩
  | .boolean => ⟨nameStr c.name, .boolean, 0⟩

def specCreate (db : SDB) (name : Bytes) (cols : List ColDef) : Option SDB :=
  if (findTable db name).isSome || name == "sys_pages".toUTF8.toList || name == "sys_schema".toUTF8.toList then none
  else if cols.any (fun c => match c.ty with | .varchar n => n > 2147483647 | _ => false) then none
  else if (cols.map fun c => nameStr c.name).eraseDups.length != cols.length then none   -- a column name used twice
  else some (db ++ [⟨name, cols.map colField, []⟩])

/-- States a refused multi-row statement would leave behind if it had applied a proper prefix of
its row operations before failing (what C14 forbids): for INSERT the rows before the first
invalid one, for UPDATE the selected rows before the first one that cannot be rewritten. -/
def prefixStates (db : SDB) : Stmt → List (Bytes × List (List Val))
  | .insert t cols rows =>
    match findTable db t with
    | none => []
    | some tb =>
      let vals := rows.map fun r => rowOf tb cols (r.map litVal)
      let good := (vals.takeWhile (·.isSome)).filterMap id
      if good.length == vals.length then [] else
      (List.range good.length).map fun j => (t, tb.rows.map (·.vals) ++ good.take (j + 1))
  | .update t sets w =>
    match findTable db t with
    | none => []
    | some tb =>
      match selects tb w with
      | none => []
      | some sel =>
        let assign (vals : List Val) : Option (List Val) :=
          let m : Vals := (sets.map fun p => (nameStr p.1, match p.2 with | .lit l => litVal l | .col _ => Val.null)).reverse ++
            (tb.cols.map (·.name)).zip vals
          match encodeTuple tb.cols m with
          | .error _ => none
          | .ok bs => if bs.length > Generated.c_maxValueSize then none else some (tb.cols.map fun fd => get m fd.name)
        -- number of selected rows that can be rewritten before the first failure
        let selRows := (tb.rows.zip sel).filter (·.2) |>.map (·.1.vals)
        let okCount := (selRows.takeWhile fun v => (assign v).isSome).length
        (List.range okCount).map fun j =>
          -- the first j+1 selected rows rewritten
          let rec go (rows : List (SRow × Bool)) (left : Nat) : List (List Val) :=
            match rows with
            | [] => []
            | (r, s) :: rest =>
              if s && left > 0 then ((assign r.vals).getD r.vals) :: go rest (left - 1)
              else r.vals :: go rest left
          (t, go (tb.rows.zip sel) (j + 1))
  | _ => []

/-- Every state a crash in the middle of a (valid) statement may leave behind according to
C03: the state before it plus the effects of a prefix of its row operations, in the order
the statement applies them (the whole statement and nothing at all included). -/
def rowPrefixStates (db : SDB) : Stmt → List (Bytes × List (List Val))
  | .insert t cols rows =>
    match findTable db t with
    | none => []
    | some tb =>
      let vals := (rows.map fun r => rowOf tb cols (r.map litVal)).filterMap id
      (List.range (vals.length + 1)).map fun j => (t, tb.rows.map (·.vals) ++ vals.take j)
  | .update t sets w =>
    match findTable db t with
    | none => []
    | some tb =>
      match selects tb w with
      | none => []
      | some sel =>
        let assign (vals : List Val) : List Val :=
          let m : Vals := (sets.map fun p => (nameStr p.1, match p.2 with | .lit l => litVal l | .col _ => Val.null)).reverse ++
            (tb.cols.map (·.name)).zip vals
          tb.cols.map fun fd => get m fd.name
        let nsel := (sel.filter id).length
        (List.range (nsel + 1)).map fun j =>
          let rec go (rows : List (SRow × Bool)) (left : Nat) : List (List Val) :=
            match rows with
            | [] => []
            | (r, s) :: rest =>
              if s && left > 0 then assign r.vals :: go rest (left - 1)
              else r.vals :: go rest left
          (t, go (tb.rows.zip sel) j)
  | .delete t w =>
    match findTable db t with
    | none => []
    | some tb =>
      match selects tb w with
      | none => []
      | some sel =>
        let nsel := (sel.filter id).length
        (List.range (nsel + 1)).map fun j =>
          let rec goDel (rows : List (SRow × Bool)) (left : Nat) : List (List Val) :=
            match rows with
            | [] => []
            | (r, s) :: rest =>
              if s && left > 0 then goDel rest (left - 1)
              else r.vals :: goDel rest left
          (t, goDel (tb.rows.zip sel) j)
  | _ => []

/-- effect of a statement; `none` = the statement must be refused and change nothing -/
def specStmt (db : SDB) : Stmt → Option SDB
  | .createTable n cols => specCreate db n cols
  | .insert t cols rows => specInsert db t cols (rows.map fun r => r.map litVal)
  | .update t sets w => specUpdate db t sets w
  | .delete t w => specDelete db t w
  | _ => some db

end Mkdb.Spec
