import Mkdb.Model.LRU
/-!
Declarative statement of C15 as a decidable relation between the resident list before
an operation, the operation, the reported result and the resident list after it.
Used by the judge on the *implementation's* observed states.
-/
namespace Mkdb.LRU.Spec
open Mkdb.LRU

def keysOf (l : List Entry) : List Nat := l.map (·.key)

def wellFormed (cap : Nat) (l : List Entry) : Bool :=
  decide (l.length ≤ cap) && decide ((keysOf l).Nodup)

/-- `l'` is `l` with exactly one entry removed; that entry is clean and everything colder is dirty. -/
def evictedOne (l l' : List Entry) : Bool :=
  (List.range l.length).any fun i =>
    match l[i]? with
    | some v => !v.dirty && (l.drop (i+1)).all (·.dirty) && (l.take i ++ l.drop (i+1) == l')
    | none => false

def setSpec (cap : Nat) (before : List Entry) (k id : Nat) (d ok : Bool) (after : List Entry) : Bool :=
  let present := before.any (·.key == k)
  if ok then
    match after with
    | [] => false
    | h :: rest =>
      h == ⟨k, id, d⟩ &&
      (if present then rest == before.filter (fun e => !(e.key == k))
       else if before.length == cap then evictedOne before rest
       else rest == before)
  else
    !present && before.length == cap && before.all (·.dirty) && after == before

def getSpec (before : List Entry) (k : Nat) (res : Option (Nat × Bool)) (after : List Entry) : Bool :=
  match res with
  | none => !(before.any (·.key == k)) && after == before
  | some (id, d) =>
    before.contains ⟨k, id, d⟩ && after == ⟨k, id, d⟩ :: before.filter (fun e => !(e.key == k))

def flipSpec (before : List Entry) (k : Nat) (d : Bool) (after : List Entry) : Bool :=
  after == before.map (fun e => if e.key == k then { e with dirty := d } else e)

end Mkdb.LRU.Spec
