import Mkdb.Model.Page
import Mkdb.Generated.Consts
/-!
C11: the shape invariants of a B+ tree, as a decidable check over a page heap
(`offset → node`), used by the judge on the implementation's heap dump and stated as the
invariant of the model's trees.
-/
namespace Mkdb.Spec.Shape
open Mkdb.Page Mkdb.Generated

abbrev Heap := List (Nat × Node)

def get (h : Heap) (off : Nat) : Option Node := (h.find? fun p => p.1 == off).map (·.2)

def strictlyAscending : List Nat → Bool
  | [] => true
  | [_] => true
  | a :: b :: rest => decide (a < b) && strictlyAscending (b :: rest)

/-- Walk the subtree at `off` whose keys must lie in `[lo, hi)` (`hi = none`: unbounded).
Returns the problems found, the leaves in tree order (offset, keys, depth) and all pages visited. -/
def walk : Nat → Heap → Nat → Nat → Option Nat → Nat → List String × List (Nat × List Nat × Nat) × List Nat
  | 0, _, off, _, _, _ => ([s!"too-deep-or-cycle at {off}"], [], [off])
  | fuel+1, h, off, lo, hi, depth =>
    match get h off with
    | none => ([s!"missing-page {off}"], [], [off])
    | some (.leaf l) =>
      let keys := l.cells.map (·.key)
      let p1 := if strictlyAscending keys then [] else [s!"leaf-keys-not-ascending {off}"]
      let p2 := if l.cells.length ≤ c_maxLeafNodeCells then [] else [s!"leaf-over-capacity {off}"]
      let p3 := if keys.all (fun k => lo ≤ k && (match hi with | some x => k < x | none => true)) then [] else [s!"leaf-key-outside-separator-bounds {off}"]
      let p4 := if l.off == off then [] else [s!"page-offset-field-wrong {off}"]
      (p1 ++ p2 ++ p3 ++ p4, [(off, keys, depth)], [off])
    | some (.internal n) =>
      let keys := n.cells.map (·.key)
      let p1 := if strictlyAscending keys then [] else [s!"separators-not-ascending {off}"]
      let p2 := if n.cells.length ≤ c_maxInternalNodeCells && n.cells.length ≥ 1 then [] else [s!"internal-cell-count {off}"]
      let p3 := if keys.all (fun k => lo ≤ k && (match hi with | some x => k < x | none => true)) then [] else [s!"separator-outside-bounds {off}"]
      -- child i covers [sep(i-1), sep(i)); the rightmost child covers [last sep, hi)
      let rec children (cells : List ICell) (lo' : Nat) (acc : List String × List (Nat × List Nat × Nat) × List Nat) :=
        match cells with
        | [] =>
          let r := walk fuel h n.right lo' hi (depth + 1)
          (acc.1 ++ r.1, acc.2.1 ++ r.2.1, acc.2.2 ++ r.2.2)
        | c :: rest =>
          let r := walk fuel h c.child lo' (some c.key) (depth + 1)
          children rest c.key (acc.1 ++ r.1, acc.2.1 ++ r.2.1, acc.2.2 ++ r.2.2)
      let r := children n.cells lo ([], [], [])
      (p1 ++ p2 ++ p3 ++ r.1, r.2.1, off :: r.2.2)

/-- follow the sibling chain from `off` -/
def chain : Nat → Heap → Bool → Nat → List Nat
  | 0, _, _, off => [off]
  | fuel+1, h, rightward, off =>
    match get h off with
    | some (.leaf l) =>
      if rightward then (if l.hasR then off :: chain fuel h rightward l.rSib else [off])
      else (if l.hasL then off :: chain fuel h rightward l.lSib else [off])
    | _ => [off]

/-- route a key from the root to a leaf (the model of `findCell`'s descent) -/
def route : Nat → Heap → Nat → Nat → Option Nat
  | 0, _, _, _ => none
  | fuel+1, h, off, key =>
    match get h off with
    | some (.leaf _) => some off
    | some (.internal n) =>
      let child := match n.cells.find? (fun c => key < c.key) with | some c => c.child | none => n.right
      route fuel h child key
    | none => none

/-- All C11 invariants of the tree rooted at `root`; the result lists what is violated. -/
def check (h : Heap) (root : Nat) : List String :=
  let (probs, leaves, visited) := walk 32 h root 0 none 0
  let offs := leaves.map (·.1)
  let depths := (leaves.map (·.2.2)).eraseDups
  let allKeys := leaves.flatMap (·.2.1)
  let p1 := if depths.length ≤ 1 then [] else ["leaves-at-different-depths"]
  let p2 := if visited.eraseDups.length == visited.length then [] else ["page-reachable-twice"]
  let p3 := if strictlyAscending allKeys then [] else ["keys-not-ascending-across-leaves"]
  let p4 := match offs.head? with
    | some first => if chain (offs.length + 2) h true first == offs then [] else ["right-chain-differs-from-tree-order"]
    | none => []
  let p5 := match offs.getLast? with
    | some last => if chain (offs.length + 2) h false last == offs.reverse then [] else ["left-chain-is-not-the-reverse"]
    | none => []
  let p6 := if leaves.all (fun lf => lf.2.1.all fun k => route 32 h root k == some lf.1) then [] else ["stored-key-not-found-by-lookup"]
  let p7 := match offs.head?, offs.getLast? with
    | some f, some l =>
      (match get h f with | some (.leaf x) => (if x.hasL then ["leftmost-leaf-has-left-sibling"] else []) | _ => []) ++
      (match get h l with | some (.leaf x) => (if x.hasR then ["rightmost-leaf-has-right-sibling"] else []) | _ => [])
    | _, _ => []
  probs ++ p1 ++ p2 ++ p3 ++ p4 ++ p5 ++ p6 ++ p7

end Mkdb.Spec.Shape
