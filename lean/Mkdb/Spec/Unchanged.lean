import Mkdb.Model.Engine
/-!
What "changes nothing" (C14) means on the storage model: every page the engine can see, every
dirty bit, the data file, the header on disk and the parts of the in-memory header that locate
data are exactly what they were.  The row-id and LSN counters may advance (a refused row consumes
its id) and pages may have been pulled into the cache by reading - neither is visible in any table.
-/
namespace Mkdb.Store
open Mkdb.Page

/-- the page the engine sees at `off`: the cached object, else the disk image, else zeroes -/
def pageAt (s : Store) (off : Nat) : Node :=
  match assocGet s.mem off with
  | some m => m.node
  | none => (assocGet s.disk off).getD zeroPage

def dirtyAt (s : Store) (off : Nat) : Bool :=
  match assocGet s.mem off with
  | some m => m.dirty
  | none => false

/-- every page is filed under the offset it carries; offset 0 (the header's place) holds at most the
cached image of a page that does not exist -/
def Filed (s : Store) : Prop :=
  (∀ p ∈ s.disk, nodeOff p.2 = p.1 ∧ p.1 ≠ 0) ∧
  (∀ p ∈ s.mem, nodeOff p.2.node = p.1 ∧ (p.1 = 0 → p.2 = ⟨zeroPage, false⟩))

structure SameData (s s' : Store) : Prop where
  page   : ∀ off, pageAt s' off = pageAt s off
  dirty  : ∀ off, dirtyAt s' off = dirtyAt s off
  disk   : s'.disk = s.disk
  dhdr   : s'.dhdr = s.dhdr
  ptRoot : s'.hdr.ptRoot = s.hdr.ptRoot
  next   : s'.hdr.nextFree = s.hdr.nextFree

end Mkdb.Store
