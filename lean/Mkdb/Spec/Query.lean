import Mkdb.Model.Exec
/-!
Reference meaning of a SELECT (C05, C06, C07), written independently of the executor's
control flow: joins are list comprehensions, WHERE is a filter, the select list is a map,
aggregation groups the *source* rows by the distinct tuples of grouping values, ORDER BY is
"some permutation sorted by the keys", OFFSET/LIMIT are drop/take.  Atomic expressions
(comparisons, literals, column lookups) use the executor's evaluator.
-/
namespace Mkdb.Spec
open Mkdb.Exec Mkdb.Sql

/-- truth of a condition on a row; `none` when it is ill-typed / erroneous -/
def holds (c : Cond) (fields : List Field) (row : Row) : Option Bool :=
  match evaluate c fields row with
  | .ok (.bool b) => some b
  | _ => none

def fieldsOf (fetch : Bytes → Option Table) (t : TableName) : Option (List Row × List Field) :=
  match fetch t.name with
  | none => none
  | some tbl => some (tbl.rows, tbl.cols.map fun c => ⟨(match t.alias with | some a => a | none => t.name), c⟩)

/-- The relational definition of the FROM clause: pairs satisfying the condition, plus, for
LEFT (RIGHT) joins, each unmatched left (right) row once, padded with NULLs. -/
def fromRows (fetch : Bytes → Option Table) : TableRef → Option (List Row × List Field)
  | .table t => fieldsOf fetch t
  | .join l jt r on => do
    let (L, lf) ← fromRows fetch l
    let (R, rf) ← fieldsOf fetch r
    -- every table of a FROM clause is addressable under its own name or alias: two tables under one
    -- name make qualified references ambiguous, and the clause has no meaning
    if rf.any (fun g => lf.any (·.tableId == g.tableId)) then none else
    let fields := lf ++ rf
    let pairs := L.flatMap fun a => R.map fun b => (a, b)
    let truth ← pairs.mapM fun (a, b) => holds on fields (a ++ b)
    let matched := (pairs.zip truth).filterMap fun (p, t) => if t then some p else none
    let inner := matched.map fun (a, b) => a ++ b
    let extra : List Row := match jt with
      | .inner => []
      | .left => (L.filter fun a => !(matched.any fun p => p.1 == a && true)).map fun a => a ++ List.replicate rf.length .null
      | .right => (R.filter fun b => !(matched.any fun p => p.2 == b && true)).map fun b => List.replicate lf.length .null ++ b
    pure (inner ++ extra, fields)

def isAgg : SelItem → Bool
  | .count _ => true | .avg _ => true | _ => false

/-- value of a non-aggregate select-list element on a source row -/
def itemVal (item : SelItem) (fields : List Field) (row : Row) : Option Val :=
  match projectItem item fields row with
  | .ok v => some v
  | _ => none

/-- aggregate of one group of source rows -/
def aggVal (item : SelItem) (fields : List Field) (grp : List Row) : Option Val :=
  match item with
  | .count none => some (.int grp.length)
  | .count (some c) =>
    match findColumn c fields with
    | .ok i => some (.int (grp.filter fun r => (r[i]?).getD .null != .null).length)
    | _ => none
  | .avg c =>
    match findColumn c fields with
    | .ok i => do
      let xs ← grp.mapM fun r => match r[i]? with | some (Tuple.Val.int x) => some x | _ => none
      some (.int (roundDiv (xs.foldl (· + ·) 0) grp.length))
    | _ => none
  | _ =>
    -- a select-list element that is not an aggregate has a meaning in a grouping query only if it
    -- evaluates on EVERY row of the group (otherwise the query is ill-typed) and has the SAME value
    -- on every row of the group (otherwise it is not a valid grouping query: standard SQL forbids a
    -- non-grouped, non-aggregated expression; `validateGroupBy` checks bare column references only).
    -- Grouping columns are constant on their group, so valid grouping queries keep their meaning.
    match grp.mapM fun r => itemVal item fields r with
    | some (v :: vs) => if vs.all (· == v) then some v else none
    | _ => none

def distinctKeys (ks : List (List Val)) : List (List Val) := ks.eraseDups

/-- The rows a SELECT means, before ORDER BY / OFFSET / LIMIT. -/
def meaning (fetch : Bytes → Option Table) (q : Select) : Option (List Row) := do
  let tr ← q.from_
  let (src, fields) ← fromRows fetch tr
  let src ← match q.where_ with
    | none => some src
    | some c => do
      let t ← src.mapM (holds c fields)
      pure ((src.zip t).filterMap fun (r, b) => if b then some r else none)
  -- `*` shows the source rows themselves.  With a GROUP BY, or next to an aggregate, the result has one
  -- row per group and `*` names no column of it: such a query has no meaning (`SELECT * FROM t GROUP BY a`
  -- is accepted by the parser and refused by `aggregateRows`)
  if isStar q.list then
    (if q.groupBy.isEmpty && !(q.list.any fun d => isAgg d.item) then some src else none)
  else
  -- every column named in the select list must resolve, whether or not there are rows
  let _ ← (q.list.flatMap fun d => itemColumns d.item).mapM fun c =>
    match findColumn c fields with | .ok i => some i | _ => none
  -- (GROUP BY groups whether or not the select list holds an aggregate: `SELECT a FROM t GROUP BY a`
  -- is one row per distinct `a`)
  if !(q.list.any fun d => isAgg d.item) && q.groupBy.isEmpty then
    src.mapM fun r => q.list.mapM fun d => itemVal d.item fields r
  else
    -- grouping columns: the select-list columns designated by the GROUP BY references
    let gidx ← q.groupBy.mapM (groupIdx q.list)
    let gitems := gidx.filterMap fun i => q.list[i]?
    let keyOf (r : Row) : Option (List Val) := gitems.mapM fun d => itemVal d.item fields r
    let keys ← src.mapM keyOf
    if q.groupBy.isEmpty then
      -- one group: the whole input (all zeros when it is empty)
      (do let row ← q.list.mapM fun d =>
            if src.isEmpty then (if isAgg d.item then some (.int 0) else itemVal d.item [] [])
            else aggVal d.item fields src
          pure [row])
    else
      (distinctKeys keys).mapM fun k =>
        let grp := (src.zip keys).filterMap fun (r, k') => if k' == k then some r else none
        q.list.mapM fun d => aggVal d.item fields grp

/-- sort keys as positions in the output header -/
def sortKeys (q : Select) (hdr : List Field) : Option (List (Nat × Bool)) :=
  -- (a qualified key names a column of that table; an alias is reached by an unqualified key only)
  q.orderBy.mapM fun s => match findColumn s.key (sortFields q.list hdr) with | .ok i => some (i, s.desc) | _ => none

def sortedBy (keys : List (Nat × Bool)) : List Row → Bool
  | [] => true
  | [_] => true
  | a :: b :: rest => !rowLess keys b a && sortedBy keys (b :: rest)

def count {α} [BEq α] (a : α) (l : List α) : Nat := (l.filter (· == a)).length

def subMultiset (a b : List Row) : Bool := a.all fun r => count r a ≤ count r b
def sameMultiset (a b : List Row) : Bool := a.length == b.length && subMultiset a b && subMultiset b a

def keyProj (keys : List (Nat × Bool)) (r : Row) : List Val := keys.map fun (i, _) => (r[i]?).getD .null

/-- the OFFSET / LIMIT that are written are not negative (the parser refuses a negative bound;
`EvaluateSelect` slices with it: `drop` / `take` below are its meaning only then) -/
def boundsOK (lim : LimitOffset) : Bool :=
  (!lim.offsetActive || decide (0 ≤ lim.offset)) && (!lim.limitActive || decide (0 ≤ lim.limit))

/-- Does `result` satisfy the meaning of `q`?  `ordered` = the FROM clause is a single table
(so without ORDER BY rows must come back in insertion order); otherwise the result is a
multiset.  With ORDER BY: the result is `take lim (drop off s)` for SOME `s` that is a
permutation of the meaning sorted by the keys — checked as: right length, sorted, same key
sequence as the stably sorted meaning at those positions, sub-multiset of the meaning. -/
def satisfies (q : Select) (hdr : List Field) (want : List Row) (result : List Row) : Bool :=
  let off := if q.lim.offsetActive then q.lim.offset.toNat else 0
  let cut (l : List Row) : List Row := let d := l.drop off; if q.lim.limitActive then d.take q.lim.limit.toNat else d
  if q.orderBy.isEmpty then
    let single := match q.from_ with | some (.table _) => true | _ => false
    if single && !(q.list.any fun d => isAgg d.item) && q.groupBy.isEmpty then result == cut want
    else if q.lim.offsetActive || q.lim.limitActive then
      result.length == (cut want).length && subMultiset result want
    else sameMultiset result want
  else
    match sortKeys q hdr with
    | none => false
    | some keys =>
      let s := cut (sortRows keys want)
      result.length == s.length && sortedBy keys result &&
      result.map (keyProj keys) == s.map (keyProj keys) && subMultiset result want

end Mkdb.Spec
