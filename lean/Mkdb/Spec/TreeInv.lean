import Mkdb.Model.Tree
/-!
The shape invariant of C11 on the levels representation (`Mkdb.Tree.Levels`), clause by clause.
These are *statements*; the proofs that `insertAppend`, `setVal` and `setDeleted` preserve them are in
`Mkdb.Proofs.Tree`, the property theorems in `Mkdb.Props.C11` / `C01`.
-/
namespace Mkdb.Tree
open Mkdb.Page Mkdb.Generated

def keys (t : Levels) : List Nat := (cells t).map (·.key)

/-- no node over capacity; an internal node has at least one separator -/
def CapOK (t : Levels) : Prop :=
  (∀ p ∈ t.leaves, p.1.cells.length < c_maxLeafNodeCells) ∧
  (∀ lvl ∈ t.inner, ∀ p ∈ lvl, 1 ≤ p.1.cells.length ∧ p.1.cells.length < c_maxInternalNodeCells)

/-- keys strictly ascending within and across leaves -/
def KeysAsc (t : Levels) : Prop := (keys t).Pairwise (· < ·)

/-- only a root leaf may be empty -/
def LeavesNonempty (t : Levels) : Prop := 2 ≤ t.leaves.length → ∀ p ∈ t.leaves, p.1.cells ≠ []

/-- the doubly linked leaf chain equals the leaves in tree order: each leaf points right to the next
one and left to the previous one, the ends point nowhere -/
def chainFrom (prev : Option Nat) : List Leaf → Prop
  | [] => True
  | l :: rest =>
    (match prev with | none => l.hasL = false | some p => l.hasL = true ∧ l.lSib = p) ∧
    (match rest with | [] => l.hasR = false | m :: _ => l.hasR = true ∧ l.rSib = m.off) ∧
    chainFrom (some l.off) rest
def ChainOK (t : Levels) : Prop := chainFrom none (t.leaves.map (·.1))

/-- the child pointers of one level, left to right -/
def childOffs (lvl : List (Internal × Bool)) : List Nat :=
  lvl.flatMap fun p => p.1.cells.map (·.child) ++ [p.1.right]

/-- every level's child pointers are exactly the nodes of the level below, in order (so all leaves
are at the same depth and every node has one parent); the top level is a single node -/
def linked (below : List Nat) : List (List (Internal × Bool)) → Prop
  | [] => below.length = 1
  | lvl :: rest => childOffs lvl = below ∧ linked (lvl.map (·.1.off)) rest
def LinkOK (t : Levels) : Prop := linked (t.leaves.map (·.1.off)) t.inner

/-- `los` = the lowest key below each node of a level.  A node with `k` separators owns the next
`k+1` entries of the level below: its own lowest key is the first, its separators are the rest. -/
def sepsOK : List Nat → List (Internal × Bool) → Prop
  | los, [] => los = []
  | los, p :: rest =>
    p.1.cells.length + 1 ≤ los.length ∧
    (los.take (p.1.cells.length + 1)).tail = p.1.cells.map (·.key) ∧
    sepsOK (los.drop (p.1.cells.length + 1)) rest
def levelLos : List Nat → List (Internal × Bool) → List Nat
  | _, [] => []
  | los, p :: rest => los.headD 0 :: levelLos (los.drop (p.1.cells.length + 1)) rest
def sepsAll : List Nat → List (List (Internal × Bool)) → Prop
  | _, [] => True
  | los, lvl :: rest => sepsOK los lvl ∧ sepsAll (levelLos los lvl) rest
/-- every separator is the lowest key of the subtree to its right (so, with `KeysAsc`, every subtree's
keys lie inside the bounds given by its parent's separators) -/
def SepsOK (t : Levels) : Prop := sepsAll (t.leaves.map fun p => (p.1.cells.head?.map (·.key)).getD 0) t.inner

def offs (t : Levels) : List Nat := (flatten t).map (·.1)

/-- no page is reachable twice, and every page lies below the allocation frontier -/
def OffsOK (t : Levels) (nextFree : Nat) : Prop := (offs t).Nodup ∧ ∀ o ∈ offs t, o < nextFree

structure Inv (t : Levels) (nextFree : Nat) : Prop where
  cap   : CapOK t
  asc   : KeysAsc t
  ne    : LeavesNonempty t
  chain : ChainOK t
  link  : LinkOK t
  seps  : SepsOK t
  offs  : OffsOK t nextFree

/-- the tree `CreateTable` / `CreateDB` start from: one empty leaf -/
def emptyTree (off : Nat) : Levels := { leaves := [(⟨off, 0, false, false, 0, 0, []⟩, true)], inner := [] }

end Mkdb.Tree
