// Candidate 1 (C14, schedule; residue of repair 62bfa73 "Close waits for a
// running statement before it closes the log").
//
// The console's signal handler (cmd/console/main.go shutdownHandler: SIGHUP,
// SIGINT, SIGTERM, SIGQUIT) calls Session.Close() from its own goroutine while
// the main goroutine may be in the middle of a statement. Since 62bfa73 Close
// takes the exclusive lock first, so it waits for "the running statement".
// CREATE TABLE, however, is not one locked section: RelationService.CreateTable
// changes the catalog pages under the shared lock (createTable), RELEASES the
// lock, and only then calls fs.flushPages(), which takes the exclusive lock
// again. A Close that arrived while createTable was running is already queued
// on the lock and gets it in this gap: it flushes the new catalog rows and the
// new root page, closes the data file and returns. CREATE TABLE's own
// flushPages then runs against the closed file and the statement returns
//     write data/d/tbl: file already closed
// although the table it "failed" to create is durable: after the restart the
// table is there.
//
// Copy to <worktree>/engine/cand1_test.go and run
//   export GOFLAGS=-mod=mod GOPROXY=off GOSUMDB=off GOTOOLCHAIN=local
//   go test -vet=off -count=1 -run TestCand1 ./engine
package engine

import (
	"bufio"
	"fmt"
	"os"
	"strings"
	"testing"

	"github.com/mk6i/mkdb/sql"
	"github.com/mk6i/mkdb/storage"
)

func TestCand1ShutdownDuringCreateTable(t *testing.T) {
	dir := t.TempDir()
	old, _ := os.Getwd()
	if err := os.Chdir(dir); err != nil {
		t.Fatal(err)
	}
	defer os.Chdir(old)

	// createTable prints "inserted new page table record for <table>" right
	// after it has added the sys_pages row, while it holds the statement lock
	// and still has every sys_schema row to add. The test watches stdout for
	// that line to know that the statement is under way (like the console user
	// who presses Ctrl-C while a statement runs).
	stdout := os.Stdout
	pr, pw, err := os.Pipe()
	if err != nil {
		t.Fatal(err)
	}
	os.Stdout = pw
	defer func() { os.Stdout = stdout }()
	watch := make(chan string, 1)
	seen := make(chan struct{}, 1)
	go func() {
		needle := ""
		sc := bufio.NewScanner(pr)
		sc.Buffer(make([]byte, 1<<20), 1<<20)
		for sc.Scan() {
			select {
			case needle = <-watch:
			default:
			}
			if needle != "" && strings.Contains(sc.Text(), needle) {
				needle = ""
				seen <- struct{}{}
			}
		}
	}()

	if err := storage.InitStorage(); err != nil {
		t.Fatal(err)
	}
	s := &Session{}
	for _, q := range []string{"CREATE DATABASE d", "USE d", "CREATE TABLE t (x int)", "INSERT INTO t VALUES (1)"} {
		if err := s.ExecQuery(q); err != nil {
			t.Fatal(q, err)
		}
	}

	// a table with many columns: the statement spends some milliseconds
	// inside createTable after the watched line
	const ncols = 2000
	var cols []string
	for i := 0; i < ncols; i++ {
		cols = append(cols, fmt.Sprintf("c%d int", i))
	}
	create := "CREATE TABLE wide (" + strings.Join(cols, ", ") + ")"

	watch <- "inserted new page table record for wide"
	done := make(chan error, 1)
	go func() { done <- s.ExecQuery(create) }() // the console's main loop
	<-seen                                      // the statement is under way
	closeErr := s.Close()                       // the console's shutdownHandler
	createErr := <-done
	pw.Close()
	os.Stdout = stdout
	t.Logf("CREATE TABLE returned: %v; Close returned: %v", createErr, closeErr)

	// restart (the handler ends the process after Close)
	if err := storage.InitStorage(); err != nil {
		t.Fatal(err)
	}
	s = &Session{}
	defer s.Close()
	if err := s.ExecQuery("USE d"); err != nil {
		t.Fatal(err)
	}
	stmt, err := parseSQL("SELECT table_name FROM sys_pages WHERE table_name = 'wide'")
	if err != nil {
		t.Fatal(err)
	}
	rows, _, err := EvaluateSelect(stmt.(sql.Select), s.RelationService)
	if err != nil {
		t.Fatal(err)
	}
	stmt, err = parseSQL("SELECT count(*) FROM sys_schema WHERE table_name = 'wide'")
	if err != nil {
		t.Fatal(err)
	}
	crows, _, err := EvaluateSelect(stmt.(sql.Select), s.RelationService)
	if err != nil {
		t.Fatal(err)
	}
	exists := len(rows) == 1
	t.Logf("after the restart: table wide in sys_pages: %v, its rows in sys_schema: %v", exists, crows[0].Vals[0])

	if createErr != nil && exists {
		t.Errorf("CREATE TABLE returned the error %q, but after the restart the catalog contains the table (sys_schema rows: %v of %d): a statement that returns an error must change nothing",
			createErr, crows[0].Vals[0], ncols)
	}
	if createErr == nil && !exists {
		t.Errorf("CREATE TABLE was acknowledged but the table is gone after the restart")
	}
	if createErr == nil {
		t.Logf("inconclusive run: Close did not get in between createTable and its flush")
	}
}
