// Candidate 2 (C13; weak - it needs ONE failed open of the log file, i.e. an
// operating-system level error such as EMFILE / EACCES / EIO / EISDIR, which the
// program itself cannot provoke). Residue of repair 34a4346 "the page flusher
// starts only after the file header has been read".
//
// storage.OpenRelation does three things: newFileStore (opens the data file),
// fs.open() (reads the header and - since 34a4346 - starts the 100 ms page
// flusher) and newWal (opens the log). When newWal fails, OpenRelation returns
// the error and forgets the file store: its flusher goroutine and its file
// handle live on for the rest of the process. `USE d` reports the error and the
// session stays as it was - but from now on, every 100 ms, that orphaned store
// rewrites the header of data/d/tbl from the values it read at the failed USE
// (fileStore.flushPages -> save), under a lock nobody else shares. When the
// user selects d again later, the header is written beside and in the middle of
// that session's statements, and after d is closed (flushed, correct header)
// the orphan puts the stale header back: last row id, allocation frontier and
// LSN counter of the time of the failed USE.
//
// Seen below: 40 acknowledged INSERTs, `USE e` (closes d cleanly), `USE d`,
// INSERT -> "record already exists for key: 12"; the header on disk 250 ms
// after the clean close is not the header the close wrote. (The allocation
// frontier is stale as well: once the row ids have caught up, the next leaf
// split is written over an existing page.)
//
// Copy to <worktree>/engine/cand2_test.go and run
//   export GOFLAGS=-mod=mod GOPROXY=off GOSUMDB=off GOTOOLCHAIN=local
//   go test -vet=off -count=1 -run TestCand2 ./engine
package engine

import (
	"bytes"
	"fmt"
	"os"
	"testing"
	"time"

	"github.com/mk6i/mkdb/sql"
	"github.com/mk6i/mkdb/storage"
)

func TestCand2FailedUseLeavesAFlusherBehind(t *testing.T) {
	dir := t.TempDir()
	old, _ := os.Getwd()
	if err := os.Chdir(dir); err != nil {
		t.Fatal(err)
	}
	defer os.Chdir(old)
	stdout := os.Stdout
	devnull, _ := os.OpenFile(os.DevNull, os.O_WRONLY, 0)
	os.Stdout = devnull
	defer func() { os.Stdout = stdout }()

	if err := storage.InitStorage(); err != nil {
		t.Fatal(err)
	}
	s := &Session{}
	for _, q := range []string{"CREATE DATABASE d", "CREATE DATABASE e", "USE d",
		"CREATE TABLE t (x int)", "INSERT INTO t VALUES (1)", "USE e"} {
		if err := s.ExecQuery(q); err != nil {
			t.Fatal(q, err)
		}
	}

	// ONE failed open of d's log (stands for EMFILE, EACCES, EIO ...): the
	// data file opens, the header is read, the flusher starts, the log does not
	// open
	if err := os.Rename("data/d/wal", "data/d/wal.aside"); err != nil {
		t.Fatal(err)
	}
	if err := os.Mkdir("data/d/wal", 0755); err != nil {
		t.Fatal(err)
	}
	err := s.ExecQuery("USE d")
	if err == nil {
		t.Fatal("USE d was expected to fail")
	}
	if s.CurDB != "e" {
		t.Fatalf("the failed USE changed the session: %q", s.CurDB)
	}
	// the fault is gone
	if err := os.Remove("data/d/wal"); err != nil {
		t.Fatal(err)
	}
	if err := os.Rename("data/d/wal.aside", "data/d/wal"); err != nil {
		t.Fatal(err)
	}

	// ordinary work on d
	if err := s.ExecQuery("USE d"); err != nil {
		t.Fatal(err)
	}
	for i := 2; i <= 41; i++ {
		if err := s.ExecQuery(fmt.Sprintf("INSERT INTO t VALUES (%d)", i)); err != nil {
			t.Fatal(err)
		}
	}
	// USE e closes d: final flush of pages and header, timer stopped, files closed
	if err := s.ExecQuery("USE e"); err != nil {
		t.Fatal(err)
	}
	readHeader := func() []byte {
		f, err := os.Open("data/d/tbl")
		if err != nil {
			t.Fatal(err)
		}
		defer f.Close()
		h := make([]byte, 28)
		if _, err := f.ReadAt(h, 0); err != nil {
			t.Fatal(err)
		}
		return h
	}
	closed := readHeader()
	changed := false
	for i := 0; i < 50 && !changed; i++ { // nobody has d open now
		time.Sleep(10 * time.Millisecond)
		changed = !bytes.Equal(closed, readHeader())
	}
	later := readHeader()

	// back to d, in the same console session
	if err := s.ExecQuery("USE d"); err != nil {
		t.Fatal(err)
	}
	insErr := s.ExecQuery("INSERT INTO t VALUES (42)")
	stmt, err := parseSQL("SELECT count(*) FROM t")
	if err != nil {
		t.Fatal(err)
	}
	rows, _, err := EvaluateSelect(stmt.(sql.Select), s.RelationService)
	if err != nil {
		t.Fatal(err)
	}
	os.Stdout = stdout

	if changed {
		t.Errorf("the header of data/d/tbl was rewritten while no session had d open:\n  written by the close: %x\n  a little later:       %x\n  (lastKey|pageTableRoot|nextFreeOffset|nextLSN, little endian)", closed, later)
	}
	if insErr != nil {
		t.Errorf("INSERT after re-selecting d: %v", insErr)
	}
	if c := rows[0].Vals[0].(int64); c != 42 {
		t.Errorf("t has %d rows, want 42", c)
	}
}
