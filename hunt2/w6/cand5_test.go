package main

// Candidate 5 (property C19) - copy into cmd/csvimport/ and run
//
//	go test -vet=off -count=1 -run TestCand5 ./cmd/csvimport/
//
// A quoted CSV field that contains a line break written as CR LF (what
// spreadsheet and Windows exports produce for a multi-line cell) is stored
// with the CR removed: the record `1,"line one\r\nline two"` is accepted and
// stored as "line one\nline two". encoding/csv normalises \r\n to \n also
// inside quoted fields, and doBatchInsert (main.go:210-215) takes the fields
// as the reader delivers them. The stored value is one byte shorter than the
// field value of the record, nothing is reported.

import (
	"os"
	"strings"
	"testing"

	"github.com/mk6i/mkdb/engine"
	"github.com/mk6i/mkdb/storage"
)

func TestCand5CRLFInsideQuotedFieldIsAltered(t *testing.T) {
	if err := os.Chdir(t.TempDir()); err != nil {
		t.Fatal(err)
	}
	if err := storage.InitStorage(); err != nil {
		t.Fatal(err)
	}
	sess := &engine.Session{}
	for _, q := range []string{"CREATE DATABASE d;", "USE d;", "CREATE TABLE t (a INT, b VARCHAR(255));"} {
		if err := sess.ExecQuery(q); err != nil {
			t.Fatal(err)
		}
	}
	if err := sess.Close(); err != nil {
		t.Fatal(err)
	}

	// what main() does
	if err := storage.InitStorage(); err != nil {
		t.Fatal(err)
	}
	rm, err := storage.OpenRelation("d", true)
	if err != nil {
		t.Fatal(err)
	}
	defer rm.Close()
	dst := []string{"a", "b"}
	types, err := colDataTypes(rm, "t", dst)
	if err != nil {
		t.Fatal(err)
	}
	cfg := importCfg{colTypes: types, db: "d", dstCols: dst, separator: ',', srcCols: []int{0, 1}, table: "t"}

	field := "line one\r\nline two"
	input := "1,\"" + field + "\"\r\n2,plain\r\n"
	chOk, chErr := doBatchInsert(rm, cfg, strings.NewReader(input))
	oks := 0
	for chOk != nil || chErr != nil {
		select {
		case _, ok := <-chOk:
			if ok {
				oks++
			} else {
				chOk = nil
			}
		case e, ok := <-chErr:
			if ok {
				t.Logf("reported: %v", e)
			} else {
				chErr = nil
			}
		}
	}
	rm.StartTxn()
	rows, _, err := rm.Fetch("t")
	rm.EndTxn()
	if err != nil {
		t.Fatal(err)
	}
	if oks != 2 || len(rows) != 2 {
		t.Fatalf("accepted %d stored %d", oks, len(rows))
	}
	if got := rows[0].Vals[1]; got != field {
		t.Fatalf("record 1 was accepted; field value %q, stored value %q", field, got)
	}
}
