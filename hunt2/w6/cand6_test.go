package main

// Candidate 6 (property C19, low severity) - copy into cmd/csvimport/ and run
//
//	go test -vet=off -count=1 -run TestCand6 ./cmd/csvimport/
//
// The real program, main(), with a column mapping that names more source
// columns than destination columns (-src-cols 0,1 -dest-cols a): the first
// record whose second mapped field is not \N ends the program with a Go panic
// (index out of range in csvToSql, main.go:293: cfg.colTypes has one entry per
// DESTINATION column, the loop runs over the SOURCE columns). That record and
// all records behind it are neither reported as an error nor stored. With the
// opposite mismatch (-src-cols 0 -dest-cols a,b) every record is reported
// ("value list count does not match column list count"), which is what the
// property asks for.

import (
	"os"
	"os/exec"
	"strings"
	"testing"

	"github.com/mk6i/mkdb/engine"
	"github.com/mk6i/mkdb/storage"
)

// TestCand6Child is the program run: main() with the arguments of CAND6_ARGS.
func TestCand6Child(t *testing.T) {
	args := os.Getenv("CAND6_ARGS")
	if args == "" {
		t.Skip("not the program run")
	}
	os.Args = append([]string{"csvimport"}, strings.Split(args, "\x1f")...)
	main()
	os.Exit(0)
}

func TestCand6MoreSourceThanDestinationColumns(t *testing.T) {
	if os.Getenv("CAND6_ARGS") != "" {
		t.Skip("program run")
	}
	if err := os.Chdir(t.TempDir()); err != nil {
		t.Fatal(err)
	}
	if err := storage.InitStorage(); err != nil {
		t.Fatal(err)
	}
	sess := &engine.Session{}
	for _, q := range []string{"CREATE DATABASE d;", "USE d;", "CREATE TABLE t (a INT, b VARCHAR(255));"} {
		if err := sess.ExecQuery(q); err != nil {
			t.Fatal(err)
		}
	}
	if err := sess.Close(); err != nil {
		t.Fatal(err)
	}

	args := []string{"-db", "d", "-table", "t", "-dest-cols", "a", "-src-cols", "0,1"}
	cmd := exec.Command(os.Args[0], "-test.run=^TestCand6Child$")
	cmd.Env = append(os.Environ(), "CAND6_ARGS="+strings.Join(args, "\x1f"))
	cmd.Stdin = strings.NewReader("1,x\n2,y\n3,z\n")
	out, err := cmd.CombinedOutput()

	reported := strings.Count(string(out), "value list count does not match") + strings.Count(string(out), "error parsing row")
	if err := storage.InitStorage(); err != nil {
		t.Fatal(err)
	}
	rm, err2 := storage.OpenRelation("d", true)
	if err2 != nil {
		t.Fatal(err2)
	}
	defer rm.Close()
	rm.StartTxn()
	rows, _, err3 := rm.Fetch("t")
	rm.EndTxn()
	if err3 != nil {
		t.Fatal(err3)
	}
	if err != nil || reported+len(rows) != 3 {
		i := strings.Index(string(out), "panic:")
		msg := ""
		if i >= 0 {
			msg = strings.SplitN(string(out)[i:], "\n", 2)[0]
		}
		t.Fatalf("3 records: %d reported as errors, %d stored; the program ended with %v (%s)", reported, len(rows), err, msg)
	}
}
