package main

// Candidate 4 (property C20) - copy into cmd/console/ and run
//
//	go test -vet=off -count=1 -run TestCand4 ./cmd/console/
//
// A statement entered across two lines with the line break inside a quoted
// literal: INSERT INTO t VALUES ('first line<Enter>second line');<Enter>
// The Enter branch of handleKey (go_terminal.go:585-590) replaces every line
// break by a space, also inside an open literal, so the statement is handed
// over - and executed - with the literal 'first line second line': the text of
// the literal is not what was typed and nothing tells the user. (The SQL
// scanner refuses a line break in a '...' literal with "literal not
// terminated"; had the console kept the line break, the statement would have
// been refused instead of being stored with altered text. A `...` literal may
// contain line breaks for the scanner.)

import (
	"io"
	"strings"
	"testing"
)

type cand4RW struct {
	io.Reader
	io.Writer
}

func TestCand4LineBreakInsideLiteralBecomesSpace(t *testing.T) {
	typed := "INSERT INTO t VALUES ('first line\rsecond line');\r"
	term := NewTerminal(cand4RW{strings.NewReader(typed), io.Discard}, "")
	var submitted []string
	for {
		lines, err := term.ReadLine()
		if err != nil {
			break
		}
		submitted = append(submitted, lines...)
	}
	if len(submitted) != 1 {
		t.Fatalf("handed over %q", submitted)
	}
	if strings.Contains(submitted[0], "'first line second line'") {
		t.Fatalf("typed a literal with a line break between \"first line\" and \"second line\"; handed over %q", submitted[0])
	}
}
