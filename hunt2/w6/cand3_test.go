package main

// Candidate 3 (property C20) - copy into cmd/console/ and run
//
//	go test -vet=off -count=1 -run TestCand3 ./cmd/console/
//
// The character U+FFFD (the replacement character, which text copied from a
// badly converted source is full of: 'caf�') inside a quoted literal is
// dropped in silence, and the keys behind it in the same read are not looked
// at until the next key arrives: bytesToKey (go_terminal.go:181-186) returns
// the decoded rune, and readLine (go_terminal.go:778) takes the value
// utf8.RuneError == U+FFFD for "incomplete key sequence, read more input".
// The same happens for every byte that is not valid UTF-8 (a Latin-1 'é').
// The engine itself stores and returns U+FFFD in a literal without trouble.

import (
	"io"
	"testing"
)

// cand3Reader hands out one chunk per Read call, as a terminal does for one
// paste or one key press.
type cand3Reader struct{ chunks []string }

func (c *cand3Reader) Read(p []byte) (int, error) {
	if len(c.chunks) == 0 {
		return 0, io.EOF
	}
	n := copy(p, c.chunks[0])
	if n < len(c.chunks[0]) {
		c.chunks[0] = c.chunks[0][n:]
	} else {
		c.chunks = c.chunks[1:]
	}
	return n, nil
}

type cand3RW struct {
	io.Reader
	io.Writer
}

func cand3Run(chunks ...string) (submitted []string) {
	term := NewTerminal(cand3RW{&cand3Reader{chunks}, io.Discard}, "")
	for {
		lines, err := term.ReadLine()
		if err != nil {
			return submitted
		}
		submitted = append(submitted, lines...)
	}
}

// the statement is typed (or pasted) and Enter is pressed; later a second
// statement is typed
func TestCand3ReplacementCharacterDropped(t *testing.T) {
	stmt := "INSERT INTO t VALUES ('caf� au lait');"
	got := cand3Run(stmt+"\r", "SELECT 1;\r")
	if len(got) != 2 || got[0] != stmt {
		t.Fatalf("typed      %q\nhanded over %q", []string{stmt, "SELECT 1;"}, got)
	}
}

// the statement and its Enter arrive in one read; nothing else is typed
func TestCand3StatementStuckBehindReplacementCharacter(t *testing.T) {
	stmt := "INSERT INTO t VALUES ('caf� au lait');"
	got := cand3Run(stmt + "\r")
	if len(got) != 1 {
		t.Fatalf("typed %q and Enter; handed over %q (the console waits for another key before it looks at the rest of the input)", stmt, got)
	}
}
